(* Recorder_proofs.v — lemmas about model/Recorder.v (C30). *)
From Coq Require Import ZArith List Bool Lia QArith Qcanon.
From FV Require Import base.Scalar base.PyNum base.RecorderBase model.Recorder.
Import ListNotations.
Open Scope Z_scope.

(* ------------------------------------------------------------------ list access / update *)
Lemma set_at_length {A} (l : list A) i v : length (set_at l i v) = length l.
Proof. revert i; induction l as [|h t IH]; intros [|i]; cbn; auto. Qed.
Lemma nth_set_at_same {A} (l : list A) i v d : (i < length l)%nat -> nth i (set_at l i v) d = v.
Proof. revert i; induction l as [|h t IH]; intros [|i] H; cbn in *; try lia; auto. apply IH; lia. Qed.
Lemma nth_set_at_other {A} (l : list A) i j v d : i <> j -> nth j (set_at l i v) d = nth j l d.
Proof. revert i j; induction l as [|h t IH]; intros [|i] [|j] H; cbn; auto; try lia. Qed.

Lemma zset_length {A} (l : list A) i v : length (zset l i v) = length l.
Proof. unfold zset. destruct (i <? 0); [reflexivity | apply set_at_length]. Qed.
Lemma znth_zset_same {A} (l : list A) i v d : 0 <= i < Z.of_nat (length l) -> znth (zset l i v) i d = v.
Proof.
  intros H. unfold znth, zset. destruct (Z.ltb_spec i 0); [lia|]. apply nth_set_at_same. lia.
Qed.
Lemma znth_zset_other {A} (l : list A) i j v d : i <> j -> znth (zset l i v) j d = znth l j d.
Proof.
  intros H. unfold znth, zset. destruct (Z.ltb_spec j 0); [reflexivity|].
  destruct (Z.ltb_spec i 0); [reflexivity|]. apply nth_set_at_other. lia.
Qed.
Lemma znth_of_nat {A} (l : list A) t d : znth l (Z.of_nat t) d = nth t l d.
Proof. unfold znth. destruct (Z.ltb_spec (Z.of_nat t) 0); [lia|]. rewrite Nat2Z.id. reflexivity. Qed.
Lemma znth_nonneg {A} (l : list A) t d : 0 <= t -> znth l t d = nth (Z.to_nat t) l d.
Proof. intros H. unfold znth. destruct (Z.ltb_spec t 0); [lia | reflexivity]. Qed.
Lemma zmem_In x l : zmem x l = true <-> In x l.
Proof.
  unfold zmem. rewrite existsb_exists. split.
  - intros (y & Hy & E). apply Z.eqb_eq in E. subst. exact Hy.
  - intros H. exists x. split; [exact H | apply Z.eqb_refl].
Qed.
Lemma nth_repeat_same {A} (x : A) n i : nth i (repeat x n) x = x.
Proof. revert i; induction n as [|n IH]; intros [|i]; cbn; auto. Qed.
Lemma nth_repeat0 n i : nth i (repeat 0 n) 0 = 0.
Proof. revert i; induction n as [|n IH]; intros [|i]; cbn; auto. Qed.

(* ------------------------------------------------------------------ the saved steps *)
Lemma last_map_seq0 {A} (f : nat -> A) n d : last (map f (seq 0 (S n))) d = f n.
Proof. rewrite seq_S, map_app. cbn [map]. rewrite last_last. reflexivity. Qed.

(* the list of saved steps described by its entries: s, s+k, ..., then T-1 *)
Definition sv_ok (T k s : Z) (sv : list Z) : Prop :=
  let n := length sv in
  (0 < n)%nat /\ nth 0 sv 0 = s /\ nth (n - 1) sv 0 = T - 1 /\
  (forall i, (S i < n)%nat -> nth i sv 0 < nth (S i) sv 0 <= nth i sv 0 + k) /\
  (forall x, In x sv <-> s <= x < T /\ ((x - s) mod k = 0 \/ x = T - 1)).

Lemma nth_map_seq {A} (f : nat -> A) a n i d : (i < n)%nat -> nth i (map f (seq a n)) d = f (a + i)%nat.
Proof.
  revert a i; induction n as [|n IH]; intros a i H; [lia|]. cbn. destruct i as [|i].
  - rewrite Nat.add_0_r. reflexivity.
  - rewrite IH by lia. f_equal. lia.
Qed.
Lemma zarange_nth a b st i : (i < length (zarange a b st))%nat -> nth i (zarange a b st) 0 = a + Z.of_nat i * st.
Proof.
  unfold zarange. rewrite map_length, seq_length. intros H. rewrite nth_map_seq by exact H. reflexivity.
Qed.

Lemma save_steps_ok T k s : 0 < k -> 0 <= s < T -> exists sv, save_steps T k s = Some sv /\ sv_ok T k s sv.
Proof.
  intros Hk Hs. unfold save_steps.
  set (n0 := (T - s + k - 1) / k).
  assert (Hn0 : k * n0 <= T - s + k - 1 < k * n0 + k) by (unfold n0; lia).
  assert (Hn0p : 1 <= n0) by nia.
  set (l := zarange s T k).
  assert (Hlen : length l = Z.to_nat n0) by (unfold l, zarange; rewrite map_length, seq_length; reflexivity).
  assert (Hnth : forall i, (i < Z.to_nat n0)%nat -> nth i l 0 = s + Z.of_nat i * k).
  { intros i Hi. apply zarange_nth. fold l. lia. }
  assert (Hlast : last l (-1) = s + (n0 - 1) * k).
  { unfold l, zarange. fold n0. replace (Z.to_nat n0) with (S (Z.to_nat (n0 - 1))) by lia.
    rewrite last_map_seq0. rewrite Z2Nat.id by lia. reflexivity. }
  clearbody l n0.
  assert (EN : n0 = Z.of_nat (S (Z.to_nat (n0 - 1)))) by lia.
  set (N := Z.to_nat (n0 - 1)) in *. clearbody N. subst n0. rewrite Nat2Z.id in *.
  replace (Z.of_nat (S N) - 1) with (Z.of_nat N) in * by lia.
  assert (Hb : s + Z.of_nat N * k <= T - 1 < s + Z.of_nat N * k + k) by nia.
  destruct l as [|x0 l'] eqn:El; [cbn in Hlen; lia|]. rewrite <- El in *. clear El x0 l'.
  eexists. split; [reflexivity|]. rewrite Hlast.
  assert (Hmod : forall i : nat, (s + Z.of_nat i * k - s) mod k = 0).
  { intros i. replace (s + Z.of_nat i * k - s) with (Z.of_nat i * k) by ring. apply Z.mod_mul. lia. }
  assert (Hfind : forall x, s <= x <= s + Z.of_nat N * k -> (x - s) mod k = 0 -> In x l).
  { intros x Hx Hm. set (i := (x - s) / k).
    assert (Hxi : x = s + i * k) by (unfold i; lia).
    assert (0 <= i < Z.of_nat (S N)) by nia.
    rewrite Hxi. rewrite <- (Z2Nat.id i) by lia. rewrite <- Hnth by lia. apply nth_In. lia. }
  assert (Hin : forall x, In x l -> s <= x <= s + Z.of_nat N * k /\ (x - s) mod k = 0).
  { intros x H. apply (In_nth _ _ 0) in H. destruct H as (i & Hi & <-). rewrite Hlen in Hi.
    rewrite Hnth by lia. split; [nia | apply Hmod]. }
  destruct (Z.eqb_spec (s + Z.of_nat N * k) (T - 1)) as [E|E].
  - (* T-1 is already the last arange entry *)
    unfold sv_ok. rewrite Hlen. replace (S N - 1)%nat with N by lia.
    split; [lia|]. split; [rewrite Hnth by lia; cbn; lia|]. split; [rewrite Hnth by lia; lia|].
    split.
    + intros i Hi. rewrite !Hnth by lia. lia.
    + intros x. split.
      * intros H. apply Hin in H. split; [lia|]. left. apply H.
      * intros (Hx & Hm). apply Hfind; [lia|]. destruct Hm as [Hm| ->]; [exact Hm|]. rewrite <- E. apply Hmod.
  - (* T-1 appended *)
    assert (Hnth1 : forall i, (i < S N)%nat -> nth i (l ++ [T - 1]) 0 = s + Z.of_nat i * k).
    { intros i Hi. rewrite app_nth1 by lia. apply Hnth. exact Hi. }
    assert (Hnth2 : nth (S N) (l ++ [T - 1]) 0 = T - 1).
    { rewrite app_nth2 by lia. rewrite Hlen, Nat.sub_diag. reflexivity. }
    unfold sv_ok. rewrite app_length, Hlen. cbn [length]. replace (S N + 1 - 1)%nat with (S N) by lia.
    split; [lia|]. split; [rewrite Hnth1 by lia; cbn; lia|]. split; [exact Hnth2|].
    split.
    + intros i Hi. destruct (Nat.eq_dec i N) as [->|Ei].
      * rewrite Hnth2, Hnth1 by lia. lia.
      * rewrite !Hnth1 by lia. lia.
    + intros x. split.
      * intros H. apply in_app_or in H. destruct H as [H|[<-|[]]].
        -- apply Hin in H. split; [lia|]. left. apply H.
        -- split; [lia|]. right. reflexivity.
      * intros (Hx & Hm). apply in_or_app. destruct Hm as [Hm| ->]; [|right; left; reflexivity].
        destruct (Z_le_gt_dec x (s + Z.of_nat N * k)) as [Hle|Hgt].
        -- left. apply Hfind; [lia | exact Hm].
        -- right. left.
           (* a multiple strictly between the last arange entry and T-1 would itself be an arange entry *)
           set (i := (x - s) / k). assert (Hxi : x = s + i * k) by (unfold i; lia). clearbody i.
           assert (Z.of_nat N < i) by nia. assert ((Z.of_nat N + 1) * k <= i * k) by (apply Z.mul_le_mono_nonneg_r; lia). lia.
Qed.

(* ------------------------------------------------------------------ scatter *)
Lemma scatter_from_length acc idx sv : length (scatter_from acc idx sv) = length acc.
Proof. revert acc idx; induction sv as [|x r IH]; intros; cbn; [reflexivity|]. rewrite IH. apply zset_length. Qed.
Lemma scatter_from_notin acc idx sv t : ~ In t sv -> znth (scatter_from acc idx sv) t 0 = znth acc t 0.
Proof.
  revert acc idx; induction sv as [|x r IH]; intros acc idx H; cbn; [reflexivity|].
  rewrite IH by (intros C; apply H; right; exact C). apply znth_zset_other. intros ->. apply H. left. reflexivity.
Qed.
Lemma scatter_from_nth acc idx sv i :
  NoDup sv -> (forall x, In x sv -> 0 <= x < Z.of_nat (length acc)) -> (i < length sv)%nat ->
  znth (scatter_from acc idx sv) (nth i sv 0) 0 = idx + Z.of_nat i.
Proof.
  revert acc idx i; induction sv as [|x r IH]; intros acc idx i Hnd Hr Hi; cbn in Hi; [lia|].
  inversion Hnd as [|? ? Hx Hnd']; subst. cbn [scatter_from].
  destruct i as [|i].
  - cbn [nth]. rewrite scatter_from_notin by exact Hx. rewrite znth_zset_same; [lia|]. apply Hr. left. reflexivity.
  - cbn [nth]. rewrite IH; [lia | exact Hnd' | | lia].
    intros y Hy. rewrite zset_length. apply Hr. right. exact Hy.
Qed.

(* ------------------------------------------------------------------ one fill-forward pass *)
Lemma shift_length p l : length (shift p l) = length l.
Proof. revert p; induction l as [|x r IH]; intros; cbn; [reflexivity|]. rewrite IH. reflexivity. Qed.
Lemma nth_shift_S p l i d : (S i < length l)%nat -> nth (S i) (shift p l) d = nth i l d.
Proof.
  revert p i; induction l as [|x r IH]; intros p i H; cbn in *; [lia|].
  destruct r as [|y r']; [cbn in H; lia|]. destruct i as [|i]; [reflexivity|]. apply (IH x i). cbn in *. lia.
Qed.
Lemma fill_where_length l r : length l = length r -> length (fill_where l r) = length l.
Proof. revert r; induction l as [|c l IH]; intros [|x r] H; cbn in *; try lia. rewrite IH by lia. reflexivity. Qed.
Lemma fill_where_nth l r i : length l = length r -> (i < length l)%nat ->
  nth i (fill_where l r) 0 = if nth i l 0 =? 0 then nth i r 0 else nth i l 0.
Proof.
  revert r i; induction l as [|c l IH]; intros [|x r] i H Hi; cbn in *; try lia.
  destruct i as [|i]; [reflexivity|]. apply IH; lia.
Qed.
Lemma zero_prefix_length z i l : length (zero_prefix z i l) = length l.
Proof. revert i; induction l as [|x r IH]; intros; cbn; [reflexivity|]. rewrite IH. reflexivity. Qed.
Lemma zero_prefix_nth z i l n : nth n (zero_prefix z i l) 0 = if i + Z.of_nat n <? z then 0 else nth n l 0.
Proof.
  revert i n; induction l as [|x r IH]; intros i n; cbn.
  - destruct n; destruct (_ <? _); reflexivity.
  - destruct n as [|n].
    + rewrite Z.add_0_r. reflexivity.
    + rewrite IH. replace (i + 1 + Z.of_nat n) with (i + Z.of_nat (S n)) by lia. reflexivity.
Qed.
Lemma fill_once_length z l : length (fill_once z l) = length l.
Proof. unfold fill_once, roll1. rewrite zero_prefix_length, fill_where_length; rewrite ?shift_length; reflexivity. Qed.
Lemma fill_once_1_nth l t : (t < length l)%nat ->
  nth t (fill_once 1 l) 0 =
    match t with O => 0 | S t' => if nth t l 0 =? 0 then nth t' l 0 else nth t l 0 end.
Proof.
  intros Ht. unfold fill_once. rewrite zero_prefix_nth.
  destruct t as [|t']; [reflexivity|].
  destruct (Z.ltb_spec (0 + Z.of_nat (S t')) 1); [lia|].
  rewrite fill_where_nth by (unfold roll1; rewrite ?shift_length; auto).
  unfold roll1. rewrite nth_shift_S by exact Ht. reflexivity.
Qed.

(* ------------------------------------------------------------------ the index map of the repaired code *)
Section IndexMap.
  Variables T k s : Z.
  Variable sv : list Z.
  Hypothesis Hk : 0 < k.
  Hypothesis Hs : 0 <= s < T.
  Hypothesis Hsv : sv_ok T k s sv.
  Let n := length sv.
  Definition up (i : nat) : Z := if (S i <? length sv)%nat then nth (S i) sv 0 else T.

  Lemma sv_n_pos : (0 < n)%nat. Proof. apply Hsv. Qed.
  Lemma sv_first : nth 0 sv 0 = s. Proof. apply Hsv. Qed.
  Lemma sv_last : nth (n - 1) sv 0 = T - 1. Proof. apply Hsv. Qed.
  Lemma sv_cons i : (S i < n)%nat -> nth i sv 0 < nth (S i) sv 0 <= nth i sv 0 + k. Proof. apply Hsv. Qed.
  Lemma sv_mem x : In x sv <-> s <= x < T /\ ((x - s) mod k = 0 \/ x = T - 1). Proof. apply Hsv. Qed.

  Lemma sv_mono_le i j : (i <= j)%nat -> (j < n)%nat -> nth i sv 0 <= nth j sv 0.
  Proof.
    intros Hij Hj. induction j as [|j IH]; [replace i with O by lia; lia|].
    destruct (Nat.eq_dec i (S j)) as [->|Hne]; [lia|].
    pose proof (sv_cons j Hj). specialize (IH ltac:(lia) ltac:(lia)). lia.
  Qed.
  Lemma sv_mono_lt i j : (i < j)%nat -> (j < n)%nat -> nth i sv 0 < nth j sv 0.
  Proof.
    intros Hij Hj. destruct j as [|j]; [lia|].
    pose proof (sv_cons j Hj). pose proof (sv_mono_le i j ltac:(lia) ltac:(lia)). lia.
  Qed.
  Lemma sv_range i : (i < n)%nat -> s <= nth i sv 0 <= T - 1.
  Proof.
    intros Hi. pose proof (sv_mono_le 0 i ltac:(lia) Hi). pose proof (sv_mono_le i (n - 1) ltac:(lia) ltac:(lia)).
    rewrite sv_first in *. rewrite sv_last in *. lia.
  Qed.
  Lemma sv_nodup : NoDup sv.
  Proof.
    apply (NoDup_nth sv 0). intros i j Hi Hj E. fold n in Hi, Hj.
    destruct (Nat.lt_trichotomy i j) as [H|[H|H]]; [|exact H|].
    - pose proof (sv_mono_lt i j H Hj). lia.
    - pose proof (sv_mono_lt j i H Hi). lia.
  Qed.
  Lemma up_gap i : (i < n)%nat -> nth i sv 0 < up i <= nth i sv 0 + k.
  Proof.
    intros Hi. unfold up. fold n. destruct (Nat.ltb_spec (S i) n) as [H|H].
    - apply sv_cons. exact H.
    - replace i with (n - 1)%nat by lia. rewrite sv_last. lia.
  Qed.

  (* every step from the start on lies in exactly one interval [sv_i, sv_{i+1}) (the last one ends at T) *)
  Lemma locate t : s <= t < T -> exists i, (i < n)%nat /\ nth i sv 0 <= t < up i.
  Proof.
    intros Ht.
    assert (G : forall m, (m < n)%nat -> t < up m -> exists i, (i <= m)%nat /\ nth i sv 0 <= t < up i).
    { induction m as [|m IH]; intros Hm Hu.
      - exists O. rewrite sv_first. split; [lia|]. split; [lia | exact Hu].
      - destruct (Z_le_gt_dec (nth (S m) sv 0) t) as [Hle|Hgt].
        + exists (S m). split; [lia|]. split; [exact Hle | exact Hu].
        + destruct (IH ltac:(lia)) as (i & Hi & Hb).
          { unfold up. fold n. destruct (Nat.ltb_spec (S m) n); [lia|lia]. }
          exists i. split; [lia | exact Hb]. }
    pose proof sv_n_pos.
    destruct (G (n - 1)%nat ltac:(lia)) as (i & Hi & Hb).
    { unfold up. fold n. destruct (Nat.ltb_spec (S (n - 1)) n); lia. }
    exists i. split; [lia | exact Hb].
  Qed.
  Lemma interval_unique t i j : (i < n)%nat -> (j < n)%nat -> nth i sv 0 <= t < up i -> nth j sv 0 = t -> j = i.
  Proof.
    intros Hi Hj Hb E.
    destruct (Nat.lt_trichotomy j i) as [H|[H|H]]; [|exact H|].
    - pose proof (sv_mono_lt j i H Hi). lia.
    - exfalso. unfold up in Hb. fold n in Hb. destruct (Nat.ltb_spec (S i) n) as [H1|H1]; [|lia].
      pose proof (sv_mono_le (S i) j ltac:(lia) Hj). lia.
  Qed.

  Let it (j : nat) : list Z := Nat.iter j (fill_once 1) (scatter T sv).
  Lemma it_length j : length (it j) = Z.to_nat T.
  Proof.
    induction j as [|j IH]; cbn.
    - unfold scatter. rewrite scatter_from_length, repeat_length. reflexivity.
    - unfold it in *. rewrite fill_once_length. exact IH.
  Qed.

  Lemma scatter_at i : (i < n)%nat -> znth (scatter T sv) (nth i sv 0) 0 = Z.of_nat i.
  Proof.
    intros Hi. unfold scatter. rewrite scatter_from_nth; [lia | apply sv_nodup | | exact Hi].
    intros x Hx. rewrite repeat_length. apply sv_mem in Hx. lia.
  Qed.
  Lemma scatter_off t : ~ In t sv -> znth (scatter T sv) t 0 = 0.
  Proof.
    intros H. unfold scatter. rewrite scatter_from_notin by exact H.
    unfold znth. destruct (t <? 0); [reflexivity | apply nth_repeat0].
  Qed.

  (* after j passes, a step at distance <= j behind its save point carries the index of that save point *)
  Lemma it_spec j : forall t : nat, Z.of_nat t < T ->
    (Z.of_nat t < s -> nth t (it j) 0 = 0) /\
    (forall i, (i < n)%nat -> nth i sv 0 <= Z.of_nat t < up i ->
       nth t (it j) 0 = if Z.of_nat t - nth i sv 0 <=? Z.of_nat j then Z.of_nat i else 0).
  Proof.
    induction j as [|j IH]; intros t Ht.
    - change (it 0) with (scatter T sv). rewrite <- znth_of_nat.
      destruct (in_dec Z.eq_dec (Z.of_nat t) sv) as [Hin|Hout].
      + destruct (In_nth _ _ 0 Hin) as (i' & Hi' & E). fold n in Hi'.
        split.
        * intros Hlt. pose proof (sv_range i' Hi'). lia.
        * intros i Hi Hb. pose proof (interval_unique _ i i' Hi Hi' Hb E) as ->.
          rewrite <- E at 1. rewrite scatter_at by exact Hi.
          destruct (Z.leb_spec (Z.of_nat t - nth i sv 0) (Z.of_nat 0)); [reflexivity | lia].
      + rewrite scatter_off by exact Hout. split; [reflexivity|].
        intros i Hi Hb.
        destruct (Z.leb_spec (Z.of_nat t - nth i sv 0) (Z.of_nat 0)) as [H|H]; [|reflexivity].
        exfalso. apply Hout. replace (Z.of_nat t) with (nth i sv 0) by lia. apply nth_In. exact Hi.
    - change (it (S j)) with (fill_once 1 (it j)).
      rewrite fill_once_1_nth by (rewrite it_length; lia).
      destruct t as [|t'].
      + split; [reflexivity|]. intros i Hi Hb.
        assert (i = O).
        { destruct i as [|i]; [reflexivity|]. pose proof (sv_mono_lt 0 (S i) ltac:(lia) Hi). rewrite sv_first in *. lia. }
        subst i. destruct (_ <=? _); reflexivity.
      + assert (Ht' : Z.of_nat t' < T) by lia.
        destruct (IH (S t') Ht) as [A1 A2]. destruct (IH t' Ht') as [B1 B2].
        split.
        * intros Hlt. rewrite A1 by exact Hlt. cbn [Z.eqb]. apply B1. lia.
        * intros i Hi Hb. rewrite (A2 i Hi Hb).
          destruct (Z.leb_spec (Z.of_nat (S t') - nth i sv 0) (Z.of_nat j)) as [C|C].
          -- (* already filled *)
             destruct (Z.leb_spec (Z.of_nat (S t') - nth i sv 0) (Z.of_nat (S j))) as [C'|C']; [|lia].
             destruct (Z.eqb_spec (Z.of_nat i) 0) as [E0|E0]; [|reflexivity].
             assert (i = O) by lia. subst i. rewrite sv_first in *.
             destruct (Z_lt_ge_dec (Z.of_nat t') s) as [L|L].
             ++ apply B1. exact L.
             ++ rewrite (B2 O Hi) by (rewrite sv_first; lia). destruct (_ <=? _); reflexivity.
          -- (* filled from the left neighbour, which lies in the same interval *)
             cbn [Z.eqb].
             assert (Hin : nth i sv 0 <= Z.of_nat t' < up i) by lia.
             rewrite (B2 i Hi Hin).
             destruct (Z.leb_spec (Z.of_nat t' - nth i sv 0) (Z.of_nat j));
               destruct (Z.leb_spec (Z.of_nat (S t') - nth i sv 0) (Z.of_nat (S j))); try reflexivity; lia.
  Qed.

  (* the finished map: index of the enclosing interval; 0 before the start step *)
  Lemma map_spec t i : 0 <= t < T -> (i < n)%nat -> nth i sv 0 <= t < up i ->
    znth (time_to_arr_idx 1 T k sv) t 0 = Z.of_nat i.
  Proof.
    intros Ht Hi Hb. unfold time_to_arr_idx. fold (it (Z.to_nat (k - 1))).
    rewrite <- (Z2Nat.id t) by lia. rewrite znth_of_nat.
    destruct (it_spec (Z.to_nat (k - 1)) (Z.to_nat t) ltac:(lia)) as [_ A].
    rewrite (A i Hi) by lia. pose proof (up_gap i Hi).
    destruct (Z.leb_spec (Z.of_nat (Z.to_nat t) - nth i sv 0) (Z.of_nat (Z.to_nat (k - 1)))); [reflexivity | lia].
  Qed.
  Lemma map_before t : 0 <= t < s -> znth (time_to_arr_idx 1 T k sv) t 0 = 0.
  Proof.
    intros Ht. unfold time_to_arr_idx. fold (it (Z.to_nat (k - 1))).
    rewrite <- (Z2Nat.id t) by lia. rewrite znth_of_nat.
    destruct (it_spec (Z.to_nat (k - 1)) (Z.to_nat t) ltac:(lia)) as [A _]. apply A. lia.
  Qed.
  Lemma map_at_save i : (i < n)%nat -> znth (time_to_arr_idx 1 T k sv) (nth i sv 0) 0 = Z.of_nat i.
  Proof.
    intros Hi. pose proof (sv_range i Hi). pose proof (up_gap i Hi). apply map_spec; [lia | exact Hi | lia].
  Qed.
End IndexMap.

(* ------------------------------------------------------------------ pipelines: conversions around one filter *)
Section Pipeline.
  Variable K : Fld.
  Notation conv := ((K -> K) * (K -> K))%type.

  Lemma init_modules_convs lg l r T :
    init_modules K lg (sconvs l ++ r) T =
    match init_modules K lg r T with Some (ms, n) => Some (convs l ++ ms, n) | None => None end.
  Proof.
    induction l as [|cd l IH].
    - cbn. destruct (init_modules K lg r T) as [[ms n]|]; reflexivity.
    - change (sconvs (cd :: l) ++ r) with (SConv (fst cd) (snd cd) :: (sconvs l ++ r)). cbn [init_modules].
      rewrite IH. destruct (init_modules K lg r T) as [[ms n]|]; reflexivity.
  Qed.
  Lemma init_modules_convs_nil lg l T : init_modules K lg (sconvs l) T = Some (convs l, T).
  Proof. rewrite <- (app_nil_r (sconvs l)), init_modules_convs. cbn. rewrite app_nil_r. reflexivity. Qed.

  Lemma fold_comp_convs l v idx : idx <> -1 -> fold_left (comp_step K) (convs l) (v, idx) = (call l v, idx).
  Proof.
    revert v; induction l as [|cd l IH]; intros v H; [reflexivity|].
    change (convs (cd :: l)) with (Conv (fst cd) (snd cd) :: convs l). cbn [fold_left comp_step call].
    destruct (Z.eqb_spec idx (-1)); [contradiction|]. apply IH. exact H.
  Qed.
  Lemma fold_comp_dead ms v : snd (fold_left (comp_step K) ms (v, -1)) = -1.
  Proof. revert v; induction ms as [|m ms IH]; intros v; cbn; [reflexivity | apply IH]. Qed.

  Lemma compress_pipeline pre f post data v t : t <> -1 ->
    compress K (convs pre ++ EveryK f :: convs post) data v t =
    if time_to_array_index f t =? -1 then data
    else zset data (time_to_array_index f t) (call post (call pre v)).
  Proof.
    intros Ht. unfold compress. rewrite fold_left_app, fold_comp_convs by exact Ht. cbn [fold_left comp_step].
    destruct (Z.eqb_spec t (-1)); [contradiction|].
    destruct (Z.eqb_spec (time_to_array_index f t) (-1)) as [E|E].
    - rewrite E. pose proof (fold_comp_dead (convs post) (call pre v)) as D.
      destruct (fold_left _ _ _) as [v' i']. cbn in D. subst i'. reflexivity.
    - rewrite fold_comp_convs by exact E. destruct (Z.eqb_spec (time_to_array_index f t) (-1)); [contradiction | reflexivity].
  Qed.

  Lemma reconstruct_convs nan l data a : reconstruct K nan (convs l) data a = dall l (znth data a nan).
  Proof.
    induction l as [|cd l IH]; [reflexivity|].
    change (convs (cd :: l)) with (Conv (fst cd) (snd cd) :: convs l). cbn [reconstruct dall fold_right].
    rewrite IH. reflexivity.
  Qed.
  Lemma reconstruct_pipeline nan pre f post data t :
    reconstruct K nan (convs pre ++ EveryK f :: convs post) data t =
    dall pre (let a := znth (f_map f) t 0 in
              filter_decompress K f (dall post (znth data a nan)) (dall post (znth data (a + 1) nan)) a t).
  Proof.
    induction pre as [|cd l IH].
    - cbn [convs map app reconstruct indices_to_decompress dall fold_right]. rewrite !reconstruct_convs. reflexivity.
    - change (convs (cd :: l) ++ EveryK f :: convs post) with (Conv (fst cd) (snd cd) :: (convs l ++ EveryK f :: convs post)).
      cbn [reconstruct dall fold_right]. rewrite IH. reflexivity.
  Qed.

  (* ---------------------------------------------------------------- one recording *)
  Section Recording.
    Variables T k s : Z.
    Variable sv : list Z.
    Hypothesis Hk : 0 < k.
    Hypothesis Hs : 0 <= s < T.
    Hypothesis Hsv : sv_ok T k s sv.
    Variables pre post : list conv.
    Variable vals : Z -> K.
    Let n := length sv.
    Let f := {| f_sv := sv; f_map := time_to_arr_idx 1 T k sv; f_legacy := false |}.
    Let ms := convs pre ++ EveryK f :: convs post.
    Let C (v : K) : K := call post (call pre v).
    Let rec (m : nat) : list K :=
      fold_left (fun data t => compress K ms data (vals t) t) (map Z.of_nat (seq 0 m)) (repeat (f0 K) n).

    Lemma tai_saved i : (i < n)%nat -> time_to_array_index f (nth i sv 0) = Z.of_nat i.
    Proof.
      intros Hi. unfold time_to_array_index. cbn [f_sv f_map f].
      replace (zmem (nth i sv 0) sv) with true by (symmetry; apply zmem_In, nth_In; exact Hi).
      apply (map_at_save T k s sv Hk Hs Hsv). exact Hi.
    Qed.
    Lemma tai_unsaved t : ~ In t sv -> time_to_array_index f t = -1.
    Proof.
      intros H. unfold time_to_array_index. cbn [f_sv f].
      destruct (zmem t sv) eqn:E; [apply zmem_In in E; contradiction | reflexivity].
    Qed.

    Lemma rec_spec m : Z.of_nat m <= T ->
      length (rec m) = n /\
      forall i d, (i < n)%nat -> nth i (rec m) d = if nth i sv 0 <? Z.of_nat m then C (vals (nth i sv 0)) else f0 K.
    Proof.
      induction m as [|m IH]; intros Hm.
      - cbn. rewrite repeat_length. split; [reflexivity|]. intros i d Hi.
        pose proof (sv_range T k s sv Hsv i Hi).
        destruct (Z.ltb_spec (nth i sv 0) 0); [lia|].
        rewrite (nth_indep _ d (f0 K)) by (rewrite repeat_length; exact Hi).
        apply nth_repeat_same.
      - destruct (IH ltac:(lia)) as [L A].
        assert (E : rec (S m) = compress K ms (rec m) (vals (Z.of_nat m)) (Z.of_nat m)).
        { unfold rec. rewrite seq_S, map_app, fold_left_app. reflexivity. }
        rewrite E. unfold ms. rewrite compress_pipeline by lia. fold ms.
        destruct (in_dec Z.eq_dec (Z.of_nat m) sv) as [Hin|Hout].
        + destruct (In_nth _ _ 0 Hin) as (i0 & Hi0 & E0). fold n in Hi0.
          rewrite <- E0, tai_saved by exact Hi0.
          destruct (Z.eqb_spec (Z.of_nat i0) (-1)); [lia|].
          split; [rewrite zset_length; exact L|].
          intros i d Hi. destruct (Nat.eq_dec i i0) as [->|Hne].
          * rewrite <- znth_of_nat, znth_zset_same by lia. fold (C (vals (nth i0 sv 0))).
            destruct (Z.ltb_spec (nth i0 sv 0) (Z.of_nat (S m))); [reflexivity | lia].
          * rewrite <- znth_of_nat, znth_zset_other by lia. rewrite znth_of_nat, A by exact Hi.
            assert (nth i sv 0 <> Z.of_nat m).
            { intros Eq. apply Hne. pose proof (sv_nodup T k s sv Hsv) as ND.
              apply (proj1 (NoDup_nth sv 0) ND); fold n; try lia. }
            destruct (Z.ltb_spec (nth i sv 0) (Z.of_nat m)); destruct (Z.ltb_spec (nth i sv 0) (Z.of_nat (S m))); try reflexivity; lia.
        + rewrite tai_unsaved by exact Hout. cbn [Z.eqb]. split; [exact L|].
          intros i d Hi. rewrite A by exact Hi.
          assert (nth i sv 0 <> Z.of_nat m) by (intros Eq; apply Hout; rewrite <- Eq; apply nth_In; exact Hi).
          destruct (Z.ltb_spec (nth i sv 0) (Z.of_nat m)); destruct (Z.ltb_spec (nth i sv 0) (Z.of_nat (S m))); try reflexivity; lia.
    Qed.

    (* after the whole recording slot i holds the converted value of the i-th saved step *)
    Lemma record_all_slot nan i : (i < n)%nat ->
      znth (record_all K ms (f_size f) T vals) (Z.of_nat i) nan = C (vals (nth i sv 0)).
    Proof.
      intros Hi. unfold record_all, zrange, f_size. cbn [f_sv f]. rewrite Nat2Z.id. fold n. fold (rec (Z.to_nat T)).
      destruct (rec_spec (Z.to_nat T) ltac:(lia)) as [_ A]. rewrite znth_of_nat, A by exact Hi.
      pose proof (sv_range T k s sv Hsv i Hi).
      destruct (Z.ltb_spec (nth i sv 0) (Z.of_nat (Z.to_nat T))); [reflexivity | lia].
    Qed.

    Lemma decompress_saved nan t : s <= t < T -> In t sv ->
      reconstruct K nan ms (record_all K ms (f_size f) T vals) t = dall pre (dall post (C (vals t))).
    Proof.
      intros Ht Hin. unfold ms. rewrite reconstruct_pipeline. fold ms. cbv zeta.
      destruct (In_nth _ _ 0 Hin) as (i & Hi & E). fold n in Hi. cbn [f_map f].
      rewrite <- E at 1 2. rewrite (map_at_save T k s sv Hk Hs Hsv i Hi).
      unfold filter_decompress. cbn [f_sv f]. replace (zmem t sv) with true by (symmetry; apply zmem_In; exact Hin).
      rewrite record_all_slot by exact Hi. rewrite E. reflexivity.
    Qed.

    Lemma decompress_unsaved nan t : s <= t < T -> ~ In t sv ->
      exists i, (S i < n)%nat /\ nth i sv 0 < t < nth (S i) sv 0 /\
        reconstruct K nan ms (record_all K ms (f_size f) T vals) t =
        dall pre (lerp K (dall post (C (vals (nth i sv 0)))) (dall post (C (vals (nth (S i) sv 0))))
                    (fdiv K (fofZ (t - nth i sv 0)) (fofZ (nth (S i) sv 0 - nth i sv 0)))).
    Proof.
      intros Ht Hout.
      destruct (locate T k s sv Hsv t Ht) as (i & Hi & Hb). fold n in Hi.
      assert (Hne : nth i sv 0 <> t) by (intros Eq; apply Hout; rewrite <- Eq; apply nth_In; exact Hi).
      assert (HSi : (S i < n)%nat).
      { destruct (Nat.ltb_spec (S i) n) as [H|H]; [exact H|]. exfalso.
        assert (Ei : i = (length sv - 1)%nat) by (unfold n in *; lia).
        pose proof (sv_last T k s sv Hsv) as HL. rewrite <- Ei in HL.
        unfold up in Hb. fold n in Hb. destruct (Nat.ltb_spec (S i) n); lia. }
      assert (Hup : up T sv i = nth (S i) sv 0).
      { unfold up. fold n. destruct (Nat.ltb_spec (S i) n); [reflexivity | lia]. }
      exists i. split; [exact HSi|]. split; [lia|].
      unfold ms. rewrite reconstruct_pipeline. fold ms. cbv zeta. cbn [f_map f].
      rewrite (map_spec T k s sv Hk Hs Hsv t i) by (try exact Hi; try exact Hb; lia).
      unfold filter_decompress, endpoints. cbn [f_sv f_legacy f].
      destruct (zmem t sv) eqn:Em; [apply zmem_In in Em; contradiction|].
      rewrite record_all_slot by exact Hi.
      replace (Z.of_nat i + 1) with (Z.of_nat (S i)) by lia.
      rewrite record_all_slot by exact HSi. rewrite !znth_of_nat. reflexivity.
    Qed.
  End Recording.

  (* ---------------------------------------------------------------- the property *)
  Theorem decompress_spec (pre post : list conv) (nan : K) T k s (vals : Z -> K) t :
    0 < k -> 0 <= s < T -> s <= t < T ->
    exists sv, save_steps T k s = Some sv /\
      (forall x, In x sv <-> s <= x < T /\ ((x - s) mod k = 0 \/ x = T - 1)) /\
      let C v := call post (call pre v) in
      let R := run_recorder K false nan (sconvs pre ++ SEveryK k s :: sconvs post) T vals t in
      (In t sv -> R = Some (dall pre (dall post (C (vals t))))) /\
      (~ In t sv -> exists p n, In p sv /\ In n sv /\ p < t < n /\ (forall x, In x sv -> x <= p \/ n <= x) /\
         R = Some (dall pre (lerp K (dall post (C (vals p))) (dall post (C (vals n))) (fdiv K (fofZ (t - p)) (fofZ (n - p)))))).
  Proof.
    intros Hk Hs Ht. destruct (save_steps_ok T k s Hk Hs) as (sv & Esv & Hsv).
    exists sv. split; [exact Esv|]. split; [apply Hsv|]. cbv zeta.
    assert (ER : forall t, run_recorder K false nan (sconvs pre ++ SEveryK k s :: sconvs post) T vals t =
       let f := {| f_sv := sv; f_map := time_to_arr_idx 1 T k sv; f_legacy := false |} in
       let ms := convs pre ++ EveryK f :: convs post in
       Some (reconstruct K nan ms (record_all K ms (f_size f) T vals) t)).
    { intros t'. unfold run_recorder. rewrite init_modules_convs. cbn [init_modules]. unfold init_filter. rewrite Esv.
      rewrite init_modules_convs_nil. reflexivity. }
    rewrite ER. cbv zeta. split.
    - intros Hin. f_equal. apply (decompress_saved T k s sv Hk Hs Hsv pre post vals nan t Ht Hin).
    - intros Hout. destruct (decompress_unsaved T k s sv Hk Hs Hsv pre post vals nan t Ht Hout) as (i & HSi & Hb & E).
      exists (nth i sv 0), (nth (S i) sv 0).
      split; [apply nth_In; lia|]. split; [apply nth_In; exact HSi|]. split; [exact Hb|]. split.
      + intros x Hx. destruct (In_nth _ _ 0 Hx) as (j & Hj & <-).
        destruct (Nat.le_gt_cases j i) as [L|L].
        * left. apply (sv_mono_le T k s sv Hsv); lia.
        * right. apply (sv_mono_le T k s sv Hsv); lia.
      + f_equal. exact E.
  Qed.

  (* without a time filter (conversions only) every step is stored and returned through the conversions *)
  Theorem decompress_no_filter (cs : list conv) (nan : K) T (vals : Z -> K) t :
    0 <= t < T ->
    run_recorder K false nan (sconvs cs) T vals t = Some (dall cs (call cs (vals t))).
  Proof.
    intros Ht. unfold run_recorder. rewrite init_modules_convs_nil. f_equal. rewrite reconstruct_convs. f_equal.
    unfold record_all, zrange.
    set (rec := fun m => fold_left (fun data t0 => compress K (convs cs) data (vals t0) t0) (map Z.of_nat (seq 0 m)) (repeat (f0 K) (Z.to_nat T))).
    assert (A : forall m, (m <= Z.to_nat T)%nat -> length (rec m) = Z.to_nat T /\
                 forall i, (i < m)%nat -> nth i (rec m) nan = call cs (vals (Z.of_nat i))).
    { induction m as [|m IH]; intros Hm.
      - cbn. rewrite repeat_length. split; [reflexivity | intros; lia].
      - destruct (IH ltac:(lia)) as [L A].
        assert (E : rec (S m) = compress K (convs cs) (rec m) (vals (Z.of_nat m)) (Z.of_nat m)).
        { unfold rec. rewrite seq_S, map_app, fold_left_app. reflexivity. }
        rewrite E. unfold compress. rewrite fold_comp_convs by lia.
        destruct (Z.eqb_spec (Z.of_nat m) (-1)); [lia|].
        split; [rewrite zset_length; exact L|]. intros i Hi.
        destruct (Nat.eq_dec i m) as [->|Hne].
        + rewrite <- znth_of_nat, znth_zset_same by lia. reflexivity.
        + rewrite <- znth_of_nat, znth_zset_other by lia. rewrite znth_of_nat. apply A. lia. }
    destruct (A (Z.to_nat T) ltac:(lia)) as [_ B]. fold (rec (Z.to_nat T)).
    rewrite znth_nonneg by lia. rewrite B by lia. rewrite Z2Nat.id by lia. reflexivity.
  Qed.

  (* widening conversions are the identity on values: then the recorded value / the plain interpolation comes back *)
  Lemma call_id (l : list conv) (v : K) : (forall cd, In cd l -> forall x, fst cd x = x) -> call l v = v.
  Proof.
    revert v; induction l as [|cd l IH]; intros v H; [reflexivity|]. change (call (cd :: l) v) with (call l (fst cd v)).
    rewrite (H cd) by (left; reflexivity). apply IH. intros; apply H; right; assumption.
  Qed.
  Lemma dall_id (l : list conv) (v : K) : (forall cd, In cd l -> forall x, snd cd x = x) -> dall l v = v.
  Proof.
    induction l as [|cd l IH]; intros H; [reflexivity|]. change (dall (cd :: l) v) with (snd cd (dall l v)).
    rewrite IH by (intros; apply H; right; assumption). apply H. left; reflexivity.
  Qed.
  (* each conversion round-trips (decompress (compress x) = x): saved steps come back exactly *)
  Lemma dall_call_roundtrip (l : list conv) (v : K) : (forall cd, In cd l -> forall x, snd cd (fst cd x) = x) -> dall l (call l v) = v.
  Proof.
    revert v; induction l as [|cd l IH]; intros v H; [reflexivity|].
    change (dall (cd :: l) (call (cd :: l) v)) with (snd cd (dall l (call l (fst cd v)))).
    rewrite IH by (intros; apply H; right; assumption). apply H. left; reflexivity.
  Qed.
End Pipeline.

(* run_many is run_recorder at every listed step *)
Lemma run_many_spec (K : Fld) lg nan specs T vals ts :
  map (run_recorder K lg nan specs T vals) ts =
  match run_many K lg nan specs T vals ts with Some l => map Some l | None => map (fun _ => None) ts end.
Proof.
  unfold run_many, run_recorder. destruct (init_modules K lg specs T) as [[ms size]|]; [|reflexivity].
  cbv zeta. rewrite map_map. reflexivity.
Qed.

(* ------------------------------------------------------------------ executable instance: fofZ is the usual injection *)
Lemma fofpos_Qc p : fofpos QcF p = Q2Qc (inject_Z (Zpos p)).
Proof.
  induction p as [p IH|p IH|]; cbn [fofpos].
  - rewrite IH. apply Qc_is_canon. cbn [QcF f1 fadd fmul car]. unfold Qcplus, Qcmult, Q2Qc. cbn [this].
    rewrite !Qred_correct. unfold Qeq, inject_Z. cbn. lia.
  - rewrite IH. apply Qc_is_canon. cbn [QcF f1 fadd fmul car]. unfold Qcplus, Qcmult, Q2Qc. cbn [this].
    rewrite !Qred_correct. unfold Qeq, inject_Z. cbn. lia.
  - apply Qc_is_canon. reflexivity.
Qed.
Lemma fofZ_Qc z : fofZ (K := QcF) z = Q2Qc (inject_Z z).
Proof.
  destruct z as [|p|p]; cbn [fofZ].
  - apply Qc_is_canon. reflexivity.
  - apply fofpos_Qc.
  - rewrite fofpos_Qc. apply Qc_is_canon. cbn [QcF fopp]. unfold Qcopp, Q2Qc. cbn [this]. rewrite !Qred_correct. reflexivity.
Qed.

(* ------------------------------------------------------------------ the unchanged source (legacy variant) violates the property *)
(* (T,k,start) = (10,3,2): the unsaved step 3 lies between the saved steps 2 and 5, the old code interpolates
   from step 0 (index_1d_array finds the first 0 of the map): weight 3/5 instead of 1/3 *)
Theorem decompress_src_old_refuted :
  exists T k s t (vals : Z -> Qc), 0 < k /\ 0 <= s < T /\ s <= t < T /\
    save_steps T k s = Some [2; 5; 8; 9] /\
    run_recorder QcF true 0%Qc [SEveryK k s] T vals t <> Some (lerp QcF (vals 2) (vals 5) (fdiv QcF (fofZ (t - 2)) (fofZ (5 - 2)))).
Proof.
  exists 10, 3, 2, 3, (fun t => Q2Qc (inject_Z (t * t))).
  repeat split; try lia; try reflexivity. vm_compute. discriminate.
Qed.
(* (T,k,start) = (5,8,0): both saved steps 0 and 4 share array slot 0 in the old index map, so the value
   recorded at step 0 is overwritten and step 0 does not decompress to what was recorded *)
Theorem slots_collide_src_old_refuted :
  exists T k s t (vals : Z -> Qc) sv, 0 < k /\ 0 <= s < T /\ s <= t < T /\
    save_steps T k s = Some sv /\ In t sv /\
    run_recorder QcF true 0%Qc [SEveryK k s] T vals t <> Some (vals t).
Proof.
  exists 5, 8, 0, 0, (fun t => Q2Qc (inject_Z (t + 1))), [0; 4].
  repeat split; try lia; try reflexivity; [left; reflexivity|]. vm_compute. discriminate.
Qed.
