(* Symmetry_proofs.v — lemmas about model/Symmetry.v (C32). *)
From Coq Require Import ZArith List Bool Lia Arith Field Ring.
From FV Require Import base.Scalar model.Symmetry.
Import ListNotations.

(* ====================================================================== tables *)
Section Tables.
  Local Open Scope Z_scope.

  Definition is_wall (w : Z) : Prop := w = -1 \/ w = 1.
  Definition in_axes (c : Z) : Prop := c = 0 \/ c = 1 \/ c = 2.

  (* reflection sign of a vector component under the mirror normal to [a]:
     E is a polar vector (normal component flips), H an axial vector (tangential ones flip) *)
  Definition refl_sign (ft : ftype) (c a : Z) : Z :=
    match ft with FE => if c =? a then -1 else 1 | FH => if c =? a then 1 else -1 end.
  (* Yee staggering: is the sample of component c of field ft half a cell off along axis a? *)
  Definition yee_half_offset (ft : ftype) (c a : Z) : bool :=
    match ft with FE => c =? a | FH => negb (c =? a) end.

  (* magnetic wall (+1): the field is mirror symmetric; electric wall (-1): anti-symmetric *)
  Lemma parity_spec ft c a w : is_wall w -> field_component_parity ft c a w = Some (w * refl_sign ft c a).
  Proof. intros [-> | ->]; destruct ft; unfold field_component_parity, refl_sign; cbn; destruct (c =? a); reflexivity. Qed.

  Lemma parity_invalid ft c a w : ~ is_wall w -> field_component_parity ft c a w = None.
  Proof.
    intros H. unfold field_component_parity.
    destruct (w =? -1) eqn:E1; [apply Z.eqb_eq in E1; exfalso; apply H; left; exact E1|].
    destruct (w =? 1) eqn:E2; [apply Z.eqb_eq in E2; exfalso; apply H; right; exact E2|]. reflexivity.
  Qed.

  Lemma parity_pm1 ft c a w : is_wall w -> parity_z ft c a w = 1 \/ parity_z ft c a w = -1.
  Proof. intros H. unfold parity_z. rewrite parity_spec by exact H. destruct H as [-> | ->]; destruct ft; cbn; destruct (c =? a); auto. Qed.

  Lemma parity_E_H_opposite c a w : is_wall w -> parity_z FE c a w = - parity_z FH c a w.
  Proof. intros H. unfold parity_z. rewrite !parity_spec by exact H. cbn. destruct (c =? a); lia. Qed.

  Lemma parity_wall_flip ft c a w : is_wall w -> parity_z ft c a (- w) = - parity_z ft c a w.
  Proof. intros H. unfold parity_z. rewrite !parity_spec; [lia | exact H | destruct H as [-> | ->]; [right|left]; reflexivity]. Qed.

  Lemma sits_spec ft c a : component_sits_on_plane ft c a = Some (negb (yee_half_offset ft c a)).
  Proof. destruct ft; cbn; [reflexivity | rewrite negb_involutive; reflexivity]. Qed.

  Lemma mirror_pairs_spec ft c a w :
    mirror_pairs_on_plane ft c a w = (w =? -1) && negb (yee_half_offset ft c a).
  Proof. unfold mirror_pairs_on_plane, sits_b. rewrite sits_spec. reflexivity. Qed.

  (* every component that pairs about the plane row is odd: it vanishes on an electric plane *)
  Lemma on_plane_is_odd ft c a w : mirror_pairs_on_plane ft c a w = true -> field_component_parity ft c a w = Some (-1).
  Proof.
    rewrite mirror_pairs_spec. intros H. apply andb_true_iff in H. destruct H as [Hw Ho].
    apply Z.eqb_eq in Hw. subst w. rewrite parity_spec by (left; reflexivity).
    destruct ft; cbn in *; destruct (c =? a); cbn in *; try discriminate; reflexivity.
  Qed.

  Lemma magnetic_never_on_plane ft c a : mirror_pairs_on_plane ft c a 1 = false.
  Proof. reflexivity. Qed.

  Lemma parity_z_spec ft c a w : is_wall w -> parity_z ft c a w = w * refl_sign ft c a.
  Proof. intros H. unfold parity_z. rewrite parity_spec by exact H. reflexivity. Qed.

  Ltac split_eqbs a :=
    repeat match goal with |- context [?x =? a] => destruct (Z.eqb_spec x a) end.

  (* S = E x H is a polar vector and quadratic in the fields: same parity for both wall types *)
  Lemma poynting_spec i a w : in_axes i -> in_axes a -> is_wall w -> poynting_parity i a w = (if i =? a then -1 else 1).
  Proof.
    intros Hi Ha Hw. unfold poynting_parity. unfold in_axes in Ha.
    destruct Hi as [-> | [-> | ->]];
      [change (other_axes 0) with (1, 2) | change (other_axes 1) with (0, 2) | change (other_axes 2) with (0, 1)];
      cbv iota beta; rewrite !parity_z_spec by exact Hw; unfold refl_sign; split_eqbs a; subst;
      destruct Hw as [-> | ->]; try lia; reflexivity.
  Qed.
  (* the two terms E_j H_k and E_k H_j of a flux component have the same parity *)
  Lemma poynting_terms_agree i a w : in_axes i -> is_wall w ->
    let '(j, k) := other_axes i in parity_z FE j a w * parity_z FH k a w = parity_z FE k a w * parity_z FH j a w.
  Proof.
    intros Hi Hw.
    destruct Hi as [-> | [-> | ->]];
      [change (other_axes 0) with (1, 2) | change (other_axes 1) with (0, 2) | change (other_axes 2) with (0, 1)];
      cbv iota beta; rewrite !parity_z_spec by exact Hw; unfold refl_sign; split_eqbs a; subst;
      destruct Hw as [-> | ->]; try lia; reflexivity.
  Qed.
End Tables.

(* ====================================================================== 1-D primitives *)
Section Prim.
  Context {A : Type}.
  Variable sm : A -> A.

  Lemma nth_error_rev (l : list A) i : i < length l -> nth_error (rev l) i = nth_error l (length l - 1 - i).
  Proof.
    induction l as [|x l IH]; cbn [length rev]; intros H; [lia|].
    destruct (Nat.eq_dec i (length l)) as [->|N].
    - rewrite nth_error_app2 by (rewrite rev_length; lia). rewrite rev_length, Nat.sub_diag.
      replace (S (length l) - 1 - length l) with 0 by lia. reflexivity.
    - rewrite nth_error_app1 by (rewrite rev_length; lia). rewrite IH by lia.
      replace (S (length l) - 1 - i) with (S (length l - 1 - i)) by lia. reflexivity.
  Qed.

  Lemma nth_error_map' {B} (f : A -> B) l i : nth_error (map f l) i = option_map f (nth_error l i).
  Proof. revert i; induction l; destruct i; cbn; auto. Qed.

  Lemma nth_error_skipn (l : list A) k i : nth_error (skipn k l) i = nth_error l (k + i).
  Proof. revert l; induction k; intros l; [reflexivity|]. destruct l; cbn; [destruct i; reflexivity | apply IHk]. Qed.

  Lemma sel1_nth_error (l : list A) i : sel1 i l = match nth_error l i with Some x => [x] | None => [] end.
  Proof.
    unfold sel1. rewrite <- (Nat.add_0_r i) at 2. rewrite <- nth_error_skipn.
    destruct (skipn i l) as [|x r]; cbn; [reflexivity | destruct r; reflexivity].
  Qed.

  Lemma ext_low_off_length l : length (ext_low sm false l) = length l.
  Proof. unfold ext_low. rewrite map_length, rev_length. reflexivity. Qed.

  Lemma ext_low_on_length l : 2 <= length l -> length (ext_low sm true l) = length l.
  Proof.
    intros H. unfold ext_low. cbv zeta. rewrite app_length, firstn_length, map_length, rev_length, skipn_length. lia.
  Qed.
  Lemma ext_low_on_small l : length l <= 1 -> ext_low sm true l = [].
  Proof. destruct l as [|x [|y l]]; cbn; intros; try reflexivity; lia. Qed.

  (* length of the unfolded axis: doubled, except for the one-sample on-plane array *)
  Lemma unfold1_length on l : (on = false \/ length l <> 1) -> length (unfold1 sm on l) = 2 * length l.
  Proof.
    intros H. unfold unfold1. rewrite app_length. destruct on.
    - destruct (le_lt_dec 2 (length l)); [rewrite ext_low_on_length by lia; lia|].
      rewrite ext_low_on_small by lia. destruct H; [discriminate|]. cbn. lia.
    - rewrite ext_low_off_length. lia.
  Qed.

  Lemma div2_double n : Nat.div2 (n + n) = n.
  Proof. replace (n + n) with (2 * n) by lia. apply Nat.div2_double. Qed.

  (* keeping the upper half of the unfolded axis returns the original, for every length *)
  Lemma restrict1_unfold1 on l : restrict1 (unfold1 sm on l) = l.
  Proof.
    unfold restrict1, unfold1.
    assert (H: Nat.div2 (length (ext_low sm on l ++ l)) = length (ext_low sm on l)).
    { rewrite app_length. destruct on.
      - destruct (le_lt_dec 2 (length l)); [rewrite ext_low_on_length by lia; apply div2_double|].
        rewrite ext_low_on_small by lia. cbn [length]. destruct l as [|x [|y l]]; cbn in *; try reflexivity; lia.
      - rewrite ext_low_off_length. apply div2_double. }
    rewrite H. rewrite skipn_app, Nat.sub_diag, skipn_all. reflexivity.
  Qed.

  (* complete pointwise description of the unfolded axis, plain flip *)
  Lemma nth_error_unfold1_off l i :
    nth_error (unfold1 sm false l) i =
      if i <? length l then option_map sm (nth_error l (length l - 1 - i)) else nth_error l (i - length l).
  Proof.
    unfold unfold1, ext_low. destruct (i <? length l) eqn:E; [apply Nat.ltb_lt in E | apply Nat.ltb_ge in E].
    - rewrite nth_error_app1 by (rewrite map_length, rev_length; lia).
      rewrite nth_error_map', nth_error_rev by lia. reflexivity.
    - rewrite nth_error_app2 by (rewrite map_length, rev_length; lia). rewrite map_length, rev_length. reflexivity.
  Qed.

  (* ... and for the on-plane map: cell 0 repeats its neighbour, cells 1..n-1 mirror about row n *)
  Lemma nth_error_unfold1_on l i : 2 <= length l ->
    nth_error (unfold1 sm true l) i =
      if i =? 0 then option_map sm (nth_error l (length l - 1))
      else if i <? length l then option_map sm (nth_error l (length l - i))
      else nth_error l (i - length l).
  Proof.
    intros Hn. pose proof (ext_low_on_length l Hn) as HL. unfold unfold1 in *.
    assert (Hm: length (map sm (rev (skipn 1 l))) = length l - 1) by (rewrite map_length, rev_length, skipn_length; reflexivity).
    assert (Hq: forall q, q < length l - 1 -> nth_error (map sm (rev (skipn 1 l))) q = option_map sm (nth_error l (length l - 1 - q))).
    { intros q Hq. rewrite nth_error_map', nth_error_rev by (rewrite skipn_length; lia).
      rewrite nth_error_skipn, skipn_length. f_equal. f_equal. lia. }
    destruct (i =? 0) eqn:E0; [apply Nat.eqb_eq in E0; subst i | apply Nat.eqb_neq in E0].
    - rewrite nth_error_app1 by lia. unfold ext_low. cbv zeta.
      specialize (Hq 0 ltac:(lia)). rewrite Nat.sub_0_r in Hq. rewrite <- Hq.
      destruct (map sm (rev (skipn 1 l))) as [|x m]; [cbn in Hm; lia|]. reflexivity.
    - destruct (i <? length l) eqn:E; [apply Nat.ltb_lt in E | apply Nat.ltb_ge in E].
      + rewrite nth_error_app1 by lia. unfold ext_low. cbv zeta.
        rewrite nth_error_app2 by (rewrite firstn_length; lia). rewrite firstn_length, Hm.
        replace (Nat.min 1 (length l - 1)) with 1 by lia. rewrite Hq by lia. f_equal. f_equal. lia.
      + rewrite nth_error_app2 by lia. rewrite HL. reflexivity.
  Qed.

  (* the documented pairings, as slab identities (_slice_axis rows) *)
  Lemma sel1_pair_off l j : j < length l ->
    sel1 (length l - 1 - j) (unfold1 sm false l) = map sm (sel1 (length l + j) (unfold1 sm false l)).
  Proof.
    intros H. rewrite !sel1_nth_error, !nth_error_unfold1_off.
    replace (length l - 1 - j <? length l) with true by (symmetry; apply Nat.ltb_lt; lia).
    replace (length l + j <? length l) with false by (symmetry; apply Nat.ltb_ge; lia).
    replace (length l - 1 - (length l - 1 - j)) with j by lia. replace (length l + j - length l) with j by lia.
    destruct (nth_error l j); reflexivity.
  Qed.

  Lemma sel1_pair_on l j : 1 <= j < length l ->
    sel1 (length l - j) (unfold1 sm true l) = map sm (sel1 (length l + j) (unfold1 sm true l)).
  Proof.
    intros H. rewrite !sel1_nth_error, !nth_error_unfold1_on by lia.
    replace (length l - j =? 0) with false by (symmetry; apply Nat.eqb_neq; lia).
    replace (length l + j =? 0) with false by (symmetry; apply Nat.eqb_neq; lia).
    replace (length l - j <? length l) with true by (symmetry; apply Nat.ltb_lt; lia).
    replace (length l + j <? length l) with false by (symmetry; apply Nat.ltb_ge; lia).
    replace (length l - (length l - j)) with j by lia. replace (length l + j - length l) with j by lia.
    destruct (nth_error l j); reflexivity.
  Qed.

  (* on-plane map: the outermost mirrored cell repeats its neighbour; the plane row is unpaired *)
  Lemma sel1_on_edge l : 2 <= length l -> sel1 0 (unfold1 sm true l) = sel1 1 (unfold1 sm true l).
  Proof.
    intros H. rewrite !sel1_nth_error, !nth_error_unfold1_on by lia. cbn [Nat.eqb].
    replace (1 <? length l) with true by (symmetry; apply Nat.ltb_lt; lia). reflexivity.
  Qed.
  Lemma sel1_on_plane_row l : 2 <= length l -> sel1 (length l) (unfold1 sm true l) = sel1 0 l.
  Proof.
    intros H. rewrite !sel1_nth_error, !nth_error_unfold1_on by lia.
    replace (length l =? 0) with false by (symmetry; apply Nat.eqb_neq; lia).
    rewrite Nat.ltb_irrefl, Nat.sub_diag. reflexivity.
  Qed.
End Prim.

(* ====================================================================== arrays of any rank *)
Section Arr.
  Variable K : Fld.
  Add Field KF2 : (Fth K).
  Notation arr := (arr K).
  Notation scale := (scale K).
  Notation unfold_at := (unfold_at K).
  Notation restrict_at := (restrict_at K).
  Notation sel_at := (sel_at K).
  Notation len_at := (len_at K).
  Notation sum_all := (sum_all K).
  Notation count_all := (count_all K).
  Notation mean_all := (mean_all K).
  Notation KofNat := (KofNat K).
  Notation KofZ := (KofZ K).

  Lemma map_id_ext {X} (f : X -> X) l : (forall x, f x = x) -> map f l = l.
  Proof. intros H. induction l; cbn; [reflexivity | rewrite H, IHl; reflexivity]. Qed.

  Lemma restrict_unfold_at d : forall k p on (x : arr d), restrict_at d k (unfold_at d k p on x) = x.
  Proof.
    induction d as [|d IH]; intros k p on x; [reflexivity|]. destruct k; cbn.
    - apply restrict1_unfold1.
    - rewrite map_map. apply map_id_ext. intros y. apply IH.
  Qed.

  Lemma map_ext_Forall {X Y} (P : X -> Prop) (f g : X -> Y) l : Forall P l -> (forall x, P x -> f x = g x) -> map f l = map g l.
  Proof. induction 1; intros Hfg; cbn; [reflexivity|]. rewrite Hfg by assumption. rewrite IHForall by assumption. reflexivity. Qed.

  (* index map along any array axis k of a rank-d array, plain flip: u[n-1-j] = p * u[n+j] *)
  Lemma sel_pair_off d : forall k n p j (x : arr d), k < d -> len_at d k n x -> j < n ->
    sel_at d k (n - 1 - j) (unfold_at d k p false x) = scale d p (sel_at d k (n + j) (unfold_at d k p false x)).
  Proof.
    induction d as [|d IH]; intros k n p j x Hk Hl Hj; [lia|]. destruct k; cbn in *.
    - subst n. apply sel1_pair_off. exact Hj.
    - rewrite !map_map. apply map_ext_Forall with (P := len_at d k n); [exact Hl|].
      intros y Hy. apply IH; [lia | exact Hy | exact Hj].
  Qed.

  (* on-plane map: u[n-j] = p * u[n+j] for 1 <= j < n *)
  Lemma sel_pair_on d : forall k n p j (x : arr d), k < d -> len_at d k n x -> 1 <= j < n ->
    sel_at d k (n - j) (unfold_at d k p true x) = scale d p (sel_at d k (n + j) (unfold_at d k p true x)).
  Proof.
    induction d as [|d IH]; intros k n p j x Hk Hl Hj; [lia|]. destruct k; cbn in *.
    - subst n. apply sel1_pair_on. exact Hj.
    - rewrite !map_map. apply map_ext_Forall with (P := len_at d k n); [exact Hl|].
      intros y Hy. apply IH; [lia | exact Hy | exact Hj].
  Qed.

  Lemma sel_on_edge d : forall k n p (x : arr d), k < d -> len_at d k n x -> 2 <= n ->
    sel_at d k 0 (unfold_at d k p true x) = sel_at d k 1 (unfold_at d k p true x).
  Proof.
    induction d as [|d IH]; intros k n p x Hk Hl Hn; [lia|]. destruct k; cbn in *.
    - subst n. apply sel1_on_edge. exact Hn.
    - rewrite !map_map. apply map_ext_Forall with (P := len_at d k n); [exact Hl|].
      intros y Hy. apply (IH k n); [lia | exact Hy | exact Hn].
  Qed.

  Lemma len_unfold_at d : forall k n p on (x : arr d), k < d -> len_at d k n x -> (on = false \/ n <> 1) ->
    len_at d k (2 * n) (unfold_at d k p on x).
  Proof.
    induction d as [|d IH]; intros k n p on x Hk Hl Hn; [lia|]. destruct k; cbn in *.
    - subst n. apply unfold1_length. exact Hn.
    - apply Forall_forall. intros y Hy. apply in_map_iff in Hy. destruct Hy as [z [<- Hz]].
      apply IH; [lia | | exact Hn]. rewrite Forall_forall in Hl. apply Hl. exact Hz.
  Qed.

  (* ------------------------------------------------------------------ sums *)
  Lemma sum_app d (a b : list (arr d)) : sum_all (S d) (a ++ b) = (sum_all (S d) a + sum_all (S d) b)%F.
  Proof. cbn. induction a as [|x a IHa]; cbn; [ring | rewrite IHa; ring]. Qed.
  Lemma sum_rev d (a : list (arr d)) : sum_all (S d) (rev a) = sum_all (S d) a.
  Proof. induction a as [|x a IHa]; [reflexivity|]. cbn [rev]. rewrite sum_app, IHa. cbn. ring. Qed.
  Lemma sum_scale d : forall p (x : arr d), sum_all d (scale d p x) = (p * sum_all d x)%F.
  Proof. induction d as [|d IH]; intros p x; [reflexivity|]. cbn. induction x as [|y x IHx]; cbn; [ring | rewrite IH, IHx; ring]. Qed.
  Lemma sum_map_scale d p (a : list (arr d)) : sum_all (S d) (map (scale d p) a) = (p * sum_all (S d) a)%F.
  Proof. exact (sum_scale (S d) p a). Qed.

  Lemma count_app d (a b : list (arr d)) : count_all (S d) (a ++ b) = (count_all (S d) a + count_all (S d) b)%nat.
  Proof. cbn. induction a as [|x a IHa]; cbn; [reflexivity | rewrite IHa; lia]. Qed.
  Lemma count_rev d (a : list (arr d)) : count_all (S d) (rev a) = count_all (S d) a.
  Proof. induction a as [|x a IHa]; [reflexivity|]. cbn [rev]. rewrite count_app, IHa. cbn. lia. Qed.
  Lemma count_scale d : forall p (x : arr d), count_all d (scale d p x) = count_all d x.
  Proof. induction d as [|d IH]; intros p x; [reflexivity|]. cbn. induction x as [|y x IHx]; cbn; [reflexivity | rewrite IH, IHx; reflexivity]. Qed.

  (* summing the plain-flip unfolded array = (1 + p) * the reduced sum; cell count doubles *)
  Lemma sum_unfold_at d : forall k p (x : arr d), k < d -> sum_all d (unfold_at d k p false x) = ((1 + p) * sum_all d x)%F.
  Proof.
    induction d as [|d IH]; intros k p x Hk; [lia|]. destruct k.
    - cbn [unfold_at]. unfold unfold1, ext_low. rewrite sum_app, sum_map_scale, sum_rev. ring.
    - cbn. induction x as [|y x IHx]; cbn; [ring|]. rewrite IH by lia. cbn in IHx. rewrite IHx. ring.
  Qed.
  Lemma count_unfold_at d : forall k p (x : arr d), k < d -> count_all d (unfold_at d k p false x) = (2 * count_all d x)%nat.
  Proof.
    induction d as [|d IH]; intros k p x Hk; [lia|]. destruct k.
    - cbn [unfold_at]. unfold unfold1, ext_low. rewrite count_app. change (map (scale d p) (rev x)) with (scale (S d) p (rev x)).
      rewrite count_scale, count_rev. lia.
    - cbn. induction x as [|y x IHx]; cbn; [reflexivity|]. rewrite IH by lia. cbn in IHx. rewrite IHx. lia.
  Qed.

  Lemma KofNat_add a b : KofNat (a + b) = (KofNat a + KofNat b)%F.
  Proof. induction a; cbn; [ring | rewrite IHa; ring]. Qed.

  Lemma mean_unfold_at d k p (x : arr d) : k < d -> KofNat (count_all d x) <> 0%F -> (1 + 1)%F <> (0%F : K) ->
    mean_all d (unfold_at d k p false x) = ((1 + p) / (1 + 1) * mean_all d x)%F.
  Proof.
    intros Hk Hc H2. unfold Symmetry.mean_all. rewrite sum_unfold_at, count_unfold_at by exact Hk.
    replace (2 * count_all d x)%nat with (count_all d x + count_all d x)%nat by lia. rewrite KofNat_add.
    assert (H3: (KofNat (count_all d x) + KofNat (count_all d x))%F <> 0%F).
    { intros E. assert (E2: ((1 + 1) * KofNat (count_all d x) = 0)%F) by (rewrite <- E; ring).
      apply Hc. transitivity (/ (1 + 1) * ((1 + 1) * KofNat (count_all d x)))%F; [field; exact H2 | rewrite E2; ring]. }
    field. repeat split; assumption.
  Qed.
  Lemma count_unfold_nonzero d k p (x : arr d) : k < d -> KofNat (count_all d x) <> 0%F -> (1 + 1)%F <> (0%F : K) ->
    KofNat (count_all d (unfold_at d k p false x)) <> 0%F.
  Proof.
    intros Hk Hc H2. rewrite count_unfold_at by exact Hk.
    replace (2 * count_all d x)%nat with (count_all d x + count_all d x)%nat by lia. rewrite KofNat_add.
    intros E. assert (E2: ((1 + 1) * KofNat (count_all d x) = 0)%F) by (rewrite <- E; ring).
    apply Hc. transitivity (/ (1 + 1) * ((1 + 1) * KofNat (count_all d x)))%F; [field; exact H2 | rewrite E2; ring].
  Qed.

  (* ------------------------------------------------------------------ several axes *)
  Section Axes.
    Variable r : nat.
    Variable ax : nat -> nat.
    Variable sg : nat -> K.
    Definition unfold_axes (l : list nat) (b : arr r) : arr r := fold_left (fun b a => unfold_at r (ax a) (sg a) false b) l b.
    Definition prod_axes (g : nat -> K) (l : list nat) (c : K) : K := fold_left (fun f a => (f * g a)%F) l c.
    Lemma prod_axes_scal g l : forall c, prod_axes g l c = (c * prod_axes g l 1)%F.
    Proof.
      unfold prod_axes. induction l as [|a l IH]; intros c; cbn; [ring|].
      rewrite (IH (c * g a)%F), (IH (1 * g a)%F). ring.
    Qed.
    Lemma prod_axes_cons g a l : prod_axes g (a :: l) 1%F = (g a * prod_axes g l 1)%F.
    Proof. change (prod_axes g (a :: l) 1%F) with (prod_axes g l (1 * g a)%F). rewrite prod_axes_scal. ring. Qed.

    Lemma sum_unfold_axes l : forall b, Forall (fun a => ax a < r) l ->
      sum_all r (unfold_axes l b) = (prod_axes (fun a => 1 + sg a)%F l 1 * sum_all r b)%F.
    Proof.
      induction l as [|a l IH]; intros b Hl; [cbn; ring|]. inversion Hl; subst.
      change (unfold_axes (a :: l) b) with (unfold_axes l (unfold_at r (ax a) (sg a) false b)).
      rewrite IH, sum_unfold_at, prod_axes_cons by assumption. ring.
    Qed.
    Lemma count_unfold_axes l : forall b, Forall (fun a => ax a < r) l ->
      count_all r (unfold_axes l b) = (Nat.pow 2 (length l) * count_all r b)%nat.
    Proof.
      induction l as [|a l IH]; intros b Hl; [cbn; lia|]. inversion Hl; subst.
      change (unfold_axes (a :: l) b) with (unfold_axes l (unfold_at r (ax a) (sg a) false b)).
      rewrite IH, count_unfold_at by assumption. cbn [length Nat.pow]. lia.
    Qed.
    Lemma mean_unfold_axes l : forall b, Forall (fun a => ax a < r) l -> KofNat (count_all r b) <> 0%F -> (1 + 1)%F <> (0%F : K) ->
      mean_all r (unfold_axes l b) = (prod_axes (fun a => (1 + sg a) / (1 + 1))%F l 1 * mean_all r b)%F.
    Proof.
      induction l as [|a l IH]; intros b Hl Hc H2; [cbn; ring|]. inversion Hl; subst.
      change (unfold_axes (a :: l) b) with (unfold_axes l (unfold_at r (ax a) (sg a) false b)).
      rewrite IH, mean_unfold_at, prod_axes_cons; try assumption; [ring | apply count_unfold_nonzero; assumption].
    Qed.
  End Axes.
End Arr.
