(* Yee_tile.v — C09 (partial): the ghost-cell reads of a tiled periodic / Bloch array are the tiled reads of one period.
   A function f on N cells with ghost factor phi is tiled m times as F (q*N + r) = phi^q * f r; the big domain has ghost
   factor phi^m.  These two lemmas are the only place where the supercell and the unit cell differ in the model. *)
From Coq Require Import List Arith Lia Field Ring.
From FV Require Import base.Scalar base.Cplx model.Yee.
Local Open Scope fld_scope.

Section Tile.
  Variable K : Fld.
  Add Field KFt : (Fth K).
  Notation C := (C K).
  Fixpoint cpow (p : C) (n : nat) : C := match n with O => c1 | S k => cmul p (cpow p k) end.
  Lemma cmul_assoc (a b c : C) : cmul a (cmul b c) = cmul (cmul a b) c.
  Proof. destruct a, b, c; unfold cmul; cbn. f_equal; ring. Qed.
  Lemma cmul_comm (a b : C) : cmul a b = cmul b a.
  Proof. destruct a, b; unfold cmul; cbn. f_equal; ring. Qed.
  Lemma cmul_1_l (a : C) : cmul c1 a = a.
  Proof. destruct a; unfold cmul, Cplx.c1; cbn. f_equal; ring. Qed.
  Lemma cpow_S_r p n : cpow p (S n) = cmul (cpow p n) p.
  Proof. cbn. apply cmul_comm. Qed.

  Variables (N m : nat) (phi : C) (f : nat -> C).
  Hypothesis HN : (0 < N)%nat.
  (* the tiled array, indexed by (copy q, offset r) *)
  Definition tiled (i : nat) : C := cmul (cpow phi (i / N)) (f (i mod N)).

  Lemma idx q r : (r < N)%nat -> ((q * N + r) / N = q /\ (q * N + r) mod N = r)%nat.
  Proof.
    intros Hr. split.
    - rewrite Nat.div_add_l by lia. rewrite Nat.div_small by lia. lia.
    - rewrite Nat.add_comm, Nat.mod_add by lia. apply Nat.mod_small; lia.
  Qed.

  (* forward neighbour *)
  Theorem nxt_tiled q r : (q < m)%nat -> (r < N)%nat ->
    nxt K (m * N) (cpow phi m) tiled (q * N + r) = cmul (cpow phi q) (nxt K N phi f r).
  Proof.
    intros Hq Hr. unfold nxt.
    destruct (S r <? N) eqn:A.
    - apply Nat.ltb_lt in A.
      replace (S (q * N + r) <? m * N) with true by (symmetry; apply Nat.ltb_lt; nia).
      unfold tiled. replace (S (q * N + r)) with (q * N + S r)%nat by lia.
      destruct (idx q (S r) A) as [-> ->]. reflexivity.
    - apply Nat.ltb_ge in A. assert (r = N - 1)%nat by lia. subst r.
      destruct (S (q * N + (N - 1)) <? m * N) eqn:B.
      + apply Nat.ltb_lt in B. unfold tiled.
        replace (S (q * N + (N - 1))) with (S q * N + 0)%nat by lia.
        destruct (idx (S q) 0 HN) as [-> ->]. rewrite cpow_S_r, <- cmul_assoc. reflexivity.
      + apply Nat.ltb_ge in B. assert (S q = m) by nia. subst m.
        unfold tiled. rewrite Nat.div_small by lia. rewrite Nat.mod_small by lia. cbn [cpow].
        rewrite cmul_1_l. rewrite (cmul_comm phi (cpow phi q)), <- cmul_assoc. reflexivity.
  Qed.

  (* backward neighbour: the left ghost of the big domain carries conj(phi)^m, of the unit cell conj(phi); here with an
     arbitrary left factor psi per period (psi = conj phi for Bloch, 1 for periodic): F is tiled with phi and psi*phi = 1 *)
  Variable psi : C.
  Hypothesis Hinv : cmul psi phi = c1.
  Lemma cpow_cancel q : cmul psi (cpow phi (S q)) = cpow phi q.
  Proof. cbn [cpow]. rewrite cmul_assoc, Hinv. apply cmul_1_l. Qed.
  Lemma cpow_psi_cancel k : cmul (cpow psi k) (cpow phi k) = c1.
  Proof.
    induction k as [|k IH]; [apply cmul_1_l|].
    cbn [cpow]. rewrite <- cmul_assoc. rewrite (cmul_comm (cpow psi k)), <- cmul_assoc, (cmul_assoc psi phi), Hinv, cmul_1_l.
    rewrite cmul_comm. exact IH.
  Qed.
  Theorem prv_tiled q r : (q < m)%nat -> (r < N)%nat ->
    prv K (m * N) (cpow psi m) tiled (q * N + r) = cmul (cpow phi q) (prv K N psi f r).
  Proof.
    intros Hq Hr. unfold prv.
    destruct r as [|r].
    - destruct q as [|q].
      + (* left ghost of the big domain *)
        cbn [Nat.mul Nat.add]. unfold tiled.
        replace (m * N - 1)%nat with ((m - 1) * N + (N - 1))%nat by nia.
        destruct (idx (m - 1) (N - 1) ltac:(lia)) as [-> ->].
        cbn [cpow]. rewrite cmul_1_l.
        replace m with (S (m - 1)) at 1 by lia. cbn [cpow].
        rewrite <- !cmul_assoc. f_equal. rewrite cmul_assoc. rewrite cpow_psi_cancel. apply cmul_1_l.
      + replace (S q * N + 0)%nat with (S (q * N + (N - 1))) by lia.
        unfold tiled. destruct (idx q (N - 1) ltac:(lia)) as [-> ->].
        rewrite (cmul_assoc (cpow phi (S q)) psi), (cmul_comm (cpow phi (S q)) psi), cpow_cancel. reflexivity.
    - replace (q * N + S r)%nat with (S (q * N + r)) by lia.
      unfold tiled. destruct (idx q r ltac:(lia)) as [-> ->]. reflexivity.
  Qed.
End Tile.
