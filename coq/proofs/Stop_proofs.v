(* Stop_proofs.v — C07 (stopping conditions stop exactly where documented) and C06 (run splitting / reset). *)
From Coq Require Import ZArith List Bool Lia.
From FV Require Import base.PyNum model.Loop model.Stop proofs.Loop_proofs.
Open Scope Z_scope.

Section StopProofs.
  Variable S : Type.
  Variable fwd : S -> S.
  Variable step_of : S -> Z.
  Hypothesis step_fwd : forall s, step_of (fwd s) = step_of s + 1.
  Notation iter := (iter S fwd).

  (* generic: a bounded while loop stops at the first state where the condition reports stop *)
  Lemma while_first fuel cond s :
    exists k, (k <= fuel)%nat /\ while_loop S fuel cond fwd s = iter k s /\
              (forall j, (j < k)%nat -> cond (iter j s) = true) /\ (k = fuel \/ cond (iter k s) = false).
  Proof.
    revert s. induction fuel as [|f IH]; intros s.
    - exists O. cbn. repeat split; [lia | intros j Hj; lia | left; reflexivity].
    - cbn [while_loop]. destruct (cond s) eqn:C.
      + destruct (IH (fwd s)) as (k & Hk & E & Hall & Hstop). exists (Datatypes.S k). repeat split.
        * lia.
        * exact E.
        * intros j Hj. destruct j as [|j]; [exact C | apply Hall; lia].
        * destruct Hstop as [->|Hs]; [left; reflexivity | right; exact Hs].
      + exists O. repeat split; [lia | intros j Hj; lia | right; exact C].
  Qed.

  (* C07: run with any stopping condition = plain run of k steps, k the first stop, never beyond the total *)
  Theorem stop_is_first T cond s0 : 0 <= T ->
    exists k, (k <= Z.to_nat T)%nat /\ run_until S fwd T cond s0 = iter k s0 /\
              (forall j, (j < k)%nat -> cond (iter j s0) = true) /\ (k = Z.to_nat T \/ cond (iter k s0) = false).
  Proof. intros _. unfold run_until. apply while_first. Qed.

  Lemma step_iter' n s : step_of (iter n s) = step_of s + Z.of_nat n.
  Proof. apply (step_iter S fwd step_of step_fwd). Qed.

  (* energy condition: never later than min(max_steps, total); an earlier stop happens only at or after min_steps with energy below threshold *)
  Theorem energy_cond_bounds T mn mx below s0 : 0 <= T -> step_of s0 = 0 ->
    exists k, run_until S fwd T (cond_energy S step_of mn mx below) s0 = iter k s0 /\
      Z.of_nat k <= Z.min (Z.max 0 mx) T /\
      (Z.of_nat k < Z.min (Z.max 0 mx) T -> mn <= Z.of_nat k /\ below (iter k s0) = true) /\
      (forall j, (j < k)%nat -> Z.of_nat j < mn \/ below (iter j s0) = false).
  Proof.
    intros HT H0. destruct (stop_is_first T (cond_energy S step_of mn mx below) s0 HT) as (k & Hk & E & Hall & Hstop).
    exists k. split; [exact E|].
    assert (Hmx: Z.of_nat k <= Z.max 0 mx).
    { destruct k as [|k]; [lia|]. specialize (Hall k ltac:(lia)). unfold cond_energy in Hall.
      apply andb_true_iff in Hall. destruct Hall as [A _]. apply Z.ltb_lt in A. rewrite step_iter', H0 in A. lia. }
    split; [lia|]. split.
    - intros Hlt. destruct Hstop as [->|Hs]; [lia|].
      unfold cond_energy in Hs. rewrite step_iter', H0 in Hs. cbn in Hs.
      apply andb_false_iff in Hs. destruct Hs as [Hs|Hs].
      + apply Z.ltb_ge in Hs. lia.
      + apply orb_false_iff in Hs. destruct Hs as [A B]. apply Z.ltb_ge in A. apply negb_false_iff in B. split; [lia | exact B].
    - intros j Hj. specialize (Hall j Hj). unfold cond_energy in Hall. rewrite step_iter', H0 in Hall. cbn in Hall.
      apply andb_true_iff in Hall. destruct Hall as [_ B]. apply orb_true_iff in B. destruct B as [B|B].
      + left. apply Z.ltb_lt in B. lia.
      + right. apply negb_true_iff in B. exact B.
  Qed.

  Theorem detector_cond_bounds T mn mx conv s0 : 0 <= T -> step_of s0 = 0 ->
    exists k, run_until S fwd T (cond_detector S step_of mn mx conv) s0 = iter k s0 /\
      Z.of_nat k <= Z.min (Z.max 0 mx) T /\
      (Z.of_nat k < Z.min (Z.max 0 mx) T -> mn <= Z.of_nat k /\ conv (iter k s0) = true) /\
      (forall j, (j < k)%nat -> Z.of_nat j < mn \/ conv (iter j s0) = false).
  Proof.
    intros HT H0. destruct (stop_is_first T (cond_detector S step_of mn mx conv) s0 HT) as (k & Hk & E & Hall & Hstop).
    exists k. split; [exact E|].
    assert (Hmx: Z.of_nat k <= Z.max 0 mx).
    { destruct k as [|k]; [lia|]. specialize (Hall k ltac:(lia)). unfold cond_detector in Hall.
      apply andb_true_iff in Hall. destruct Hall as [A _]. apply Z.ltb_lt in A. rewrite step_iter', H0 in A. lia. }
    split; [lia|]. split.
    - intros Hlt. destruct Hstop as [->|Hs]; [lia|].
      unfold cond_detector in Hs. rewrite step_iter', H0 in Hs. cbn in Hs.
      apply andb_false_iff in Hs. destruct Hs as [Hs|Hs].
      + apply Z.ltb_ge in Hs. lia.
      + apply orb_false_iff in Hs. destruct Hs as [A B]. apply negb_false_iff in A. apply Z.leb_le in A. apply negb_false_iff in B. split; [lia | exact B].
    - intros j Hj. specialize (Hall j Hj). unfold cond_detector in Hall. rewrite step_iter', H0 in Hall. cbn in Hall.
      apply andb_true_iff in Hall. destruct Hall as [_ B]. apply orb_true_iff in B. destruct B as [B|B].
      + left. apply negb_true_iff in B. apply Z.leb_gt in B. lia.
      + right. apply negb_true_iff in B. exact B.
  Qed.

  (* ---------- explicit zero bounds survive setup() ---------- *)
  Theorem explicit_zero_max_stops_at_once T mn d below s0 : 0 <= T -> step_of s0 = 0 ->
    run_until S fwd T (cond_energy S step_of mn (setup_bound (Some 0) d) below) s0 = s0
    /\ run_until S fwd T (cond_detector S step_of mn (setup_bound (Some 0) d) below) s0 = s0.
  Proof.
    intros HT H0. split.
    - destruct (energy_cond_bounds T mn (setup_bound (Some 0) d) below s0 HT H0) as (k & E & Hk & _).
      cbn [setup_bound] in *. assert (k = 0%nat) as -> by lia. exact E.
    - destruct (detector_cond_bounds T mn (setup_bound (Some 0) d) below s0 HT H0) as (k & E & Hk & _).
      cbn [setup_bound] in *. assert (k = 0%nat) as -> by lia. exact E.
  Qed.
  Theorem explicit_zero_min_checks_from_start T d mx below s0 : 0 <= T -> step_of s0 = 0 -> below s0 = true ->
    run_until S fwd T (cond_energy S step_of (setup_bound (Some 0) d) mx below) s0 = s0
    /\ run_until S fwd T (cond_detector S step_of (setup_bound (Some 0) d) mx below) s0 = s0.
  Proof.
    intros HT H0 Hb. split.
    - destruct (energy_cond_bounds T (setup_bound (Some 0) d) mx below s0 HT H0) as (k & E & _ & _ & Hall).
      cbn [setup_bound] in *. destruct k as [|k]; [exact E|].
      destruct (Hall 0%nat ltac:(lia)) as [A|A]; [lia | cbn in A; congruence].
    - destruct (detector_cond_bounds T (setup_bound (Some 0) d) mx below s0 HT H0) as (k & E & _ & _ & Hall).
      cbn [setup_bound] in *. destruct k as [|k]; [exact E|].
      destruct (Hall 0%nat ltac:(lia)) as [A|A]; [lia | cbn in A; congruence].
  Qed.

  (* ---------- C06: splitting a run ---------- *)
  Lemma run_between_spec T e s : run_between S fwd step_of T e s = iter (Nat.min (Z.to_nat T) (Z.to_nat (e - step_of s))) s.
  Proof. unfold run_between. apply (while_upto S fwd step_of step_fwd). Qed.

  Theorem run_split T a b s0 : step_of s0 = 0 -> 0 <= a <= b -> b <= T ->
    run_between S fwd step_of T b (run_between S fwd step_of T a s0) = iter (Z.to_nat b) s0
    /\ run_between S fwd step_of T b s0 = iter (Z.to_nat b) s0.
  Proof.
    intros H0 Hab HbT. rewrite !run_between_spec, H0.
    replace (Nat.min (Z.to_nat T) (Z.to_nat (a - 0))) with (Z.to_nat a) by lia.
    rewrite step_iter', H0.
    replace (Nat.min (Z.to_nat T) (Z.to_nat (b - (0 + Z.of_nat (Z.to_nat a))))) with (Z.to_nat b - Z.to_nat a)%nat by lia.
    replace (Nat.min (Z.to_nat T) (Z.to_nat (b - 0))) with (Z.to_nat b) by lia.
    split; [|reflexivity].
    rewrite <- (iter_plus S fwd). f_equal. lia.
  Qed.
End StopProofs.

(* the snapshot's detector condition ignores max_steps: with no convergence it runs to the total *)
Theorem detector_cond_src_old_refuted :
  exists T mn mx, mx < T /\
    run_until Z Z.succ T (cond_detector_src_old Z (fun s => s) T mn mx (fun _ => false)) 0 = T.
Proof. exists 60, 18, 30. split; [reflexivity | vm_compute; reflexivity]. Qed.

(* ---------- C06: reset ---------- *)
Section ResetProofs.
  Variables M D : Type.
  Variable d0 : D.
  Variable g : M -> D -> D.                      (* one forward step never changes the materials *)
  Definition fwdMD (s : M * D) : M * D := (fst s, g (fst s) (snd s)).
  Lemma reset_idem (s : M * D) : reset d0 (reset d0 s) = reset d0 s.
  Proof. reflexivity. Qed.
  Lemma reset_materials (s : M * D) : fst (reset d0 s) = fst s.
  Proof. reflexivity. Qed.
  Lemma iter_materials n s : fst (iter (M * D) fwdMD n s) = fst s.
  Proof. revert s; induction n as [|n IH]; intros s; cbn; [reflexivity|]. rewrite IH. reflexivity. Qed.
  (* runs started from the reset of any two containers with the same materials coincide: in particular a re-run from
     the arrays returned by a previous run equals the first run *)
  Theorem rerun_same n s s' : fst s = fst s' ->
    iter (M * D) fwdMD n (reset d0 s) = iter (M * D) fwdMD n (reset d0 s').
  Proof. intros E. unfold reset. rewrite E. reflexivity. Qed.
  Corollary rerun_after_run n m s :
    iter (M * D) fwdMD n (reset d0 (iter (M * D) fwdMD m (reset d0 s))) = iter (M * D) fwdMD n (reset d0 s).
  Proof. apply rerun_same. rewrite iter_materials. reflexivity. Qed.
End ResetProofs.
