(* Pml_proofs.v — C12 (structural part): CPML coefficient profiles. *)
From Coq Require Import List Arith Bool Lia Field Ring.
From FV Require Import base.Scalar base.Order model.Pml.
Local Open Scope fld_scope.

Section PmlProofs.
  Variable K : OFld.
  Add Field KFp : (Fth K).
  Local Notation "x <= y" := (fle K x y) : fld_scope.
  Variables pw pw2 pw3 ex : car K -> car K.
  Hypothesis pw_0 : pw 0 = 0.

  Lemma zero_div x : (0 : K) / x = 0.
  Proof. rewrite (Fdiv_def (Fth K)). ring. Qed.

  (* the interface row has depth 0 for E and H, on both sides *)
  Lemma depth_iface minus L : (1 <= L)%nat -> dE K minus L (iface_idx minus L) = 0 /\ dH K minus L (iface_idx minus L) = 0.
  Proof.
    intros HL. unfold dE, dH, iface_idx. destruct minus.
    - replace (L - 1 - (L - 1))%nat with O by lia. replace (S (L - 1) <? L) with false by (symmetry; apply Nat.ltb_ge; lia). split; reflexivity.
    - split; reflexivity.
  Qed.

  (* default grading (sigma_start = 0): no loss on the interface row, hence a = 0 there (the hypothesis of C03) *)
  Theorem a_zero_at_interface (p : pml_params K) minus L : (1 <= L)%nat -> s0 K p = 0 ->
    aE K pw ex pw2 pw3 p minus L (iface_idx minus L) = 0 /\ aH K pw ex pw2 pw3 p minus L (iface_idx minus L) = 0.
  Proof.
    intros HL Hs. destruct (depth_iface minus L HL) as [A B].
    unfold aE, aH, sigE, sigH, profile. rewrite A, B, Hs, zero_div, pw_0. unfold coef_a.
    split; rewrite !(Fdiv_def (Fth K)); ring.
  Qed.

  Hypothesis ex_range : forall x, 0 <= x -> 0 <= ex (- x) /\ ex (- x) <= 1 /\ ex (- x) <> 0.

  Theorem b_in_unit dte s k al : 0 <= dte -> 0 <= s -> 0 <= k -> k <> 0 -> 0 <= al ->
    0 <= coef_b K ex dte s k al /\ coef_b K ex dte s k al <= 1 /\ coef_b K ex dte s k al <> 0.
  Proof.
    intros Hd Hs Hk Hk0 Ha. unfold coef_b. apply ex_range.
    apply fle_mul; [exact Hd|]. replace (0 : K) with ((0 : K) + 0) by ring. apply fle_add2; [apply div_nonneg; assumption | exact Ha].
  Qed.

  Theorem a_nonpos b s k al : b <= 1 -> 0 <= s -> 0 <= k -> k <> 0 -> 0 <= al -> s + al * k <> 0 ->
    coef_a K b s k al <= 0.
  Proof.
    intros Hb Hs Hk Hk0 Ha Hden. unfold coef_a.
    assert (H1: 0 <= 1 - b).
    { pose proof (fle_add K _ _ (- b) Hb) as A. replace (b + - b) with (0 : K) in A by ring. replace (1 + - b) with (1 - b) in A by ring. exact A. }
    assert (Hden0: 0 <= s + al * k) by (replace (0 : K) with ((0 : K) + 0) by ring; apply fle_add2; [exact Hs | apply fle_mul; assumption]).
    replace ((b - 1) * s / (s + al * k) / k) with (- ((1 - b) * s / (s + al * k) / k)) by (field; split; assumption).
    apply fle_opp. apply div_nonneg; [apply div_nonneg; [apply fle_mul; assumption | exact Hden0 | exact Hden] | exact Hk | exact Hk0].
  Qed.

  (* grading profiles are non-decreasing in depth when the power is monotone *)
  Hypothesis pw_mono : forall x y, 0 <= x -> x <= y -> pw x <= pw y.
  Theorem profile_monotone vs ve L d1 d2 : vs <= ve -> 0 <= natK K L -> natK K L <> 0 -> 0 <= d1 -> d1 <= d2 ->
    profile K pw vs ve L d1 <= profile K pw vs ve L d2.
  Proof.
    intros Hv HL HL0 H1 H12. unfold profile.
    assert (Hq: pw (d1 / natK K L) <= pw (d2 / natK K L)).
    { apply pw_mono; [apply div_nonneg; assumption|]. rewrite !(Fdiv_def (Fth K)).
      pose proof (inv_nonneg K _ HL HL0) as Hi.
      assert (D: 0 <= d2 - d1).
      { pose proof (fle_add K _ _ (- d1) H12) as A. replace (d1 + - d1) with (0 : K) in A by ring. replace (d2 + - d1) with (d2 - d1) in A by ring. exact A. }
      pose proof (fle_mul K _ _ D Hi) as M.
      pose proof (fle_add K _ _ (d1 * / natK K L) M) as A.
      replace (0 + d1 * / natK K L) with (d1 * / natK K L) in A by ring.
      replace ((d2 - d1) * / natK K L + d1 * / natK K L) with (d2 * / natK K L) in A by ring. exact A. }
    assert (Dv: 0 <= ve - vs).
    { pose proof (fle_add K _ _ (- vs) Hv) as A. replace (vs + - vs) with (0 : K) in A by ring. replace (ve + - vs) with (ve - vs) in A by ring. exact A. }
    assert (Dq: 0 <= pw (d2 / natK K L) - pw (d1 / natK K L)).
    { pose proof (fle_add K _ _ (- pw (d1 / natK K L)) Hq) as A. replace (pw (d1 / natK K L) + - pw (d1 / natK K L)) with (0 : K) in A by ring.
      replace (pw (d2 / natK K L) + - pw (d1 / natK K L)) with (pw (d2 / natK K L) - pw (d1 / natK K L)) in A by ring. exact A. }
    pose proof (fle_mul K _ _ Dv Dq) as M.
    pose proof (fle_add K _ _ (vs + (ve - vs) * pw (d1 / natK K L)) M) as A.
    replace (0 + (vs + (ve - vs) * pw (d1 / natK K L))) with (vs + (ve - vs) * pw (d1 / natK K L)) in A by ring.
    replace ((ve - vs) * (pw (d2 / natK K L) - pw (d1 / natK K L)) + (vs + (ve - vs) * pw (d1 / natK K L))) with (vs + (ve - vs) * pw (d2 / natK K L)) in A by ring.
    exact A.
  Qed.
End PmlProofs.
