(* Yee_full_reverse.v — C02 for the fully anisotropic LOSSLESS tiers of model/YeeFull.v: one backward step exactly undoes one
   forward step, for any (also non-symmetric) 3x3 inverse permittivity and / or inverse permeability tensor field, any source
   terms, ghost factors, 0/1 wall masks and wall-compatible state; the tier that is not full is the iso / diagonal tier of
   model/Yee.v (with its conductivities, 1 +- f <> 0).  PML-free scenes. *)
From Coq Require Import List Arith Lia Field Ring.
From FV Require Import base.Scalar base.Cplx base.Sums model.Yee model.YeeExec model.YeeFull proofs.Yee_reverse.
Import ListNotations.
Local Open Scope fld_scope.

Section FullReverse.
  Variable K : Fld.
  Add Field KFfr : (Fth K).
  Variable sc : scene K.
  Notation C := (C K).
  Hypothesis RS : reversible_scene K sc.
  Notation veq := (veq_box K sc).
  Notation inbx := (inb K sc).

  (* ---- in-box extensionality of the shifted reads, the averages and the tensor rows ---- *)
  Definition aeq (f g : A3 K) : Prop := forall i j k, inbx i j k -> f i j k = g i j k.
  Lemma nxt_ext n hi (f g : nat -> C) i : (i < n)%nat -> (forall q, (q < n)%nat -> f q = g q) -> nxt K n hi f i = nxt K n hi g i.
  Proof. intros Hi H. unfold nxt. destruct (S i <? n) eqn:E; [apply Nat.ltb_lt in E; rewrite H by exact E | rewrite H by lia]; reflexivity. Qed.
  Lemma shp_ext a f g : aeq f g -> aeq (shp K sc a f) (shp K sc a g).
  Proof.
    intros H i j k (Hi & Hj & Hk). destruct a as [|[|a]]; cbn [shp]; apply nxt_ext; try assumption; intros q Hq; apply H; repeat split; assumption.
  Qed.
  Lemma shm_ext a f g : aeq f g -> aeq (shm K sc a f) (shm K sc a g).
  Proof.
    intros H i j k (Hi & Hj & Hk). destruct a as [|[|a]]; cbn [shm]; apply (prv_ext K); try assumption; intros q Hq; apply H; repeat split; assumption.
  Qed.
  Lemma avgE_ext f g c l : aeq f g -> aeq (avgE K sc f c l) (avgE K sc g c l).
  Proof.
    intros H i j k Hb. unfold avgE. rewrite (H i j k Hb), (shp_ext l f g H i j k Hb), (shm_ext c f g H i j k Hb).
    rewrite (shp_ext l _ _ (shm_ext c f g H) i j k Hb). reflexivity.
  Qed.
  Lemma avgH_ext f g c l : aeq f g -> aeq (avgH K sc f c l) (avgH K sc g c l).
  Proof.
    intros H i j k Hb. unfold avgH. rewrite (H i j k Hb), (shm_ext l f g H i j k Hb), (shp_ext c f g H i j k Hb).
    rewrite (shm_ext l _ _ (shp_ext c f g H) i j k Hb). reflexivity.
  Qed.
  Lemma comp_ext u v r : veq u v -> aeq (comp K u r) (comp K v r).
  Proof. intros H i j k Hb. destruct (H i j k Hb) as (a & b & c). destruct r as [|[|r]]; cbn [comp]; assumption. Qed.
  Lemma tvec_ext avg T u v : (forall f g c l, aeq f g -> aeq (avg f c l) (avg g c l)) -> veq u v -> veq (tvec K sc avg T u) (tvec K sc avg T v).
  Proof.
    intros Havg H i j k Hb.
    assert (L : forall r s, at_loc K avg u r s i j k = at_loc K avg v r s i j k).
    { intros r s. unfold at_loc. destruct (Nat.eqb r s); [apply (comp_ext u v r H i j k Hb) | apply (Havg _ _ s r (comp_ext u v s H) i j k Hb)]. }
    unfold tvec, trow; cbn [vx vy vz]. rewrite !L. repeat split.
  Qed.

  (* ---- cell identities of the full tiers ---- *)
  Lemma Efull_cell (m : car K) (e x j : C) : (m = 0 \/ m = 1) -> (m = 0 -> e = c0) ->
    cscal m (csub (csub (cscal m (cadd (cadd e x) j)) j) x) = e.
  Proof.
    intros [-> | ->] Hw.
    - rewrite (Hw eq_refl). unfold cscal, Cplx.c0; cbn [fst snd]. f_equal; ring.
    - destruct e, x, j. unfold cscal, cadd, csub; cbn [fst snd]. f_equal; ring.
  Qed.
  Lemma Hfull_cell (m : car K) (h x j : C) : (m = 0 \/ m = 1) -> (m = 0 -> h = c0) ->
    cscal m (cadd (csub (cscal m (cadd (csub h x) j)) j) x) = h.
  Proof.
    intros [-> | ->] Hw.
    - rewrite (Hw eq_refl). unfold cscal, Cplx.c0; cbn [fst snd]. f_equal; ring.
    - destruct h, x, j. unfold cscal, cadd, csub; cbn [fst snd]. f_equal; ring.
  Qed.

  Lemma cH sim H psi : curlH K sc sim H psi = (curlH_raw K sc H, psi).
  Proof. unfold curlH. rewrite (rs_pml K sc RS). reflexivity. Qed.
  Lemma cE sim E psi : curlE K sc sim E psi = (curlE_raw K sc E, psi).
  Proof. unfold curlE. rewrite (rs_pml K sc RS). reflexivity. Qed.

  (* the two half steps, as field equations *)
  Lemma upd_E_fH sim ie9 s : fH (upd_E K sc sim ie9 s) = fH s.
  Proof. destruct ie9; cbn [upd_E]; [unfold update_E_full | unfold update_E]; rewrite cH; reflexivity. Qed.
  Lemma upd_E_t sim ie9 s : tstep (upd_E K sc sim ie9 s) = tstep s.
  Proof. destruct ie9; cbn [upd_E]; [unfold update_E_full | unfold update_E]; rewrite cH; reflexivity. Qed.
  Lemma upd_H_fE sim im9 s : fE (upd_H K sc sim im9 s) = fE s.
  Proof. destruct im9; cbn [upd_H]; [unfold update_H_full | unfold update_H]; rewrite cE; reflexivity. Qed.
  Lemma rev_H_fE t im9 s : fE (rev_H K sc t im9 s) = fE s.
  Proof. destruct im9; cbn [rev_H]; [unfold update_H_rev_full | unfold update_H_rev]; rewrite cE; reflexivity. Qed.
  Lemma rev_E_fH t ie9 s : fH (rev_E K sc t ie9 s) = fH s.
  Proof. destruct ie9; cbn [rev_E]; [unfold update_E_rev_full | unfold update_E_rev]; rewrite cH; reflexivity. Qed.

  Notation fwd := (forward_full K sc).
  Notation bwd := (backward_full K sc).

  Lemma fE_fwd ie9 im9 s : fE (fwd ie9 im9 s) = fE (upd_E K sc true ie9 s).
  Proof. unfold forward_full. cbn [fE]. apply upd_H_fE. Qed.
  Lemma fH_fwd ie9 im9 s : fH (fwd ie9 im9 s) = fH (upd_H K sc true im9 (upd_E K sc true ie9 s)).
  Proof. reflexivity. Qed.
  Lemma fH_bwd ie9 im9 s : fH (bwd ie9 im9 s) = fH (rev_H K sc (Nat.pred (tstep s)) im9 s).
  Proof. unfold backward_full. cbn [fH]. apply rev_E_fH. Qed.
  Lemma fE_bwd ie9 im9 s : fE (bwd ie9 im9 s) = fE (rev_E K sc (Nat.pred (tstep s)) ie9 (rev_H K sc (Nat.pred (tstep s)) im9 s)).
  Proof. reflexivity. Qed.

  (* ---- H is restored ---- *)
  Theorem backward_forward_full_H ie9 im9 s : wall_compatible K sc s -> veq (fH (bwd ie9 im9 (fwd ie9 im9 s))) (fH s).
  Proof.
    intros [WE WH] i j k Hb. rewrite fH_bwd. change (tstep (fwd ie9 im9 s)) with (S (tstep s)). cbn [Nat.pred].
    destruct (rs_mH K sc RS i j k Hb) as (q1 & q2 & q3). destruct (WH i j k Hb) as (w1 & w2 & w3).
    set (s1 := upd_E K sc true ie9 s).
    assert (E1 : fE (fwd ie9 im9 s) = fE s1) by apply fE_fwd.
    assert (T1 : tstep s1 = tstep s) by apply upd_E_t.
    assert (H1 : fH s1 = fH s) by apply upd_E_fH.
    destruct im9 as [T|].
    - (* full permeability tier *)
      cbn [rev_H]. unfold update_H_rev_full. rewrite cE. cbn [fH fE]. rewrite E1.
      assert (F : fH (fwd ie9 (Some T) s) = vmask K (mH K sc) (vadd K (vsub K (fH s) (tvec K sc (avgH K sc) T (curlE_raw K sc (fE s1)))) (injH K sc (tstep s)))).
      { rewrite fH_fwd. fold s1. cbn [upd_H]. unfold update_H_full. rewrite cE. cbn [fH]. rewrite H1, T1. reflexivity. }
      rewrite F. unfold vmask, vadd, vsub, vmap2; cbn [vx vy vz].
      repeat split; apply Hfull_cell; assumption.
    - (* iso / diagonal permeability tier: the cell identity of Yee_reverse.v *)
      destruct (rs_fH K sc RS i j k Hb) as ((a1 & a2) & (b1 & b2) & (c1 & c2)).
      cbn [rev_H]. unfold update_H_rev. rewrite cE. cbn [fH fE]. rewrite E1.
      assert (F : fH (fwd ie9 None s) = fH (update_H K sc true s1)) by (rewrite fH_fwd; reflexivity).
      rewrite F. unfold update_H. rewrite cE. cbn [fH]. rewrite H1, T1.
      unfold vmask, vadd, vsub, vmap2, revH1, updH1; cbn [vx vy vz].
      repeat split; apply (H_rev_cell K sc); assumption.
  Qed.

  (* ---- E is restored ---- *)
  Theorem backward_forward_full_E ie9 im9 s : wall_compatible K sc s -> veq (fE (bwd ie9 im9 (fwd ie9 im9 s))) (fE s).
  Proof.
    intros W i j k Hb. pose proof (backward_forward_full_H ie9 im9 s W) as HH. destruct W as [WE WH].
    rewrite fE_bwd. change (tstep (fwd ie9 im9 s)) with (S (tstep s)). cbn [Nat.pred].
    set (sH := rev_H K sc (tstep s) im9 (fwd ie9 im9 s)).
    assert (EH : fE sH = fE (fwd ie9 im9 s)) by apply rev_H_fE.
    assert (HHs : veq (fH sH) (fH s)).
    { intros a b c Hb'. pose proof (HH a b c Hb') as X. rewrite fH_bwd in X. change (tstep (fwd ie9 im9 s)) with (S (tstep s)) in X. exact X. }
    destruct (rs_mE K sc RS i j k Hb) as (q1 & q2 & q3). destruct (WE i j k Hb) as (w1 & w2 & w3).
    pose proof (curlH_raw_ext K sc _ _ HHs) as CK.
    destruct ie9 as [T|].
    - cbn [rev_E]. unfold update_E_rev_full. rewrite cH. cbn [fE]. rewrite EH, fE_fwd. cbn [upd_E]. unfold update_E_full. rewrite cH. cbn [fE].
      destruct (tvec_ext (avgE K sc) T _ _ avgE_ext CK i j k Hb) as (t1 & t2 & t3).
      unfold vmask, vadd, vsub, vmap2; cbn [vx vy vz]. rewrite t1, t2, t3.
      repeat split; apply Efull_cell; assumption.
    - destruct (rs_fE K sc RS i j k Hb) as ((a1 & a2) & (b1 & b2) & (c1 & c2)).
      cbn [rev_E]. unfold update_E_rev. rewrite cH. cbn [fE]. rewrite EH, fE_fwd. cbn [upd_E]. unfold update_E. rewrite cH. cbn [fE].
      destruct (CK i j k Hb) as (c1' & c2' & c3').
      unfold vmask, vadd, vsub, vmap2, revE1, updE1; cbn [vx vy vz]. rewrite c1', c2', c3'.
      repeat split; apply (E_rev_cell K sc); assumption.
  Qed.

  Theorem backward_forward_full_id ie9 im9 s : wall_compatible K sc s ->
    let s' := bwd ie9 im9 (fwd ie9 im9 s) in tstep s' = tstep s /\ veq (fE s') (fE s) /\ veq (fH s') (fH s).
  Proof. intros W. cbv zeta. split; [reflexivity|]. split; [apply backward_forward_full_E | apply backward_forward_full_H]; exact W. Qed.
End FullReverse.
