(* Place_refuted.v — the solver AS WRITTEN (early exit, [early = true]) accepts systems whose constraints
   are violated, and whether it does depends on the order of the constraint list. *)
From Coq Require Import ZArith List Bool Lia.
From FV Require Import model.Place model.PlaceSpec.
Import ListNotations.
Open Scope Z_scope.

(* volume 20^3 (object 0), A (object 1) and B (object 2) of declared grid shape 4^3 *)
Definition wit_env : env :=
  Build_env 1 [20; 20; 20] 0%nat [0%nat; 1%nat; 2%nat]
    [[SGrid 20; SGrid 20; SGrid 20]; [SGrid 4; SGrid 4; SGrid 4]; [SGrid 4; SGrid 4; SGrid 4]].
(* C1: A occupies (3,7) on every axis *)
Definition wit_C1 : constr :=
  CGrid 1 [(0%nat, false, 3); (0%nat, true, 7); (1%nat, false, 3); (1%nat, true, 7); (2%nat, false, 3); (2%nat, true, 7)].
(* C2: A's lower side (position -1) touches B's upper side (position +1) *)
Definition wit_C2 : constr := CPos 1 2 [(0%nat, -1, 1, 0, 0); (1%nat, -1, 1, 0, 0); (2%nat, -1, 1, 0, 0)].
(* C3: B is centred in the volume: B = (8,12) *)
Definition wit_C3 : constr := CPos 2 0 [(0%nat, 0, 0, 0, 0); (1%nat, 0, 0, 0, 0); (2%nat, 0, 0, 0, 0)].

Lemma wit_grid_ok : grid_ok wit_env.
Proof. intros [|[|[|[|a]]]]; cbn; lia. Qed.

(* order (C2, C1, C3): accepted, although C2 is violated (A.lower = 3, B.upper = 12) *)
Lemma src_old_accepts_violation :
  exists st, resolve true wit_env [wit_C2; wit_C1; wit_C3] 1000 = (st, [], true) /\
             ~ Forall (holds wit_env st) [wit_C2; wit_C1; wit_C3].
Proof.
  eexists. split; [vm_compute; reflexivity|].
  intros HF. inversion HF as [|c r Hc _]; subst. cbn [holds wit_C2] in Hc.
  inversion Hc as [|y r' Hy _]; subst. unfold holds_pos in Hy.
  specialize (Hy 8 12 4 eq_refl eq_refl eq_refl).
  destruct Hy as (l & h & b0 & El & Eh & _ & Hlo & _ & (_ & Hmin & _)).
  vm_compute in El, Eh, Hlo. inversion El; inversion Eh; inversion Hlo; subst l h b0.
  specialize (Hmin 12 ltac:(cbn; lia)). vm_compute in Hmin. apply Hmin. reflexivity.
Qed.

(* the same system with the constraint list in the order (C1, C3, C2) is rejected *)
Lemma src_old_order_dependent :
  exists st st' errs', resolve true wit_env [wit_C2; wit_C1; wit_C3] 1000 = (st, [], true) /\
                       resolve true wit_env [wit_C1; wit_C3; wit_C2] 1000 = (st', errs', true) /\ errs' <> [].
Proof. do 3 eexists. split; [vm_compute; reflexivity|]. split; [vm_compute; reflexivity|]. discriminate. Qed.

(* one object with declared grid shape 4 and grid coordinates (3,9): accepted with size 6 *)
Definition wit1_env : env :=
  Build_env 1 [20; 20; 20] 0%nat [0%nat; 1%nat] [[SGrid 20; SGrid 20; SGrid 20]; [SGrid 4; SGrid 4; SGrid 4]].
Definition wit1_C : constr :=
  CGrid 1 [(0%nat, false, 3); (0%nat, true, 9); (1%nat, false, 3); (1%nat, true, 9); (2%nat, false, 3); (2%nat, true, 9)].
Lemma src_old_accepts_wrong_size :
  exists st, resolve true wit1_env [wit1_C] 1000 = (st, [], true) /\
             static_shape wit1_env 1 0 = Some 4 /\ get st (vlo 1 0) = Some 3 /\ get st (vhi 1 0) = Some 9 /\
             ~ resolved_obj wit1_env st 1%nat.
Proof.
  eexists. split; [vm_compute; reflexivity|]. repeat split; try reflexivity.
  intros HR. destruct (HR 0%nat ltac:(cbn; auto)) as (lo & hi & H1 & H2 & H3).
  vm_compute in H1, H2, H3. inversion H1; inversion H2; subst. inversion H3.
Qed.

(* the repaired loop rejects all three *)
Lemma repaired_rejects :
  (exists st errs, resolve false wit_env [wit_C2; wit_C1; wit_C3] 1000 = (st, errs, true) /\ errs <> []) /\
  (exists st errs, resolve false wit_env [wit_C1; wit_C3; wit_C2] 1000 = (st, errs, true) /\ errs <> []) /\
  (exists st errs, resolve false wit1_env [wit1_C] 1000 = (st, errs, true) /\ errs <> []).
Proof. repeat split; do 2 eexists; (split; [vm_compute; reflexivity|discriminate]). Qed.
