(* Yee_real.v — C11: complex storage reproduces real runs.  With ghost factors of zero imaginary part
   (no Bloch phase) and real initial data / source injections, every imaginary part stays zero; the complex
   model then *is* the real-valued run (same definitions applied to pairs (x, 0)). *)
From Coq Require Import List Arith Lia Field Ring.
From FV Require Import base.Scalar base.Cplx model.Yee proofs.Yee_steps.
Import ListNotations.
Local Open Scope fld_scope.

Section Real.
  Variable K : Fld.
  Add Field KFre : (Fth K).
  Notation C := (C K).
  Variable sc : scene K.
  Definition realC (z : C) : Prop := snd z = 0.
  Definition realV (v : V3 K) : Prop := forall i j k, realC (vx v i j k) /\ realC (vy v i j k) /\ realC (vz v i j k).

  Hypothesis Hpml : pmls K sc = [].
  Hypothesis Ghost : realC (hix K sc) /\ realC (hiy K sc) /\ realC (hiz K sc) /\ realC (lox K sc) /\ realC (loy K sc) /\ realC (loz K sc).

  Lemma nxt_real n hi (f : nat -> C) i : realC hi -> (forall q, realC (f q)) -> realC (nxt K n hi f i).
  Proof. intros Hh Hf. unfold nxt. destruct (S i <? n); [apply Hf|]. unfold realC, cmul in *; cbn. rewrite Hh, (Hf O). ring. Qed.
  Lemma prv_real n lo (f : nat -> C) i : realC lo -> (forall q, realC (f q)) -> realC (prv K n lo f i).
  Proof. intros Hh Hf. unfold prv. destruct i; [|apply Hf]. unfold realC, cmul in *; cbn. rewrite Hh, (Hf (n - 1)%nat). ring. Qed.

  Ltac re := unfold realC, cadd, csub, cscal, cdivr in *; cbn [fst snd] in *; rewrite ?(Fdiv_def (Fth K)).

  Lemma curlH_real H : realV H -> realV (curlH_raw K sc H).
  Proof.
    intros R i j k. destruct Ghost as (g1 & g2 & g3 & g4 & g5 & g6).
    destruct (R i j k) as (r1 & r2 & r3).
    pose proof (prv_real (ny K sc) (loy K sc) (fun a => vz H i a k) j g5 (fun q => proj2 (proj2 (R i q k)))) as p1.
    pose proof (prv_real (nz K sc) (loz K sc) (fun a => vy H i j a) k g6 (fun q => proj1 (proj2 (R i j q)))) as p2.
    pose proof (prv_real (nz K sc) (loz K sc) (fun a => vx H i j a) k g6 (fun q => proj1 (R i j q))) as p3.
    pose proof (prv_real (nx K sc) (lox K sc) (fun a => vz H a j k) i g4 (fun q => proj2 (proj2 (R q j k)))) as p4.
    pose proof (prv_real (nx K sc) (lox K sc) (fun a => vy H a j k) i g4 (fun q => proj1 (proj2 (R q j k)))) as p5.
    pose proof (prv_real (ny K sc) (loy K sc) (fun a => vx H i a k) j g5 (fun q => proj1 (R i q k))) as p6.
    unfold curlH_raw, dmx, dmy, dmz; cbn [vx vy vz]. re.
    repeat split; rewrite ?r1, ?r2, ?r3, ?p1, ?p2, ?p3, ?p4, ?p5, ?p6; ring.
  Qed.
  Lemma curlE_real E : realV E -> realV (curlE_raw K sc E).
  Proof.
    intros R i j k. destruct Ghost as (g1 & g2 & g3 & g4 & g5 & g6).
    destruct (R i j k) as (r1 & r2 & r3).
    pose proof (nxt_real (ny K sc) (hiy K sc) (fun a => vz E i a k) j g2 (fun q => proj2 (proj2 (R i q k)))) as p1.
    pose proof (nxt_real (nz K sc) (hiz K sc) (fun a => vy E i j a) k g3 (fun q => proj1 (proj2 (R i j q)))) as p2.
    pose proof (nxt_real (nz K sc) (hiz K sc) (fun a => vx E i j a) k g3 (fun q => proj1 (R i j q))) as p3.
    pose proof (nxt_real (nx K sc) (hix K sc) (fun a => vz E a j k) i g1 (fun q => proj2 (proj2 (R q j k)))) as p4.
    pose proof (nxt_real (nx K sc) (hix K sc) (fun a => vy E a j k) i g1 (fun q => proj1 (proj2 (R q j k)))) as p5.
    pose proof (nxt_real (ny K sc) (hiy K sc) (fun a => vx E i a k) j g2 (fun q => proj1 (R i q k))) as p6.
    unfold curlE_raw, dpx, dpy, dpz; cbn [vx vy vz]. re.
    repeat split; rewrite ?r1, ?r2, ?r3, ?p1, ?p2, ?p3, ?p4, ?p5, ?p6; ring.
  Qed.

  Lemma stepE_real J E H : realV J -> realV E -> realV H -> realV (stepE K sc J E H).
  Proof.
    intros RJ RE RH i j k. destruct (curlH_real H RH i j k) as (c1 & c2 & c3).
    destruct (RJ i j k) as (j1 & j2 & j3). destruct (RE i j k) as (e1 & e2 & e3).
    unfold stepE, vmask, vadd, vmap2, updE1; cbn [vx vy vz]. re.
    repeat split; rewrite ?c1, ?c2, ?c3, ?j1, ?j2, ?j3, ?e1, ?e2, ?e3; ring.
  Qed.
  Lemma stepH_real J E H : realV J -> realV E -> realV H -> realV (stepH K sc J E H).
  Proof.
    intros RJ RE RH i j k. destruct (curlE_real E RE i j k) as (c1 & c2 & c3).
    destruct (RJ i j k) as (j1 & j2 & j3). destruct (RH i j k) as (e1 & e2 & e3).
    unfold stepH, vmask, vadd, vmap2, updH1; cbn [vx vy vz]. re.
    repeat split; rewrite ?c1, ?c2, ?c3, ?j1, ?j2, ?j3, ?e1, ?e2, ?e3; ring.
  Qed.

  Hypothesis InjReal : forall t, realV (injE K sc t) /\ realV (injH K sc t).

  Theorem forward_real s : realV (fE s) -> realV (fH s) -> realV (fE (forward K sc s)) /\ realV (fH (forward K sc s)).
  Proof.
    intros RE RH. destruct (forward_steps K sc Hpml s) as (e & h & _).
    assert (A: realV (fE (forward K sc s))) by (rewrite e; apply stepE_real; [apply InjReal | exact RE | exact RH]).
    split; [exact A|]. rewrite h. apply stepH_real; [apply InjReal | exact A | exact RH].
  Qed.

  Fixpoint iterR (n : nat) (s : state K) : state K := match n with O => s | S m => iterR m (forward K sc s) end.
  Theorem forward_real_n n : forall s, realV (fE s) -> realV (fH s) -> realV (fE (iterR n s)) /\ realV (fH (iterR n s)).
  Proof. induction n as [|n IH]; intros s RE RH; [split; assumption|]. cbn [iterR]. destruct (forward_real s RE RH). apply IH; assumption. Qed.
End Real.
