(* DesignTransforms_Proj_proofs.v — C20: range, monotonicity, fixed points and limiting branches of tanh_projection for any
   odd, strictly increasing [th]; the smoothed projection equals the plain one where needs_smoothing is false. *)
From Coq Require Import List Arith Bool Lia Field Ring.
From FV Require Import base.Scalar base.Sums base.DesignTransformsBase base.DesignTransformsOrd
  model.DesignTransforms_Sym model.DesignTransforms_Proj proofs.DesignTransforms_Sym_proofs proofs.DesignTransforms_Gauss_proofs.
Import ListNotations.
Local Open Scope fld_scope.

Section ProjProofs.
  Variable K : OFld.
  Add Field KFproj : (Fth K).
  Notation F := (car K).
  Variable th : F -> F.
  Variable sqrtf : F -> F.
  Hypothesis th_odd : forall x, th (- x) = - th x.
  Hypothesis th_inc : forall x y, x <= y -> x <> y -> th x <= th y /\ th x <> th y.

  (* ---------- ordered-field helpers ---------- *)
  Lemma fleb_cases (x y : F) : (fleb K x y = true /\ x <= y) \/ (fleb K x y = false /\ y <= x /\ x <> y).
  Proof. destruct (fleb K x y) eqn:E.
    - left. split; [reflexivity|]. apply fleb_spec. exact E.
    - right. split; [reflexivity|]. assert (N : ~ x <= y) by (intros H; apply fleb_spec in H; congruence).
      split; [destruct (fle_total K x y); [contradiction|assumption] | intros ->; apply N; apply fle_refl]. Qed.

  Lemma add_nonneg (a b : F) : 0 <= a -> 0 <= b -> 0 <= a + b.
  Proof. intros Ha Hb. replace (0 : F) with (0 + 0 : F) by ring. apply le_add_compat; assumption. Qed.
  Lemma add_nonneg_eq0 (a b : F) : 0 <= a -> 0 <= b -> a + b = 0 -> a = 0.
  Proof. intros Ha Hb E. apply (fle_antisym K); [|exact Ha].
    apply (le_sub_iff K). replace (0 - a) with b by (rewrite <- E; ring). exact Hb. Qed.
  Lemma mul_eq0 (a b : F) : a * b = 0 -> a <> 0 -> b = 0.
  Proof. intros E Ha. replace b with (/ a * (a * b)) by (field; exact Ha). rewrite E. ring. Qed.
  Lemma mul_nonneg_le (s x y : F) : 0 <= s -> x <= y -> s * x <= s * y.
  Proof. apply (mul_le_l K). Qed.
  Lemma two_neq0 : (1 + 1 : F) <> 0.
  Proof. intros E. pose proof (le_0_1 K) as H. apply (f01 K). symmetry. apply (add_nonneg_eq0 1 1 H H E). Qed.

  Lemma th0 : th 0 = 0.
  Proof. pose proof (th_odd 0) as H. replace (- 0 : F) with (0 : F) in H by ring.
    assert (E : (1 + 1) * th 0 = 0) by (transitivity (th 0 + th 0); [ring | rewrite H at 1; ring]).
    apply (mul_eq0 _ _ E two_neq0). Qed.
  Lemma th_mono x y : x <= y -> th x <= th y.
  Proof. intros H. destruct (fleb_cases y x) as [[_ H1]|[_ [_ H1]]].
    - rewrite (fle_antisym K x y H H1). apply fle_refl.
    - apply th_inc; [exact H | congruence]. Qed.
  Lemma th_nonneg x : 0 <= x -> 0 <= th x.
  Proof. intros H. rewrite <- th0. apply th_mono. exact H. Qed.
  Lemma th_pos x : 0 <= x -> x <> 0 -> th x <> 0.
  Proof. intros H N. rewrite <- th0. intros E. apply (th_inc 0 x H); congruence. Qed.

  Definition eta_ok (eta : F) : Prop := 0 <= eta /\ eta <= 1.
  (* a finite, non-zero beta >= 0: the tanh branch *)
  Definition fin_pos (b : F) : Prop := 0 <= b /\ feqb K b 0 = false.

  Lemma fin_pos_neq b : fin_pos b -> b <> 0.
  Proof. intros [H E] ->. unfold feqb in E. rewrite (proj2 (fleb_spec K 0 0) (fle_refl K 0)) in E. discriminate. Qed.
  Lemma safe_beta_fin b : fin_pos b -> safe_beta K (BFin K b) = b.
  Proof. intros [_ E]. unfold safe_beta. rewrite E. reflexivity. Qed.

  (* the divisor of the tanh branch is strictly positive: no 0/0 for any finite beta > 0 and eta in [0,1] *)
  Lemma divisor_pos b eta : fin_pos b -> eta_ok eta -> 0 <= tanh_divisor K th (BFin K b) eta /\ tanh_divisor K th (BFin K b) eta <> 0.
  Proof. intros Hb [E0 E1]. unfold tanh_divisor. rewrite (safe_beta_fin b Hb).
    pose proof (fin_pos_neq b Hb) as Nb. destruct Hb as [Hb _].
    assert (A : 0 <= b * eta) by (apply fle_mul; assumption).
    assert (B : 0 <= b * (1 - eta)) by (apply fle_mul; [assumption | apply (proj1 (le_sub_iff K eta 1)); exact E1]).
    split; [apply add_nonneg; apply th_nonneg; assumption|].
    intros E. destruct (fleb_cases eta 0) as [[_ H]|[_ [_ H]]].
    - assert (eta = 0) by (apply (fle_antisym K); assumption). subst eta.
      replace (b * 0) with (0 : F) in E by ring. rewrite th0 in E. replace (b * (1 - 0)) with b in E by ring.
      apply (th_pos b Hb Nb). rewrite <- E. ring.
    - apply (th_pos (b * eta) A); [intros Z; apply H; apply (mul_eq0 b eta Z Nb)|].
      apply (add_nonneg_eq0 _ _ (th_nonneg _ A) (th_nonneg _ B) E). Qed.

  Lemma clip_range x : 0 <= clip01 K x /\ clip01 K x <= 1.
  Proof. unfold clip01. destruct (fleb_cases x 0) as [[-> _]|[-> [H0 _]]]; [split; [apply fle_refl | apply le_0_1]|].
    destruct (fleb_cases 1 x) as [[-> _]|[-> [H1 _]]]; [split; [apply le_0_1 | apply fle_refl] | split; assumption]. Qed.
  Lemma clip_mono x y : x <= y -> clip01 K x <= clip01 K y.
  Proof. intros H. unfold clip01.
    destruct (fleb_cases x 0) as [[-> X0]|[-> [X0 NX]]]; [apply clip_range|].
    destruct (fleb_cases y 0) as [[-> Y0]|[-> [Y0 NY]]].
    { exfalso. apply NX. apply (fle_antisym K); [|exact X0]. apply (fle_trans K _ y); assumption. }
    destruct (fleb_cases 1 x) as [[-> X1]|[-> [X1 _]]].
    { rewrite (proj2 (fleb_spec K 1 y) (fle_trans K _ _ _ X1 H)). apply fle_refl. }
    destruct (fleb_cases 1 y) as [[-> Y1]|[-> [Y1 _]]]; assumption. Qed.
  Lemma clip_id x : 0 <= x -> x <= 1 -> clip01 K x = x.
  Proof. intros H0 H1. unfold clip01.
    destruct (fleb_cases x 0) as [[-> X0]|[-> _]]; [apply (fle_antisym K); assumption|].
    destruct (fleb_cases 1 x) as [[-> X1]|[-> _]]; [apply (fle_antisym K); assumption | reflexivity]. Qed.

  Definition beta_ok (be : beta K) : Prop := match be with BInf _ => True | BFin _ b => 0 <= b end.

  Lemma numer_le b eta x y : 0 <= b -> x <= y -> th (b * (x - eta)) <= th (b * (y - eta)).
  Proof. intros Hb H. apply th_mono. apply mul_nonneg_le; [exact Hb|].
    replace (x - eta) with (x + - eta) by ring. replace (y - eta) with (y + - eta) by ring. apply fle_add. exact H. Qed.

  Theorem proj_range be eta x : beta_ok be -> eta_ok eta -> 0 <= x -> x <= 1 ->
    0 <= tanh_projection K th be eta x /\ tanh_projection K th be eta x <= 1.
  Proof. intros Hbe He X0 X1. destruct be as [|b]; cbn [tanh_projection beta_ok] in *.
    - destruct (fltb K eta x); split; try apply fle_refl; apply le_0_1.
    - destruct (feqb K b 0) eqn:E; [apply clip_range|].
      assert (Hb : fin_pos b) by (split; assumption). destruct (divisor_pos b eta Hb He) as [D0 DN].
      unfold tanh_result. apply (div_bounds K); try assumption; rewrite (safe_beta_fin b Hb) in *.
      + replace (0 * tanh_divisor K th (BFin K b) eta) with (0 : F) by ring.
        replace (0 : F) with (th (b * eta) + - th (b * eta)) by ring.
        replace (th (b * eta) + th (b * (x - eta))) with (th (b * (x - eta)) + th (b * eta)) by ring.
        replace (th (b * eta) + - th (b * eta)) with (- th (b * eta) + th (b * eta)) by ring.
        apply fle_add. rewrite <- th_odd. replace (- (b * eta)) with (b * (0 - eta)) by ring.
        apply numer_le; assumption.
      + unfold tanh_divisor. rewrite (safe_beta_fin b Hb).
        replace (1 * (th (b * eta) + th (b * (1 - eta)))) with (th (b * (1 - eta)) + th (b * eta)) by ring.
        replace (th (b * eta) + th (b * (x - eta))) with (th (b * (x - eta)) + th (b * eta)) by ring.
        apply fle_add. apply numer_le; assumption. Qed.

  Theorem proj_mono be eta x y : beta_ok be -> eta_ok eta -> x <= y ->
    tanh_projection K th be eta x <= tanh_projection K th be eta y.
  Proof. intros Hbe He H. destruct be as [|b]; cbn [tanh_projection beta_ok] in *.
    - unfold fltb. destruct (fleb_cases x eta) as [[-> _]|[-> [A B]]]; cbn.
      + destruct (fleb K y eta); cbn; [apply fle_refl | apply le_0_1].
      + destruct (fleb_cases y eta) as [[-> C]|[-> _]]; cbn; [|apply fle_refl].
        exfalso. apply B. apply (fle_antisym K); [|exact A]. apply (fle_trans K _ y); assumption.
    - destruct (feqb K b 0) eqn:E; [apply clip_mono; exact H|].
      assert (Hb : fin_pos b) by (split; assumption). destruct (divisor_pos b eta Hb He) as [D0 DN].
      unfold tanh_result. rewrite (safe_beta_fin b Hb).
      replace ((th (b * eta) + th (b * (x - eta))) / tanh_divisor K th (BFin K b) eta)
        with (/ tanh_divisor K th (BFin K b) eta * (th (b * (x - eta)) + th (b * eta))) by (field; exact DN).
      replace ((th (b * eta) + th (b * (y - eta))) / tanh_divisor K th (BFin K b) eta)
        with (/ tanh_divisor K th (BFin K b) eta * (th (b * (y - eta)) + th (b * eta))) by (field; exact DN).
      apply mul_nonneg_le; [apply (inv_nonneg K); assumption|]. apply fle_add. apply numer_le; assumption. Qed.

  Theorem proj_fix0 be eta : beta_ok be -> eta_ok eta -> tanh_projection K th be eta 0 = 0.
  Proof. intros Hbe He. destruct be as [|b]; cbn [tanh_projection beta_ok] in *.
    - unfold fltb. rewrite (proj2 (fleb_spec K 0 eta) (proj1 He)). reflexivity.
    - destruct (feqb K b 0) eqn:E; [apply clip_id; [apply fle_refl | apply le_0_1]|].
      assert (Hb : fin_pos b) by (split; assumption). destruct (divisor_pos b eta Hb He) as [D0 DN].
      unfold tanh_result. rewrite (safe_beta_fin b Hb).
      replace (b * (0 - eta)) with (- (b * eta)) by ring. rewrite th_odd. field. exact DN. Qed.

  Theorem proj_fix1 be eta : beta_ok be -> eta_ok eta -> eta <> 1 -> tanh_projection K th be eta 1 = 1.
  Proof. intros Hbe He N1. destruct be as [|b]; cbn [tanh_projection beta_ok] in *.
    - unfold fltb. destruct (fleb_cases 1 eta) as [[_ H]|[-> _]]; [|reflexivity].
      exfalso. apply N1. apply (fle_antisym K); [apply He | exact H].
    - destruct (feqb K b 0) eqn:E; [apply clip_id; [apply le_0_1 | apply fle_refl]|].
      assert (Hb : fin_pos b) by (split; assumption). destruct (divisor_pos b eta Hb He) as [D0 DN].
      unfold tanh_result. fold (tanh_divisor K th (BFin K b) eta). field. exact DN. Qed.

  (* beta = 0 is clipping; beta = infinity is the step at eta (value 0 AT the threshold: [x > eta] is false) *)
  Theorem proj_beta0 eta x : tanh_projection K th (BFin K 0) eta x = clip01 K x.
  Proof. cbn. unfold feqb. rewrite (proj2 (fleb_spec K 0 0) (fle_refl K 0)). reflexivity. Qed.
  Theorem proj_betainf eta x :
    (eta <= x -> eta <> x -> tanh_projection K th (BInf K) eta x = 1) /\ (x <= eta -> tanh_projection K th (BInf K) eta x = 0).
  Proof. cbn. unfold fltb. split.
    - intros H N. destruct (fleb_cases x eta) as [[_ H1]|[-> _]]; [|reflexivity]. exfalso. apply N. apply (fle_antisym K); assumption.
    - intros H. rewrite (proj2 (fleb_spec K x eta) H). reflexivity. Qed.

  (* the smoothed projection is the plain projection in every cell without an interface *)
  Theorem smoothed_no_interface n m be eta dx x i j : needs K sqrtf n m eta dx x i j = false ->
    smoothed K th sqrtf n m be eta dx x i j = tanh_projection K th be eta (x i j).
  Proof. intros H. unfold smoothed. rewrite H. reflexivity. Qed.

  Theorem smoothed_exec_no_interface be eta dx vq s l y : smoothed_exec K th sqrtf be eta dx vq s l = Some y ->
    exists v, vaxis s = Some v /\ shape3i K s y /\
      forall p, inb s p ->
        needs K sqrtf (geti s (fst (plane_axes v))) (geti s (snd (plane_axes v))) eta dx
          (fun i j => get3i K l (seti (seti (0, 0, 0)%nat (fst (plane_axes v)) i) (snd (plane_axes v)) j))
          (geti p (fst (plane_axes v))) (geti p (snd (plane_axes v))) = false ->
        get3i K y p = get3i K (tanh_exec K th be eta s l) p.
  Proof. unfold smoothed_exec. destruct (vaxis s) as [v|] eqn:Hv; [|discriminate]. destruct (plane_axes v) as [a b] eqn:Hab.
    destruct (vq && _ && _); [|discriminate]. intros H; injection H as <-. exists v. split; [reflexivity|].
    split; [apply tab3i_shape|]. rewrite Hab. cbn [fst snd]. intros p Hp Hn. unfold tanh_exec. rewrite !get3i_tab3i by exact Hp.
    rewrite (smoothed_no_interface _ _ _ _ _ _ _ _ Hn). f_equal.
    pose proof (vaxis_extent s v Hv) as E. destruct s as [[nx ny] nz], p as [[i j] k].
    destruct v; cbn in Hab; injection Hab as <- <-; unfold inb, seti, geti in *; cbn in *; repeat f_equal; lia. Qed.
End ProjProofs.
