(* Yee_real_pml.v — C11 with absorbing layers: imaginary parts stay zero through the CPML loop and the full step. *)
From Coq Require Import List Arith Lia Field Ring.
From FV Require Import base.Scalar base.Cplx model.Yee proofs.Yee_steps proofs.Yee_real proofs.Yee_pml_sweep.
Import ListNotations.
Local Open Scope fld_scope.

Section RealPml.
  Variable K : Fld.
  Add Field KFrp : (Fth K).
  Notation C := (C K).
  Variable sc : scene K.
  Notation realC := (realC K). Notation realV := (realV K).
  Definition realA (f : A3 K) : Prop := forall i j k, realC (f i j k).
  Definition realP (p : psi_t K) : Prop := realA (fst p) /\ realA (snd p).

  Lemma cpml_step_real ca cb ik k1 sim d p : realC d -> realC p ->
    realC (fst (cpml_step K ca cb ik k1 sim d p)) /\ realC (snd (cpml_step K ca cb ik k1 sim d p)).
  Proof.
    unfold Yee_real.realC, cpml_step. destruct d, p; cbn [snd]. intros -> ->.
    destruct k1, sim; cbn [fst snd]; unfold cadd, cscal; cbn [fst snd]; split; ring.
  Qed.
  Lemma pml_apply_real isE sim p d1 d2 psi : realA d1 -> realA d2 -> realP psi ->
    realA (fst (fst (pml_apply K isE sim p d1 d2 psi))) /\ realA (snd (fst (pml_apply K isE sim p d1 d2 psi))) /\ realP (snd (pml_apply K isE sim p d1 d2 psi)).
  Proof.
    intros H1 H2 [P1 P2]. unfold pml_apply; cbn [fst snd].
    repeat split; intros i j k; cbn [fst snd]; destruct (in_pml K p i j k); try (unfold Yee_real.realC, Cplx.c0; reflexivity); try apply P1; try apply P2;
      destruct isE; cbv beta iota zeta;
      first [apply (proj1 (cpml_step_real _ _ _ _ _ _ _ (H1 i j k) (P1 i j k))) | apply (proj2 (cpml_step_real _ _ _ _ _ _ _ (H1 i j k) (P1 i j k)))
            | apply (proj1 (cpml_step_real _ _ _ _ _ _ _ (H2 i j k) (P2 i j k))) | apply (proj2 (cpml_step_real _ _ _ _ _ _ _ (H2 i j k) (P2 i j k)))].
  Qed.
  Lemma add_corr_real ax c k1 k2 : realV c -> realA k1 -> realA k2 -> realV (add_corr K ax c k1 k2).
  Proof.
    intros Hc H1 H2 i j k. destruct (Hc i j k) as (a & b & d). specialize (H1 i j k). specialize (H2 i j k).
    unfold add_corr. destruct ax as [|[|ax]]; cbn [vx vy vz]; unfold Yee_real.realC, cadd, csub in *; cbn [snd]; rewrite ?a, ?b, ?d, ?H1, ?H2; repeat split; ring.
  Qed.
  Lemma pml_loop_real isE sim dsel : (forall n, realA (fst (dsel n)) /\ realA (snd (dsel n))) ->
    forall ps psis c, Forall realP psis -> realV c ->
    realV (fst (pml_loop K isE sim ps psis dsel c)) /\ Forall realP (snd (pml_loop K isE sim ps psis dsel c)).
  Proof.
    intros Hd. induction ps as [|p ps IH]; intros psis c HP Hc.
    - cbn. split; assumption.
    - destruct psis as [|psi psis]; [cbn; split; [assumption | constructor]|].
      inversion HP as [|? ? Pp HP']; subst. cbn [pml_loop].
      destruct (Hd (p_axis K p)) as [D1 D2]. destruct (dsel (p_axis K p)) as [d1 d2]. cbn [fst snd] in D1, D2.
      destruct (pml_apply_real isE sim p d1 d2 psi D1 D2 Pp) as (A1 & A2 & A3).
      destruct (pml_apply K isE sim p d1 d2 psi) as [[k1 k2] psi']. cbn [fst snd] in A1, A2, A3.
      destruct (IH psis (add_corr K (p_axis K p) c k1 k2) HP' (add_corr_real _ _ _ _ Hc A1 A2)) as [R1 R2].
      destruct (pml_loop K isE sim ps psis dsel (add_corr K (p_axis K p) c k1 k2)) as [c' rest]. cbn [fst snd] in *.
      split; [exact R1 | constructor; assumption].
  Qed.

  Hypothesis Ghost : realC (hix K sc) /\ realC (hiy K sc) /\ realC (hiz K sc) /\ realC (lox K sc) /\ realC (loy K sc) /\ realC (loz K sc).
  Hypothesis InjReal : forall t, realV (injE K sc t) /\ realV (injH K sc t).

  Lemma dm_real (u : A3 K) : realA u -> realA (dmx K sc u) /\ realA (dmy K sc u) /\ realA (dmz K sc u).
  Proof.
    intros H. destruct Ghost as (g1 & g2 & g3 & g4 & g5 & g6).
    repeat split; intros i j k; unfold dmx, dmy, dmz.
    - pose proof (prv_real K (nx K sc) (lox K sc) (fun a => u a j k) i g4 (fun q => H q j k)) as P. pose proof (H i j k) as Q.
      unfold Yee_real.realC, cscal, csub in *; cbn [snd]. rewrite P, Q. ring.
    - pose proof (prv_real K (ny K sc) (loy K sc) (fun a => u i a k) j g5 (fun q => H i q k)) as P. pose proof (H i j k) as Q.
      unfold Yee_real.realC, cscal, csub in *; cbn [snd]. rewrite P, Q. ring.
    - pose proof (prv_real K (nz K sc) (loz K sc) (fun a => u i j a) k g6 (fun q => H i j q)) as P. pose proof (H i j k) as Q.
      unfold Yee_real.realC, cscal, csub in *; cbn [snd]. rewrite P, Q. ring.
  Qed.
  Lemma dp_real (u : A3 K) : realA u -> realA (dpx K sc u) /\ realA (dpy K sc u) /\ realA (dpz K sc u).
  Proof.
    intros H. destruct Ghost as (g1 & g2 & g3 & g4 & g5 & g6).
    repeat split; intros i j k; unfold dpx, dpy, dpz.
    - pose proof (nxt_real K (nx K sc) (hix K sc) (fun a => u a j k) i g1 (fun q => H q j k)) as P. pose proof (H i j k) as Q.
      unfold Yee_real.realC, cscal, csub in *; cbn [snd]. rewrite P, Q. ring.
    - pose proof (nxt_real K (ny K sc) (hiy K sc) (fun a => u i a k) j g2 (fun q => H i q k)) as P. pose proof (H i j k) as Q.
      unfold Yee_real.realC, cscal, csub in *; cbn [snd]. rewrite P, Q. ring.
    - pose proof (nxt_real K (nz K sc) (hiz K sc) (fun a => u i j a) k g3 (fun q => H i j q)) as P. pose proof (H i j k) as Q.
      unfold Yee_real.realC, cscal, csub in *; cbn [snd]. rewrite P, Q. ring.
  Qed.
  Lemma realV_comps v : realV v <-> realA (vx v) /\ realA (vy v) /\ realA (vz v).
  Proof. split; [intros H; repeat split; intros i j k; apply (H i j k) | intros (a & b & c) i j k; repeat split; [apply a | apply b | apply c]]. Qed.

  Lemma curlH_real_pml sim H psis : realV H -> Forall realP psis ->
    realV (fst (curlH K sc sim H psis)) /\ Forall realP (snd (curlH K sc sim H psis)).
  Proof.
    intros RH RP. apply realV_comps in RH. destruct RH as (X & Y & Z).
    destruct (dm_real _ X) as (x1 & x2 & x3). destruct (dm_real _ Y) as (y1 & y2 & y3). destruct (dm_real _ Z) as (z1 & z2 & z3).
    unfold curlH. apply pml_loop_real; [intros [|[|n]]; cbv beta iota; cbn [fst snd]; split; assumption | exact RP |].
    apply (curlH_real K sc Ghost). apply realV_comps. repeat split; assumption.
  Qed.
  Lemma curlE_real_pml sim E psis : realV E -> Forall realP psis ->
    realV (fst (curlE K sc sim E psis)) /\ Forall realP (snd (curlE K sc sim E psis)).
  Proof.
    intros RH RP. apply realV_comps in RH. destruct RH as (X & Y & Z).
    destruct (dp_real _ X) as (x1 & x2 & x3). destruct (dp_real _ Y) as (y1 & y2 & y3). destruct (dp_real _ Z) as (z1 & z2 & z3).
    unfold curlE. apply pml_loop_real; [intros [|[|n]]; cbv beta iota; cbn [fst snd]; split; assumption | exact RP |].
    apply (curlE_real K sc Ghost). apply realV_comps. repeat split; assumption.
  Qed.

  Ltac re := unfold Yee_real.realC, cadd, csub, cscal, cdivr in *; cbn [fst snd] in *; rewrite ?(Fdiv_def (Fth K)).

  (* C11 with absorbing layers: one step and n steps *)
  Theorem forward_real_pml s : realV (fE s) -> realV (fH s) -> Forall realP (psiE s) -> Forall realP (psiH s) ->
    realV (fE (forward K sc s)) /\ realV (fH (forward K sc s)) /\ Forall realP (psiE (forward K sc s)) /\ Forall realP (psiH (forward K sc s)).
  Proof.
    intros RE RH PE PH.
    destruct (curlH_real_pml true (fH s) (psiE s) RH PE) as (KC & PE').
    assert (EE: realV (fE (forward K sc s))).
    { rewrite fE_forward, update_E_unfold. cbn [fE]. intros i j k.
      destruct (KC i j k) as (c1 & c2 & c3). destruct (RE i j k) as (e1 & e2 & e3). destruct (proj1 (InjReal (tstep s)) i j k) as (j1 & j2 & j3).
      unfold vmask, vadd, vmap2, updE1; cbn [vx vy vz]. re. repeat split; rewrite ?c1, ?c2, ?c3, ?e1, ?e2, ?e3, ?j1, ?j2, ?j3; ring. }
    destruct (curlE_real_pml true (fE (forward K sc s)) (psiH s) EE PH) as (KE & PH').
    split; [exact EE|].
    assert (A: psiH (update_E K sc true s) = psiH s /\ tstep (update_E K sc true s) = tstep s /\ fH (update_E K sc true s) = fH s /\ psiE (update_E K sc true s) = snd (curlH K sc true (fH s) (psiE s)))
      by (rewrite update_E_unfold; repeat split).
    destruct A as (a1 & a2 & a3 & a4).
    split; [|split].
    - unfold forward. rewrite update_H_unfold. cbn [fH]. rewrite a1, a2, a3. rewrite <- fE_forward. intros i j k.
      destruct (KE i j k) as (c1 & c2 & c3). destruct (RH i j k) as (e1 & e2 & e3). destruct (proj2 (InjReal (tstep s)) i j k) as (j1 & j2 & j3).
      unfold vmask, vadd, vmap2, updH1; cbn [vx vy vz]. re. repeat split; rewrite ?c1, ?c2, ?c3, ?e1, ?e2, ?e3, ?j1, ?j2, ?j3; ring.
    - unfold forward. rewrite update_H_unfold. cbn [psiE]. rewrite a4. exact PE'.
    - unfold forward. rewrite update_H_unfold. cbn [psiH]. rewrite a1. rewrite <- fE_forward. exact PH'.
  Qed.
  Theorem forward_real_pml_n n : forall s, realV (fE s) -> realV (fH s) -> Forall realP (psiE s) -> Forall realP (psiH s) ->
    realV (fE (iterR K sc n s)) /\ realV (fH (iterR K sc n s)).
  Proof.
    induction n as [|n IH]; intros s RE RH PE PH; [split; assumption|]. cbn [iterR].
    destruct (forward_real_pml s RE RH PE PH) as (a & b & c & d). apply IH; assumption.
  Qed.
End RealPml.
