(* Json_proofs.v — import o export = id on well-formed object graphs (C31). *)
From Coq Require Import String List Bool ZArith Ascii Lia.
From FV Require Import model.Json.
Import ListNotations.
Local Open Scope string_scope.

Section Proofs.
  Variable F : Type.
  Notation json := (json F).
  Notation pyv := (pyv F).
  Notation export := (export F).
  Notation import := (import F).

  (* ---- the nested fixpoints of the model as top-level functions (convertible by reflexivity) ---- *)
  Fixpoint export_list (l : list pyv) : option (list json) :=
    match l with [] => Some [] | x :: r => match export x, export_list r with Some j, Some r' => Some (j :: r') | _, _ => None end end.
  Fixpoint export_fields (l : list (string * pyv)) : option (list (string * json)) :=
    match l with [] => Some [] | (k, x) :: r => match export x, export_fields r with Some j, Some r' => Some ((k, j) :: r') | _, _ => None end end.
  Fixpoint export_data (l : list (string * pyv)) : option (list (string * json)) :=
    match l with [] => Some []
    | (k, x) :: r => if starts_underscore k then export_data r
                     else match export x, export_data r with Some j, Some r' => Some ((k, j) :: r') | _, _ => None end end.
  Fixpoint export_dict (l : list (string * pyv)) : option (list (string * json)) :=
    match l with [] => Some []
    | (k, x) :: r => if is_mod_name k then None
                     else match export x, export_dict r with Some j, Some r' => Some ((k, j) :: r') | _, _ => None end end.
  Fixpoint import_list (l : list json) : option (list pyv) :=
    match l with [] => Some [] | x :: r => match import x, import_list r with Some v, Some r' => Some (v :: r') | _, _ => None end end.
  Fixpoint import_fields (skip : bool) (l : list (string * json)) : option (list (string * pyv)) :=
    match l with [] => Some []
    | (k, x) :: r => if skip && is_mod_name k then import_fields skip r
                     else match import x, import_fields skip r with Some v, Some r' => Some ((k, v) :: r') | _, _ => None end end.
  Fixpoint find_value (l : list (string * json)) : value_part F :=
    match l with [] => VAbsent F
    | (k, x) :: r => if k =? "__value__" then
                       match x with
                       | JObj vals => VFields F (import_fields false vals)
                       | JList vals => VItems F vals (import_list vals)
                       | _ => VScalar F x (import x)
                       end
                     else find_value r end.

  Lemma export_PSeq m n l : export (PSeq m n l) =
    match export_list l with Some js => Some (JObj (hdr F m n ++ [("__value__", JList js)])) | None => None end.
  Proof. reflexivity. Qed.
  Lemma export_PTree m n fs : export (PTree m n fs) =
    match export_fields fs with Some kv => Some (JObj (hdr F m n ++ kv)) | None => None end.
  Proof. reflexivity. Qed.
  Lemma export_PData m n d : export (PData m n d) =
    match export_data d with Some kv => Some (JObj (hdr F m n ++ [("__value__", JObj kv)])) | None => None end.
  Proof. reflexivity. Qed.
  Lemma export_PDict kv : export (PDict kv) =
    match export_dict kv with Some kv' => Some (JObj (hdr F "builtins" "dict" ++ kv')) | None => None end.
  Proof. reflexivity. Qed.
  Lemma import_JList l : import (JList l) = option_map (PSeq "builtins" "list") (import_list l).
  Proof. reflexivity. Qed.
  Lemma import_JObj kv : import (JObj kv) =
    match assoc "__dtype__" kv with
    | Some (JStr s) => option_map PDtype (nth_error (split_dot s) 2)
    | Some _ => None
    | None =>
        match assoc "__module__" kv, assoc "__name__" kv with
        | Some (JStr m), Some (JStr n) =>
            match find_value kv with
            | VFields _ kw => option_map (PData m n) kw
            | VItems _ raw items =>
                match items with
                | Some its => if (m =? "numpy") && (n =? "array") then Some (PArr (JList raw)) else Some (PSeq m n its)
                | None => None
                end
            | VScalar _ raw x =>
                match x with Some _ => if (m =? "numpy") && (n =? "array") then Some (PArr raw) else None | None => None end
            | VAbsent _ => if n =? "dict" then option_map PDict (import_fields true kv) else option_map (PTree m n) (import_fields true kv)
            end
        | _, _ => None
        end
    end.
  Proof. reflexivity. Qed.

  (* well-formedness of the containers, as top-level functions *)
  Fixpoint wf_list (l : list pyv) : bool := match l with [] => true | x :: r => wfb F x && wf_list r end.
  Fixpoint wf_fields (under : bool) (l : list (string * pyv)) : bool :=
    match l with [] => true
    | (k, x) :: r => negb (reserved k) && (if under then negb (starts_underscore k) else true) && wfb F x && wf_fields under r end.
  Fixpoint plain_list (l : list json) : bool := match l with [] => true | x :: r => plain F x && plain_list r end.

  Lemma wfb_PSeq m n l : wfb F (PSeq m n l) = negb (is_array_cls m n) && wf_list l.
  Proof. reflexivity. Qed.
  Lemma wfb_PTree m n fs : wfb F (PTree m n fs) = negb (n =? "dict") && wf_fields false fs.
  Proof. cbn. f_equal. induction fs as [|[k x] r IH]; cbn; [reflexivity|]. rewrite IH. rewrite andb_true_r. reflexivity. Qed.
  Lemma wfb_PDict kv : wfb F (PDict kv) = wf_fields false kv.
  Proof. cbn. induction kv as [|[k x] r IH]; cbn; [reflexivity|]. rewrite IH. rewrite andb_true_r. reflexivity. Qed.
  Lemma wfb_PData m n d : wfb F (PData m n d) = wf_fields true d.
  Proof. cbn. induction d as [|[k x] r IH]; cbn; [reflexivity|]. rewrite IH. reflexivity. Qed.
  Lemma plain_JList l : plain F (JList l) = plain_list l.
  Proof. reflexivity. Qed.

  (* ---- strings ---- *)
  Lemma split_dot_nodot n : no_dot n = true -> split_dot n = [n].
  Proof.
    induction n as [|c r IH]; cbn; intros H; [reflexivity|]. apply andb_true_iff in H. destruct H as [Hc Hr].
    apply negb_true_iff in Hc. rewrite Hc. rewrite IH by exact Hr. reflexivity.
  Qed.
  Lemma dtype_roundtrip n : no_dot n = true -> nth_error (split_dot ("jax.numpy." ++ n)) 2 = Some n.
  Proof. intros H. cbn. rewrite split_dot_nodot by exact H. reflexivity. Qed.

  Lemma reserved_parts k : reserved k = false ->
    is_mod_name k = false /\ (k =? "__value__") = false /\ (k =? "__dtype__") = false /\ (k =? "__module__") = false /\ (k =? "__name__") = false.
  Proof.
    unfold reserved, is_mod_name. intros H. apply orb_false_iff in H. destruct H as [H H3]. apply orb_false_iff in H. destruct H as [H H2].
    apply orb_false_iff in H. destruct H as [H0 H1]. rewrite H0, H1. auto.
  Qed.

  (* ---- array payloads import without error ---- *)
  Lemma plain_import : forall j, plain F j = true -> exists v, import j = Some v.
  Proof.
    fix IH 1. intros j. destruct j; cbn [plain]; intros H; try discriminate; try (eexists; reflexivity).
    rewrite import_JList.
    assert (G: exists vs, import_list l = Some vs).
    { revert H. change ((fix pl (l0 : list json) : bool := match l0 with [] => true | x :: r => plain F x && pl r end) l) with (plain_list l).
      induction l as [|x r IHr]; cbn [plain_list import_list]; intros H; [eexists; reflexivity|].
      apply andb_true_iff in H. destruct H as [Hx Hr]. destruct (IH x Hx) as [v ->]. destruct (IHr Hr) as [vs ->]. eexists; reflexivity. }
    destruct G as [vs ->]. eexists; reflexivity.
  Qed.
  Lemma plain_import_list l : plain_list l = true -> exists vs, import_list l = Some vs.
  Proof.
    induction l as [|x r IHr]; cbn; intros H; [eexists; reflexivity|].
    apply andb_true_iff in H. destruct H as [Hx Hr]. destruct (plain_import x Hx) as [v ->]. destruct (IHr Hr) as [vs ->]. eexists; reflexivity.
  Qed.

  (* ---- container lemmas under a pointwise hypothesis ---- *)
  Definition RT (v : pyv) : Prop := wfb F v = true -> exists j, export v = Some j /\ import j = Some v.

  Lemma list_roundtrip l : Forall RT l -> wf_list l = true -> exists js, export_list l = Some js /\ import_list js = Some l.
  Proof.
    induction 1 as [|x r Hx _ IH]; cbn; intros H; [eexists; split; reflexivity|].
    apply andb_true_iff in H. destruct H as [H1 H2]. destruct (Hx H1) as [j [E I]]. destruct (IH H2) as [js [Es Is]].
    rewrite E, Es. eexists; split; [reflexivity|]. cbn. rewrite I, Is. reflexivity.
  Qed.

  (* keys of an exported field list are not reserved: lookups of reserved keys fail, nothing is skipped *)
  Definition clean (kv : list (string * json)) : Prop := Forall (fun e => reserved (fst e) = false) kv.
  Lemma clean_assoc kv key : clean kv -> reserved key = true -> assoc key kv = None.
  Proof.
    induction 1 as [|[k x] r Hk _ IH]; cbn; intros Hr; [reflexivity|]. cbn in Hk.
    destruct (k =? key) eqn:E; [apply String.eqb_eq in E; subst; congruence | apply IH; exact Hr].
  Qed.
  Lemma clean_find kv : clean kv -> find_value kv = VAbsent F.
  Proof.
    induction 1 as [|[k x] r Hk _ IH]; cbn; [reflexivity|]. cbn in Hk. destruct (reserved_parts k Hk) as [_ [-> _]]. exact IH.
  Qed.

  Lemma fields_roundtrip under fs : Forall (fun e => RT (snd e)) fs -> wf_fields under fs = true ->
    exists kv, export_fields fs = Some kv /\ (under = true -> export_data fs = Some kv) /\ export_dict fs = Some kv /\
               clean kv /\ import_fields false kv = Some fs /\ import_fields true kv = Some fs.
  Proof.
    induction 1 as [|[k x] r Hx _ IH]; cbn; intros H.
    - eexists; repeat split; try reflexivity. constructor.
    - apply andb_true_iff in H. destruct H as [H H4]. apply andb_true_iff in H. destruct H as [H H3].
      apply andb_true_iff in H. destruct H as [H1 H2]. apply negb_true_iff in H1.
      destruct (reserved_parts k H1) as [Hm _]. cbn in Hx. destruct (Hx H3) as [j [E I]].
      destruct (IH H4) as [kv [Ef [Ed [Ek [Hc [I0 I1]]]]]].
      rewrite E, Ef, Ek, Hm. eexists. split; [reflexivity|]. split; [|split; [reflexivity|split]].
      + intros ->. apply negb_true_iff in H2. rewrite H2, (Ed eq_refl). reflexivity.
      + constructor; [exact H1 | exact Hc].
      + cbn. rewrite Hm, I, I0, I1. cbn. split; reflexivity.
  Qed.

  Lemma hdr_lookup m n kv : clean kv ->
    assoc "__dtype__" (hdr F m n ++ kv) = None /\ assoc "__module__" (hdr F m n ++ kv) = Some (JStr m) /\
    assoc "__name__" (hdr F m n ++ kv) = Some (JStr n).
  Proof. intros H. cbn. rewrite (clean_assoc kv "__dtype__" H eq_refl). auto. Qed.

  (* ---- the round trip ---- *)
  Theorem import_export_id : forall v, RT v.
  Proof.
    fix IH 1. intros v. unfold RT. destruct v; intros Hwf; try (eexists; split; reflexivity); try discriminate.
    - (* PArr *) cbn in Hwf. eexists; split; [reflexivity|]. rewrite import_JObj. cbn [hdr app assoc String.eqb Ascii.eqb Bool.eqb].
      cbn [find_value String.eqb Ascii.eqb Bool.eqb].
      destruct payload; cbn in Hwf; try discriminate; try reflexivity.
      destruct (plain_import_list l Hwf) as [vs ->]. reflexivity.
    - (* PDtype *) cbn in Hwf. eexists; split; [reflexivity|]. rewrite import_JObj. cbn [assoc String.eqb Ascii.eqb Bool.eqb].
      rewrite dtype_roundtrip by exact Hwf. reflexivity.
    - (* PData *) rewrite wfb_PData in Hwf.
      assert (HF: Forall (fun e => RT (snd e)) d).
      { clear Hwf. induction d as [|[k x] r IHr]; constructor; [exact (IH x) | exact IHr]. }
      destruct (fields_roundtrip true d HF Hwf) as [kv [_ [Ed [_ [Hc [I0 _]]]]]].
      rewrite export_PData, (Ed eq_refl). eexists; split; [reflexivity|]. rewrite import_JObj.
      cbn [hdr app assoc String.eqb Ascii.eqb Bool.eqb find_value]. rewrite I0. reflexivity.
    - (* PTree *) rewrite wfb_PTree in Hwf. apply andb_true_iff in Hwf. destruct Hwf as [Hn Hwf]. apply negb_true_iff in Hn.
      assert (HF: Forall (fun e => RT (snd e)) fs).
      { clear Hwf. induction fs as [|[k x] r IHr]; constructor; [exact (IH x) | exact IHr]. }
      destruct (fields_roundtrip false fs HF Hwf) as [kv [Ef [_ [_ [Hc [_ I1]]]]]].
      rewrite export_PTree, Ef. eexists; split; [reflexivity|]. rewrite import_JObj.
      destruct (hdr_lookup m n kv Hc) as [-> [-> ->]].
      replace (find_value (hdr F m n ++ kv)) with (VAbsent F) by (cbn; symmetry; apply clean_find; exact Hc).
      rewrite Hn. cbn [hdr app import_fields andb is_mod_name String.eqb Ascii.eqb Bool.eqb orb]. rewrite I1. reflexivity.
    - (* PDict *) rewrite wfb_PDict in Hwf.
      assert (HF: Forall (fun e => RT (snd e)) kv).
      { clear Hwf. induction kv as [|[k x] r IHr]; constructor; [exact (IH x) | exact IHr]. }
      destruct (fields_roundtrip false kv HF Hwf) as [kv' [_ [_ [Ek [Hc [_ I1]]]]]].
      rewrite export_PDict, Ek. eexists; split; [reflexivity|]. rewrite import_JObj.
      destruct (hdr_lookup "builtins" "dict" kv' Hc) as [-> [-> ->]].
      replace (find_value (hdr F "builtins" "dict" ++ kv')) with (VAbsent F) by (cbn; symmetry; apply clean_find; exact Hc).
      cbn [String.eqb Ascii.eqb Bool.eqb hdr app import_fields andb is_mod_name orb]. rewrite I1. reflexivity.
    - (* PSeq *) rewrite wfb_PSeq in Hwf. apply andb_true_iff in Hwf. destruct Hwf as [Hn Hwf]. apply negb_true_iff in Hn.
      assert (HF: Forall RT l).
      { clear Hwf. induction l as [|x r IHr]; constructor; [exact (IH x) | exact IHr]. }
      destruct (list_roundtrip l HF Hwf) as [js [Es Is]].
      rewrite export_PSeq, Es. eexists; split; [reflexivity|]. rewrite import_JObj.
      cbn [hdr app assoc String.eqb Ascii.eqb Bool.eqb find_value]. rewrite Is. unfold is_array_cls in Hn. rewrite Hn. reflexivity.
  Qed.

  (* the hypotheses are needed: a dict key "__value__" is exported without complaint but re-imported as a list *)
  Lemma reserved_key_counterexample :
    let v : pyv := PDict [("__value__", PSeq "builtins" "list" [])] in
    exists j, export v = Some j /\ import j <> Some v.
  Proof. eexists; split; [reflexivity|]. cbn. discriminate. Qed.

  (* what export refuses *)
  Lemma export_rejects_null : export PNull = None /\ export POpaque = None /\
    forall x, export (PDict [("__module__", x)]) = None.
  Proof. repeat split. Qed.
End Proofs.
