(* Yee_linear_pml.v — C10 with absorbing layers: one forward step of model/Yee.v, CPML loop and psi accumulators
   included, is linear in (E, H, psi_E, psi_H, source injections). *)
From Coq Require Import List Arith Lia Field Ring.
From FV Require Import base.Scalar base.Cplx model.Yee proofs.Yee_pml_loop proofs.Yee_linear proofs.Yee_pml_sweep.
Import ListNotations.
Local Open Scope fld_scope.

Section LinearPml.
  Variable K : Fld.
  Add Field KFlp : (Fth K).
  Notation C := (C K).
  Variable sc : scene K.
  Variables a b : car K.
  Notation lc2 := (lc2 K a b). Notation lcA := (lcA K a b). Notation lcVl := (lcVl K a b). Notation lcP := (lcP K a b).
  Notation eqA := (eqA K). Notation eqV := (eqV K). Notation eqP := (eqP K).
  Definition zpsi : psi_t K := (fun _ _ _ => c0, fun _ _ _ => c0).
  (* psi lists related layer by layer *)
  Definition lin_psis (q1 q2 q3 : list (psi_t K)) : Prop :=
    length q1 = length (pmls K sc) /\ length q2 = length (pmls K sc) /\ length q3 = length (pmls K sc) /\
    forall n, (n < length (pmls K sc))%nat -> eqP (nth n q3 zpsi) (lcP (nth n q1 zpsi) (nth n q2 zpsi)).

  Lemma prv_lcA n lo (f g : nat -> C) i : prv K n lo (fun q => lc2 (f q) (g q)) i = lc2 (prv K n lo f i) (prv K n lo g i).
  Proof. unfold prv. destruct i; [|reflexivity]. destruct lo, (f (n - 1)%nat), (g (n - 1)%nat); unfold Yee_pml_loop.lc2, cmul, cadd, cscal; cbn. f_equal; ring. Qed.
  Lemma nxt_lcA n hi (f g : nat -> C) i : nxt K n hi (fun q => lc2 (f q) (g q)) i = lc2 (nxt K n hi f i) (nxt K n hi g i).
  Proof. unfold nxt. destruct (S i <? n); [reflexivity|]. destruct hi, (f O), (g O); unfold Yee_pml_loop.lc2, cmul, cadd, cscal; cbn. f_equal; ring. Qed.
  Lemma prv_eq n lo (f g : nat -> C) i : (forall q, f q = g q) -> prv K n lo f i = prv K n lo g i.
  Proof. intros H. unfold prv. destruct i; rewrite ?H; reflexivity. Qed.
  Lemma nxt_eq n hi (f g : nat -> C) i : (forall q, f q = g q) -> nxt K n hi f i = nxt K n hi g i.
  Proof. intros H. unfold nxt. rewrite !H. reflexivity. Qed.

  Ltac cx := apply c_eq; unfold Yee_pml_loop.lc2, cadd, csub, cscal, cdivr; cbn [fst snd]; ring.

  Lemma d_lin_cell r (x1 x2 y1 y2 : C) : cscal r (csub (lc2 x1 x2) (lc2 y1 y2)) = lc2 (cscal r (csub x1 y1)) (cscal r (csub x2 y2)).
  Proof. cx. Qed.

  (* backward / forward difference operators are linear (pointwise, up to pointwise equality of the argument) *)
  Lemma dm_lin (u1 u2 u3 : A3 K) : eqA u3 (lcA u1 u2) ->
    eqA (dmx K sc u3) (lcA (dmx K sc u1) (dmx K sc u2)) /\ eqA (dmy K sc u3) (lcA (dmy K sc u1) (dmy K sc u2)) /\ eqA (dmz K sc u3) (lcA (dmz K sc u1) (dmz K sc u2)).
  Proof.
    intros H. repeat split; intros i j k; unfold dmx, dmy, dmz, Yee_pml_loop.lcA.
    - rewrite (prv_eq _ _ (fun q => u3 q j k) (fun q => lc2 (u1 q j k) (u2 q j k))) by (intros q; apply H). rewrite prv_lcA, (H i j k). unfold Yee_pml_loop.lcA. apply d_lin_cell.
    - rewrite (prv_eq _ _ (fun q => u3 i q k) (fun q => lc2 (u1 i q k) (u2 i q k))) by (intros q; apply H). rewrite prv_lcA, (H i j k). unfold Yee_pml_loop.lcA. apply d_lin_cell.
    - rewrite (prv_eq _ _ (fun q => u3 i j q) (fun q => lc2 (u1 i j q) (u2 i j q))) by (intros q; apply H). rewrite prv_lcA, (H i j k). unfold Yee_pml_loop.lcA. apply d_lin_cell.
  Qed.
  Lemma dp_lin (u1 u2 u3 : A3 K) : eqA u3 (lcA u1 u2) ->
    eqA (dpx K sc u3) (lcA (dpx K sc u1) (dpx K sc u2)) /\ eqA (dpy K sc u3) (lcA (dpy K sc u1) (dpy K sc u2)) /\ eqA (dpz K sc u3) (lcA (dpz K sc u1) (dpz K sc u2)).
  Proof.
    intros H. repeat split; intros i j k; unfold dpx, dpy, dpz, Yee_pml_loop.lcA.
    - rewrite (nxt_eq _ _ (fun q => u3 q j k) (fun q => lc2 (u1 q j k) (u2 q j k))) by (intros q; apply H). rewrite nxt_lcA, (H i j k). unfold Yee_pml_loop.lcA. apply d_lin_cell.
    - rewrite (nxt_eq _ _ (fun q => u3 i q k) (fun q => lc2 (u1 i q k) (u2 i q k))) by (intros q; apply H). rewrite nxt_lcA, (H i j k). unfold Yee_pml_loop.lcA. apply d_lin_cell.
    - rewrite (nxt_eq _ _ (fun q => u3 i j q) (fun q => lc2 (u1 i j q) (u2 i j q))) by (intros q; apply H). rewrite nxt_lcA, (H i j k). unfold Yee_pml_loop.lcA. apply d_lin_cell.
  Qed.

  Lemma curlH_raw_lin3 H1 H2 H3 : eqV H3 (lcVl H1 H2) -> eqV (curlH_raw K sc H3) (lcVl (curlH_raw K sc H1) (curlH_raw K sc H2)).
  Proof.
    intros (X & Y & Z). destruct (dm_lin (vx H1) (vx H2) (vx H3) X) as (x1 & x2 & x3). destruct (dm_lin (vy H1) (vy H2) (vy H3) Y) as (y1 & y2 & y3). destruct (dm_lin (vz H1) (vz H2) (vz H3) Z) as (z1 & z2 & z3).
    unfold curlH_raw, Yee_pml_loop.eqV, Yee_pml_loop.lcVl; cbn [vx vy vz].
    repeat split; intros i j k; unfold Yee_pml_loop.lcA; rewrite ?(z2 i j k), ?(y3 i j k), ?(x3 i j k), ?(z1 i j k), ?(y1 i j k), ?(x2 i j k); unfold Yee_pml_loop.lcA; cx.
  Qed.
  Lemma curlE_raw_lin3 E1 E2 E3 : eqV E3 (lcVl E1 E2) -> eqV (curlE_raw K sc E3) (lcVl (curlE_raw K sc E1) (curlE_raw K sc E2)).
  Proof.
    intros (X & Y & Z). destruct (dp_lin (vx E1) (vx E2) (vx E3) X) as (x1 & x2 & x3). destruct (dp_lin (vy E1) (vy E2) (vy E3) Y) as (y1 & y2 & y3). destruct (dp_lin (vz E1) (vz E2) (vz E3) Z) as (z1 & z2 & z3).
    unfold curlE_raw, Yee_pml_loop.eqV, Yee_pml_loop.lcVl; cbn [vx vy vz].
    repeat split; intros i j k; unfold Yee_pml_loop.lcA; rewrite ?(z2 i j k), ?(y3 i j k), ?(x3 i j k), ?(z1 i j k), ?(y1 i j k), ?(x2 i j k); unfold Yee_pml_loop.lcA; cx.
  Qed.

  (* the full curls (with CPML) are linear in (field, psi) *)
  Lemma curlH_lin3 sim H1 H2 H3 q1 q2 q3 : eqV H3 (lcVl H1 H2) -> lin_psis q1 q2 q3 ->
    eqV (fst (curlH K sc sim H3 q3)) (lcVl (fst (curlH K sc sim H1 q1)) (fst (curlH K sc sim H2 q2))) /\
    lin_psis (snd (curlH K sc sim H1 q1)) (snd (curlH K sc sim H2 q2)) (snd (curlH K sc sim H3 q3)).
  Proof.
    intros HH (L1 & L2 & L3 & Hq). destruct HH as (X & Y & Z).
    destruct (dm_lin (vx H1) (vx H2) (vx H3) X) as (x1 & x2 & x3). destruct (dm_lin (vy H1) (vy H2) (vy H3) Y) as (y1 & y2 & y3). destruct (dm_lin (vz H1) (vz H2) (vz H3) Z) as (z1 & z2 & z3).
    unfold curlH.
    pose proof (pml_loop_lin K a b false sim
      (fun ax => match ax with O => (dmx K sc (vz H1), dmx K sc (vy H1)) | S O => (dmy K sc (vx H1), dmy K sc (vz H1)) | _ => (dmz K sc (vy H1), dmz K sc (vx H1)) end)
      (fun ax => match ax with O => (dmx K sc (vz H2), dmx K sc (vy H2)) | S O => (dmy K sc (vx H2), dmy K sc (vz H2)) | _ => (dmz K sc (vy H2), dmz K sc (vx H2)) end)
      (fun ax => match ax with O => (dmx K sc (vz H3), dmx K sc (vy H3)) | S O => (dmy K sc (vx H3), dmy K sc (vz H3)) | _ => (dmz K sc (vy H3), dmz K sc (vx H3)) end)) as PL.
    assert (Hds: forall n, eqA (fst (match n with O => (dmx K sc (vz H3), dmx K sc (vy H3)) | S O => (dmy K sc (vx H3), dmy K sc (vz H3)) | _ => (dmz K sc (vy H3), dmz K sc (vx H3)) end))
                               (lcA (fst (match n with O => (dmx K sc (vz H1), dmx K sc (vy H1)) | S O => (dmy K sc (vx H1), dmy K sc (vz H1)) | _ => (dmz K sc (vy H1), dmz K sc (vx H1)) end))
                                    (fst (match n with O => (dmx K sc (vz H2), dmx K sc (vy H2)) | S O => (dmy K sc (vx H2), dmy K sc (vz H2)) | _ => (dmz K sc (vy H2), dmz K sc (vx H2)) end))) /\
                         eqA (snd (match n with O => (dmx K sc (vz H3), dmx K sc (vy H3)) | S O => (dmy K sc (vx H3), dmy K sc (vz H3)) | _ => (dmz K sc (vy H3), dmz K sc (vx H3)) end))
                               (lcA (snd (match n with O => (dmx K sc (vz H1), dmx K sc (vy H1)) | S O => (dmy K sc (vx H1), dmy K sc (vz H1)) | _ => (dmz K sc (vy H1), dmz K sc (vx H1)) end))
                                    (snd (match n with O => (dmx K sc (vz H2), dmx K sc (vy H2)) | S O => (dmy K sc (vx H2), dmy K sc (vz H2)) | _ => (dmz K sc (vy H2), dmz K sc (vx H2)) end)))).
    { intros [|[|n]]; cbv beta iota; cbn [fst snd]; split; [exact z1 | exact y1 | exact x2 | exact z2 | exact y3 | exact x3]. }
    specialize (PL Hds (pmls K sc) q1 q2 q3 _ _ _ L1 L2 L3 Hq (curlH_raw_lin3 H1 H2 H3 (conj X (conj Y Z)))). cbv zeta in PL.
    destruct PL as (P1 & P2 & P3 & P4 & P5). split; [exact P1|]. unfold lin_psis. split; [exact P2|]. split; [exact P3|]. split; [exact P4 | exact P5].
  Qed.
  Lemma curlE_lin3 sim E1 E2 E3 q1 q2 q3 : eqV E3 (lcVl E1 E2) -> lin_psis q1 q2 q3 ->
    eqV (fst (curlE K sc sim E3 q3)) (lcVl (fst (curlE K sc sim E1 q1)) (fst (curlE K sc sim E2 q2))) /\
    lin_psis (snd (curlE K sc sim E1 q1)) (snd (curlE K sc sim E2 q2)) (snd (curlE K sc sim E3 q3)).
  Proof.
    intros HH (L1 & L2 & L3 & Hq). destruct HH as (X & Y & Z).
    destruct (dp_lin (vx E1) (vx E2) (vx E3) X) as (x1 & x2 & x3). destruct (dp_lin (vy E1) (vy E2) (vy E3) Y) as (y1 & y2 & y3). destruct (dp_lin (vz E1) (vz E2) (vz E3) Z) as (z1 & z2 & z3).
    unfold curlE.
    pose proof (pml_loop_lin K a b true sim
      (fun ax => match ax with O => (dpx K sc (vz E1), dpx K sc (vy E1)) | S O => (dpy K sc (vx E1), dpy K sc (vz E1)) | _ => (dpz K sc (vy E1), dpz K sc (vx E1)) end)
      (fun ax => match ax with O => (dpx K sc (vz E2), dpx K sc (vy E2)) | S O => (dpy K sc (vx E2), dpy K sc (vz E2)) | _ => (dpz K sc (vy E2), dpz K sc (vx E2)) end)
      (fun ax => match ax with O => (dpx K sc (vz E3), dpx K sc (vy E3)) | S O => (dpy K sc (vx E3), dpy K sc (vz E3)) | _ => (dpz K sc (vy E3), dpz K sc (vx E3)) end)) as PL.
    assert (Hds: forall n, eqA (fst (match n with O => (dpx K sc (vz E3), dpx K sc (vy E3)) | S O => (dpy K sc (vx E3), dpy K sc (vz E3)) | _ => (dpz K sc (vy E3), dpz K sc (vx E3)) end))
                               (lcA (fst (match n with O => (dpx K sc (vz E1), dpx K sc (vy E1)) | S O => (dpy K sc (vx E1), dpy K sc (vz E1)) | _ => (dpz K sc (vy E1), dpz K sc (vx E1)) end))
                                    (fst (match n with O => (dpx K sc (vz E2), dpx K sc (vy E2)) | S O => (dpy K sc (vx E2), dpy K sc (vz E2)) | _ => (dpz K sc (vy E2), dpz K sc (vx E2)) end))) /\
                         eqA (snd (match n with O => (dpx K sc (vz E3), dpx K sc (vy E3)) | S O => (dpy K sc (vx E3), dpy K sc (vz E3)) | _ => (dpz K sc (vy E3), dpz K sc (vx E3)) end))
                               (lcA (snd (match n with O => (dpx K sc (vz E1), dpx K sc (vy E1)) | S O => (dpy K sc (vx E1), dpy K sc (vz E1)) | _ => (dpz K sc (vy E1), dpz K sc (vx E1)) end))
                                    (snd (match n with O => (dpx K sc (vz E2), dpx K sc (vy E2)) | S O => (dpy K sc (vx E2), dpy K sc (vz E2)) | _ => (dpz K sc (vy E2), dpz K sc (vx E2)) end)))).
    { intros [|[|n]]; cbv beta iota; cbn [fst snd]; split; [exact z1 | exact y1 | exact x2 | exact z2 | exact y3 | exact x3]. }
    specialize (PL Hds (pmls K sc) q1 q2 q3 _ _ _ L1 L2 L3 Hq (curlE_raw_lin3 E1 E2 E3 (conj X (conj Y Z)))). cbv zeta in PL.
    destruct PL as (P1 & P2 & P3 & P4 & P5). split; [exact P1|]. unfold lin_psis. split; [exact P2|]. split; [exact P3|]. split; [exact P4 | exact P5].
  Qed.

  (* cell algebra of the updates *)
  Lemma updE_cell m f ie (e1 e2 k1 k2 j1 j2 : C) :
    cscal m (cadd (cdivr (cadd (cscal (1 - f) (lc2 e1 e2)) (cscal (cn K sc * ie) (lc2 k1 k2))) (1 + f)) (lc2 j1 j2))
    = lc2 (cscal m (cadd (cdivr (cadd (cscal (1 - f) e1) (cscal (cn K sc * ie) k1)) (1 + f)) j1))
          (cscal m (cadd (cdivr (cadd (cscal (1 - f) e2) (cscal (cn K sc * ie) k2)) (1 + f)) j2)).
  Proof. apply c_eq; unfold Yee_pml_loop.lc2, cadd, csub, cscal, cdivr; cbn [fst snd]; rewrite !(Fdiv_def (Fth K)); ring. Qed.
  Lemma updH_cell m f im (h1 h2 k1 k2 j1 j2 : C) :
    cscal m (cadd (cdivr (csub (cscal (1 - f) (lc2 h1 h2)) (cscal (cn K sc * im) (lc2 k1 k2))) (1 + f)) (lc2 j1 j2))
    = lc2 (cscal m (cadd (cdivr (csub (cscal (1 - f) h1) (cscal (cn K sc * im) k1)) (1 + f)) j1))
          (cscal m (cadd (cdivr (csub (cscal (1 - f) h2) (cscal (cn K sc * im) k2)) (1 + f)) j2)).
  Proof. apply c_eq; unfold Yee_pml_loop.lc2, cadd, csub, cscal, cdivr; cbn [fst snd]; rewrite !(Fdiv_def (Fth K)); ring. Qed.

  (* the scene with other source injections (layers unchanged) *)
  Notation with_inj := (with_inj K sc).

  Lemma curlH_inj jE jH sim H q : curlH K (with_inj jE jH) sim H q = curlH K sc sim H q.
  Proof. reflexivity. Qed.
  Lemma curlE_inj jE jH sim E q : curlE K (with_inj jE jH) sim E q = curlE K sc sim E q.
  Proof. reflexivity. Qed.

  (* C10 with absorbing layers: one step *)
  Theorem forward_linear_pml jE1 jH1 jE2 jH2 s1 s2 s3 :
    tstep s2 = tstep s1 -> tstep s3 = tstep s1 ->
    eqV (fE s3) (lcVl (fE s1) (fE s2)) -> eqV (fH s3) (lcVl (fH s1) (fH s2)) ->
    lin_psis (psiE s1) (psiE s2) (psiE s3) -> lin_psis (psiH s1) (psiH s2) (psiH s3) ->
    let sc1 := with_inj jE1 jH1 in let sc2 := with_inj jE2 jH2 in
    let sc3 := with_inj (fun t => lcVl (jE1 t) (jE2 t)) (fun t => lcVl (jH1 t) (jH2 t)) in
    let r1 := forward K sc1 s1 in let r2 := forward K sc2 s2 in let r3 := forward K sc3 s3 in
    eqV (fE r3) (lcVl (fE r1) (fE r2)) /\ eqV (fH r3) (lcVl (fH r1) (fH r2)) /\
    lin_psis (psiE r1) (psiE r2) (psiE r3) /\ lin_psis (psiH r1) (psiH r2) (psiH r3) /\
    tstep r2 = tstep r1 /\ tstep r3 = tstep r1.
  Proof.
    intros T2 T3 HE HH PE PH sc1 sc2 sc3 r1 r2 r3.
    (* E update *)
    destruct (curlH_lin3 true (fH s1) (fH s2) (fH s3) (psiE s1) (psiE s2) (psiE s3) HH PE) as (KC & PE').
    assert (EE: eqV (fE r3) (lcVl (fE r1) (fE r2))).
    { unfold r1, r2, r3. rewrite !fE_forward, !update_E_unfold. cbn [fE]. unfold sc1, sc2, sc3. rewrite !curlH_inj.
      destruct KC as (k1 & k2 & k3). destruct HE as (e1 & e2 & e3).
      unfold Yee_pml_loop.eqV, Yee_pml_loop.lcVl, vmask, vadd, vmap2, updE1, fE1, Yee_linear.with_inj; cbn [vx vy vz m1 m2 m3 injE cn ieps sigE mE eta0].
      rewrite T2, T3.
      repeat split; intros i j k; unfold Yee_pml_loop.lcA;
        [rewrite (e1 i j k), (k1 i j k) | rewrite (e2 i j k), (k2 i j k) | rewrite (e3 i j k), (k3 i j k)]; unfold Yee_pml_loop.lcA; apply updE_cell. }
    (* the E seen by the H update is the new E *)
    assert (PEr: lin_psis (psiE r1) (psiE r2) (psiE r3)).
    { unfold r1, r2, r3, forward. rewrite !update_H_unfold, !update_E_unfold. cbn [psiE]. unfold sc1, sc2, sc3. rewrite !curlH_inj. exact PE'. }
    assert (Hnew: forall (s : state K) (scx : scene K), fE (update_E K scx true s) = fE (forward K scx s)) by (intros; symmetry; apply fE_forward).
    destruct (curlE_lin3 true (fE r1) (fE r2) (fE r3) (psiH s1) (psiH s2) (psiH s3) EE PH) as (KE & PH').
    split; [exact EE|]. split; [|split; [exact PEr|]; split; [|split; [unfold r1, r2; cbn; rewrite T2; reflexivity | unfold r1, r3; cbn; rewrite T3; reflexivity]]].
    - unfold r1, r2, r3, forward. rewrite !update_H_unfold. cbn [fH].
      assert (A: forall scx s, psiH (update_E K scx true s) = psiH s /\ tstep (update_E K scx true s) = tstep s /\ fH (update_E K scx true s) = fH s)
        by (intros; rewrite update_E_unfold; repeat split).
      destruct (A sc1 s1) as (a1 & b1 & c1). destruct (A sc2 s2) as (a2 & b2 & c2). destruct (A sc3 s3) as (a3 & b3 & c3).
      rewrite a1, a2, a3, b1, b2, b3, c1, c2, c3, !Hnew. fold r1 r2 r3. unfold sc1, sc2, sc3. rewrite !curlE_inj. fold sc1 sc2 sc3. fold r1 r2 r3.
      destruct KE as (k1 & k2 & k3). destruct HH as (h1 & h2 & h3).
      unfold Yee_pml_loop.eqV, Yee_pml_loop.lcVl, vmask, vadd, vmap2, updH1, fH1, sc1, sc2, sc3, Yee_linear.with_inj; cbn [vx vy vz m1 m2 m3 injH cn imu sigH mH eta0].
      rewrite T2, T3.
      repeat split; intros i j k; unfold Yee_pml_loop.lcA;
        [rewrite (h1 i j k), (k1 i j k) | rewrite (h2 i j k), (k2 i j k) | rewrite (h3 i j k), (k3 i j k)]; unfold Yee_pml_loop.lcA; apply updH_cell.
    - unfold r1, r2, r3, forward. rewrite !update_H_unfold. cbn [psiH].
      assert (A: forall scx s, psiH (update_E K scx true s) = psiH s) by (intros; rewrite update_E_unfold; reflexivity).
      rewrite !A, !Hnew. fold r1 r2 r3. unfold sc1, sc2, sc3. rewrite !curlE_inj. exact PH'.
  Qed.

  (* any number of steps *)
  Theorem forward_linear_pml_n jE1 jH1 jE2 jH2 n : forall s1 s2 s3,
    tstep s2 = tstep s1 -> tstep s3 = tstep s1 ->
    eqV (fE s3) (lcVl (fE s1) (fE s2)) -> eqV (fH s3) (lcVl (fH s1) (fH s2)) ->
    lin_psis (psiE s1) (psiE s2) (psiE s3) -> lin_psis (psiH s1) (psiH s2) (psiH s3) ->
    let sc1 := with_inj jE1 jH1 in let sc2 := with_inj jE2 jH2 in
    let sc3 := with_inj (fun t => lcVl (jE1 t) (jE2 t)) (fun t => lcVl (jH1 t) (jH2 t)) in
    eqV (fE (iterS K sc3 n s3)) (lcVl (fE (iterS K sc1 n s1)) (fE (iterS K sc2 n s2))) /\
    eqV (fH (iterS K sc3 n s3)) (lcVl (fH (iterS K sc1 n s1)) (fH (iterS K sc2 n s2))).
  Proof.
    induction n as [|n IH]; intros s1 s2 s3 T2 T3 HE HH PE PH sc1 sc2 sc3; [split; assumption|].
    destruct (forward_linear_pml jE1 jH1 jE2 jH2 s1 s2 s3 T2 T3 HE HH PE PH) as (A & B & C0 & D & E0 & F0).
    cbn [iterS]. apply IH; assumption.
  Qed.
End LinearPml.
