(* DetectorsBase.v — helpers of the Detectors area (C15, C16, C17): list <-> function views of
   arrays (row-major, numpy ravel order) and complex numbers as pairs over the scalar field. *)
From Coq Require Import List Arith ZArith Field Ring Lia.
From FV Require Import base.Scalar base.Sums.
Import ListNotations.
Local Open Scope fld_scope.

Section DetBase.
  Variable K : Fld.
  Add Field KF_detbase : (Fth K).
  Notation F := (car K).

  (* ---- nested lists read as functions (default 0 outside: guarded by bounds in statements) ---- *)
  Definition get1 (l : list F) (i : nat) : F := nth i l 0.
  Definition get3 (l : list (list (list F))) (i j k : nat) : F := nth k (nth j (nth i l []) []) 0.
  Definition get4 (l : list (list (list (list F)))) (c i j k : nat) : F := get3 (nth c l []) i j k.

  (* ---- functions tabulated as flat row-major lists ---- *)
  Definition tab1 (n : nat) (f : nat -> F) : list F := map f (seq 0 n).
  Definition tab3 (nx ny nz : nat) (f : nat -> nat -> nat -> F) : list F :=
    concat (map (fun i => concat (map (fun j => map (fun k => f i j k) (seq 0 nz)) (seq 0 ny))) (seq 0 nx)).
  Definition tab4 (nc nx ny nz : nat) (f : nat -> nat -> nat -> nat -> F) : list F :=
    concat (map (fun c => tab3 nx ny nz (f c)) (seq 0 nc)).

  (* ---- complex numbers as pairs ---- *)
  Definition Cx : Type := (F * F)%type.
  Definition c0 : Cx := (0, 0).
  Definition cre (a : Cx) : F := fst a.
  Definition cim (a : Cx) : F := snd a.
  Definition cadd (a b : Cx) : Cx := (fst a + fst b, snd a + snd b).
  Definition csub (a b : Cx) : Cx := (fst a - fst b, snd a - snd b).
  Definition copp (a : Cx) : Cx := (- fst a, - snd a).
  Definition cmul (a b : Cx) : Cx := (fst a * fst b - snd a * snd b, fst a * snd b + snd a * fst b).
  Definition cconj (a : Cx) : Cx := (fst a, - snd a).
  Definition cscal (r : F) (a : Cx) : Cx := (r * fst a, r * snd a).
  Definition cofr (r : F) : Cx := (r, 0).

  Lemma cx_eq (a b : Cx) : fst a = fst b -> snd a = snd b -> a = b.
  Proof. destruct a, b; cbn; intros -> ->; reflexivity. Qed.
  Lemma cadd_comm a b : cadd a b = cadd b a.
  Proof. apply cx_eq; cbn; ring. Qed.
  Lemma cadd_assoc a b c : cadd (cadd a b) c = cadd a (cadd b c).
  Proof. apply cx_eq; cbn; ring. Qed.
  Lemma cadd_0_l a : cadd c0 a = a.
  Proof. apply cx_eq; cbn; ring. Qed.
  Lemma cadd_0_r a : cadd a c0 = a.
  Proof. apply cx_eq; cbn; ring. Qed.
  Lemma csub_add_opp a b : csub a b = cadd a (copp b).
  Proof. apply cx_eq; cbn; ring. Qed.
  Lemma cscal_add r a b : cscal r (cadd a b) = cadd (cscal r a) (cscal r b).
  Proof. apply cx_eq; cbn; ring. Qed.
  Lemma cscal_0 r : cscal r c0 = c0.
  Proof. apply cx_eq; cbn; ring. Qed.
  Lemma cscal_cscal r s a : cscal r (cscal s a) = cscal (r * s) a.
  Proof. apply cx_eq; cbn; ring. Qed.
  Lemma cmul_comm a b : cmul a b = cmul b a.
  Proof. apply cx_eq; cbn; ring. Qed.

  (* complex-valued finite sums *)
  Fixpoint csumn (n : nat) (g : nat -> Cx) : Cx := match n with O => c0 | S k => cadd (csumn k g) (g k) end.
  Lemma csumn_re n g : fst (csumn n g) = sumn n (fun i => fst (g i)).
  Proof. induction n as [|n IH]; cbn; [reflexivity|]. rewrite IH. reflexivity. Qed.
  Lemma csumn_im n g : snd (csumn n g) = sumn n (fun i => snd (g i)).
  Proof. induction n as [|n IH]; cbn; [reflexivity|]. rewrite IH. reflexivity. Qed.

  (* sum over a list *)
  Fixpoint lsum (l : list F) : F := match l with [] => 0 | x :: r => x + lsum r end.
  Fixpoint clsum (l : list Cx) : Cx := match l with [] => c0 | x :: r => cadd x (clsum r) end.
  Lemma lsum_app a b : lsum (a ++ b) = lsum a + lsum b.
  Proof. induction a as [|x a IH]; cbn; [ring|]. rewrite IH. ring. Qed.
  Lemma clsum_app a b : clsum (a ++ b) = cadd (clsum a) (clsum b).
  Proof. induction a as [|x a IH]; cbn; [symmetry; apply cadd_0_l|]. rewrite IH. symmetry. apply cadd_assoc. Qed.

  Lemma sumn_1 (g : nat -> F) : sumn 1 g = g O.
  Proof. cbn. ring. Qed.
End DetBase.

Arguments get1 {K}. Arguments get3 {K}. Arguments get4 {K}.
Arguments tab1 {K}. Arguments tab3 {K}. Arguments tab4 {K}.
Arguments c0 {K}. Arguments cadd {K}. Arguments csub {K}. Arguments copp {K}. Arguments cmul {K}.
Arguments cconj {K}. Arguments cscal {K}. Arguments cofr {K}. Arguments cre {K}. Arguments cim {K}.
Arguments csumn {K}. Arguments lsum {K}. Arguments clsum {K}.
