(* PyNum.v — Python integer/rounding semantics used by the models.
   py_round_div p q models Python's  round(p / q)  for ints p, q>0: round-half-to-even of the
   exact quotient (assumption recorded in the trusted base: |p|,q < 2^26 so that the float
   quotient rounds the same way as the exact one). *)
From Coq Require Import ZArith List Lia.
Import ListNotations.
Open Scope Z_scope.
Ltac Zify.zify_post_hook ::= Z.to_euclidean_division_equations.

Definition py_round_div (p q : Z) : Z :=
  let f := p / q in let r2 := 2 * (p mod q) in
  if r2 <? q then f else if q <? r2 then f + 1 else if Z.even f then f else f + 1.

(* range(n) as a list of Z *)
Definition zrange (n : Z) : list Z := map Z.of_nat (seq 0 (Z.to_nat n)).
(* jnp.arange(a, b, step), step > 0 *)
Definition zarange (a b step : Z) : list Z :=
  map (fun i => a + Z.of_nat i * step) (seq 0 (Z.to_nat ((b - a + step - 1) / step))).

Lemma prd_bounds p q : 0 < q -> 2 * q * py_round_div p q <= 2 * p + q /\ 2 * p - q <= 2 * q * py_round_div p q.
Proof.
  intros Hq. unfold py_round_div.
  destruct (2 * (p mod q) <? q) eqn:E1; [apply Z.ltb_lt in E1 | apply Z.ltb_ge in E1].
  - split; nia.
  - destruct (q <? 2 * (p mod q)) eqn:E2; [apply Z.ltb_lt in E2 | apply Z.ltb_ge in E2].
    + split; nia.
    + destruct (Z.even (p / q)); split; nia.
Qed.

Lemma prd_exact p q : 0 < q -> (q | p) -> py_round_div p q = p / q.
Proof.
  intros Hq [k ->]. unfold py_round_div. rewrite Z.mod_mul by lia. simpl.
  destruct (0 <? q) eqn:E; [reflexivity | apply Z.ltb_ge in E; lia].
Qed.

Lemma prd_strict p1 p2 q : 0 < q -> p1 + q < p2 -> py_round_div p1 q < py_round_div p2 q.
Proof.
  intros Hq Hgap.
  destruct (prd_bounds p1 q Hq) as [U1 L1]. destruct (prd_bounds p2 q Hq) as [U2 L2]. nia.
Qed.

Lemma prd_mono p1 p2 q : 0 < q -> p1 <= p2 -> py_round_div p1 q <= py_round_div p2 q.
Proof.
  intros Hq Hle. unfold py_round_div.
  assert (D: p1 / q <= p2 / q) by (apply Z.div_le_mono; lia).
  destruct (Z.eq_dec (p1 / q) (p2 / q)) as [E|NE].
  - (* same floor: remainders ordered *)
    assert (R: p1 mod q <= p2 mod q) by (rewrite (Z.mod_eq p1 q), (Z.mod_eq p2 q) by lia; rewrite E; lia).
    rewrite E.
    destruct (2 * (p1 mod q) <? q) eqn:A1; destruct (2 * (p2 mod q) <? q) eqn:A2;
    destruct (q <? 2 * (p1 mod q)) eqn:B1; destruct (q <? 2 * (p2 mod q)) eqn:B2;
    destruct (Z.even (p2 / q)); lia.
  - assert (p1 / q + 1 <= p2 / q) by lia.
    destruct (2 * (p1 mod q) <? q); destruct (2 * (p2 mod q) <? q);
    destruct (q <? 2 * (p1 mod q)); destruct (q <? 2 * (p2 mod q));
    destruct (Z.even (p1 / q)); destruct (Z.even (p2 / q)); lia.
Qed.
