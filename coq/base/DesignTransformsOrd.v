(* DesignTransformsOrd.v — derived facts of ordered fields (OFld) used by C22 (weighted averages) and C20. *)
From Coq Require Import List Arith Lia Bool Field Ring.
From FV Require Import base.Scalar base.Sums.
Local Open Scope fld_scope.

Section Ord.
  Variable K : OFld.
  Add Field KFord : (Fth K).
  Notation F := (car K).

  Lemma le_sub_iff (x y : F) : x <= y <-> 0 <= y - x.
  Proof. split; intros H.
    - pose proof (fle_add K x y (- x) H) as H1. replace (x + - x) with (0 : F) in H1 by ring.
      replace (y + - x) with (y - x) in H1 by ring. exact H1.
    - pose proof (fle_add K 0 (y - x) x H) as H1. replace (0 + x) with x in H1 by ring.
      replace (y - x + x) with y in H1 by ring. exact H1. Qed.

  Lemma le_add_compat (a b c d : F) : a <= b -> c <= d -> a + c <= b + d.
  Proof. intros H1 H2. apply (fle_trans K _ (b + c)); [apply fle_add; exact H1|].
    replace (b + c) with (c + b) by ring. replace (b + d) with (d + b) by ring. apply fle_add; exact H2. Qed.

  Lemma opp_nonneg (x : F) : x <= 0 -> 0 <= - x.
  Proof. intros H. apply le_sub_iff in H. replace (0 - x) with (- x) in H by ring. exact H. Qed.

  Lemma le_0_1 : (0 : F) <= 1.
  Proof. destruct (fle_total K 0 1) as [H|H]; [exact H|].
    pose proof (opp_nonneg 1 H) as H1. pose proof (fle_mul K _ _ H1 H1) as H2.
    replace (- (1) * - (1)) with (1 : F) in H2 by ring. exact H2. Qed.

  Lemma mul_le_l (w x y : F) : 0 <= w -> x <= y -> w * x <= w * y.
  Proof. intros Hw H. apply le_sub_iff. apply le_sub_iff in H.
    replace (w * y - w * x) with (w * (y - x)) by ring. apply fle_mul; assumption. Qed.

  Lemma inv_nonneg (x : F) : 0 <= x -> x <> 0 -> 0 <= / x.
  Proof. intros Hx Hn. destruct (fle_total K 0 (/ x)) as [H|H]; [exact H|]. exfalso.
    pose proof (fle_mul K _ _ Hx (opp_nonneg _ H)) as H1.
    replace (x * - / x) with (- (1) : F) in H1 by (field; exact Hn).
    assert (H2 : (1 : F) <= 0). { apply le_sub_iff. replace (0 - 1) with (- (1) : F) by ring. exact H1. }
    apply (f01 K). apply (fle_antisym K); [apply le_0_1 | exact H2]. Qed.

  Lemma sumn_le n (f g : nat -> F) : (forall i, (i < n)%nat -> f i <= g i) -> sumn n f <= sumn n g.
  Proof. induction n as [|n IH]; intros H; cbn; [apply fle_refl|].
    apply le_add_compat; [apply IH; intros; apply H; lia | apply H; lia]. Qed.

  Lemma sumn_nonneg n (f : nat -> F) : (forall i, (i < n)%nat -> 0 <= f i) -> 0 <= sumn n f.
  Proof. intros H. rewrite <- (sumn_zero K n). apply sumn_le. exact H. Qed.

  (* a weighted average with non-negative weights stays between the bounds of the values *)
  Lemma wavg_bounds n (w v : nat -> F) (lo hi : F) :
    (forall i, (i < n)%nat -> 0 <= w i) -> (forall i, (i < n)%nat -> lo <= v i /\ v i <= hi) ->
    lo * sumn n w <= sumn n (fun i => w i * v i) /\ sumn n (fun i => w i * v i) <= hi * sumn n w.
  Proof. intros Hw Hv. rewrite <- !(sumn_scal K). split; apply sumn_le; intros i Hi.
    - replace (lo * w i) with (w i * lo) by ring. apply mul_le_l; [apply Hw | apply Hv]; exact Hi.
    - replace (hi * w i) with (w i * hi) by ring. apply mul_le_l; [apply Hw | apply Hv]; exact Hi. Qed.

  Lemma div_bounds (s t lo hi : F) : 0 <= t -> t <> 0 -> lo * t <= s -> s <= hi * t -> lo <= s / t /\ s / t <= hi.
  Proof. intros Ht Hn H1 H2. pose proof (inv_nonneg t Ht Hn) as Hi. split.
    - replace lo with (/ t * (lo * t)) by (field; exact Hn). replace (s / t) with (/ t * s) by (field; exact Hn).
      apply mul_le_l; assumption.
    - replace hi with (/ t * (hi * t)) by (field; exact Hn). replace (s / t) with (/ t * s) by (field; exact Hn).
      apply mul_le_l; assumption. Qed.
End Ord.
