(* Cplx.v — complex numbers as pairs over the abstract field (fields of the solver are complex
   when a Bloch phase is present or complex storage is forced; real runs have zero imaginary part). *)
From Coq Require Import Field Ring.
From FV Require Import base.Scalar.
Local Open Scope fld_scope.

Section Cplx.
  Variable K : Fld.
  Add Field KFc : (Fth K).
  Definition C : Type := (car K * car K)%type.
  Definition c0 : C := (0, 0).
  Definition c1 : C := (1, 0).
  Definition cre (z : C) : K := fst z.
  Definition cim (z : C) : K := snd z.
  Definition cadd (a b : C) : C := (fst a + fst b, snd a + snd b).
  Definition csub (a b : C) : C := (fst a - fst b, snd a - snd b).
  Definition copp (a : C) : C := (- fst a, - snd a).
  Definition cscal (r : K) (a : C) : C := (r * fst a, r * snd a).
  Definition cmul (a b : C) : C := (fst a * fst b - snd a * snd b, fst a * snd b + snd a * fst b).
  Definition cconj (a : C) : C := (fst a, - snd a).
  Definition cdivr (a : C) (r : K) : C := (fst a / r, snd a / r).
  (* Re (a * conj b): the real inner product *)
  Definition cdot (a b : C) : K := fst a * fst b + snd a * snd b.
  Definition cofr (r : K) : C := (r, 0).

  Lemma cdot_comm a b : cdot a b = cdot b a.
  Proof. unfold cdot; ring. Qed.
  Lemma cdot_phase p a b : cdot (cmul p a) b = cdot a (cmul (cconj p) b).
  Proof. destruct p, a, b; unfold cdot, cmul, cconj; cbn; ring. Qed.
  Lemma c_eq (a b : C) : fst a = fst b -> snd a = snd b -> a = b.
  Proof. destruct a, b; cbn; intros -> ->; reflexivity. Qed.
End Cplx.
Arguments c0 {K}. Arguments c1 {K}. Arguments cadd {K}. Arguments csub {K}. Arguments copp {K}.
Arguments cscal {K}. Arguments cmul {K}. Arguments cconj {K}. Arguments cdivr {K}. Arguments cdot {K}.
Arguments cofr {K}. Arguments cre {K}. Arguments cim {K}.
