(* GridBase.v — derived facts of an ordered field (OFld) and small list utilities
   (first-minimum argmin, list min/max, sums) shared by the Grid (C37) and Dispersion (C35) areas. *)
From Coq Require Import List Arith Bool Lia Field Ring.
From FV Require Import base.Scalar.
Import ListNotations.
Local Open Scope fld_scope.

Section OrdFacts.
  Variable K : OFld.
  Add Field KF0 : (Fth K).
  Notation F := (car K).

  Definition flt (x y : F) : Prop := ~ fle K y x.
  Definition fltb (x y : F) : bool := negb (fleb K y x).
  Definition fabs (x : F) : F := if fleb K 0 x then x else - x.
  Definition f2 : F := 1 + 1.
  Definition f3 : F := 1 + 1 + 1.

  Lemma fltb_spec x y : fltb x y = true <-> flt x y.
  Proof.
    unfold fltb, flt. destruct (fleb K y x) eqn:E; cbn.
    - apply fleb_spec in E. split; [discriminate | intros H; elim H; exact E].
    - split; [intros _ H; apply fleb_spec in H; congruence | reflexivity].
  Qed.
  Lemma fleb_false x y : fleb K x y = false -> fle K y x.
  Proof.
    intros E. destruct (fle_total K x y) as [H|H]; [|exact H].
    apply fleb_spec in H. congruence.
  Qed.
  Lemma flt_le x y : flt x y -> fle K x y.
  Proof. unfold flt. intros H. destruct (fle_total K x y) as [A|A]; [exact A | elim H; exact A]. Qed.
  Lemma not_flt_le x y : ~ flt x y -> fle K y x.
  Proof.
    unfold flt. intros H. destruct (fleb K y x) eqn:E; [apply fleb_spec; exact E|].
    elim H. intros A. apply fleb_spec in A. congruence.
  Qed.
  Lemma flt_le_trans x y z : flt x y -> fle K y z -> flt x z.
  Proof. unfold flt. intros A B C. apply A. eapply fle_trans; eassumption. Qed.
  Lemma fle_lt_trans x y z : fle K x y -> flt y z -> flt x z.
  Proof. unfold flt. intros A B C. apply B. eapply fle_trans; eassumption. Qed.
  Lemma flt_irrefl x : ~ flt x x.
  Proof. intros H. apply H. apply fle_refl. Qed.

  Lemma fle_add_r x y z : fle K x y -> fle K (z + x) (z + y).
  Proof. intros H. replace (z + x) with (x + z) by ring. replace (z + y) with (y + z) by ring. apply fle_add; exact H. Qed.
  Lemma fle_0_sub x y : fle K x y <-> fle K 0 (y - x).
  Proof.
    split; intros H.
    - replace (f0 K) with (x + - x) by ring. replace (y - x) with (y + - x) by ring. apply fle_add; exact H.
    - replace x with (f0 K + x) at 1 by ring. replace y with ((y - x) + x) by ring. apply fle_add; exact H.
  Qed.
  Definition fle_0_sub1 x y := proj1 (fle_0_sub x y).
  Definition fle_0_sub2 x y := proj2 (fle_0_sub x y).
  Lemma fle_add2 a b c d : fle K a b -> fle K c d -> fle K (a + c) (b + d).
  Proof. intros A B. eapply fle_trans; [apply fle_add; exact A | apply fle_add_r; exact B]. Qed.
  Lemma add_nonneg x y : fle K 0 x -> fle K 0 y -> fle K 0 (x + y).
  Proof. intros A B. eapply fle_trans; [exact B|]. replace y with (f0 K + y) at 1 by ring. apply fle_add. exact A. Qed.
  Lemma opp_nonneg x : fle K x 0 -> fle K 0 (- x).
  Proof. intros H. apply fle_0_sub1 in H. replace (- x) with (f0 K - x) by ring. exact H. Qed.
  Lemma sq_nonneg x : fle K 0 (x * x).
  Proof.
    destruct (fle_total K 0 x) as [H|H]; [apply fle_mul; exact H|].
    replace (x * x) with ((- x) * (- x)) by ring. apply fle_mul; apply opp_nonneg; exact H.
  Qed.
  Lemma one_nonneg : fle K 0 1.
  Proof. replace (f1 K) with (f1 K * f1 K) by ring. apply sq_nonneg. Qed.
  Lemma one_pos : flt 0 1.
  Proof. intros H. apply (f01 K). apply fle_antisym; [apply one_nonneg | exact H]. Qed.
  Lemma pos_add_nonneg x y : flt 0 x -> fle K 0 y -> flt 0 (x + y).
  Proof.
    intros A B C. apply A. eapply fle_trans; [|exact C].
    replace x with (x + f0 K) at 1 by ring. apply fle_add_r. exact B.
  Qed.
  Lemma f2_pos : flt 0 f2.
  Proof. unfold f2. apply pos_add_nonneg; [apply one_pos | apply one_nonneg]. Qed.
  Lemma f3_pos : flt 0 f3.
  Proof. unfold f3. apply pos_add_nonneg; [apply f2_pos | apply one_nonneg]. Qed.
  Lemma pos_neq0 x : flt 0 x -> x <> 0.
  Proof. intros H E. subst. exact (flt_irrefl _ H). Qed.
  Lemma f2_neq0 : f2 <> 0. Proof. apply pos_neq0, f2_pos. Qed.
  Lemma f3_neq0 : f3 <> 0. Proof. apply pos_neq0, f3_pos. Qed.
  Lemma inv_nonneg x : fle K 0 x -> x <> 0 -> fle K 0 (/ x).
  Proof.
    intros H N. replace (/ x) with (x * ((/ x) * (/ x))) by (field; exact N).
    apply fle_mul; [exact H | apply sq_nonneg].
  Qed.
  Lemma mul_pos x y : flt 0 x -> flt 0 y -> flt 0 (x * y).
  Proof.
    intros A B C.
    assert (Nx := pos_neq0 _ A).
    assert (E : x * y = 0).
    { apply fle_antisym; [exact C | apply fle_mul; apply flt_le; assumption]. }
    apply B. replace y with ((/ x) * (x * y)) by (field; exact Nx). rewrite E.
    replace (/ x * f0 K) with (f0 K) by ring. apply fle_refl.
  Qed.
  Lemma fle_mul_r x y z : fle K 0 z -> fle K x y -> fle K (x * z) (y * z).
  Proof.
    intros Z H. apply fle_0_sub2. replace (y * z - x * z) with ((y - x) * z) by ring.
    apply fle_mul; [apply fle_0_sub1; exact H | exact Z].
  Qed.
  Lemma fabs_nonneg x : fle K 0 (fabs x).
  Proof.
    unfold fabs. destruct (fleb K 0 x) eqn:E; [apply fleb_spec; exact E|].
    apply opp_nonneg. apply fleb_false. exact E.
  Qed.
  Lemma fabs_0 : fabs 0 = 0.
  Proof. unfold fabs. destruct (fleb K 0 0); ring. Qed.
  Lemma fabs_sq x : fabs x * fabs x = x * x.
  Proof. unfold fabs. destruct (fleb K 0 x); ring. Qed.
  Lemma fabs_le x b : fle K (fabs x) b -> fle K x b /\ fle K (- b) x.
  Proof.
    unfold fabs. destruct (fleb K 0 x) eqn:E; intros H.
    - apply fleb_spec in E. split; [exact H|].
      eapply fle_trans; [|exact E]. replace (f0 K) with (- b + b) by ring.
      replace (- b) with (- b + f0 K) at 1 by ring. apply fle_add_r. eapply fle_trans; eassumption.
    - apply fleb_false in E. split.
      + eapply fle_trans; [exact E|]. eapply fle_trans; [|exact H]. apply opp_nonneg. exact E.
      + apply fle_0_sub2. replace (x - - b) with (b - - x) by ring. apply fle_0_sub1. exact H.
  Qed.

  (* ---- lists ---- *)
  Fixpoint sumF (l : list F) : F := match l with [] => 0 | x :: r => x + sumF r end.
  Lemma sumF_scal k l : sumF (map (fun x => k * x) l) = k * sumF l.
  Proof. induction l as [|x r IH]; cbn; [ring|]. rewrite IH. ring. Qed.
  Lemma sumF_app a b : sumF (a ++ b) = sumF a + sumF b.
  Proof. induction a as [|x r IH]; cbn; [ring|]. rewrite IH. ring. Qed.

  (* np.min / np.max of a non-empty array (d is only returned for the empty list) *)
  Definition minl (d : F) (l : list F) : F :=
    match l with [] => d | x :: r => fold_left (fun m y => if fltb y m then y else m) r x end.
  Definition maxl (d : F) (l : list F) : F :=
    match l with [] => d | x :: r => fold_left (fun m y => if fltb m y then y else m) r x end.

  Lemma fold_min_spec r : forall x, let m := fold_left (fun m y => if fltb y m then y else m) r x in
    fle K m x /\ (forall y, In y r -> fle K m y) /\ (m = x \/ In m r).
  Proof.
    induction r as [|y r IH]; intros x; cbn.
    - split; [apply fle_refl|]. split; [intros ? []|left; reflexivity].
    - destruct (fltb y x) eqn:E.
      + apply fltb_spec in E. destruct (IH y) as (A & B & C). split; [eapply fle_trans; [exact A | apply flt_le; exact E]|].
        split; [intros z [<-|Hz]; [exact A | apply B; exact Hz] | right; destruct C as [->|C]; [left; reflexivity | right; exact C]].
      + assert (Hxy : fle K x y) by (apply not_flt_le; intros H; apply fltb_spec in H; congruence).
        destruct (IH x) as (A & B & C). split; [exact A|].
        split; [intros z [<-|Hz]; [eapply fle_trans; eassumption | apply B; exact Hz] | destruct C as [->|C]; [left; reflexivity | right; right; exact C]].
  Qed.
  Lemma minl_spec d l : l <> [] -> In (minl d l) l /\ forall y, In y l -> fle K (minl d l) y.
  Proof.
    destruct l as [|x r]; [congruence|]. intros _. cbn [minl].
    destruct (fold_min_spec r x) as (A & B & C). split.
    - destruct C as [->|C]; [left; reflexivity | right; exact C].
    - intros y [<-|Hy]; [exact A | apply B; exact Hy].
  Qed.
  Lemma fold_max_spec r : forall x, let m := fold_left (fun m y => if fltb m y then y else m) r x in
    fle K x m /\ (forall y, In y r -> fle K y m) /\ (m = x \/ In m r).
  Proof.
    induction r as [|y r IH]; intros x; cbn.
    - split; [apply fle_refl|]. split; [intros ? []|left; reflexivity].
    - destruct (fltb x y) eqn:E.
      + apply fltb_spec in E. destruct (IH y) as (A & B & C). split; [eapply fle_trans; [apply flt_le; exact E | exact A]|].
        split; [intros z [<-|Hz]; [exact A | apply B; exact Hz] | right; destruct C as [->|C]; [left; reflexivity | right; exact C]].
      + assert (Hxy : fle K y x) by (apply not_flt_le; intros H; apply fltb_spec in H; congruence).
        destruct (IH x) as (A & B & C). split; [exact A|].
        split; [intros z [<-|Hz]; [eapply fle_trans; eassumption | apply B; exact Hz] | destruct C as [->|C]; [left; reflexivity | right; right; exact C]].
  Qed.
  Lemma maxl_spec d l : l <> [] -> In (maxl d l) l /\ forall y, In y l -> fle K y (maxl d l).
  Proof.
    destruct l as [|x r]; [congruence|]. intros _. cbn [maxl].
    destruct (fold_max_spec r x) as (A & B & C). split.
    - destruct C as [->|C]; [left; reflexivity | right; exact C].
    - intros y [<-|Hy]; [exact A | apply B; exact Hy].
  Qed.

  (* np.argmin: index of the FIRST minimum *)
  Fixpoint argmin (l : list F) : nat :=
    match l with
    | [] => O
    | x :: r => match r with
                | [] => O
                | _ => let j := argmin r in if fltb (nth j r 0) x then S j else O
                end
    end.

  Lemma argmin_spec l : l <> [] ->
    (argmin l < length l)%nat
    /\ (forall j, (j < length l)%nat -> fle K (nth (argmin l) l 0) (nth j l 0))
    /\ (forall j, (j < argmin l)%nat -> flt (nth (argmin l) l 0) (nth j l 0)).
  Proof.
    induction l as [|x r IH]; [congruence|]. intros _.
    destruct r as [|y r'].
    - cbn. split; [lia|]. split; [intros j Hj; assert (j = O) by lia; subst; apply fle_refl | intros j Hj; lia].
    - assert (Hne : y :: r' <> []) by discriminate. specialize (IH Hne). destruct IH as (A & B & C).
      change (argmin (x :: y :: r')) with (let j := argmin (y :: r') in if fltb (nth j (y :: r') 0) x then S j else O).
      cbv zeta. destruct (fltb (nth (argmin (y :: r')) (y :: r') 0) x) eqn:E.
      + apply fltb_spec in E. split; [cbn [length] in *; lia|]. split.
        * intros j Hj. destruct j as [|j]; cbn [nth].
          -- apply flt_le. exact E.
          -- apply B. cbn [length] in *. lia.
        * intros j Hj. destruct j as [|j]; cbn [nth]; [exact E | apply C; lia].
      + assert (Hx : fle K x (nth (argmin (y :: r')) (y :: r') 0)).
        { apply not_flt_le. intros H. apply fltb_spec in H. congruence. }
        split; [cbn [length]; lia|]. split.
        * intros j Hj. destruct j as [|j]; cbn [nth]; [apply fle_refl|].
          eapply fle_trans; [exact Hx|]. apply B. cbn [length] in *. lia.
        * intros j Hj. lia.
  Qed.
End OrdFacts.
Arguments fabs {K}. Arguments fltb {K}. Arguments flt {K}. Arguments argmin {K}. Arguments minl {K}. Arguments maxl {K}.
Arguments sumF {K}. Arguments f2 {K}. Arguments f3 {K}.
