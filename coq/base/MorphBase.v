(* MorphBase.v — boolean 2-D / 3-D arrays as nested lists (zero outside their extent), tabulation,
   counting, and the generic "iterate until nothing changes" loop with its termination argument.
   Used by model/Morph.v (C23), model/MorphFilter.v (C24), model/MorphBrush.v (C25). *)
From Coq Require Import List Arith Bool Lia.
From FV Require Import base.Util.
Import ListNotations.

Definition arr1 := list bool.
Definition arr2 := list (list bool).
Definition arr3 := list (list (list bool)).

Definition mk1 {A} (n : nat) (f : nat -> A) : list A := map f (seq 0 n).
Definition mk2 (nx ny : nat) (f : nat -> nat -> bool) : arr2 := mk1 nx (fun i => mk1 ny (fun j => f i j)).
Definition mk3 (nx ny nz : nat) (f : nat -> nat -> nat -> bool) : arr3 :=
  mk1 nx (fun i => mk1 ny (fun j => mk1 nz (fun k => f i j k))).
Definition get1 (t : arr1) (i : nat) : bool := nth i t false.
Definition get2 (t : arr2) (i j : nat) : bool := nth j (nth i t []) false.
Definition get3 (t : arr3) (i j k : nat) : bool := nth k (nth j (nth i t []) []) false.

Definition arr2_eqb : arr2 -> arr2 -> bool := list_eqb (list_eqb Bool.eqb).
Definition arr3_eqb : arr3 -> arr3 -> bool := list_eqb (list_eqb (list_eqb Bool.eqb)).

(* value "one to the left" with zero fill *)
Definition pm (f : nat -> bool) (i : nat) : bool := match i with 0 => false | S i' => f i' end.

Lemma length_mk1 {A} n (f : nat -> A) : length (mk1 n f) = n.
Proof. unfold mk1. rewrite map_length, seq_length. reflexivity. Qed.

Lemma nth_mk1 {A} n (f : nat -> A) d i : i < n -> nth i (mk1 n f) d = f i.
Proof.
  intros H. unfold mk1. rewrite (nth_indep _ d (f 0)) by (rewrite map_length, seq_length; exact H).
  rewrite map_nth. rewrite seq_nth by exact H. reflexivity.
Qed.

Lemma nth_mk1_out {A} n (f : nat -> A) d i : n <= i -> nth i (mk1 n f) d = d.
Proof. intros H. apply nth_overflow. rewrite length_mk1. exact H. Qed.

Lemma mk1_ext {A} n (f h : nat -> A) : (forall i, i < n -> f i = h i) -> mk1 n f = mk1 n h.
Proof. intros H. unfold mk1. apply map_ext_in. intros i Hi. apply in_seq in Hi. apply H. lia. Qed.

Lemma get2_mk2 nx ny f i j : get2 (mk2 nx ny f) i j = if (i <? nx) && (j <? ny) then f i j else false.
Proof.
  unfold get2, mk2. destruct (Nat.ltb_spec i nx) as [Hi|Hi]; cbn [andb].
  - rewrite nth_mk1 by exact Hi. destruct (Nat.ltb_spec j ny) as [Hj|Hj].
    + rewrite nth_mk1 by exact Hj. reflexivity.
    + rewrite nth_mk1_out by exact Hj. reflexivity.
  - rewrite nth_mk1_out by exact Hi. destruct j; reflexivity.
Qed.

Lemma get3_mk3 nx ny nz f i j k :
  get3 (mk3 nx ny nz f) i j k = if (i <? nx) && (j <? ny) && (k <? nz) then f i j k else false.
Proof.
  unfold get3, mk3. destruct (Nat.ltb_spec i nx) as [Hi|Hi]; cbn [andb].
  - rewrite nth_mk1 by exact Hi. destruct (Nat.ltb_spec j ny) as [Hj|Hj]; cbn [andb].
    + rewrite nth_mk1 by exact Hj. destruct (Nat.ltb_spec k nz) as [Hk|Hk].
      * rewrite nth_mk1 by exact Hk. reflexivity.
      * rewrite nth_mk1_out by exact Hk. reflexivity.
    + rewrite nth_mk1_out by exact Hj. destruct k; reflexivity.
  - rewrite nth_mk1_out by exact Hi. destruct j; destruct k; reflexivity.
Qed.

Lemma mk2_ext nx ny f h : (forall i j, i < nx -> j < ny -> f i j = h i j) -> mk2 nx ny f = mk2 nx ny h.
Proof. intros H. apply mk1_ext. intros i Hi. apply mk1_ext. intros j Hj. apply H; assumption. Qed.

Lemma mk3_ext nx ny nz f h :
  (forall i j k, i < nx -> j < ny -> k < nz -> f i j k = h i j k) -> mk3 nx ny nz f = mk3 nx ny nz h.
Proof.
  intros H. apply mk1_ext. intros i Hi. apply mk1_ext. intros j Hj. apply mk1_ext. intros k Hk. apply H; assumption.
Qed.

Lemma list_eqb_refl {A} (e : A -> A -> bool) : (forall x, e x x = true) -> forall l, list_eqb e l l = true.
Proof. intros H l. induction l as [|x l IH]; cbn; [reflexivity|]. rewrite H, IH. reflexivity. Qed.

Lemma list_eqb_eq {A} (e : A -> A -> bool) : (forall x y, e x y = true -> x = y) ->
  forall a b, list_eqb e a b = true -> a = b.
Proof.
  intros H a. induction a as [|x a IH]; intros [|y b] E; cbn in E; try discriminate; [reflexivity|].
  apply andb_true_iff in E. destruct E as [E1 E2]. f_equal; [apply H; exact E1 | apply IH; exact E2].
Qed.

Lemma arr2_eqb_spec a b : arr2_eqb a b = true <-> a = b.
Proof.
  split.
  - apply list_eqb_eq. apply list_eqb_eq. intros x y. apply eqb_prop.
  - intros ->. apply list_eqb_refl. apply list_eqb_refl. intros []; reflexivity.
Qed.

Lemma arr3_eqb_spec a b : arr3_eqb a b = true <-> a = b.
Proof.
  split.
  - apply list_eqb_eq. apply list_eqb_eq. apply list_eqb_eq. intros x y. apply eqb_prop.
  - intros ->. apply list_eqb_refl. apply list_eqb_refl. apply list_eqb_refl. intros []; reflexivity.
Qed.

(* ---------- counting ---------- *)
Section Count.
  Context {A : Type}.
  Definition count (p : A -> bool) (l : list A) : nat := length (filter p l).

  Lemma count_le_length p l : count p l <= length l.
  Proof. unfold count. induction l as [|x l IH]; cbn; [lia|]. destruct (p x); cbn; lia. Qed.

  Lemma count_mono p r l : (forall x, In x l -> p x = true -> r x = true) -> count p l <= count r l.
  Proof.
    unfold count. induction l as [|x l IH]; intros H; cbn; [lia|].
    assert (IH' := IH (fun y Hy => H y (or_intror Hy))).
    destruct (p x) eqn:Px; [rewrite (H x (or_introl eq_refl) Px); cbn; lia|].
    destruct (r x); cbn; lia.
  Qed.

  Lemma count_eq_pointwise p r l : (forall x, In x l -> p x = true -> r x = true) -> count p l = count r l ->
    forall x, In x l -> p x = r x.
  Proof.
    unfold count. induction l as [|x l IH]; intros H E y Hy; [destruct Hy|].
    assert (Hm := count_mono p r l (fun z Hz => H z (or_intror Hz))). unfold count in Hm.
    cbn in E. destruct (p x) eqn:Px.
    - rewrite (H x (or_introl eq_refl) Px) in E. cbn in E.
      destruct Hy as [<-|Hy]; [rewrite Px; symmetry; apply H; [left; reflexivity | exact Px]|].
      apply IH; [intros z Hz; apply H; right; exact Hz | lia | exact Hy].
    - destruct (r x) eqn:Rx; cbn in E; [lia|].
      destruct Hy as [<-|Hy]; [rewrite Px, Rx; reflexivity|].
      apply IH; [intros z Hz; apply H; right; exact Hz | lia | exact Hy].
  Qed.
End Count.

Lemma iter_succ_r {T} (f : T -> T) n x : Nat.iter (S n) f x = Nat.iter n f (f x).
Proof. induction n as [|n IH]; [reflexivity|]. cbn [Nat.iter nat_rect] in *. rewrite IH. reflexivity. Qed.

(* ---------- iterate until stable (models jax.lax.while_loop on (prev, cur) with cond prev != cur) ---------- *)
Section Iterate.
  Context {T : Type}.
  Variable eqb : T -> T -> bool.

  (* None = fuel exhausted (the real loop would still be running) *)
  Fixpoint until_stable (fuel : nat) (f : T -> T) (prev cur : T) : option T :=
    match fuel with
    | 0 => None
    | S fu => if eqb prev cur then Some cur else until_stable fu f cur (f cur)
    end.
  Definition iterate_until_stable (fuel : nat) (f : T -> T) (c0 : T) : option T := until_stable fuel f c0 (f c0).

  Hypothesis eqb_spec : forall a b, eqb a b = true <-> a = b.
  Context {C : Type}.
  Variable cells : list C.
  Variable get : T -> C -> bool.
  Variable wf : T -> Prop.
  Hypothesis wf_ext : forall a b, wf a -> wf b -> (forall x, In x cells -> get a x = get b x) -> a = b.
  Variable f : T -> T.
  Variable inv : T -> Prop.      (* e.g. "contained in the mask" *)
  Hypothesis f_wf : forall c, wf (f c).
  Hypothesis f_inv : forall c, inv c -> inv (f c).
  Hypothesis f_ext : forall c, wf c -> inv c -> forall x, In x cells -> get c x = true -> get (f c) x = true.

  Lemma until_stable_total : forall fuel prev, wf prev -> inv prev ->
    length cells - count (get prev) cells < fuel ->
    exists r k, until_stable fuel f prev (f prev) = Some r /\ r = Nat.iter k f prev /\ f r = r /\ wf r /\ inv r.
  Proof.
    induction fuel as [|fu IH]; intros prev Hwf Hinv Hfuel; [lia|].
    cbn [until_stable]. destruct (eqb prev (f prev)) eqn:E.
    - apply eqb_spec in E. exists (f prev), 1. split; [reflexivity|]. split; [reflexivity|].
      split; [congruence|]. split; [apply f_wf | apply f_inv; exact Hinv].
    - assert (Hlt : count (get prev) cells < count (get (f prev)) cells).
      { assert (Hle := count_mono (get prev) (get (f prev)) cells (f_ext prev Hwf Hinv)).
        destruct (Nat.eq_dec (count (get prev) cells) (count (get (f prev)) cells)) as [Heq|Hne]; [|lia].
        exfalso. assert (prev = f prev) as Hp.
        { apply wf_ext; [exact Hwf | apply f_wf |].
          apply count_eq_pointwise; [apply f_ext; assumption | exact Heq]. }
        apply eqb_spec in Hp. rewrite Hp in E. discriminate. }
      assert (Hb := count_le_length (get (f prev)) cells).
      destruct (IH (f prev) (f_wf prev) (f_inv prev Hinv)) as (r & k & Hr & Hk & Hfix & Hw & Hi); [lia|].
      exists r, (S k). repeat split; try assumption.
      rewrite Hk. rewrite iter_succ_r. reflexivity.
  Qed.

  (* the first step need not satisfy the invariant (the seed may lie outside the mask) *)
  Lemma iterate_until_stable_total : forall c0, inv (f c0) ->
    exists r k, iterate_until_stable (length cells + 2) f c0 = Some r /\ r = Nat.iter (S k) f c0 /\ f r = r /\ wf r /\ inv r.
  Proof.
    intros c0 Hinv. unfold iterate_until_stable. replace (length cells + 2) with (S (length cells + 1)) by lia.
    cbn [until_stable]. destruct (eqb c0 (f c0)) eqn:E.
    - apply eqb_spec in E. exists (f c0), 0. split; [reflexivity|]. split; [reflexivity|].
      split; [congruence|]. split; [apply f_wf | exact Hinv].
    - destruct (until_stable_total (length cells + 1) (f c0) (f_wf c0) Hinv) as (r & k & Hr & Hk & Hfix & Hw & Hi); [lia|].
      exists r, k. repeat split; try assumption. rewrite Hk. rewrite iter_succ_r. reflexivity.
  Qed.
End Iterate.
