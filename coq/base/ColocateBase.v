(* ColocateBase.v — helpers of C15: the Gaussian rationals Q(i) as an instance of the abstract scalar
   field (used to execute the generic co-location model on complex fields with Bloch phases), and list
   comparisons of complex rows. *)
From Coq Require Import ZArith QArith Qcanon Field Ring List Bool Lia Psatz.
From FV Require Import base.Scalar base.Util.
Import ListNotations.

Definition Qci : Type := (Qc * Qc)%type.
Definition ci0 : Qci := (0%Qc, 0%Qc).
Definition ci1 : Qci := (1%Qc, 0%Qc).
Definition ciadd (a b : Qci) : Qci := (fst a + fst b, snd a + snd b)%Qc.
Definition cimul (a b : Qci) : Qci := (fst a * fst b - snd a * snd b, fst a * snd b + snd a * fst b)%Qc.
Definition ciopp (a : Qci) : Qci := (- fst a, - snd a)%Qc.
Definition cisub (a b : Qci) : Qci := ciadd a (ciopp b).
Definition cinorm (a : Qci) : Qc := (fst a * fst a + snd a * snd a)%Qc.
Definition ciinv (a : Qci) : Qci := (fst a / cinorm a, - snd a / cinorm a)%Qc.
Definition cidiv (a b : Qci) : Qci := cimul a (ciinv b).

Lemma ci_eq (a b : Qci) : fst a = fst b -> snd a = snd b -> a = b.
Proof. destruct a, b; cbn; intros -> ->; reflexivity. Qed.

Lemma Qc_sq_nonneg (x : Qc) : (0 <= x * x)%Qc.
Proof.
  destruct (Qclt_le_dec x 0) as [H|H].
  - assert (Hx : (0 <= - x)%Qc).
    { apply Qclt_le_weak in H. apply Qcopp_le_compat in H. replace (- 0)%Qc with 0%Qc in H by ring. exact H. }
    replace (x * x)%Qc with ((- x) * (- x))%Qc by ring.
    pose proof (Qcmult_le_compat_r 0 (- x) (- x) Hx Hx) as H1. replace (0 * - x)%Qc with 0%Qc in H1 by ring. exact H1.
  - pose proof (Qcmult_le_compat_r 0 x x H H) as H1. replace (0 * x)%Qc with 0%Qc in H1 by ring. exact H1.
Qed.

Lemma Qc_sq_zero (x : Qc) : (x * x)%Qc = 0%Qc -> x = 0%Qc.
Proof. intros H. destruct (Qcmult_integral _ _ H); assumption. Qed.

Lemma cinorm_zero (a : Qci) : cinorm a = 0%Qc -> a = ci0.
Proof.
  unfold cinorm. intros H.
  pose proof (Qc_sq_nonneg (fst a)) as H1. pose proof (Qc_sq_nonneg (snd a)) as H2.
  assert (Ha : (fst a * fst a)%Qc = 0%Qc).
  { apply Qcle_antisym; [|exact H1]. rewrite <- H.
    replace (fst a * fst a)%Qc with (fst a * fst a + 0)%Qc at 1 by ring. apply Qcplus_le_compat; [apply Qcle_refl | exact H2]. }
  assert (Hb : (snd a * snd a)%Qc = 0%Qc) by (rewrite Ha in H; rewrite <- H; ring).
  apply ci_eq; cbn; [apply Qc_sq_zero, Ha | apply Qc_sq_zero, Hb].
Qed.

Lemma Qci_field : field_theory ci0 ci1 ciadd cimul cisub ciopp cidiv ciinv (@eq Qci).
Proof.
  constructor.
  - constructor; intros; apply ci_eq; cbn; ring.
  - intros H. inversion H.
  - reflexivity.
  - intros p Hp. assert (Hn : cinorm p <> 0%Qc) by (intros H; apply Hp, cinorm_zero, H).
    apply ci_eq; cbn; unfold cinorm in *; field; exact Hn.
Qed.

Definition QciF : Fld := Build_Fld Qci ci0 ci1 ciadd cimul cisub ciopp cidiv ciinv Qci_field.

(* row of complex model values vs. the implementation's real and imaginary parts *)
Fixpoint clist_close_abs (tol sc : Qc) (m : list Qci) (re im : list Qc) : bool :=
  match m, re, im with
  | [], [], [] => true
  | x :: m', r :: re', i :: im' => Qc_close_abs tol sc (fst x) r && Qc_close_abs tol sc (snd x) i && clist_close_abs tol sc m' re' im'
  | _, _, _ => false
  end.
