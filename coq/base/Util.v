(* Util.v — boolean comparison helpers used by the correspondence case files. *)
From Coq Require Import ZArith List Bool QArith Qcanon.
From FV Require Import base.Scalar.
Import ListNotations.

Fixpoint list_eqb {A} (eqb : A -> A -> bool) (a b : list A) : bool :=
  match a, b with
  | [], [] => true
  | x :: a', y :: b' => eqb x y && list_eqb eqb a' b'
  | _, _ => false
  end.
Definition zlist_eqb := list_eqb Z.eqb.
Definition blist_eqb := list_eqb Bool.eqb.
Definition opt_eqb {A} (eqb : A -> A -> bool) (a b : option A) : bool :=
  match a, b with Some x, Some y => eqb x y | None, None => true | _, _ => false end.
Definition Qc_eqb (a b : Qc) : bool := Qeq_bool (this a) (this b).
Definition qlist_eqb := list_eqb Qc_eqb.
Definition qlist2_eqb := list_eqb qlist_eqb.
Definition qlist3_eqb := list_eqb qlist2_eqb.
Definition zlist2_eqb := list_eqb zlist_eqb.
Definition zlist3_eqb := list_eqb zlist2_eqb.
Definition Qc_abs (a : Qc) : Qc := if Qcleb 0%Qc a then a else Qcopp a.
(* |a - b| <= tol * max(1, |b|)  — the tolerant rule of DESIGN §2.3 *)
Definition Qc_close (tol a b : Qc) : bool :=
  Qcleb (Qc_abs (a - b)%Qc) (tol * (if Qcleb 1%Qc (Qc_abs b) then Qc_abs b else 1%Qc))%Qc.
(* |a - b| <= tol * scale *)
Definition Qc_close_abs (tol scale a b : Qc) : bool := Qcleb (Qc_abs (a - b)%Qc) (tol * scale)%Qc.
Definition qlist_close tol := list_eqb (Qc_close tol).
Definition qlist2_close tol := list_eqb (qlist_close tol).
Definition qlist3_close tol := list_eqb (qlist2_close tol).
Definition qlist_close_abs tol sc := list_eqb (Qc_close_abs tol sc).
Definition qlist2_close_abs tol sc := list_eqb (qlist_close_abs tol sc).
Definition qlist3_close_abs tol sc := list_eqb (qlist2_close_abs tol sc).
Definition qmaxabs (l : list Qc) : Qc := fold_left (fun m x => if Qcleb (Qc_abs x) m then m else Qc_abs x) l 0%Qc.
