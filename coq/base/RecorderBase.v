(* RecorderBase.v — small helpers shared by the Recorder / Switch / Waves models:
   Z-indexed list access and update, the canonical injection Z -> K. *)
From Coq Require Import ZArith List Bool.
From FV Require Import base.Scalar.
Import ListNotations.
Open Scope Z_scope.

(* arr[i] for 0 <= i (the callers guard i >= 0); out of range gives the default d *)
Definition znth {A} (l : list A) (i : Z) (d : A) : A := if i <? 0 then d else nth (Z.to_nat i) l d.

Fixpoint set_at {A} (l : list A) (i : nat) (v : A) : list A :=
  match l, i with
  | [], _ => []
  | _ :: t, O => v :: t
  | h :: t, S j => h :: set_at t j v
  end.
(* arr.at[i].set(v): out-of-range updates are dropped (jnp scatter semantics); negative never reached *)
Definition zset {A} (l : list A) (i : Z) (v : A) : list A := if i <? 0 then l else set_at l (Z.to_nat i) v.

Definition zmem (x : Z) (l : list Z) : bool := existsb (Z.eqb x) l.   (* jnp.any(x == arr) *)

Section OfZ.
  Variable K : Fld.
  Local Open Scope fld_scope.
  Fixpoint fofpos (p : positive) : K :=
    match p with
    | xH => 1
    | xO p' => (1 + 1) * fofpos p'
    | xI p' => 1 + (1 + 1) * fofpos p'
    end.
  Definition fofZ (z : Z) : K :=
    match z with Z0 => 0 | Zpos p => fofpos p | Zneg p => - fofpos p end.
End OfZ.
Arguments fofZ {K}.
