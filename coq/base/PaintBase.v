(* PaintBase.v — generic stable insertion sort (the extensional behaviour of Python's stable
   `sorted(..., key=...)`) with the facts the Paint area needs: permutation, sortedness,
   stability.  Used for the placement-order sort (C28) and the material order (C39). *)
From Coq Require Import List Bool Permutation Sorted Lia.
Import ListNotations.

Section ISort.
Variable A : Type.
Variable le : A -> A -> bool.     (* key a <= key b *)

(* x originally precedes every element of l: it is placed before the first y with x <= y,
   hence before its equals: stable *)
Fixpoint insert (x : A) (l : list A) : list A :=
  match l with
  | [] => [x]
  | y :: r => if le x y then x :: y :: r else y :: insert x r
  end.
Fixpoint isort (l : list A) : list A :=
  match l with [] => [] | x :: r => insert x (isort r) end.

Lemma insert_perm x l : Permutation (x :: l) (insert x l).
Proof.
  induction l as [|y r IH]; cbn; [apply Permutation_refl|].
  destruct (le x y); [apply Permutation_refl|].
  eapply perm_trans; [apply perm_swap|]. apply perm_skip. exact IH.
Qed.

Lemma isort_perm l : Permutation l (isort l).
Proof.
  induction l as [|x r IH]; cbn; [apply perm_nil|].
  eapply perm_trans; [apply perm_skip; exact IH | apply insert_perm].
Qed.

Lemma isort_length l : length (isort l) = length l.
Proof. symmetry. apply Permutation_length, isort_perm. Qed.

Lemma isort_in x l : In x (isort l) <-> In x l.
Proof. split; apply Permutation_in; [apply Permutation_sym|]; apply isort_perm. Qed.

(* sortedness, for a total preorder *)
Hypothesis le_total : forall a b, le a b = true \/ le b a = true.
Hypothesis le_trans : forall a b c, le a b = true -> le b c = true -> le a c = true.

Definition leP a b := le a b = true.

Lemma insert_sorted x l : StronglySorted leP l -> StronglySorted leP (insert x l).
Proof.
  induction 1 as [|y r Hs IH Hall]; cbn.
  - constructor; constructor.
  - destruct (le x y) eqn:E.
    + constructor; [constructor; assumption|].
      constructor; [exact E|].
      eapply Forall_impl; [|exact Hall]. intros z Hz. eapply le_trans; eassumption.
    + constructor; [exact IH|].
      assert (Hyx : le y x = true) by (destruct (le_total x y) as [H|H]; [congruence|exact H]).
      eapply Permutation_Forall; [apply insert_perm|].
      constructor; assumption.
Qed.

Lemma isort_sorted l : StronglySorted leP (isort l).
Proof. induction l; cbn; [constructor | apply insert_sorted; assumption]. Qed.

(* stability: the elements satisfying any predicate that is "closed under key equality"
   keep their relative order.  We state it for the filter by a class predicate p such that
   elements of the class are mutually <= (same key). *)
Lemma insert_filter (p : A -> bool) x l :
  (forall y, In y l -> p y = true -> p x = true -> le x y = true) ->
  filter p (insert x l) = filter p (x :: l).
Proof.
  induction l as [|y r IH]; intros H; cbn; [reflexivity|].
  destruct (le x y) eqn:E; cbn; [reflexivity|].
  rewrite IH by (intros z Hz; apply H; right; exact Hz). cbn.
  assert (Hxy : p y = true -> p x = true -> False).
  { intros Py Px. rewrite (H y (or_introl eq_refl) Py Px) in E. discriminate. }
  destruct (p x); [|reflexivity].
  destruct (p y); [|reflexivity].
  exfalso; auto.
Qed.

Lemma isort_stable (p : A -> bool) l :
  (forall x y, p x = true -> p y = true -> le x y = true) ->
  filter p (isort l) = filter p l.
Proof.
  intros H. induction l as [|x r IH]; cbn; [reflexivity|].
  rewrite insert_filter by (intros y _ Py Px; apply H; assumption).
  cbn. rewrite IH. reflexivity.
Qed.
End ISort.

Arguments insert {A}. Arguments isort {A}.

(* position of the first element satisfying p (Python list.index), None if absent *)
Fixpoint index_where {A} (p : A -> bool) (l : list A) : option nat :=
  match l with
  | [] => None
  | x :: r => if p x then Some 0 else option_map S (index_where p r)
  end.

Lemma index_where_unique {A B} (keyb : A -> bool) (l : list (A * B)) k v :
  In (k, v) l -> keyb k = true ->
  (forall k' v', In (k', v') l -> keyb k' = true -> k' = k /\ v' = v) ->
  match index_where (fun p => keyb (fst p)) l with
  | Some i => nth_error (map snd l) i = Some v
  | None => False
  end.
Proof.
  induction l as [|[k0 v0] r IH]; intros Hin Hk Hu; [destruct Hin|].
  cbn. destruct (keyb k0) eqn:E.
  - cbn. destruct (Hu k0 v0 (or_introl eq_refl) E) as [_ ->]. reflexivity.
  - destruct Hin as [Heq|Hin]; [inversion Heq; subst; congruence|].
    specialize (IH Hin Hk (fun k' v' H => Hu k' v' (or_intror H))).
    destruct (index_where (fun p => keyb (fst p)) r); cbn; [exact IH | exact IH].
Qed.
