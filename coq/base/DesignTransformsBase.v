(* DesignTransformsBase.v — helpers shared by the DesignTransforms area (C21, C22, C20):
   tabulation / read-back of nested lists with explicit shapes, reversed-index sums. *)
From Coq Require Import List Arith Lia Bool.
From FV Require Import base.Scalar base.Sums.
Import ListNotations.
Local Open Scope fld_scope.

Section Tab.
  Context {F : Type}.
  Variable d0 : F.

  Definition tab1 (n : nat) (f : nat -> F) : list F := map f (seq 0 n).
  Definition tab2 (n m : nat) (f : nat -> nat -> F) : list (list F) := map (fun i => tab1 m (f i)) (seq 0 n).
  Definition tab3 (nx ny nz : nat) (f : nat -> nat -> nat -> F) : list (list (list F)) :=
    map (fun i => tab2 ny nz (f i)) (seq 0 nx).
  Definition get1 (a : list F) (i : nat) : F := nth i a d0.
  Definition get2 (a : list (list F)) (i j : nat) : F := nth j (nth i a []) d0.
  Definition get3 (a : list (list (list F))) (i j k : nat) : F := nth k (nth j (nth i a []) []) d0.

  Lemma nth_map_seq {A} (g : nat -> A) n i d : (i < n)%nat -> nth i (map g (seq 0 n)) d = g i.
  Proof. intros H. rewrite (nth_indep _ d (g 0%nat)) by (rewrite map_length, seq_length; lia).
    rewrite (map_nth g (seq 0 n) 0%nat i). rewrite seq_nth by lia. reflexivity. Qed.
  Lemma get1_tab1 n f i : (i < n)%nat -> get1 (tab1 n f) i = f i.
  Proof. intros. unfold get1, tab1. apply nth_map_seq; assumption. Qed.
  Lemma get2_tab2 n m f i j : (i < n)%nat -> (j < m)%nat -> get2 (tab2 n m f) i j = f i j.
  Proof. intros. unfold get2, tab2, tab1. rewrite !nth_map_seq by assumption. reflexivity. Qed.
  Lemma get3_tab3 nx ny nz f i j k : (i < nx)%nat -> (j < ny)%nat -> (k < nz)%nat -> get3 (tab3 nx ny nz f) i j k = f i j k.
  Proof. intros. unfold get3, tab3, tab2, tab1. rewrite !nth_map_seq by assumption. reflexivity. Qed.

  (* explicit shapes: no theorem relies on an [nth] default *)
  Definition shape1 (n : nat) (a : list F) : Prop := length a = n.
  Definition shape2 (n m : nat) (a : list (list F)) : Prop := length a = n /\ Forall (shape1 m) a.
  Definition shape3 (nx ny nz : nat) (a : list (list (list F))) : Prop := length a = nx /\ Forall (shape2 ny nz) a.
  Definition shape1b (n : nat) (a : list F) : bool := length a =? n.
  Definition shape2b (n m : nat) (a : list (list F)) : bool := (length a =? n) && forallb (shape1b m) a.
  Definition shape3b (nx ny nz : nat) (a : list (list (list F))) : bool := (length a =? nx) && forallb (shape2b ny nz) a.

  Lemma shape1b_spec n a : shape1b n a = true <-> shape1 n a.
  Proof. unfold shape1b, shape1. apply Nat.eqb_eq. Qed.
  Lemma shape2b_spec n m a : shape2b n m a = true <-> shape2 n m a.
  Proof. unfold shape2b, shape2. rewrite andb_true_iff, Nat.eqb_eq, forallb_forall, Forall_forall.
    split; intros [H1 H2]; split; auto; intros x Hx; apply shape1b_spec; auto. Qed.
  Lemma shape3b_spec nx ny nz a : shape3b nx ny nz a = true <-> shape3 nx ny nz a.
  Proof. unfold shape3b, shape3. rewrite andb_true_iff, Nat.eqb_eq, forallb_forall, Forall_forall.
    split; intros [H1 H2]; split; auto; intros x Hx; apply shape2b_spec; auto. Qed.

  Lemma map_seq_nth {A} (d : A) (a : list A) : map (fun i => nth i a d) (seq 0 (length a)) = a.
  Proof. apply nth_ext with (d := d) (d' := d).
    - rewrite map_length, seq_length. reflexivity.
    - intros i Hi. rewrite map_length, seq_length in Hi. rewrite (nth_map_seq (fun i => nth i a d)) by assumption. reflexivity. Qed.

  Lemma tab1_get1 n a : shape1 n a -> tab1 n (get1 a) = a.
  Proof. unfold shape1, tab1, get1. intros <-. apply map_seq_nth. Qed.
  Lemma tab1_shape n f : shape1 n (tab1 n f).
  Proof. unfold shape1, tab1. rewrite map_length, seq_length. reflexivity. Qed.
  Lemma tab2_shape n m f : shape2 n m (tab2 n m f).
  Proof. unfold shape2, tab2. split; [rewrite map_length, seq_length; reflexivity|].
    apply Forall_forall. intros x Hx. apply in_map_iff in Hx. destruct Hx as [i [<- _]]. apply tab1_shape. Qed.
  Lemma tab3_shape nx ny nz f : shape3 nx ny nz (tab3 nx ny nz f).
  Proof. unfold shape3, tab3. split; [rewrite map_length, seq_length; reflexivity|].
    apply Forall_forall. intros x Hx. apply in_map_iff in Hx. destruct Hx as [i [<- _]]. apply tab2_shape. Qed.

  Lemma map_seq_ext {A} (g h : nat -> A) n : (forall i, (i < n)%nat -> g i = h i) -> map g (seq 0 n) = map h (seq 0 n).
  Proof. intros H. apply map_ext_in. intros i Hi. apply in_seq in Hi. apply H. lia. Qed.

  Lemma tab2_get2 n m a : shape2 n m a -> tab2 n m (get2 a) = a.
  Proof. unfold shape2, tab2. intros [Hl Hf]. subst n.
    rewrite <- (map_seq_nth [] a) at 2. apply map_seq_ext. intros i Hi.
    unfold get2. apply (tab1_get1 m (nth i a [])).
    rewrite Forall_forall in Hf. apply Hf. apply nth_In. assumption. Qed.
  Lemma tab3_get3 nx ny nz a : shape3 nx ny nz a -> tab3 nx ny nz (get3 a) = a.
  Proof. unfold shape3, tab3. intros [Hl Hf]. subst nx.
    rewrite <- (map_seq_nth [] a) at 2. apply map_seq_ext. intros i Hi.
    unfold get3. apply (tab2_get2 ny nz (nth i a [])).
    rewrite Forall_forall in Hf. apply Hf. apply nth_In. assumption. Qed.

  Lemma tab1_ext n f g : (forall i, (i < n)%nat -> f i = g i) -> tab1 n f = tab1 n g.
  Proof. apply map_seq_ext. Qed.
  Lemma tab2_ext n m f g : (forall i j, (i < n)%nat -> (j < m)%nat -> f i j = g i j) -> tab2 n m f = tab2 n m g.
  Proof. intros H. apply map_seq_ext. intros i Hi. apply tab1_ext. auto. Qed.
  Lemma tab3_ext nx ny nz f g :
    (forall i j k, (i < nx)%nat -> (j < ny)%nat -> (k < nz)%nat -> f i j k = g i j k) -> tab3 nx ny nz f = tab3 nx ny nz g.
  Proof. intros H. apply map_seq_ext. intros i Hi. apply tab2_ext. auto. Qed.
End Tab.

Section RevSum.
  Variable K : Fld.
  Add Field KFdtb : (Fth K).
  Notation F := (car K).

  (* sum over a reversed index range *)
  Lemma sumn_rev n (g : nat -> F) : sumn n (fun i => g (n - 1 - i)%nat) = sumn n g.
  Proof. revert g. induction n as [|n IH]; intros g; [reflexivity|].
    rewrite sumn_shift. cbn [sumn].
    replace (S n - 1 - 0)%nat with n by lia.
    rewrite <- (IH g).
    rewrite (sumn_ext K n (fun i => g (S n - 1 - S i)%nat) (fun i => g (n - 1 - i)%nat)) by (intros; f_equal; lia).
    ring. Qed.

  Fixpoint of_nat (n : nat) : F := match n with O => 0 | S k => of_nat k + 1 end.
  Lemma sumn_const n c : sumn n (fun _ => c) = of_nat n * c.
  Proof. induction n as [|n IH]; cbn; [ring|]. rewrite IH. ring. Qed.
End RevSum.
Arguments of_nat {K}.
