(* Order.v — consequences of the ordered-field interface OFld. *)
From Coq Require Import Field Ring Lia.
From FV Require Import base.Scalar base.Sums.
Local Open Scope fld_scope.

Section Order.
  Variable K : OFld.
  Add Field KFo : (Fth K).
  Notation F := (car K).
  Local Notation "x <= y" := (fle K x y) : fld_scope.
  Implicit Types x y z : F.

  Lemma fle_add2 a b c d : a <= b -> c <= d -> a + c <= b + d.
  Proof.
    intros H1 H2. apply (fle_trans K _ (b + c)).
    - apply fle_add; assumption.
    - replace (b + c) with (c + b) by ring. replace (b + d) with (d + b) by ring. apply fle_add; assumption.
  Qed.
  Lemma fle_opp x : 0 <= x -> - x <= 0.
  Proof. intros H. pose proof (fle_add K _ _ (- x) H) as A. replace (0 + - x) with (- x) in A by ring. replace (x + - x) with (0 : F) in A by ring. exact A. Qed.
  Lemma fle_opp' x : x <= 0 -> 0 <= - x.
  Proof. intros H. pose proof (fle_add K _ _ (- x) H) as A. replace (0 + - x) with (- x) in A by ring. replace (x + - x) with (0 : F) in A by ring. exact A. Qed.
  Lemma sq_nonneg x : 0 <= x * x.
  Proof.
    destruct (fle_total K 0 x) as [H|H]; [apply fle_mul; assumption|].
    replace (x * x) with ((- x) * (- x)) by ring. apply fle_mul; apply fle_opp'; assumption.
  Qed.
  Lemma one_nonneg : (0 : F) <= 1.
  Proof. replace (1 : F) with ((1 : F) * 1) by ring. apply sq_nonneg. Qed.
  Lemma inv_nonneg x : 0 <= x -> x <> 0 -> 0 <= / x.
  Proof.
    intros Hx Hn. destruct (fle_total K 0 (/ x)) as [H|H]; [exact H|].
    exfalso. pose proof (fle_mul K _ _ Hx (fle_opp' _ H)) as A.
    replace (x * - / x) with (- (1 : F)) in A by (field; exact Hn).
    pose proof (fle_opp _ A) as B. replace (- - (1 : F)) with (1 : F) in B by ring.
    apply (f01 K). apply fle_antisym; [exact one_nonneg | exact B].
  Qed.
  Lemma div_nonneg x y : 0 <= x -> 0 <= y -> y <> 0 -> 0 <= x / y.
  Proof. intros. rewrite (Fdiv_def (Fth K)). apply fle_mul; [assumption | apply inv_nonneg; assumption]. Qed.
  Lemma two_nonneg : (0 : F) <= 1 + 1.
  Proof. replace (0 : F) with ((0 : F) + 0) by ring. apply fle_add2; apply one_nonneg. Qed.
  Lemma sumn_nonneg n (g : nat -> F) : (forall i, (i < n)%nat -> 0 <= g i) -> 0 <= sumn n g.
  Proof.
    induction n as [|n IH]; intros H; cbn; [apply fle_refl|].
    replace (0 : F) with ((0 : F) + 0) by ring. apply fle_add2; [apply IH; intros; apply H; lia | apply H; lia].
  Qed.
  Lemma sum3_nonneg nx ny nz (g : nat -> nat -> nat -> F) :
    (forall i j k, (i < nx)%nat -> (j < ny)%nat -> (k < nz)%nat -> 0 <= g i j k) -> 0 <= sum3 nx ny nz g.
  Proof. intros H. unfold sum3. apply sumn_nonneg; intros. apply sumn_nonneg; intros. apply sumn_nonneg; intros. auto. Qed.
  Lemma fle_sub_nonneg a b : 0 <= b -> a - b <= a.
  Proof. intros H. pose proof (fle_add K _ _ a (fle_opp _ H)) as A. replace (- b + a) with (a - b) in A by ring. replace (0 + a) with a in A by ring. exact A. Qed.
End Order.
