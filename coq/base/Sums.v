(* Sums.v — finite sums over index ranges, exchange, summation by parts (zero / wrap halo). *)
From Coq Require Import List Arith ZArith Field Ring Lia.
From FV Require Import base.Scalar.
Local Open Scope fld_scope.

Section Sums.
  Variable K : Fld.
  Add Field KF : (Fth K).
  Notation F := (car K).

  Fixpoint sumn (n : nat) (g : nat -> F) : F := match n with O => 0 | S k => sumn k g + g k end.
  Lemma sumn_ext n g h : (forall i, (i < n)%nat -> g i = h i) -> sumn n g = sumn n h.
  Proof. induction n as [|n IH]; intros H; cbn; [reflexivity|]. rewrite IH by (intros; apply H; lia). rewrite H by lia. reflexivity. Qed.
  Lemma sumn_add n g h : sumn n (fun i => g i + h i) = sumn n g + sumn n h.
  Proof. induction n as [|n IH]; cbn; [ring|]. rewrite IH. ring. Qed.
  Lemma sumn_opp n g : sumn n (fun i => - g i) = - sumn n g.
  Proof. induction n as [|n IH]; cbn; [ring|]. rewrite IH. ring. Qed.
  Lemma sumn_sub n g h : sumn n (fun i => g i - h i) = sumn n g - sumn n h.
  Proof. induction n as [|n IH]; cbn; [ring|]. rewrite IH. ring. Qed.
  Lemma sumn_scal n c g : sumn n (fun i => c * g i) = c * sumn n g.
  Proof. induction n as [|n IH]; cbn; [ring|]. rewrite IH. ring. Qed.
  Lemma sumn_zero n : sumn n (fun _ => 0) = 0.
  Proof. induction n as [|n IH]; cbn; [ring|]. rewrite IH. ring. Qed.
  Lemma sumn_swap n m (g : nat -> nat -> F) :
    sumn n (fun i => sumn m (fun j => g i j)) = sumn m (fun j => sumn n (fun i => g i j)).
  Proof. induction n as [|n IH]; cbn. - symmetry; apply sumn_zero. - rewrite IH. rewrite <- sumn_add. reflexivity. Qed.
  Lemma sumn_split n m g : sumn (n + m) g = sumn n g + sumn m (fun i => g (n + i)%nat).
  Proof. induction m as [|m IH]; [rewrite Nat.add_0_r; cbn; ring|]. rewrite Nat.add_succ_r. cbn. rewrite IH. ring. Qed.
  Lemma sumn_shift n g : sumn (S n) g = g O + sumn n (fun i => g (S i)).
  Proof. induction n as [|n IH]; [cbn; ring|]. cbn [sumn] in *. rewrite IH. ring. Qed.

  Definition A3 := nat -> nat -> nat -> F.
  Section Box.
  Variables nx ny nz : nat.
  Definition sum3 (g : A3) : F := sumn nx (fun i => sumn ny (fun j => sumn nz (fun k => g i j k))).
  Lemma sum3_ext g h : (forall i j k, (i<nx)%nat -> (j<ny)%nat -> (k<nz)%nat -> g i j k = h i j k) -> sum3 g = sum3 h.
  Proof. intros H. unfold sum3. apply sumn_ext; intros i Hi. apply sumn_ext; intros j Hj. apply sumn_ext; intros k Hk. auto. Qed.
  Lemma sum3_add g h : sum3 (fun i j k => g i j k + h i j k) = sum3 g + sum3 h.
  Proof. unfold sum3. rewrite <- sumn_add. apply sumn_ext; intros. rewrite <- sumn_add. apply sumn_ext; intros. apply sumn_add. Qed.
  Lemma sum3_opp g : sum3 (fun i j k => - g i j k) = - sum3 g.
  Proof. unfold sum3. rewrite <- sumn_opp. apply sumn_ext; intros. rewrite <- sumn_opp. apply sumn_ext; intros. apply sumn_opp. Qed.
  Lemma sum3_sub g h : sum3 (fun i j k => g i j k - h i j k) = sum3 g - sum3 h.
  Proof. unfold sum3. rewrite <- sumn_sub. apply sumn_ext; intros. rewrite <- sumn_sub. apply sumn_ext; intros. apply sumn_sub. Qed.
  Lemma sum3_scal c g : sum3 (fun i j k => c * g i j k) = c * sum3 g.
  Proof. unfold sum3. rewrite <- sumn_scal. apply sumn_ext; intros. rewrite <- sumn_scal. apply sumn_ext; intros. apply sumn_scal. Qed.
  Lemma sum3_zero : sum3 (fun _ _ _ => 0) = 0.
  Proof. unfold sum3. transitivity (sumn nx (fun _ => 0)); [|apply sumn_zero]. apply sumn_ext; intros.
    transitivity (sumn ny (fun _ => 0)); [|apply sumn_zero]. apply sumn_ext; intros. apply sumn_zero. Qed.
  End Box.
End Sums.
Arguments sumn {K}. Arguments sum3 {K}.
