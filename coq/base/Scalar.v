(* Scalar.v — the abstract scalar carrier of every model: a field with Leibniz equality,
   optionally ordered.  Executable instance: Qc (canonical rationals). *)
From Coq Require Import ZArith QArith Qcanon Field Ring Lia.

Record Fld : Type := {
  car :> Type;
  f0 : car; f1 : car;
  fadd : car -> car -> car; fmul : car -> car -> car; fsub : car -> car -> car;
  fopp : car -> car; fdiv : car -> car -> car; finv : car -> car;
  Fth : field_theory f0 f1 fadd fmul fsub fopp fdiv finv (@eq car)
}.

Declare Scope fld_scope.
Delimit Scope fld_scope with F.
Notation "0" := (f0 _) : fld_scope.
Notation "1" := (f1 _) : fld_scope.
Notation "x + y" := (fadd _ x y) : fld_scope.
Notation "x * y" := (fmul _ x y) : fld_scope.
Notation "x - y" := (fsub _ x y) : fld_scope.
Notation "- x" := (fopp _ x) : fld_scope.
Notation "x / y" := (fdiv _ x y) : fld_scope.
Notation "/ x" := (finv _ x) : fld_scope.

Definition QcF : Fld := Build_Fld Qc 0%Qc 1%Qc Qcplus Qcmult Qcminus Qcopp Qcdiv Qcinv Qcft.

(* exact rational literal a/b *)
Definition q (a b : Z) : Qc := Q2Qc (Qmake a (Z.to_pos b)).

(* ordered extension *)
Record OFld : Type := {
  ofld :> Fld;
  fle : ofld -> ofld -> Prop;
  fleb : ofld -> ofld -> bool;
  fleb_spec : forall x y, fleb x y = true <-> fle x y;
  fle_refl : forall x, fle x x;
  fle_trans : forall x y z, fle x y -> fle y z -> fle x z;
  fle_antisym : forall x y, fle x y -> fle y x -> x = y;
  fle_total : forall x y, fle x y \/ fle y x;
  fle_add : forall x y z, fle x y -> fle (fadd ofld x z) (fadd ofld y z);
  fle_mul : forall x y, fle (f0 ofld) x -> fle (f0 ofld) y -> fle (f0 ofld) (fmul ofld x y);
  f01 : f0 ofld <> f1 ofld
}.
Notation "x <= y" := (fle _ x y) : fld_scope.

Definition Qcleb (x y : Qc) : bool := Qle_bool (this x) (this y).
Lemma Qcleb_spec x y : Qcleb x y = true <-> Qcle x y.
Proof. unfold Qcleb, Qcle. apply Qle_bool_iff. Qed.

Definition QcOF : OFld.
Proof.
  refine (Build_OFld QcF Qcle Qcleb Qcleb_spec Qcle_refl Qcle_trans Qcle_antisym _ _ _ _).
  - intros x y. destruct (Qclt_le_dec x y) as [H|H]; [left; apply Qclt_le_weak; exact H | right; exact H].
  - intros x y z H. apply Qcplus_le_compat; [exact H | apply Qcle_refl].
  - intros x y Hx Hy. pose proof (Qcmult_le_compat_r 0%Qc x y Hx Hy) as H.
    replace (0 * y)%Qc with 0%Qc in H by ring. exact H.
  - discriminate.
Defined.
