(* C19 — discretization picks the nearest allowed material (ClosestIndex + straight-through estimator).
   Only statements closed by [exact]; the model is model/DeviceIndex.v, lemmas in proofs/DeviceIndex_proofs.v.
   Arrays are (shape, read function); [indices s] enumerates every voxel of shape s in row-major order
   (what the correspondence tabulates); K is any ordered field (executed at Qc). *)
From Coq Require Import ZArith List Bool Arith QArith Qcanon.
From FV Require Import base.Scalar base.PyNum model.DeviceIndex proofs.DeviceIndex_proofs.
Import ListNotations.
Local Open Scope nat_scope.

(* every voxel is enumerated, and nothing else *)
Theorem C19_indices_cover : forall s idx, In idx (indices s) <-> Forall2 lt idx s.
Proof. exact indices_cover. Qed.
Print Assumptions C19_indices_cover.

(* REPAIRED source (fixes/C19.patch), isotropic materials mapped from inverse permittivities:
   for every shape s (any rank, singleton axes included) and every non-empty list of allowed values the
   numpy-broadcast model of ClosestIndex.__call__ succeeds, keeps the shape, and every voxel holds (as a float)
   the index r that minimises |x - allowed_r|, the lowest such index on ties. *)
Theorem C19_closest_index_spec :
  forall (K : OFld) (al : list K) (s : list nat) (x : list nat -> K), al <> [] ->
  exists out, call_inv_fixed K al (mknd s x) = Some out /\ shp out = s /\
    forall idx, In idx (indices s) ->
      let r := nearest K al (x idx) in
      fn out idx = fnat K r /\ r < length al /\
      (forall j, j < length al -> fle K (absdiff K (x idx) (nth r al (f0 K))) (absdiff K (x idx) (nth j al (f0 K)))) /\
      (forall j, j < r -> ~ fle K (absdiff K (x idx) (nth j al (f0 K))) (absdiff K (x idx) (nth r al (f0 K)))).
Proof. exact closest_index_spec. Qed.
Print Assumptions C19_closest_index_spec.

(* integer mode (default): shape kept; every voxel = clip(round-half-even(x), 0, n-1), which lies in [0, n-1]
   and is at least as close to x as every other integer of [0, n-1]  (n >= 1 materials; inputs exact rationals) *)
Theorem C19_integer_mode_spec :
  forall (n : Z) (s : list nat) (x : list nat -> Qc), (1 <= n)%Z ->
  exists out, call_int n (mknd s x) = Some out /\ shp out = s /\
    forall idx, In idx (indices s) ->
      let r := closest_int n (x idx) in
      fn out idx = ZtoQc r /\ (0 <= r <= n - 1)%Z /\
      r = Z.min (Z.max (py_round_div (Qnum (this (x idx))) (Zpos (Qden (this (x idx))))) 0) (n - 1) /\
      forall j, (0 <= j <= n - 1)%Z ->
        fle QcOF (fabs QcOF (x idx - ZtoQc r)%Qc) (fabs QcOF (x idx - ZtoQc j)%Qc).
Proof. exact closest_index_int_spec. Qed.
Print Assumptions C19_integer_mode_spec.

(* straight-through estimator on dual numbers (value, tangent): the forward value is the discrete value y
   and the tangent of the continuous input passes through unchanged (stop_gradient drops tangents) *)
Theorem C19_ste_passes_gradient :
  forall (K : OFld) (v dv y dy : K), ste_dual K (v, dv) (y, dy) = (y, dv).
Proof. exact ste_dual_spec. Qed.
Print Assumptions C19_ste_passes_gradient.

(* UNCHANGED source (call_inv_src_old: allowed values kept in shape (n,1)): the property fails in three ways *)
(* depth == number of materials: wrong values (all zero) *)
Theorem C19_src_old_refuted_values :
  exists al s d, al <> [] /\ length d = prod s /\ ~ spec_holds (call_inv_src_old QcOF) al s d.
Proof. exact src_old_refuted_values. Qed.
Print Assumptions C19_src_old_refuted_values.
(* depth == 1: the output shape differs from the input shape *)
Theorem C19_src_old_refuted_shape :
  exists al s d, al <> [] /\ length d = prod s /\
    exists out, call_inv_src_old QcOF al (of_flat s d 0%Qc) = Some out /\ shp out <> s.
Proof. exact src_old_refuted_shape. Qed.
Print Assumptions C19_src_old_refuted_shape.
(* any other depth: broadcasting error *)
Theorem C19_src_old_refuted_crash :
  exists al s d, al <> [] /\ length d = prod s /\ call_inv_src_old QcOF al (of_flat s d 0%Qc) = None.
Proof. exact src_old_refuted_crash. Qed.
Print Assumptions C19_src_old_refuted_crash.

(* non-vacuity: a concrete array with a tie (3/8 is equidistant from 1/2 and 1/4 -> lower index 1),
   a singleton axis, and the integer mode with a half-way value (1/2 -> 0, 3/2 -> 2, 9 -> clipped to 2) *)
Example C19_example :
  option_map (fun r => (shp r, to_list r))
    (call_inv_fixed QcOF [q 1 1; q 1 2; q 1 4] (of_flat [2; 1; 2] [q 3 8; q 9 10; q 0 1; q 5 8] 0%Qc))
  = Some ([2; 1; 2], [q 1 1; q 0 1; q 2 1; q 1 1])
  /\ option_map (fun r => (shp r, to_list r)) (call_int 3 (of_flat [1; 4] [q 1 2; q 3 2; q 9 1; q (-2) 1] 0%Qc))
  = Some ([1; 4], [q 0 1; q 2 1; q 2 1; q 0 1]).
Proof. split; vm_compute; reflexivity. Qed.
