(* C11 — complex-valued fields reproduce real-valued runs.  Model: model/Yee.v; lemmas: proofs/Yee_real.v *)
From Coq Require Import List Arith.
From FV Require Import base.Scalar base.Cplx model.Yee proofs.Yee_steps proofs.Yee_real.
Import ListNotations.

(* PARTIAL in scope: PML-free scenes.  With ghost factors of zero imaginary part (no non-zero Bloch phase), real source
   injections and real initial fields, the imaginary part of E and H is zero after any number of steps; the real parts then
   evolve by the very same definitions, i.e. they are the real-valued run. *)
Theorem C11_complex_stays_real_partial : forall (K : Fld) (sc : scene K), pmls K sc = [] ->
  (realC K (hix K sc) /\ realC K (hiy K sc) /\ realC K (hiz K sc) /\ realC K (lox K sc) /\ realC K (loy K sc) /\ realC K (loz K sc)) ->
  (forall t, realV K (injE K sc t) /\ realV K (injH K sc t)) ->
  forall n s, realV K (fE s) -> realV K (fH s) -> realV K (fE (iterR K sc n s)) /\ realV K (fH (iterR K sc n s)).
Proof. intros K sc Hp G I n. exact (forward_real_n K sc Hp G I n). Qed.
Print Assumptions C11_complex_stays_real_partial.
