(* C11 — complex-valued fields reproduce real-valued runs.  Model: model/Yee.v; lemmas: proofs/Yee_real.v, proofs/Yee_real_pml.v *)
From Coq Require Import List Arith.
From FV Require Import base.Scalar base.Cplx model.Yee proofs.Yee_steps proofs.Yee_real proofs.Yee_real_pml model.YeeFull proofs.Yee_full_props proofs.Yee_lossy_props model.YeeExec proofs.Yee_lossy_exec.
Import ListNotations.

(* For every scene of the pair model (any grid, widths, masks, iso/diagonal lossy materials, ANY list of CPML layers) whose ghost
   factors have zero imaginary part (no non-zero Bloch phase) and whose source injections are real: if E, H and the psi accumulators
   start real (imaginary part exactly 0), they are real after any number of steps.  The real parts therefore evolve by the very same
   definitions applied to (x, 0) pairs, i.e. they are the real-valued run. *)
Theorem C11_complex_stays_real : forall (K : Fld) (sc : scene K),
  (realC K (hix K sc) /\ realC K (hiy K sc) /\ realC K (hiz K sc) /\ realC K (lox K sc) /\ realC K (loy K sc) /\ realC K (loz K sc)) ->
  (forall t, realV K (injE K sc t) /\ realV K (injH K sc t)) ->
  forall n s, realV K (fE s) -> realV K (fH s) -> Forall (realP K) (psiE s) -> Forall (realP K) (psiH s) ->
  realV K (fE (iterR K sc n s)) /\ realV K (fH (iterR K sc n s)).
Proof. intros K sc G I n. exact (forward_real_pml_n K sc G I n). Qed.
Print Assumptions C11_complex_stays_real.

(* The fully anisotropic lossless tiers (model/YeeFull.v), PML-free scenes: real ghost factors, real source terms and real
   initial E, H keep every imaginary part at zero for any number of steps. *)
Theorem C11_full_tensor_complex_stays_real : forall (K : Fld) (sc : scene K), pmls K sc = [] ->
  (realC K (hix K sc) /\ realC K (hiy K sc) /\ realC K (hiz K sc) /\ realC K (lox K sc) /\ realC K (loy K sc) /\ realC K (loz K sc)) ->
  (forall t, realV K (injE K sc t) /\ realV K (injH K sc t)) ->
  forall (ie9 im9 : option (T9 K)) n s, realV K (fE s) -> realV K (fH s) ->
  realV K (fE (iterFR K sc ie9 im9 n s)) /\ realV K (fH (iterFR K sc ie9 im9 n s)).
Proof. intros K sc Hp G I ie9 im9. exact (forward_full_real_n K sc Hp G I ie9 im9). Qed.
Print Assumptions C11_full_tensor_complex_stays_real.

(* The conductive fully anisotropic tiers (model/YeeFull.v forward_lossy), PML-free scenes. *)
Theorem C11_lossy_tensor_complex_stays_real : forall (K : Fld) (sc : scene K), pmls K sc = [] ->
  (realC K (hix K sc) /\ realC K (hiy K sc) /\ realC K (hiz K sc) /\ realC K (lox K sc) /\ realC K (loy K sc) /\ realC K (loz K sc)) ->
  (forall t, realV K (injE K sc t) /\ realV K (injH K sc t)) ->
  forall (e m : option (T9 K * T9 K)) n s, realV K (fE s) -> realV K (fH s) ->
  realV K (fE (iterLR K sc e m n s)) /\ realV K (fH (iterLR K sc e m n s)).
Proof. intros K sc Hp G I e m. exact (forward_lossy_real_n K sc Hp G I e m). Qed.
Print Assumptions C11_lossy_tensor_complex_stays_real.

(* what the correspondence executes for that tier (matrices and state tabulated) reads back, in every cell of the box, the functional step *)
Theorem C11_lossy_executed_step_is_the_model : forall (K : Fld) (sc : scene K), pmls K sc = [] ->
  forall (e m : option (T9 K * T9 K)) s i j k, (i < nx K sc)%nat -> (j < ny K sc)%nat -> (k < nz K sc)%nat ->
  vx (fE (forward_lossyX K sc e m s)) i j k = vx (fE (forward_lossy K sc e m s)) i j k /\
  vy (fE (forward_lossyX K sc e m s)) i j k = vy (fE (forward_lossy K sc e m s)) i j k /\
  vz (fE (forward_lossyX K sc e m s)) i j k = vz (fE (forward_lossy K sc e m s)) i j k /\
  vx (fH (forward_lossyX K sc e m s)) i j k = vx (fH (forward_lossy K sc e m s)) i j k /\
  vy (fH (forward_lossyX K sc e m s)) i j k = vy (fH (forward_lossy K sc e m s)) i j k /\
  vz (fH (forward_lossyX K sc e m s)) i j k = vz (fH (forward_lossy K sc e m s)) i j k /\
  tstep (forward_lossyX K sc e m s) = tstep (forward_lossy K sc e m s).
Proof. exact forward_lossyX_in_box. Qed.
Print Assumptions C11_lossy_executed_step_is_the_model.
