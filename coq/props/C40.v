(* C40 — functional updates (TreeClass.aset) never mutate their input.
   Model: model/Heap.v (store of objects with identities; aset = path copying with explicit
   copy-then-write steps); lemmas in proofs/Heap_proofs.v.  All theorems quantify over every store,
   root, path, value object and create_new_ok flag. *)
From Coq Require Import ZArith List Bool.
From FV Require Import model.Heap proofs.Heap_proofs.
Import ListNotations.
Open Scope Z_scope.

(* the original is unchanged: every object that existed before the call has the same content afterwards
   (hence everything reachable from the old root, and from any other alias, is unchanged) *)
Theorem C40_original_unchanged : forall s root ops v create s' r',
  aset s root ops v create = Ok (s', r') ->
  (length s <= length s')%nat /\ forall a, (a < length s)%nat -> nth_error s' a = nth_error s a.
Proof. exact aset_frame. Qed.
Print Assumptions C40_original_unchanged.

(* the returned object holds the new value at the addressed path *)
Theorem C40_path_updated : forall s root ops v create s' r',
  aset s root ops v create = Ok (s', r') -> lookup s' r' ops = Some v.
Proof. exact aset_get. Qed.
Print Assumptions C40_path_updated.

(* only the addressed path changed: for every prefix of the path, the object a' reached in the result is a
   FRESH object (address >= old store size) of the same kind (same class / list of the same length / dict)
   as the original object a at that prefix, and every slot other than the one on the path holds the very
   same child object as in the original (off-path children are shared, not copied, and by
   C40_original_unchanged unchanged) *)
Theorem C40_only_path_changed : forall s root ops v create s' r',
  aset s root ops v create = Ok (s', r') ->
  forall pre o post, ops = pre ++ o :: post ->
  exists a a' c u,
    lookup s root pre = Some a /\ lookup s' r' pre = Some a'
    /\ (length s <= a')%nat /\ (a' < length s')%nat
    /\ nth_error s a = Some c /\ nth_error s' a' = Some u /\ kind_eq c u
    /\ forall o', other_slot c o o' -> child s' a' o' = child s a o'.
Proof. exact aset_path. Qed.
Print Assumptions C40_only_path_changed.

(* same type: the result is a fresh instance of the class of self *)
Theorem C40_same_type : forall s root ops v create s' r',
  aset s root ops v create = Ok (s', r') ->
  exists n fs fs', nth_error s root = Some (CClass n fs) /\ nth_error s' r' = Some (CClass n fs') /\ (length s <= r')%nat.
Proof. exact aset_type. Qed.
Print Assumptions C40_same_type.

(* non-vacuity: root{1: mid{7: list[leaf 5, dict{3: leaf 6}]}}; set  1->7->[-1]->['3']  to a new leaf *)
Definition ex_store : store :=
  [CLeaf 5; CLeaf 6; CDict [(3, 1%nat)]; CList [0%nat; 2%nat]; CClass 20 [(7, 3%nat); (8, 0%nat)]; CClass 10 [(1, 4%nat)]; CLeaf 99].
Example C40_example :
  aset ex_store 5%nat [Attr 1; Attr 7; Idx (-1); Key 3] 6%nat false
  = Ok (ex_store ++ [CDict [(3, 6%nat)]; CList [0%nat; 7%nat]; CClass 20 [(7, 8%nat); (8, 0%nat)]; CClass 10 [(1, 9%nat)]], 10%nat)
  /\ aset ex_store 5%nat [Attr 1; Attr 7; Idx 2] 6%nat false = Err
  /\ aset ex_store 5%nat [Attr 1; Attr 7; Idx 1; Key 4] 6%nat true
     = Ok (ex_store ++ [CDict [(3, 1%nat); (4, 6%nat)]; CList [0%nat; 7%nat]; CClass 20 [(7, 8%nat); (8, 0%nat)]; CClass 10 [(1, 9%nat)]], 10%nat).
Proof. vm_compute. repeat split; reflexivity. Qed.
