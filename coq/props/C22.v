(* C22 — Gaussian smoothing preserves constants and stays within the input range.
   Only statements closed by [exact]; model: model/DesignTransforms_Gauss.v, lemmas: proofs/DesignTransforms_Gauss_proofs.v.
   [gauss_exec K gl std pl0 ph0 pl1 ph1 s l] is the executed model of GaussianSmoothing2D(std, paddings)({k: v})[k]
   for v of shape s (nested lists l); gl is the table of un-normalised kernel weights (oracle, from the implementation);
   [smooth K g P nx ny pads x i j] is entry (i,j) of the squeezed result (functional view; tied by C22_exec_is_smooth). *)
From Coq Require Import List Arith Bool QArith Qcanon.
From FV Require Import base.Scalar base.Sums base.Util base.DesignTransformsBase base.DesignTransformsOrd
  model.DesignTransforms_Sym model.DesignTransforms_Gauss proofs.DesignTransforms_Gauss_proofs.
Import ListNotations.
Local Open Scope fld_scope.

(* transfer: when defined, the executed function has the input's shape and each entry is [smooth] of the squeezed
   design; it is defined only for std >= 1, a singleton axis, a (6 std+1)^2 kernel table and paddings of the right length *)
Theorem C22_exec_is_smooth : forall (K : Fld) gl std pl0 ph0 pl1 ph1 s l y,
  gauss_exec K gl std pl0 ph0 pl1 ph1 s l = Some y ->
  exists v, vaxis s = Some v /\
    let a := fst (plane_axes v) in let b := snd (plane_axes v) in
    std <> 0%nat /\ shape2 (ksize (3 * std)) (ksize (3 * std)) gl /\
    pad_len_ok K pl0 (geti s b) = true /\ pad_len_ok K ph0 (geti s b) = true /\
    pad_len_ok K pl1 (geti s a) = true /\ pad_len_ok K ph1 (geti s a) = true /\
    shape3i K s y /\
    forall p, inb s p ->
      get3i K y p = smooth K (get2 0 gl) (3 * std) (geti s a) (geti s b) (mk_pads K pl0 ph0 pl1 ph1)
                      (fun i j => get3i K l (embed a b i j)) (geti p a) (geti p b).
Proof. exact gauss_exec_spec. Qed.
Print Assumptions C22_exec_is_smooth.

(* linear in (design, paddings) jointly — hence linear in the design with edge-replicated (default) padding *)
Theorem C22_linear_in_design_and_padding : forall (K : Fld) g P nx ny (c d : K) p q x y i j,
  same_flags K p q ->
  smooth K g P nx ny (pads_comb K c d p q) (fun i j => c * x i j + d * y i j) i j
  = c * smooth K g P nx ny p x i j + d * smooth K g P nx ny q y i j.
Proof. exact smooth_linear. Qed.
Print Assumptions C22_linear_in_design_and_padding.

(* affine in the design for fixed (given or default) paddings *)
Theorem C22_affine : forall (K : Fld) g P nx ny (lam : K) p x y i j,
  smooth K g P nx ny p (fun i j => lam * x i j + (1 - lam) * y i j) i j
  = lam * smooth K g P nx ny p x i j + (1 - lam) * smooth K g P nx ny p y i j.
Proof. exact smooth_affine. Qed.
Print Assumptions C22_affine.

(* a constant design with matching (or default) paddings is returned unchanged — executed function *)
Theorem C22_constants_fixed : forall (K : Fld) gl std pl0 ph0 pl1 ph1 s l y (c : K),
  gauss_exec K gl std pl0 ph0 pl1 ph1 s l = Some y ->
  gsum K (get2 0 gl) (3 * std) <> 0 ->
  (forall p, inb s p -> get3i K l p = c) ->
  pad_all K (fun v => v = c) pl0 -> pad_all K (fun v => v = c) ph0 ->
  pad_all K (fun v => v = c) pl1 -> pad_all K (fun v => v = c) ph1 ->
  forall p, inb s p -> get3i K y p = c.
Proof. exact gauss_exec_const. Qed.
Print Assumptions C22_constants_fixed.

(* every output value lies within the range of the design and padding values (weights >= 0, sum <> 0) — executed function *)
Theorem C22_range : forall (K : OFld) gl std pl0 ph0 pl1 ph1 s l y (lo hi : K),
  gauss_exec K gl std pl0 ph0 pl1 ph1 s l = Some y ->
  Forall (Forall (fun v => 0 <= v)) gl -> gsum K (get2 0 gl) (3 * std) <> 0 ->
  (forall p, inb s p -> lo <= get3i K l p /\ get3i K l p <= hi) ->
  pad_all K (fun v => lo <= v /\ v <= hi) pl0 -> pad_all K (fun v => lo <= v /\ v <= hi) ph0 ->
  pad_all K (fun v => lo <= v /\ v <= hi) pl1 -> pad_all K (fun v => lo <= v /\ v <= hi) ph1 ->
  forall p, inb s p -> lo <= get3i K y p /\ get3i K y p <= hi.
Proof. exact gauss_exec_range. Qed.
Print Assumptions C22_range.

(* mirroring the design along axis 0 / axis 1 of the squeezed array, with the paddings mirrored accordingly
   (low/high exchanged on the mirrored axis, the other two reversed), mirrors the result — for a kernel table that is
   symmetric under the same reflection (checked on the oracle table by the correspondence) *)
Theorem C22_mirror_axis0 : forall (K : Fld) g P nx ny, (0 < nx)%nat -> (0 < ny)%nat -> forall p x i j,
  (forall a b, (a <= 2 * P)%nat -> g (2 * P - a)%nat b = g a b) -> (i < nx)%nat ->
  smooth K g P nx ny (pads_m0 K nx p) (fun i j => x (nx - 1 - i)%nat j) i j = smooth K g P nx ny p x (nx - 1 - i)%nat j.
Proof. exact smooth_mirror0. Qed.
Print Assumptions C22_mirror_axis0.

Theorem C22_mirror_axis1 : forall (K : Fld) g P nx ny, (0 < nx)%nat -> (0 < ny)%nat -> forall p x i j,
  (forall a b, (b <= 2 * P)%nat -> g a (2 * P - b)%nat = g a b) -> (j < ny)%nat ->
  smooth K g P nx ny (pads_m1 K ny p) (fun i j => x i (ny - 1 - j)%nat) i j = smooth K g P nx ny p x i (ny - 1 - j)%nat.
Proof. exact smooth_mirror1. Qed.
Print Assumptions C22_mirror_axis1.

(* non-vacuity at Qc: a positive symmetric 7x7 table (std = 1), singleton axis first, one explicit padding *)
Definition C22_g : list (list Qc) :=
  tab2 7 7 (fun a b => q 1 (1 + (Z.of_nat a - 3) * (Z.of_nat a - 3) + (Z.of_nat b - 3) * (Z.of_nat b - 3))).
Example C22_example :
  gsum QcF (get2 0%Qc C22_g) 3 <> 0%Qc /\
  forallb (forallb (fun v => Qcleb 0%Qc v)) C22_g = true /\
  match gauss_exec QcF C22_g 1 None (Some [q 5 2; q 5 2]) None None (1, 3, 2)%nat
          [[[q 5 2; q 5 2]; [q 5 2; q 5 2]; [q 5 2; q 5 2]]] with
  | Some y => qlist3_eqb y [[[q 5 2; q 5 2]; [q 5 2; q 5 2]; [q 5 2; q 5 2]]] | None => false end = true.
Proof. split; [vm_compute; discriminate|]. split; vm_compute; reflexivity. Qed.
