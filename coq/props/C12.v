(* C12 — absorbing layers absorb.  Model: model/Pml.v (grading profiles, CPML coefficients), model/Yee.v (cpml_step). *)
From Coq Require Import List Arith Bool.
From FV Require Import base.Scalar base.Order model.Pml proofs.Pml_proofs.

(* PARTIAL (DESIGN.md §5): the numerical bounds of the property (residual energy < 1e-6 of the peak, < 1e-4 relative energy
   difference to a large reference domain) are measured by the check and never claimed as proved.  Proved, for every layer
   thickness, both directions, any parameters: *)

(* default grading (sigma_start = 0): the CPML `a` coefficient vanishes on the interface row for E and H — no loss at the
   inner face (this is also the hypothesis under which the reverse sweep of C03 is exact) *)
Theorem C12_a_zero_at_interface : forall (K : OFld) (pw pw2 pw3 ex : car K -> car K), pw (f0 K) = f0 K ->
  forall (p : pml_params K) minus L, (1 <= L)%nat -> s0 K p = f0 K ->
  aE K pw ex pw2 pw3 p minus L (iface_idx minus L) = f0 K /\ aH K pw ex pw2 pw3 p minus L (iface_idx minus L) = f0 K.
Proof. exact a_zero_at_interface. Qed.
Print Assumptions C12_a_zero_at_interface.

(* 0 <= b <= 1, b <> 0 for non-negative sigma, alpha and kappa > 0 (any exp with 0 < exp(-x) <= 1 for x >= 0) *)
Theorem C12_b_in_unit : forall (K : OFld) (ex : car K -> car K),
  (forall x, fle K (f0 K) x -> fle K (f0 K) (ex (fopp K x)) /\ fle K (ex (fopp K x)) (f1 K) /\ ex (fopp K x) <> f0 K) ->
  forall dte s k al, fle K (f0 K) dte -> fle K (f0 K) s -> fle K (f0 K) k -> k <> f0 K -> fle K (f0 K) al ->
  fle K (f0 K) (coef_b K ex dte s k al) /\ fle K (coef_b K ex dte s k al) (f1 K) /\ coef_b K ex dte s k al <> f0 K.
Proof. exact b_in_unit. Qed.
Print Assumptions C12_b_in_unit.

(* a <= 0 (the memory term opposes the derivative) *)
Theorem C12_a_nonpos : forall (K : OFld) b s k al, fle K b (f1 K) -> fle K (f0 K) s -> fle K (f0 K) k -> k <> f0 K -> fle K (f0 K) al ->
  fadd K s (fmul K al k) <> f0 K -> fle K (coef_a K b s k al) (f0 K).
Proof. exact a_nonpos. Qed.
Print Assumptions C12_a_nonpos.

(* grading is non-decreasing in depth *)
Theorem C12_profile_monotone : forall (K : OFld) (pw : car K -> car K),
  (forall x y, fle K (f0 K) x -> fle K x y -> fle K (pw x) (pw y)) ->
  forall vs ve L d1 d2, fle K vs ve -> fle K (f0 K) (natK K L) -> natK K L <> f0 K -> fle K (f0 K) d1 -> fle K d1 d2 ->
  fle K (profile K pw vs ve L d1) (profile K pw vs ve L d2).
Proof. exact profile_monotone. Qed.
Print Assumptions C12_profile_monotone.
