(* C05 — forward results do not depend on the gradient strategy; slice partition.
   Only statements closed by [exact]; the model is model/Loop.v, lemmas in proofs/Loop_proofs.v. *)
From Coq Require Import ZArith List Bool.
From FV Require Import base.PyNum model.Loop proofs.Loop_proofs.
Import ListNotations.
Open Scope Z_scope.

(* the reversible run's slice boundaries partition [0,T] into strictly increasing, non-empty
   segments, for every 1 <= k <= T (k = num_checkpoints_reversible + 1) *)
(* partition_of a b l  :=  l = x :: r with x = a, r strictly increasing above a, last l = b *)
Theorem C05_slice_partition : forall T k, 1 <= k <= T -> partition_of 0 T (slice_boundaries T k).
Proof. exact slice_boundaries_partition. Qed.
Print Assumptions C05_slice_partition.

Theorem C05_slice_count : forall T k, 0 <= k -> length (slice_boundaries T k) = Z.to_nat (k + 1).
Proof. exact slice_boundaries_length. Qed.
Print Assumptions C05_slice_count.

(* whatever the gradient configuration, run_fdtd's loop structure executes exactly T forward
   steps from the reset state (or raises the documented too-many-checkpoints error) *)
Theorem C05_forward_independent :
  forall (S : Type) (fwd : S -> S) (step_of : S -> Z),
  (forall s, step_of (fwd s) = step_of s + 1) ->
  forall g T s0, 0 <= T -> step_of s0 = 0 ->
  match g with Reversible n => 0 <= n | _ => True end ->
  match run_fdtd S fwd step_of g T s0 with
  | Ok r => r = iter S fwd (Z.to_nat T) s0 /\ step_of r = T
  | ErrTooManyCheckpoints => exists n, g = Reversible n /\ 0 < n /\ T < n + 1
  end.
Proof. exact run_fdtd_independent. Qed.
Print Assumptions C05_forward_independent.

(* non-vacuity: a concrete partition and a concrete run *)
Example C05_example : slice_boundaries 10 4 = [0; 2; 5; 8; 10]
  /\ run_fdtd Z Z.succ (fun s => s) (Reversible 3) 10 0 = Ok 10.
Proof. split; vm_compute; reflexivity. Qed.
