(* C04 — time-reversal gradients equal exact autodiff gradients.
   Model: model/Grad.v (the fdtd_bwd reverse loop with optional checkpoints); lemmas: proofs/Grad_proofs.v.
   jax.vjp of one forward step is an abstract function (oracle); the hypothesis that the backward step
   reconstructs the forward trajectory is what C02 (exactly) and C03 (outside absorbing layers) establish. *)
From Coq Require Import ZArith List Bool.
From FV Require Import model.Grad proofs.Grad_proofs.
Open Scope Z_scope.

(* PARTIAL: exact in its own terms (all T, all checkpoint sets, any state/cotangent types), but jax.vjp itself and
   the claim that the pullback only sees the state up to `eqv` are assumptions (hypotheses), not modelled code. *)
Theorem C04_reversible_eq_reverse_mode_partial :
  forall (S C : Type) (fwd bwd : Z -> S -> S) (vjp : Z -> S -> C -> C) (ckpt : Z -> option S) (x0 : S) (eqv : S -> S -> Prop),
  (forall x, eqv x x) ->
  (forall (t : nat) y, eqv y (traj S fwd x0 (Datatypes.S t)) -> eqv (bwd (Z.of_nat t) y) (traj S fwd x0 t)) ->
  (forall (t : nat) y c, eqv y (traj S fwd x0 t) -> vjp (Z.of_nat t) y c = vjp (Z.of_nat t) (traj S fwd x0 t) c) ->
  (forall (t : nat) y, ckpt (Z.of_nat t) = Some y -> eqv y (traj S fwd x0 t)) ->
  forall (T : nat) (c : C),
  exists y', rev_loop S C bwd vjp ckpt cond_src (Datatypes.S T) (Z.of_nat T) (traj S fwd x0 T) c
             = Some (0, y', reverse_mode S C fwd vjp x0 T c).
Proof. exact reversible_eq_reverse_mode. Qed.
Print Assumptions C04_reversible_eq_reverse_mode_partial.

(* the loop test of the snapshot (time_step >= 0) performs an extra reverse step: regression witness *)
Theorem C04_src_old_refuted :
  exists T, rev_loop Z Z (fun _ x => x - 1) (fun _ _ c => c + 1) (fun _ => None) cond_src_old 10 T T 0 <> Some (0, 0, T).
Proof. exact reversible_src_old_refuted. Qed.
Print Assumptions C04_src_old_refuted.

Example C04_nonvacuous :
  rev_loop Z Z (fun _ x => x - 1) (fun _ _ c => c + 1) (fun t => if t =? 2 then Some 2 else None) cond_src 10 3 3 0 = Some (0, 0, 3).
Proof. vm_compute. reflexivity. Qed.
