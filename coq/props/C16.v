(* C16 — detector reductions are consistent with their spatial records.
   Statements only; model in model/Detectors.v, lemmas in proofs/Detectors_proofs.v. *)
From Coq Require Import List Arith Bool ZArith.
From FV Require Import base.Scalar base.Sums base.DetectorsBase model.Detectors proofs.Detectors_proofs.
Import ListNotations.
Local Open Scope fld_scope.

(* --- defect of the unchanged source: PoyntingFluxDetector(keep_all_components=True) stacks three
       differently shaped area-weight arrays; placement succeeds iff the region is a single cell --- *)
Theorem C16_keep_all_src_old_placeable_iff :
  forall (K : Fld) (g : Grid K) lo n, pf_weights_all_src_old g lo n <> None <-> n = (1, 1, 1)%nat.
Proof. exact pf_weights_src_old_ok_iff. Qed.
Print Assumptions C16_keep_all_src_old_placeable_iff.

Theorem C16_keep_all_src_old_refuted :
  exists (g : Grid QcF) lo n, (1 < dimx n * dimy n * dimz n)%nat /\ pf_weights_all_src_old g lo n = None.
Proof. exact keep_all_src_old_refuted. Qed.
Print Assumptions C16_keep_all_src_old_refuted.

(* --- repaired placement (fixes/C16.patch): always succeeds, weights have the detector shape and the
       face-area entries --- *)
Theorem C16_keep_all_placeable :
  forall (K : Fld) (g : Grid K) lo n,
  exists W, pf_weights_all g lo n = Some W /\
    forall a, sshape (W a) = n /\
      forall i j k, (i < dimx n)%nat -> (j < dimy n)%nat -> (k < dimz n)%nat ->
        sget (W a) i j k = sget (face_area g lo n (Nat.min a 2)) i j k.
Proof. exact pf_weights_all_ok. Qed.
Print Assumptions C16_keep_all_placeable.

(* --- volume reductions --- *)
Theorem C16_field_reduced_is_weighted_mean :
  forall (K : Fld) n (g : Grid K) lo sel (E H : Vec K) r,
  field_reduced n (cell_volume g lo) sel E H r
  = sum3s n (fun i j k => field_spatial sel E H r i j k * (wx g (ox lo i) * wy g (oy lo j) * wz g (oz lo k)))
    / sum3s n (fun i j k => wx g (ox lo i) * wy g (oy lo j) * wz g (oz lo k)).
Proof. exact field_reduced_is_mean. Qed.
Print Assumptions C16_field_reduced_is_weighted_mean.

(* the weighted mean is linear and reproduces constants (so it is a mean, whatever the cell volumes) *)
Theorem C16_weighted_mean_linear_const :
  forall (K : Fld) n (vol g h : A3 K) (c : K),
  wmean n vol (fun i j k => g i j k + h i j k) = wmean n vol g + wmean n vol h /\
  wmean n vol (fun i j k => c * g i j k) = c * wmean n vol g /\
  (sum3s n vol <> 0 -> wmean n vol (fun _ _ _ => c) = c).
Proof. exact wmean_linear_const. Qed.
Print Assumptions C16_weighted_mean_linear_const.

Theorem C16_energy_reduced_is_weighted_sum :
  forall (K : Fld) n (g : Grid K) lo (en : A3 K),
  energy_reduced n (cell_volume g lo) en = sum3s n (fun i j k => en i j k * (wx g (ox lo i) * wy g (oy lo j) * wz g (oz lo k))).
Proof. exact energy_reduced_is_sum. Qed.
Print Assumptions C16_energy_reduced_is_weighted_sum.

Theorem C16_energy_reduced_additive :
  forall (K : Fld) (g : Grid K) lx ly lz n1 n2 ny nz (en : A3 K),
  energy_reduced ((n1 + n2)%nat, ny, nz) (cell_volume g (lx, ly, lz)) en
  = energy_reduced (n1, ny, nz) (cell_volume g (lx, ly, lz)) en
    + energy_reduced (n2, ny, nz) (cell_volume g ((lx + n1)%nat, ly, lz)) (fun i j k => en (n1 + i)%nat j k).
Proof. exact energy_reduced_split_x. Qed.
Print Assumptions C16_energy_reduced_additive.

(* --- Poynting flux --- *)
Theorem C16_flux_reduced_is_area_weighted_sum :
  forall (K : Fld) (g : Grid K) lo n pa minus (E H : Vec K),
  pf_single_reduced n (pf_weights_single g lo n pa) pa minus E H
  = sum3s n (fun i j k => pf_single_spatial pa minus E H i j k *
               match pa with
               | 0 => wy g (oy lo j) * wz g (oz lo k)
               | 1 => wx g (ox lo i) * wz g (oz lo k)
               | _ => wx g (ox lo i) * wy g (oy lo j)
               end).
Proof. exact pf_single_reduced_is_area_sum. Qed.
Print Assumptions C16_flux_reduced_is_area_weighted_sum.

Theorem C16_minus_direction_negates :
  forall (K : Fld) n W Wall pa (E H : Vec K),
  (forall i j k, pf_single_spatial pa true E H i j k = - pf_single_spatial pa false E H i j k) /\
  pf_single_reduced n W pa true E H = - pf_single_reduced n W pa false E H /\
  (forall c, pf_all_reduced n Wall true E H c = - pf_all_reduced n Wall false E H c).
Proof. exact minus_direction_negates. Qed.
Print Assumptions C16_minus_direction_negates.

Theorem C16_single_is_component_of_all :
  forall (K : Fld) (g : Grid K) lo n W pa minus (E H : Vec K),
  (pa < 3)%nat -> pf_weights_all g lo n = Some W ->
  pf_single_spatial pa minus E H = pf_all_spatial minus E H pa /\
  pf_single_reduced n (pf_weights_single g lo n pa) pa minus E H = pf_all_reduced n W minus E H pa.
Proof. exact single_is_component_of_all. Qed.
Print Assumptions C16_single_is_component_of_all.

(* --- closed surface: [face_flux g lo n a pos E H] is the record of a '+' reduced single-component
       PoyntingFluxDetector placed on the plane  axis a = lo_a + pos  of the box (lo, n), seeing the
       full-domain fields E, H restricted to its own slice --- *)
Theorem C16_closed_surface_is_signed_face_sum :
  forall (K : Fld) (g : Grid K) lo n (E H : Vec K),
  (1 <= dimx n)%nat -> (1 <= dimy n)%nat -> (1 <= dimz n)%nat ->
  closed_net g lo n (Some [0; 1; 2]%nat) false (restrict lo E) (restrict lo H)
  = (face_flux K g lo n 0 (dimx n - 1) E H - face_flux K g lo n 0 0 E H)
    + (face_flux K g lo n 1 (dimy n - 1) E H - face_flux K g lo n 1 0 E H)
    + (face_flux K g lo n 2 (dimz n - 1) E H - face_flux K g lo n 2 0 E H).
Proof. exact closed_eq_six_faces. Qed.
Print Assumptions C16_closed_surface_is_signed_face_sum.

Theorem C16_closed_surface_default_axes_and_orientation :
  forall (K : Fld) (g : Grid K) lo n axes inward (E H : Vec K),
  (1 <= dimx n)%nat -> (1 <= dimy n)%nat -> (1 <= dimz n)%nat ->
  closed_net g lo n None inward E H = closed_net g lo n (Some [0; 1; 2]%nat) inward E H /\
  closed_net g lo n axes true E H = - closed_net g lo n axes false E H.
Proof. exact closed_default_axes_and_orientation. Qed.
Print Assumptions C16_closed_surface_default_axes_and_orientation.

(* --- phasor detectors: any list of recorded steps, any fields, phase and window oracles --- *)
Theorem C16_inverse_phasor_subtracts :
  forall (K : Fld) sel (fldE fldH : nat -> Vec K) e scale w steps st0 f r i j k,
  cadd (phasor_run_spatial false sel fldE fldH e scale w steps st0 f r i j k)
       (phasor_run_spatial true sel fldE fldH e scale w steps st0 f r i j k)
  = cadd (st0 f r i j k) (st0 f r i j k).
Proof. exact phasor_inverse_subtracts. Qed.
Print Assumptions C16_inverse_phasor_subtracts.

Theorem C16_phasor_reduced_is_weighted_mean :
  forall (K : Fld) sel (fldE fldH : nat -> Vec K) e scale w n vol inverse steps (stR : PhR K) (stS : PhS K),
  (forall f r, stR f r = cwmean n vol (stS f r)) ->
  forall f r,
    phasor_run_reduced n vol inverse sel fldE fldH e scale w steps stR f r
    = cwmean n vol (phasor_run_spatial inverse sel fldE fldH e scale w steps stS f r).
Proof. exact phasor_reduced_is_mean. Qed.
Print Assumptions C16_phasor_reduced_is_weighted_mean.

(* non-vacuity: a 2x2x1 plane on a non-uniform grid; the repaired weights exist and the all-component
   reduced record has the single-component record as its z entry *)
Example C16_example :
  let g := mkGrid (K:=QcF) (fun i => q (Z.of_nat i + 1)%Z 1%Z) (fun j => q (Z.of_nat j + 2)%Z 1%Z) (fun _ => q 1%Z 1%Z) in
  let E : Vec QcF := fun c i j k => q (Z.of_nat (c + i + 2 * j)%nat) 1%Z in
  let H : Vec QcF := fun c i j k => q (Z.of_nat (3 * c + i * j + 1)%nat) 1%Z in
  match pf_weights_all g (1, 0, 0)%nat (2, 2, 1)%nat with
  | Some W => pf_all_reduced (2, 2, 1)%nat W false E H 2%nat
              = pf_single_reduced (2, 2, 1)%nat (pf_weights_single g (1, 0, 0)%nat (2, 2, 1)%nat 2%nat) 2%nat false E H
              /\ pf_single_reduced (2, 2, 1)%nat (pf_weights_single g (1, 0, 0)%nat (2, 2, 1)%nat 2%nat) 2%nat false E H <> q 0%Z 1%Z
  | None => False
  end.
Proof. vm_compute. split; [reflexivity | discriminate]. Qed.
