(* C35 — dispersion coefficients encode the declared pole model (fdtdx/dispersion.py, materials.py).
   Model: model/Dispersion.v (complex numbers as pairs over an ordered field); lemmas in
   proofs/Dispersion_proofs.v.  The O((omega dt)^2) convergence clause of the property is NOT proved
   (test-only, see docs/C35.md). *)
From Coq Require Import List Bool QArith Qcanon.
From FV Require Import base.Scalar base.GridBase base.Util model.Dispersion proofs.Dispersion_proofs.
Import ListNotations.
Local Open Scope fld_scope.

(* one pole, one axis: susceptibility_from_coefficients(compute_pole_coefficients(...)) = declared model, at every
   frequency where the model's denominator is non-zero; covers Lorentz, Drude and CCPR/critical-point poles
   (they are instances of [pole]) including the masked case c1 = c3 = c4 = 0 *)
Theorem C35_chi_from_coeffs_eq_model : forall (K : OFld) (p : pole K) (dt omega : K) c,
  1 + gam p * dt / (1 + 1) <> 0 -> dt <> 0 ->
  (w0sq p - omega * omega) * (w0sq p - omega * omega) + (- (gam p * omega)) * (- (gam p * omega)) <> 0 ->
  coeffs K p dt = Some c ->
  chi_from_coeffs K c omega dt = chi_model K p omega.
Proof. exact chi_from_coeffs_eq_model. Qed.
Print Assumptions C35_chi_from_coeffs_eq_model.

(* all poles of one axis, summed over the pole axis *)
Theorem C35_chi_total_eq_model : forall (K : OFld) (ps : list (pole K)) (dt omega : K) cs,
  dt <> 0 ->
  (forall p, In p ps -> 1 + gam p * dt / (1 + 1) <> 0
     /\ (w0sq p - omega * omega) * (w0sq p - omega * omega) + (- (gam p * omega)) * (- (gam p * omega)) <> 0) ->
  coeffs_all K ps dt = Some cs ->
  chi_total K cs omega dt = chi_model_total K ps omega.
Proof. exact chi_total_eq_model. Qed.
Print Assumptions C35_chi_total_eq_model.

(* oriented pole (b = 0): tensor entry (i,j) = chi_p(omega) * u_i u_j *)
Theorem C35_chi_oriented_eq_model : forall (K : OFld) (p : pole K) (dt omega ui uj : K) c,
  cb p = 0 -> 1 + gam p * dt / (1 + 1) <> 0 -> dt <> 0 ->
  (w0sq p - omega * omega) * (w0sq p - omega * omega) + (- (gam p * omega)) * (- (gam p * omega)) <> 0 ->
  coeffs_oriented K p dt ui uj = Some c ->
  chi_from_coeffs K c omega dt = cscale K (ui * uj) (chi_model K p omega).
Proof. exact chi_oriented_eq_model. Qed.
Print Assumptions C35_chi_oriented_eq_model.

(* zero-padded pole slots contribute nothing *)
Theorem C35_padded_slot_zero : forall (K : OFld) (omega dt : K), chi_from_coeffs K (0, 0, 0, 0) omega dt = czero K.
Proof. exact padded_slot_zero. Qed.
Print Assumptions C35_padded_slot_zero.
Theorem C35_padding_contributes_zero : forall (K : OFld) (n : nat) cs (omega dt : K),
  chi_total K (pad K n cs) omega dt = chi_total K cs omega dt.
Proof. exact padding_contributes_zero. Qed.
Print Assumptions C35_padding_contributes_zero.

(* Jury conditions from gamma*dt >= 0 and 0 <= (omega_0 dt)^2 <= 4 *)
Theorem C35_jury_conditions : forall (K : OFld) (p : pole K) (dt : K) c1 c2 c3 c4,
  0 <= gam p * dt -> 0 <= w0sq p * (dt * dt) -> w0sq p * (dt * dt) <= (1 + 1) * (1 + 1) ->
  coeffs K p dt = Some (c1, c2, c3, c4) ->
  - (1) <= c2 /\ c2 <= 1 /\ c1 <= 1 - c2 /\ - (1 - c2) <= c1.
Proof. exact jury_conditions. Qed.
Print Assumptions C35_jury_conditions.

(* hence no root z = x + i y of z^2 - c1 z - c2 lies outside the unit circle *)
Theorem C35_roots_in_unit_disc : forall (K : OFld) (c1 c2 x y : K),
  - (1) <= c2 -> c2 <= 1 -> c1 <= 1 - c2 -> - (1 - c2) <= c1 ->
  x * x - y * y - c1 * x - c2 = 0 -> (1 + 1) * x * y - c1 * y = 0 ->
  x * x + y * y <= 1.
Proof. exact roots_in_unit_disc. Qed.
Print Assumptions C35_roots_in_unit_disc.

Theorem C35_pole_roots_in_unit_disc : forall (K : OFld) (p : pole K) (dt : K) c1 c2 c3 c4 (x y : K),
  0 <= gam p * dt -> 0 <= w0sq p * (dt * dt) -> w0sq p * (dt * dt) <= (1 + 1) * (1 + 1) ->
  coeffs K p dt = Some (c1, c2, c3, c4) ->
  x * x - y * y - c1 * x - c2 = 0 -> (1 + 1) * x * y - c1 * y = 0 ->
  x * x + y * y <= 1.
Proof.
  intros K p dt c1 c2 c3 c4 x y Hg H0 H4 Hc Re Im.
  destruct (jury_conditions K p dt c1 c2 c3 c4 Hg H0 H4 Hc) as (A & B & C0 & D).
  exact (roots_in_unit_disc K c1 c2 x y A B C0 D Re Im).
Qed.
Print Assumptions C35_pole_roots_in_unit_disc.

(* non-vacuity at Qc: Lorentz pole omega_0 = 1, gamma = 1/2, delta_eps = 2, dt = 1/2, omega = 1/3; Drude pole; a rejected pole *)
Definition cq_eqb (a b : Qc * Qc) : bool := Qc_eqb (fst a) (fst b) && Qc_eqb (snd a) (snd b).
Example C35_example :
  (match coeffs QcOF (lorentz QcOF (q 1 1) (q 1 2) (q 2 1)) (q 1 2) with
   | Some c => cq_eqb (chi_from_coeffs QcOF c (q 1 3) (q 1 2)) (chi_model QcOF (lorentz QcOF (q 1 1) (q 1 2) (q 2 1)) (q 1 3))
   | None => false end) = true
  /\ (match coeffs QcOF (drude QcOF (q 3 1) (q 1 4)) (q 1 5) with
      | Some c => cq_eqb (chi_from_coeffs QcOF c (q 2 1) (q 1 5)) (chi_model QcOF (drude QcOF (q 3 1) (q 1 4)) (q 2 1))
      | None => false end) = true
  /\ coeffs QcOF (lorentz QcOF (q 5 1) (q 1 2) (q 2 1)) (q 1 2) = None.
Proof. vm_compute. repeat split; reflexivity. Qed.
