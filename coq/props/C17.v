(* C17 — phasor detectors compute the windowed discrete Fourier transform.
   Statements only; model in model/Detectors.v + model/DetectorsPhasor.v, lemmas in proofs/DetectorsPhasor_proofs.v. *)
From Coq Require Import List Arith Bool ZArith.
From FV Require Import base.Scalar base.Sums base.DetectorsBase model.Detectors model.DetectorsPhasor
  proofs.Detectors_proofs proofs.DetectorsPhasor_proofs.
Import ListNotations.
Local Open Scope fld_scope.

(* PhasorDetector after the gated loop over t = 0..T-1, zero initial state, for an arbitrary base on-list [on],
   stride, apodization oracle [apod], phase oracle [e t f] = exp(i w_f t dt), field history and component subset:
   state = scale * sum_{t in kept} apod(t) * field(t) * e(t,f),
   scale = 2 / sum_{t in kept} apod(t) (continuous) | max(1,stride) (pulse), kept = every stride-th active step. *)
Theorem C17_phasor_fold_eq_sum :
  forall (K : Fld) T on stride pulse (apod : nat -> K) sel (fldE fldH : nat -> Vec K) (e : nat -> nat -> Cx K) f r i j k,
  phasor_detector_run T on stride pulse false apod sel fldE fldH e (fun _ _ _ _ _ => c0) f r i j k
  = cscal (if pulse then natF (Nat.max 1 stride) else (1 + 1) / lsum (map apod (kept_steps T on stride)))
          (clsum (map (fun t => cscal (apod t * field_spatial sel (fldE t) (fldH t) r i j k) (e t f)) (kept_steps T on stride))).
Proof. exact phasor_fold_eq_sum. Qed.
Print Assumptions C17_phasor_fold_eq_sum.

(* stride thinning = Python's active[::stride]; the thinned on-array selects exactly those steps *)
Theorem C17_stride_thinning :
  forall s l j d, (1 <= s)%nat -> nth j (every_nth s l) d = nth (j * s) l d.
Proof. exact every_nth_nth. Qed.
Print Assumptions C17_stride_thinning.
Theorem C17_on_array_selects_kept_steps :
  forall T on stride, filter (kept_on T on stride) (seq 0 T) = kept_steps T on stride.
Proof. exact filter_kept_on. Qed.
Print Assumptions C17_on_array_selects_kept_steps.

Theorem C17_inverse_phasor_negates :
  forall (K : Fld) T on stride pulse (apod : nat -> K) sel (fldE fldH : nat -> Vec K) (e : nat -> nat -> Cx K) f r i j k,
  phasor_detector_run T on stride pulse true apod sel fldE fldH e (fun _ _ _ _ _ => c0) f r i j k
  = copp (phasor_detector_run T on stride pulse false apod sel fldE fldH e (fun _ _ _ _ _ => c0) f r i j k).
Proof. exact phasor_fold_inverse. Qed.
Print Assumptions C17_inverse_phasor_negates.

(* Poynting phasor: Re(E x conj H); the plane detector integrates its propagation component with the
   face areas, 1/2 only in continuous mode, sign by direction *)
Theorem C17_phasor_poynting_is_re_cross :
  forall (K : Fld) (P : nat -> nat -> nat -> nat -> Cx K) i j k,
  phasor_poynting P 0 i j k = fst (csub (cmul (P 1%nat i j k) (cconj (P 5%nat i j k))) (cmul (P 2%nat i j k) (cconj (P 4%nat i j k)))) /\
  phasor_poynting P 1 i j k = fst (csub (cmul (P 2%nat i j k) (cconj (P 3%nat i j k))) (cmul (P 0%nat i j k) (cconj (P 5%nat i j k)))) /\
  phasor_poynting P 2 i j k = fst (csub (cmul (P 0%nat i j k) (cconj (P 4%nat i j k))) (cmul (P 1%nat i j k) (cconj (P 3%nat i j k)))).
Proof. exact phasor_poynting_is_re_cross. Qed.
Print Assumptions C17_phasor_poynting_is_re_cross.

Theorem C17_phasor_poynting_flux :
  forall (K : Fld) (g : Grid K) lo n pa minus continuous (P : nat -> nat -> nat -> nat -> Cx K),
  phasor_poynting_flux n (pf_weights_single g lo n pa) pa minus continuous P
  = (if continuous then half K else 1) *
    sum3s n (fun i j k => sgn minus (phasor_poynting P pa i j k) *
               match pa with
               | 0 => wy g (oy lo j) * wz g (oz lo k)
               | 1 => wx g (ox lo i) * wz g (oz lo k)
               | _ => wx g (ox lo i) * wy g (oy lo j)
               end).
Proof. exact phasor_poynting_flux_spec. Qed.
Print Assumptions C17_phasor_poynting_flux.

(* closed-surface phasor detector (repaired, fixes/C17.patch): each stored face is the boundary plane of the
   PhasorDetector state of the same configuration, for every step list, window and scaling mode *)
Theorem C17_closed_surface_faces_are_phasor_planes :
  forall (K : Fld) T on stride pulse (apod : nat -> K) (fldE fldH : nat -> Vec K) (e : nat -> nat -> Cx K)
         inverse n a side (st0F st0S : PhS K),
  (forall f r i j k, st0F f r i j k = slice_face a (face_pos n a side) (st0S f r) i j k) ->
  forall f r i j k,
    closed_face_run true T on stride pulse inverse apod n a side fldE fldH e st0F f r i j k
    = slice_face a (face_pos n a side)
        (phasor_detector_run T on stride pulse inverse apod [0; 1; 2; 3; 4; 5]%nat fldE fldH e st0S f r) i j k.
Proof. exact closed_face_is_slice. Qed.
Print Assumptions C17_closed_surface_faces_are_phasor_planes.

(* unchanged source: the update omits the window weight that _static_scale normalises by *)
Theorem C17_closed_surface_src_old_refuted :
  exists (apod : nat -> QcF) (E H : nat -> Vec QcF) (e : nat -> nat -> Cx QcF),
    closed_face_run false 2 (fun _ => true) 1 false false apod (2, 2, 2)%nat 0 false E H e (fun _ _ _ _ _ => c0) 0%nat 0%nat 0%nat 0%nat 0%nat
    <> slice_face 0 0 (phasor_detector_run 2 (fun _ => true) 1 false false apod [0; 1; 2; 3; 4; 5]%nat E H e (fun _ _ _ _ _ => c0) 0%nat 0%nat) 0%nat 0%nat 0%nat.
Proof. exact closed_face_src_old_refuted. Qed.
Print Assumptions C17_closed_surface_src_old_refuted.

(* non-vacuity: stride 2 over 5 active steps keeps steps 0,2,4; a constant unit field with unit phase and a
   rectangular window accumulates 2/3 * 3 = 2 *)
Example C17_example :
  kept_steps 5 (fun _ => true) 2 = [0; 2; 4]%nat /\
  phasor_detector_run (K:=QcF) 5 (fun _ => true) 2 false false (fun _ => f1 QcF) [0]%nat
    (fun _ _ _ _ _ => f1 QcF) (fun _ _ _ _ _ => f1 QcF) (fun _ _ => (f1 QcF, f0 QcF)) (fun _ _ _ _ _ => c0) 0%nat 0%nat 0%nat 0%nat 0%nat
  = (fadd QcF (f1 QcF) (f1 QcF), f0 QcF).
Proof. split; [vm_compute; reflexivity|]. apply (cx_eq QcF); apply Qcanon.Qc_is_canon; vm_compute; reflexivity. Qed.
