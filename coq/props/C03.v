(* C03 — full backward pass reconstructs interior fields despite absorbing layers.
   Model: model/Yee.v (CPML in curlE/curlH, backward_rec = add_interfaces + reverse updates + field reset). *)
From Coq Require Import List Arith Bool.
From FV Require Import base.Scalar base.Cplx model.Yee model.YeeExec proofs.Yee_pml_basic proofs.Yee_reverse.
Import ListNotations.

(* PARTIAL (see DESIGN.md §4 C03): proved here are the frame facts of the reverse sweep — restoration writes
   exactly the interface rows, the reset zeroes exactly the layer cells, interface rows lie inside their layer,
   and without layers the recording backward step is the plain backward step (whose exact inversion is C02).
   The invariant "agreement on every cell outside all layers at every step of the sweep" is decided by the
   correspondence + implementation predicate of the check, not yet by a Coq theorem. *)
Theorem C03_restore_writes_interface_partial : forall (K : Fld) (sc : scene K) r f i j k,
  (is_iface K sc i j k = true -> restoreA K sc r f i j k = r i j k) /\
  (is_iface K sc i j k = false -> restoreA K sc r f i j k = f i j k).
Proof. intros; split; [apply restoreA_iface | apply restoreA_other]. Qed.
Print Assumptions C03_restore_writes_interface_partial.

Theorem C03_reset_zeroes_layers_partial : forall (K : Fld) (sc : scene K) f i j k,
  (in_any_pml K sc i j k = true -> resetA K sc f i j k = c0) /\
  (in_any_pml K sc i j k = false -> resetA K sc f i j k = f i j k).
Proof. intros; split; [apply resetA_pml | apply resetA_interior]. Qed.
Print Assumptions C03_reset_zeroes_layers_partial.

Theorem C03_interface_inside_layer_partial : forall (K : Fld) (sc : scene K) i j k,
  is_iface K sc i j k = true -> in_any_pml K sc i j k = true.
Proof. exact iface_in_pml. Qed.
Print Assumptions C03_interface_inside_layer_partial.

Theorem C03_no_layers_is_plain_backward_partial : forall (K : Fld) (sc : scene K) rec s,
  pmls K sc = [] -> forall i j k,
  vx (fE (backward_rec K sc rec s)) i j k = vx (fE (backward K sc s)) i j k /\
  vx (fH (backward_rec K sc rec s)) i j k = vx (fH (backward K sc s)) i j k.
Proof. exact backward_rec_nopml. Qed.
Print Assumptions C03_no_layers_is_plain_backward_partial.
