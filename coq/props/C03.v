(* C03 — full backward pass reconstructs interior fields despite absorbing layers.
   Model: model/Yee.v (CPML loop in curlE/curlH, backward_rec = add_interfaces + reverse updates + field reset);
   lemmas: proofs/Yee_pml_loop.v, proofs/Yee_pml_sweep.v *)
From Coq Require Import List Arith Bool QArith Qcanon.
From FV Require Import base.Scalar base.Cplx model.Yee model.YeeExec proofs.Yee_reverse proofs.Yee_pml_basic proofs.Yee_pml_sweep proofs.Yee_pml_geometry.
Import ListNotations.

(* For every scene of the model (any grid, iso/diagonal materials with conductivities such that 1+-f <> 0, 0/1 wall masks, any source
   injections, any number and placement of CPML layers) whose layers have kappa = 1 and a = 0 on their interface row (default grading,
   theorem C12_a_zero_at_interface) and whose layer geometry passes `geometry_ok` (every cell outside the layers has its curl stencil
   inside the interior plus restored interface rows; checked by `geometry_okb` for every scene the correspondence runs):
   starting from a wall-compatible state F0 at step 0 with zero psi on interface rows, recording the interface fields of the forward
   run of T steps and sweeping backward j <= T steps with restoration and reset reproduces, on EVERY cell outside all layers, the
   E and H fields of the forward run at step T - j; the psi state is not touched. *)
Theorem C03_reverse_sweep_interior : forall (K : Fld) (sc : scene K),
  (forall p, In p (pmls K sc) -> p_kappa1 K p = true) ->
  (forall p, In p (pmls K sc) -> forall i j k, in_iface K p i j k = true ->
       p_aE K p (pml_depth K p i j k) = f0 K /\ p_aH K p (pml_depth K p i j k) = f0 K) ->
  forall wrapx wrapy wrapz : bool,
  (wrapx = false -> hix K sc = c0 /\ lox K sc = c0) -> (wrapy = false -> hiy K sc = c0 /\ loy K sc = c0) -> (wrapz = false -> hiz K sc = c0 /\ loz K sc = c0) ->
  cells_ok K sc -> geometry_ok K sc wrapx wrapy wrapz ->
  forall F0 T, wall_compatible K sc F0 -> psi_zero K sc (psiE F0) -> psi_zero K sc (psiH F0) -> tstep F0 = O ->
  let rec := fun t => (fE (traj K sc F0 (S t)), fH (traj K sc F0 (S t))) in
  forall j, (j <= T)%nat ->
  let R := rsweep K sc rec j (traj K sc F0 T) in
  tstep R = (T - j)%nat /\
  agrees K sc (fE R) (fE (traj K sc F0 (T - j))) (inI K sc) /\ agrees K sc (fH R) (fH (traj K sc F0 (T - j))) (inI K sc) /\
  psiE R = psiE (traj K sc F0 T) /\ psiH R = psiH (traj K sc F0 T).
Proof. exact reverse_sweep_interior. Qed.
Print Assumptions C03_reverse_sweep_interior.

(* the geometry hypothesis is decidable; the boolean check is sound *)
Theorem C03_geometry_check_sound : forall (K : Fld) (sc : scene K) wrapx wrapy wrapz,
  geometry_okb K sc wrapx wrapy wrapz = true -> geometry_ok K sc wrapx wrapy wrapz.
Proof. exact geometry_okb_sound. Qed.
Print Assumptions C03_geometry_check_sound.

(* ... and it holds for EVERY face-slab configuration: each layer spans the full transverse extent of the box, touches its own face
   (min side: starts at cell 0; max side: ends at cell n) and lies on a non-wrapping axis - any subset of faces, any thicknesses,
   edges and corners where layers overlap included.  (This is what boundary_objects_from_config produces.) *)
Theorem C03_geometry_of_face_slabs : forall (K : Fld) (sc : scene K) wrapx wrapy wrapz,
  (forall p, In p (pmls K sc) -> face_slab K sc wrapx wrapy wrapz p) -> geometry_ok K sc wrapx wrapy wrapz.
Proof. exact slab_geometry_ok. Qed.
Print Assumptions C03_geometry_of_face_slabs.

(* the sweep theorem for face-slab layers, with no geometry hypothesis left *)
Theorem C03_reverse_sweep_face_slabs : forall (K : Fld) (sc : scene K),
  (forall p, In p (pmls K sc) -> p_kappa1 K p = true) ->
  (forall p, In p (pmls K sc) -> forall i j k, in_iface K p i j k = true ->
       p_aE K p (pml_depth K p i j k) = f0 K /\ p_aH K p (pml_depth K p i j k) = f0 K) ->
  forall wrapx wrapy wrapz : bool,
  (wrapx = false -> hix K sc = c0 /\ lox K sc = c0) -> (wrapy = false -> hiy K sc = c0 /\ loy K sc = c0) -> (wrapz = false -> hiz K sc = c0 /\ loz K sc = c0) ->
  cells_ok K sc -> (forall p, In p (pmls K sc) -> face_slab K sc wrapx wrapy wrapz p) ->
  forall F0 T, wall_compatible K sc F0 -> psi_zero K sc (psiE F0) -> psi_zero K sc (psiH F0) -> tstep F0 = O ->
  let rec := fun t => (fE (traj K sc F0 (S t)), fH (traj K sc F0 (S t))) in
  forall j, (j <= T)%nat ->
  let R := rsweep K sc rec j (traj K sc F0 T) in
  tstep R = (T - j)%nat /\
  agrees K sc (fE R) (fE (traj K sc F0 (T - j))) (inI K sc) /\ agrees K sc (fH R) (fH (traj K sc F0 (T - j))) (inI K sc) /\
  psiE R = psiE (traj K sc F0 T) /\ psiH R = psiH (traj K sc F0 T).
Proof.
  intros K sc HK HA wx wy wz Hx Hy Hz CO SL. apply (reverse_sweep_interior K sc HK HA wx wy wz Hx Hy Hz CO).
  apply slab_geometry_ok. exact SL.
Qed.
Print Assumptions C03_reverse_sweep_face_slabs.

(* frame facts of restoration / reset, and the layer-free case *)
Theorem C03_restore_writes_interface : forall (K : Fld) (sc : scene K) r f i j k,
  (is_iface K sc i j k = true -> restoreA K sc r f i j k = r i j k) /\
  (is_iface K sc i j k = false -> restoreA K sc r f i j k = f i j k).
Proof. intros; split; [apply restoreA_iface | apply restoreA_other]. Qed.
Theorem C03_reset_zeroes_layers : forall (K : Fld) (sc : scene K) f i j k,
  (in_any_pml K sc i j k = true -> resetA K sc f i j k = c0) /\
  (in_any_pml K sc i j k = false -> resetA K sc f i j k = f i j k).
Proof. intros; split; [apply resetA_pml | apply resetA_interior]. Qed.

(* ---- non-vacuity: CPML slabs of thickness 2 on both z faces and the max y face of a 3x5x7 box (x periodic) pass the geometry check ---- *)
Definition zK : nat -> car QcF := fun _ => 0%Qc.
Definition slab (axis : nat) (minus : bool) x0 x1 y0 y1 z0 z1 : pml QcF := mkPml QcF axis minus x0 x1 y0 y1 z0 z1 zK zK zK zK zK zK true.
Definition one3 : R3 QcF := fun _ _ _ => 1%Qc.
Definition zero3 : R3 QcF := fun _ _ _ => 0%Qc.
Definition ex_scene : scene QcF :=
  mkScene QcF 3 5 7 (1%Qc, 0%Qc) (0%Qc, 0%Qc) (0%Qc, 0%Qc) (1%Qc, 0%Qc) (0%Qc, 0%Qc) (0%Qc, 0%Qc)
    (fun _ => 1%Qc) (fun _ => 1%Qc) (fun _ => 1%Qc) 1%Qc
    (mkM one3 one3 one3) (mkM one3 one3 one3) (mkM zero3 zero3 zero3) (mkM zero3 zero3 zero3)
    (q 377 1) (q 1 2) (mkM one3 one3 one3) (mkM one3 one3 one3)
    [slab 1 false 0 3 3 5 0 7; slab 2 true 0 3 0 5 0 2; slab 2 false 0 3 0 5 5 7]
    (fun _ => vzero QcF) (fun _ => vzero QcF).
Example C03_face_slab_example : forall p, In p (pmls QcF ex_scene) -> face_slab QcF ex_scene true false false p.
Proof. intros p [<-|[<-|[<-|[]]]]; constructor; cbn; repeat split; try reflexivity; repeat constructor. Qed.
Example C03_nonvacuous : geometry_ok QcF ex_scene true false false /\ inI QcF ex_scene 1 1 3 = true.
Proof. split; [apply geometry_okb_sound; vm_compute; reflexivity | vm_compute; reflexivity]. Qed.
