(* C08 — the solver is equivariant under cyclic permutation of the axes.
   Model: model/Yee.v; lemmas: proofs/Yee_perm.v (layer-free, equality of functions), proofs/Yee_perm_pml.v (with CPML layers, cell by cell) *)
From Coq Require Import List Arith.
From FV Require Import base.Scalar base.Cplx model.Yee model.YeeFull proofs.Yee_steps proofs.Yee_perm proofs.Yee_pml_loop proofs.Yee_perm_pml proofs.Yee_full_props proofs.Yee_lossy_props proofs.Yee_full_perm.
Import ListNotations.

(* Pscene_pml relabels x -> y -> z -> x: the new x axis is the old z axis; arrays become (P f) i j k = f j k i, vector fields
   (P vz, P vx, P vy), diagonal material tensors and wall masks likewise, every CPML layer gets axis (a+1) mod 3 and permuted slice
   extents, source injections are relabelled.  rel_state s s' : s' carries the relabelled fields and psi accumulators of s (cell by cell).
   For every scene of the model whose layers have a valid axis, and any number of steps, running the relabelled scene on the relabelled
   state gives the relabelled result.  (The model keeps the source's per-axis code paths: the a == 0 / 1 / 2 branches of the CPML loop
   and the per-axis difference operators.) *)
Theorem C08_forward_perm : forall (K : Fld) (sc : scene K), Forall (axis_ok K) (pmls K sc) ->
  forall n s s', rel_state K s s' -> rel_state K (iterQ K sc n s) (iterQ K (Pscene_pml K sc) n s').
Proof. exact forward_perm_pml_n. Qed.
Print Assumptions C08_forward_perm.

(* without layers the statement is an equality of functions *)
Theorem C08_forward_perm_layer_free : forall (K : Fld) (sc : scene K), pmls K sc = [] ->
  forall n s s', fE s' = PV K (fE s) -> fH s' = PV K (fH s) -> tstep s' = tstep s ->
  fE (iterP K (Pscene K sc) n s') = PV K (fE (iterP K sc n s)) /\
  fH (iterP K (Pscene K sc) n s') = PV K (fH (iterP K sc n s)) /\
  tstep (iterP K (Pscene K sc) n s') = tstep (iterP K sc n s).
Proof. intros K sc Hp n. exact (forward_perm_n K sc Hp n). Qed.
Print Assumptions C08_forward_perm_layer_free.

(* fully anisotropic lossless tiers (model/YeeFull.v; either tensor 9-component, the other scalar / diagonal), layer-free scenes:
   the relabelled tensor has entry (r, s) = relabelled entry (sg r, sg s) of the original, sg 0 = 2, sg 1 = 0, sg 2 = 1 *)
Theorem C08_forward_full_tensor_perm : forall (K : Fld) (sc : scene K), pmls K sc = [] ->
  forall (ie9 im9 : option (T9 K)) n s s',
  veqA K (fE s') (PV K (fE s)) -> veqA K (fH s') (PV K (fH s)) -> tstep s' = tstep s ->
  veqA K (fE (iterF K (PTo K ie9) (PTo K im9) (Pscene K sc) n s')) (PV K (fE (iterF K ie9 im9 sc n s))) /\
  veqA K (fH (iterF K (PTo K ie9) (PTo K im9) (Pscene K sc) n s')) (PV K (fH (iterF K ie9 im9 sc n s))) /\
  tstep (iterF K (PTo K ie9) (PTo K im9) (Pscene K sc) n s') = tstep (iterF K ie9 im9 sc n s).
Proof. intros K sc Hp ie9 im9 n. exact (forward_full_perm_n K sc Hp ie9 im9 n). Qed.
Print Assumptions C08_forward_full_tensor_perm.

(* conductive fully anisotropic tiers (forward_lossy: update matrices A = M1^-1 M2, B = c M1^-1 T by the adjugate formula; the matrices of
   the relabelled tensors are the relabelled matrices), layer-free scenes, any number of steps *)
Theorem C08_forward_lossy_tensor_perm : forall (K : Fld) (sc : scene K), pmls K sc = [] ->
  forall (e m : option (T9 K * T9 K)) n s s',
  veqA K (fE s') (PV K (fE s)) -> veqA K (fH s') (PV K (fH s)) -> tstep s' = tstep s ->
  veqA K (fE (iterL K (PTp K e) (PTp K m) (Pscene K sc) n s')) (PV K (fE (iterL K e m sc n s))) /\
  veqA K (fH (iterL K (PTp K e) (PTp K m) (Pscene K sc) n s')) (PV K (fH (iterL K e m sc n s))) /\
  tstep (iterL K (PTp K e) (PTp K m) (Pscene K sc) n s') = tstep (iterL K e m sc n s).
Proof. intros K sc Hp e m n. exact (forward_lossy_perm_n K sc Hp e m n). Qed.
Print Assumptions C08_forward_lossy_tensor_perm.
