(* C08 — the solver is equivariant under cyclic permutation of the axes.  Model: model/Yee.v; lemmas: proofs/Yee_perm.v *)
From Coq Require Import List Arith.
From FV Require Import base.Scalar base.Cplx model.Yee proofs.Yee_steps proofs.Yee_perm.
Import ListNotations.

(* PARTIAL in scope: PML-free scenes of the model (any grid, per-axis ghost factors and widths, diagonal material tensors,
   conductivities, wall masks, source injections).  Pscene relabels x -> y -> z -> x: the new x axis is the old z axis, arrays
   become (P f) i j k = f j k i and vector fields (P vz, P vx, P vy).  Equalities are equalities of functions. *)
Theorem C08_forward_perm_partial : forall (K : Fld) (sc : scene K), pmls K sc = [] ->
  forall n s s', fE s' = PV K (fE s) -> fH s' = PV K (fH s) -> tstep s' = tstep s ->
  fE (iterP K (Pscene K sc) n s') = PV K (fE (iterP K sc n s)) /\
  fH (iterP K (Pscene K sc) n s') = PV K (fH (iterP K sc n s)) /\
  tstep (iterP K (Pscene K sc) n s') = tstep (iterP K sc n s).
Proof. intros K sc Hp n. exact (forward_perm_n K sc Hp n). Qed.
Print Assumptions C08_forward_perm_partial.
