(* C20 — projection filters are bounded, monotone and well-behaved at the extremes.
   Only statements closed by [exact]; model: model/DesignTransforms_Proj.v, lemmas: proofs/DesignTransforms_Proj_proofs.v.
   All theorems: any ordered field K and any function th that is odd and strictly increasing (tanh is one; the
   executable instance reads th from a table recorded from jnp.tanh).  beta is BInf (isinf) or BFin b. *)
From Coq Require Import List Arith Bool QArith Qcanon.
From FV Require Import base.Scalar base.Sums base.Util base.DesignTransformsBase base.DesignTransformsOrd
  model.DesignTransforms_Sym model.DesignTransforms_Proj proofs.DesignTransforms_Proj_proofs.
Import ListNotations.
Local Open Scope fld_scope.

Definition th_odd (K : OFld) (th : K -> K) : Prop := forall x, th (- x) = - th x.
Definition th_strictly_increasing (K : OFld) (th : K -> K) : Prop := forall x y, x <= y -> x <> y -> th x <= th y /\ th x <> th y.

(* maps [0,1] into [0,1] for every beta in [0, inf] and threshold in [0,1] *)
Theorem C20_range : forall (K : OFld) th, th_odd K th -> th_strictly_increasing K th ->
  forall be eta x, beta_ok K be -> eta_ok K eta -> 0 <= x -> x <= 1 ->
  0 <= tanh_projection K th be eta x /\ tanh_projection K th be eta x <= 1.
Proof. exact proj_range. Qed.
Print Assumptions C20_range.

(* non-decreasing (on all of K, not only [0,1]) *)
Theorem C20_monotone : forall (K : OFld) th, th_odd K th -> th_strictly_increasing K th ->
  forall be eta x y, beta_ok K be -> eta_ok K eta -> x <= y ->
  tanh_projection K th be eta x <= tanh_projection K th be eta y.
Proof. exact proj_mono. Qed.
Print Assumptions C20_monotone.

(* fixes 0 (any threshold in [0,1]) and 1 (threshold < 1; at eta = 1, beta = inf the code returns 0 since 1 > 1 is false) *)
Theorem C20_fixes_0 : forall (K : OFld) th, th_odd K th -> th_strictly_increasing K th ->
  forall be eta, beta_ok K be -> eta_ok K eta -> tanh_projection K th be eta 0 = 0.
Proof. exact proj_fix0. Qed.
Print Assumptions C20_fixes_0.
Theorem C20_fixes_1 : forall (K : OFld) th, th_odd K th -> th_strictly_increasing K th ->
  forall be eta, beta_ok K be -> eta_ok K eta -> eta <> 1 -> tanh_projection K th be eta 1 = 1.
Proof. exact proj_fix1. Qed.
Print Assumptions C20_fixes_1.

(* beta = 0 is clipping to [0,1]; beta = infinity is the step at the threshold, away from the threshold itself
   (AT the threshold the code's [x > eta] gives 0) *)
Theorem C20_beta_zero_is_clip : forall (K : OFld) th eta x, tanh_projection K th (BFin K 0) eta x = clip01 K x.
Proof. exact proj_beta0. Qed.
Print Assumptions C20_beta_zero_is_clip.
Theorem C20_beta_inf_is_step : forall (K : OFld) th eta x,
  (eta <= x -> eta <> x -> tanh_projection K th (BInf K) eta x = 1) /\ (x <= eta -> tanh_projection K th (BInf K) eta x = 0).
Proof. exact proj_betainf. Qed.
Print Assumptions C20_beta_inf_is_step.

(* the subpixel-smoothed projection agrees with the plain one in every cell without an interface
   (needs_smoothing false), for any sqrt function — functional view and executed list function *)
Theorem C20_smoothed_agrees_without_interface : forall (K : OFld) th sqrtf n m be eta dx x i j,
  needs K sqrtf n m eta dx x i j = false ->
  smoothed K th sqrtf n m be eta dx x i j = tanh_projection K th be eta (x i j).
Proof. exact smoothed_no_interface. Qed.
Print Assumptions C20_smoothed_agrees_without_interface.
Theorem C20_smoothed_exec_agrees_without_interface : forall (K : OFld) th sqrtf be eta dx vq s l y,
  smoothed_exec K th sqrtf be eta dx vq s l = Some y ->
  exists v, vaxis s = Some v /\ shape3i K s y /\
    forall p, inb s p ->
      needs K sqrtf (geti s (fst (plane_axes v))) (geti s (snd (plane_axes v))) eta dx
        (fun i j => get3i K l (seti (seti (0, 0, 0)%nat (fst (plane_axes v)) i) (snd (plane_axes v)) j))
        (geti p (fst (plane_axes v))) (geti p (snd (plane_axes v))) = false ->
      get3i K y p = get3i K (tanh_exec K th be eta s l) p.
Proof. exact smoothed_exec_no_interface. Qed.
Print Assumptions C20_smoothed_exec_agrees_without_interface.

(* PARTIAL — "finite gradients for every beta in [0, inf] and threshold in [0,1]": what is proved is only that the
   tanh branch never divides by zero (divisor > 0 for finite beta > 0, eta in [0,1]).  Finiteness of jax.grad through the
   double-where guards at beta in {0, inf} concerns IEEE specials and JAX's differentiation of jnp.where; it is NOT
   modelled and is only tested by the correspondence run (see docs/C20.md). *)
Theorem C20_no_zero_division_partial : forall (K : OFld) th, th_odd K th -> th_strictly_increasing K th ->
  forall b eta, fin_pos K b -> eta_ok K eta ->
  0 <= tanh_divisor K th (BFin K b) eta /\ tanh_divisor K th (BFin K b) eta <> 0.
Proof. exact divisor_pos. Qed.
Print Assumptions C20_no_zero_division_partial.

(* non-vacuity: the hypotheses on th are satisfiable in Qc (th = identity is odd and strictly increasing), and a
   concrete evaluation of the tanh branch: beta = 2, eta = 1/2, x = 3/4 gives (1 + 1/2) / (1 + 1) = 3/4 *)
Example C20_example :
  th_odd QcOF (fun x => x) /\ th_strictly_increasing QcOF (fun x => x) /\
  beta_ok QcOF (BFin QcOF (q 2 1)) /\ eta_ok QcOF (q 1 2) /\ fin_pos QcOF (q 2 1) /\
  Qc_eqb (tanh_projection QcOF (fun x => x) (BFin QcOF (q 2 1)) (q 1 2) (q 3 4)) (q 3 4) = true.
Proof. split; [intros x; reflexivity|]. split; [intros x y H N; split; assumption|].
  split; [vm_compute; discriminate|]. split; [split; vm_compute; discriminate|]. split; [split; [vm_compute; discriminate | vm_compute; reflexivity]|].
  vm_compute. reflexivity. Qed.
