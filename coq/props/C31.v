(* C31 — setups survive a JSON round trip (PARTIAL: the object-graph level of _export_json /
   _import_obj_from_json; the JSON text layer and the Python constructors are not modelled).
   Only statements closed by [exact]; model: model/Json.v; lemmas: proofs/Json_proofs.v. *)
From Coq Require Import String List Bool ZArith QArith Qcanon.
From FV Require Import base.Scalar model.Json model.JsonCases proofs.Json_proofs.
Import ListNotations.
Local Open Scope string_scope.

(* every well-formed object graph (no NULL / unsupported node; field, dict and dataclass keys not among
   __module__ __name__ __value__ __dtype__; dataclass keys not starting with "_"; no TreeClass called
   "dict"; sequence classes other than numpy.array; array payloads made of numbers and lists; dtype
   names without dots) is exported without error and the exported value is imported back to the
   same graph, for every float carrier F *)
Theorem C31_import_export_id_partial : forall (F : Type) (v : pyv F),
  wfb F v = true -> exists j, export F v = Some j /\ import F j = Some v.
Proof. exact import_export_id. Qed.
Print Assumptions C31_import_export_id_partial.

(* the key hypothesis is necessary: a dict key "__value__" passes export and is re-imported as a list *)
Theorem C31_reserved_key_refuted : forall F : Type,
  let v : pyv F := PDict [("__value__", PSeq "builtins" "list" [])] in
  exists j, export F v = Some j /\ import F j <> Some v.
Proof. exact reserved_key_counterexample. Qed.
Print Assumptions C31_reserved_key_refuted.

Theorem C31_export_rejects : forall F : Type,
  export F PNull = None /\ export F POpaque = None /\ forall x, export F (PDict [("__module__", x)]) = None.
Proof. exact export_rejects_null. Qed.
Print Assumptions C31_export_rejects.

(* the dtype name survives "jax.numpy." ++ n  ->  split(".")[2] *)
Theorem C31_dtype_roundtrip : forall n, no_dot n = true -> nth_error (split_dot ("jax.numpy." ++ n)) 2 = Some n.
Proof. exact dtype_roundtrip. Qed.
Print Assumptions C31_dtype_roundtrip.

(* non-vacuity: a tree class with a tuple, an array, a dtype, a nested dataclass and a dict *)
Example C31_example :
  let v : P := PTree "fdtdx.x" "Obj" [("name", PStr "a"); ("shape", PSeq "builtins" "tuple" [PInt 3; PNone; PFloat (q 1 2)]);
                                      ("arr", PArr (JList [JList [JFloat (q 1 4); JFloat (q 3 1)]])); ("dtype", PDtype "float32");
                                      ("sub", PData "m" "D" [("k", PBool true)]); ("d", PDict [("z", PInt 1)])] in
  wfb Qc v = true /\ match export Qc v with Some j => opt_pyv_eqb (import Qc j) (Some v) = true | None => False end.
Proof. vm_compute. split; reflexivity. Qed.
