(* C14 — on/off schedules decide exactly when sources inject and detectors record.
   Only statements closed by [exact]; model: model/Switch.v, lemmas: proofs/Switch_proofs.v. *)
From Coq Require Import ZArith List Bool QArith Qcanon.
From FV Require Import base.Scalar base.PyNum base.Util base.RecorderBase model.Switch proofs.Switch_proofs.
Import ListNotations.
Open Scope Z_scope.

(* a switch that is not always-off is on at time tp exactly inside the documented window [lo, hi]:
   lo = the single start specification (start_time | start_after_periods*period | end - on_for...) or 0,
   hi = the single end specification (end_time | end_after_periods*period | start + on_for...) or +infinity;
   errors exactly for a missing period / more than one start / more than one end specification *)
Theorem C14_on_iff_window : forall (K : OFld) (sw : switch K) (tp : K),
  is_always_off sw = false ->
  is_on_at_time_step K sw tp = sbind (window K sw) (fun w => SOk (fleb K (fst w) tp && ext_geb K (snd w) tp)).
Proof. exact on_iff_window. Qed.
Print Assumptions C14_on_iff_window.

Theorem C14_always_off : forall (K : OFld) (sw : switch K) tp, is_always_off sw = true -> is_on_at_time_step K sw tp = SOk false.
Proof. exact always_off_never_on. Qed.
Print Assumptions C14_always_off.

(* the on-list of a parameter schedule: entry t = inside the window at t*dt and t multiple of the interval *)
Theorem C14_on_list_window : forall (K : OFld) (sw : switch K) T dt l,
  fixed_on_time_steps sw = None -> calculate_on_list K sw T dt = SOk l ->
  length l = Z.to_nat T /\ forall t, 0 <= t < T -> on_step K sw dt t = SOk (znth l t false).
Proof. exact on_list_window. Qed.
Print Assumptions C14_on_list_window.

(* the on-list of a fixed schedule: exactly the listed steps (negative entries count from the end);
   an entry outside [-T, T) is an error *)
Theorem C14_on_list_fixed : forall (K : OFld) (sw : switch K) T dt fx l,
  0 <= T -> fixed_on_time_steps sw = Some fx -> calculate_on_list K sw T dt = SOk l ->
  length l = Z.to_nat T /\ (forall i, In i fx -> - T <= i < T) /\
  forall t, 0 <= t < T -> (znth l t false = true <-> exists i, In i fx /\ t = if i <? 0 then T + i else i).
Proof. exact on_list_fixed. Qed.
Print Assumptions C14_on_list_fixed.
Theorem C14_on_list_fixed_error : forall (K : OFld) (sw : switch K) T dt fx,
  fixed_on_time_steps sw = Some fx -> (exists i, In i fx /\ (i < - T \/ T <= i)) ->
  forall l, calculate_on_list K sw T dt <> SOk l.
Proof. exact on_list_fixed_error. Qed.
Print Assumptions C14_on_list_fixed_error.

(* index map: off steps -> -1, an on step -> number of on steps before it; equivalently the on steps in
   increasing order are sent to 0,1,...,count-1 (order-preserving bijection onto [0,count)) *)
Theorem C14_idx_map : forall on t, (t < length on)%nat ->
  nth t (idx_map on) (-1) = if nth t on false then num_on (firstn t on) else -1.
Proof. exact idx_map_spec. Qed.
Print Assumptions C14_idx_map.
Theorem C14_idx_map_bijection : forall on,
  map (fun t => znth (idx_map on) t (-1)) (on_times on) = zrange (num_on on)
  /\ incr_from 0 (on_times on)
  /\ (forall t, In t (on_times on) <-> 0 <= t < Z.of_nat (length on) /\ znth on t false = true)
  /\ (forall t, 0 <= t < Z.of_nat (length on) -> znth on t false = false -> znth (idx_map on) t (-1) = -1).
Proof. exact idx_map_bijection. Qed.
Print Assumptions C14_idx_map_bijection.

(* sources: lax.cond(is_on[t], update(adjusted step), identity) *)
Theorem C14_off_step_no_injection : forall (S : Type) on idx (upd : Z -> S -> S) t s,
  znth on t false = false -> gated on idx upd t s = s.
Proof. exact @off_step_no_injection. Qed.
Print Assumptions C14_off_step_no_injection.
Theorem C14_on_step_injects : forall (S : Type) on (upd : Z -> S -> S) t s,
  0 <= t < Z.of_nat (length on) -> znth on t false = true ->
  gated on (idx_map on) upd t s = upd (num_on (firstn (Z.to_nat t) on)) s.
Proof. exact @on_step_injects. Qed.
Print Assumptions C14_on_step_injects.

(* detectors: after all steps the state is exactly the list of observations at the on steps, in order *)
Theorem C14_detector_rows : forall (R : Type) on (obs : Z -> R) zero,
  det_run on obs zero (Z.of_nat (length on)) = map obs (on_times on).
Proof. exact @detector_rows. Qed.
Print Assumptions C14_detector_rows.

(* non-vacuity *)
Example C14_example :
  let sw := Build_switch (K := QcOF) None (Some (q 1 1)) None None None (Some (q 3 2)) (Some (q 2 1)) None false 2 in
  match window QcOF sw with SOk (lo, Fin hi) => Qc_eqb lo (q 2 1) && Qc_eqb hi (q 5 1) | _ => false end = true
  /\ calculate_on_list QcOF sw 8 (q 1 1) = SOk [false; false; true; false; true; false; false; false]
  /\ idx_map [false; false; true; false; true; false; false; false] = [-1; -1; 0; -1; 1; -1; -1; -1]
  /\ det_run [false; true; true; false] (fun t => 10 * t) 0 4 = [10; 20].
Proof. cbv zeta. repeat split; vm_compute; reflexivity. Qed.
