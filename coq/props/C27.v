(* C27 — placement does not depend on the order of objects or constraints.
   Model: model/Place.v ([resolve early e cs fuel]; the object order is [order e], the constraint order is the
   list cs).  Abstract route: proofs/Place_confluence.v.  Old behaviour: proofs/Place_refuted.v.

   STATUS: PARTIAL.  Proved: (1) the solver as written is order DEPENDENT (concrete witness); (2) the abstract
   theorem the repaired solver relies on: in a set-once system of monotone demand rules all schedules that end
   in a closed state end in the SAME state, a closed end state excludes conflicts on every schedule, and the
   stratified close/extend/close... run is deterministic; (3) the solver's sweeps and grid-coordinate rule are
   such rules, and a quiet pass is a closed state (Place_proofs.pass_quiet / C26).  NOT machine-checked: that every
   step of [iterate false] is a justified step of the rule set of (order e, cs) for all five constraint kinds, and
   max_iter sufficiency — so the concrete statement
      Permutation cs cs' -> Permutation (order e) (order e') -> resolve false e cs = resolve false e' cs'  (up to error order)
   is validated by the permutation correspondence runs of harness/props/C27.py, not by a Coq theorem. *)
From Coq Require Import ZArith List Bool.
From FV Require Import model.Place model.PlaceSpec proofs.Place_proofs proofs.Place_refuted proofs.Place_confluence.
Import ListNotations.
Open Scope Z_scope.

Theorem C27_set_once_confluence : forall (R : rule -> Prop), (forall r, R r -> monotone r) ->
  forall s0 s1 s2, reach R s0 s1 -> closed R s1 -> reach R s0 s2 -> closed R s2 -> s1 = s2.
Proof. exact set_once_confluence. Qed.
Print Assumptions C27_set_once_confluence.

Theorem C27_closed_excludes_conflict : forall (R : rule -> Prop), (forall r, R r -> monotone r) ->
  forall s0 c, reach R s0 c -> closed R c -> ~ conflict R s0.
Proof. exact closed_excludes_conflict. Qed.
Print Assumptions C27_closed_excludes_conflict.

Theorem C27_run_deterministic : forall (R : rule -> Prop) ext, (forall r, R r -> monotone r) ->
  forall s a b, run R ext s a -> run R ext s b -> a = b.
Proof. exact run_deterministic. Qed.
Print Assumptions C27_run_deterministic.

(* the rule SET of a constraint list is order free *)
Theorem C27_rule_set_order_free : forall (F : constr -> rule) cs cs' s,
  (forall c, In c cs <-> In c cs') ->
  closed (fun r => exists c, In c cs /\ r = F c) s -> closed (fun r => exists c, In c cs' /\ r = F c) s.
Proof. exact closed_perm. Qed.
Print Assumptions C27_rule_set_order_free.

(* instances: the consistency sweeps and the grid-coordinate constraint are monotone demand rules *)
Theorem C27_sweep_rule_monotone : forall o a, monotone (sweep_rule o a).
Proof. exact sweep_rule_monotone. Qed.
Print Assumptions C27_sweep_rule_monotone.
Theorem C27_grid_rule_monotone : forall o es, monotone (grid_rule o es).
Proof. exact grid_rule_monotone. Qed.
Print Assumptions C27_grid_rule_monotone.

(* concrete, partial: whatever the two orders, if both runs of the repaired solver succeed, each final state
   satisfies the other run's constraint list as well (same constraint set), is resolved and inside the volume.
   Missing for the full property: equality of the two final states and of the success flags. *)
Theorem C27_success_satisfies_same_constraints_partial : forall e e' cs cs' fuel fuel' st st',
  grid_ok e -> grid_ok e' -> (forall c, In c cs <-> In c cs') ->
  resolve false e cs fuel = (st, [], true) -> resolve false e' cs' fuel' = (st', [], true) ->
  Forall (holds e st) cs' /\ Forall (holds e' st') cs.
Proof.
  intros e e' cs cs' fuel fuel' st st' HG HG' HP H1 H2.
  destruct (resolve_success e HG cs fuel st H1) as [F1 _].
  destruct (resolve_success e' HG' cs' fuel' st' H2) as [F2 _].
  rewrite Forall_forall in F1, F2. split; apply Forall_forall; intros c Hc; [apply F1|apply F2]; apply HP; exact Hc.
Qed.
Print Assumptions C27_success_satisfies_same_constraints_partial.

(* the solver as written: same objects, same constraints, two orders of the constraint list, one accepted and
   one rejected *)
Theorem C27_src_old_refuted :
  exists st st' errs', resolve true wit_env [wit_C2; wit_C1; wit_C3] 1000 = (st, [], true) /\
                       resolve true wit_env [wit_C1; wit_C3; wit_C2] 1000 = (st', errs', true) /\ errs' <> [].
Proof. exact src_old_order_dependent. Qed.
Print Assumptions C27_src_old_refuted.

(* non-vacuity: the repaired solver treats both orders alike (both rejected); a satisfiable system gives the same
   slices under two orders of objects and constraints *)
Example C27_example :
  (exists st errs st' errs', resolve false wit_env [wit_C2; wit_C1; wit_C3] 1000 = (st, errs, true) /\ errs <> [] /\
                             resolve false wit_env [wit_C1; wit_C3; wit_C2] 1000 = (st', errs', true) /\ errs' <> []) /\
  (let e' := Build_env 1 [20; 20; 20] 0%nat [2%nat; 1%nat; 0%nat] (sshapes wit_env) in
   match resolve false wit_env [wit_C2; wit_C3] 1000, resolve false e' [wit_C3; wit_C2] 1000 with
   | (st, [], true), (st', [], true) => st = st'
   | _, _ => False end).
Proof.
  split.
  - destruct repaired_rejects as ((st & errs & H1 & N1) & (st' & errs' & H2 & N2) & _).
    exists st, errs, st', errs'. repeat split; assumption.
  - vm_compute. reflexivity.
Qed.
