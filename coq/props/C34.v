(* C34 — symmetric placement keeps the upper half and clips objects consistently.
   Model: model/PlaceSym.v (reduce_resolved_slices, make_symmetry_walls); lemmas: proofs/PlaceSym_proofs.v. *)
From Coq Require Import ZArith List Bool.
From FV Require Import model.PlaceSym proofs.PlaceSym_proofs.
Import ListNotations.
Open Scope Z_scope.

(* even-count requirement; plane in the middle; kept half = upper half renumbered from the plane *)
Theorem C34_even_count_upper_half : forall sym vs0 vs1, sym <> 0 ->
  match reduce_vol_axis sym (vs0, vs1) with
  | Some (m, (a, b)) => 2 <= vs1 - vs0 /\ 2 * (m - vs0) = vs1 - vs0 /\ a = 0 /\ b = vs1 - m /\ 2 * b = vs1 - vs0
  | None => vs1 - vs0 < 2 \/ (vs1 - vs0) mod 2 = 1
  end.
Proof. exact reduce_vol_axis_sym. Qed.
Print Assumptions C34_even_count_upper_half.

Theorem C34_nonsymmetric_axis_untouched : forall vs m vs1 s,
  reduce_vol_axis 0 vs = Some (fst vs, vs) /\ reduce_obj_axis 0 m vs1 s = (s, s, false).
Proof. intros. split; [apply reduce_vol_axis_nosym|apply reduce_obj_axis_nosym]. Qed.
Print Assumptions C34_nonsymmetric_axis_untouched.

(* clip / drop / unreduced extent, for every interval and plane position *)
Theorem C34_clip_drop_shift : forall sym m vs1 s0 s1, sym <> 0 ->
  let '(c, u, drop) := reduce_obj_axis sym m vs1 (s0, s1) in
  (forall i, fst c <= i < snd c <-> (0 <= i /\ s0 <= i + m < s1 /\ i + m < vs1)) /\
  u = (s0 - m, s1 - m) /\
  fst c = Z.max (fst u) 0 /\ snd c = Z.min (snd u) (vs1 - m) /\
  (drop = true <-> forall i, ~ (m <= i < vs1 /\ s0 <= i < s1)).
Proof. exact reduce_obj_axis_sym. Qed.
Print Assumptions C34_clip_drop_shift.

Theorem C34_clip_cases : forall sym m vs1 s0 s1, sym <> 0 -> s0 < s1 -> s1 <= vs1 -> m < vs1 ->
  let '(c, u, drop) := reduce_obj_axis sym m vs1 (s0, s1) in
  (m <= s0 -> c = u /\ drop = false) /\
  (s1 <= m -> drop = true) /\
  (s0 < m < s1 -> c = (0, s1 - m) /\ fst u < 0 /\ drop = false).
Proof. exact reduce_obj_axis_cases. Qed.
Print Assumptions C34_clip_cases.

(* the 3-D functions apply the per-axis rule on every axis; an object is dropped iff dropped on some axis *)
Theorem C34_three_axes : forall s0 s1 s2 v0 v1 v2 objs,
  reduce_slices [s0; s1; s2] [v0; v1; v2] objs =
  match reduce_vol_axis s0 v0, reduce_vol_axis s1 v1, reduce_vol_axis s2 v2 with
  | Some (m0, n0), Some (m1, n1), Some (m2, n2) =>
      Some {| r_vol := [n0; n1; n2];
              r_vol_unreduced := [shift_axis s0 m0 v0; shift_axis s1 m1 v1; shift_axis s2 m2 v2];
              r_shape := [snd n0 - fst n0; snd n1 - fst n1; snd n2 - fst n2];
              r_objs := map (reduce_obj [s0; s1; s2] [m0; m1; m2] [v0; v1; v2]) objs |}
  | _, _, _ => None
  end.
Proof. exact reduce_slices_3. Qed.
Print Assumptions C34_three_axes.

Theorem C34_object_three_axes : forall s0 s1 s2 m0 m1 m2 v0 v1 v2 x0 x1 x2,
  reduce_obj [s0; s1; s2] [m0; m1; m2] [v0; v1; v2] [x0; x1; x2] =
  let '(c0, u0, d0) := reduce_obj_axis s0 m0 (snd v0) x0 in
  let '(c1, u1, d1) := reduce_obj_axis s1 m1 (snd v1) x1 in
  let '(c2, u2, d2) := reduce_obj_axis s2 m2 (snd v2) x2 in
  if d0 || d1 || d2 then None else Some ([c0; c1; c2], [u0; u1; u2]).
Proof. exact reduce_obj_3. Qed.
Print Assumptions C34_object_three_axes.

(* PEC wall only, and always, on electric (-1) planes; one cell thick at the reduced min edge *)
Theorem C34_walls_only_electric : forall sym shape a sl, In (a, sl) (walls sym shape) -> nth a sym 0 = -1 /\ (a < 3)%nat.
Proof. exact walls_electric_only. Qed.
Print Assumptions C34_walls_only_electric.
Theorem C34_walls_every_electric : forall sym shape a, (a < 3)%nat -> nth a sym 0 = -1 -> exists sl, In (a, sl) (walls sym shape).
Proof. exact walls_every_electric. Qed.
Print Assumptions C34_walls_every_electric.
Theorem C34_walls_shape : forall s0 s1 s2 n0 n1 n2,
  walls [s0; s1; s2] [n0; n1; n2] =
  (if s0 =? -1 then [(0%nat, [(0, 1); (0, n1); (0, n2)])] else []) ++
  (if s1 =? -1 then [(1%nat, [(0, n0); (0, 1); (0, n2)])] else []) ++
  (if s2 =? -1 then [(2%nat, [(0, n0); (0, n1); (0, 1)])] else []).
Proof. exact walls_3. Qed.
Print Assumptions C34_walls_shape.

(* non-vacuity: 8x6x10 volume, symmetry (-1, 0, 1): one box straddling x, one dropped, odd count rejected *)
Example C34_example :
  (match reduce_slices [-1; 0; 1] [(0, 8); (0, 6); (0, 10)] [[(2, 7); (1, 3); (5, 9)]; [(0, 3); (0, 6); (0, 10)]] with
   | Some r => r_shape r = [4; 6; 5] /\
               r_objs r = [Some ([(0, 3); (1, 3); (0, 4)], [(-2, 3); (1, 3); (0, 4)]); None]
   | None => False end) /\
  reduce_slices [0; 1; 0] [(0, 8); (0, 7); (0, 10)] [] = None /\
  walls [-1; 0; 1] [4; 6; 5] = [(0%nat, [(0, 1); (0, 6); (0, 5)])].
Proof. vm_compute. repeat split; reflexivity. Qed.
