(* C21 — design symmetry transforms produce symmetric designs.
   Only statements closed by [exact]; model: model/DesignTransforms_Sym.v, lemmas: proofs/DesignTransforms_Sym_proofs.v.
   [sym_exec K t s l] is the executed model of  transform({k: v})[k]  for v of shape s given as nested
   lists l;  [sigma t s] is the index map with other[p] = v[sigma p] (flip / rotation / transposition).
   All theorems: any field K with 1+1 <> 0, any transform and option, any shape (nx,ny,nz), any input. *)
From Coq Require Import List Arith Bool QArith Qcanon.
From FV Require Import base.Scalar base.Sums base.Util base.DesignTransformsBase model.DesignTransforms_Sym proofs.DesignTransforms_Sym_proofs.
Import ListNotations.
Local Open Scope fld_scope.

(* sigma is a symmetry of the index box: maps the box to itself and is an involution there *)
Theorem C21_sigma_involution : forall t s sg, sigma t s = Some sg ->
  (forall p, inb s p -> inb s (sg p)) /\ (forall p, inb s p -> sg (sg p) = p).
Proof. exact sigma_good. Qed.
Print Assumptions C21_sigma_involution.

(* the call is defined exactly on the documented domain (a singleton axis for the 2-D transforms,
   equal extents of the two transposed axes for the diagonal ones, a legal option string) *)
Theorem C21_defined_iff_valid : forall t s, (exists sg, sigma t s = Some sg) <-> valid t s.
Proof. exact sigma_defined. Qed.
Print Assumptions C21_defined_iff_valid.

(* the output has the shape of the input and is exactly invariant under the reflection/rotation/transposition *)
Theorem C21_output_invariant : forall (K : Fld), (1 + 1 : K) <> 0 -> forall t s l y sg,
  sym_exec K t s l = Some y -> sigma t s = Some sg ->
  shape3i K s y /\ forall p, inb s p -> inb s (sg p) /\ get3i K y (sg p) = get3i K y p.
Proof. intros K H2 t s l y sg H Hs. split; [exact (sym_exec_shape K t s l y H) | exact (sym_exec_invariant K H2 t s l y sg H Hs)]. Qed.
Print Assumptions C21_output_invariant.

(* an already symmetric input is returned unchanged *)
Theorem C21_fixes_symmetric : forall (K : Fld), (1 + 1 : K) <> 0 -> forall t s l y sg,
  sym_exec K t s l = Some y -> sigma t s = Some sg -> shape3i K s l ->
  (forall p, inb s p -> get3i K l (sg p) = get3i K l p) -> y = l.
Proof. exact sym_exec_fixes_symmetric. Qed.
Print Assumptions C21_fixes_symmetric.

(* idempotent *)
Theorem C21_idempotent : forall (K : Fld), (1 + 1 : K) <> 0 -> forall t s l y,
  sym_exec K t s l = Some y -> sym_exec K t s y = Some y.
Proof. exact sym_exec_idempotent. Qed.
Print Assumptions C21_idempotent.

(* the array mean (sum / number of cells) is preserved *)
Theorem C21_mean_preserved : forall (K : Fld), (1 + 1 : K) <> 0 -> forall t s l y,
  sym_exec K t s l = Some y -> mean3 K s y = mean3 K s l.
Proof. exact sym_exec_mean. Qed.
Print Assumptions C21_mean_preserved.

(* non-vacuity: hypotheses are satisfiable at Qc, and a concrete anti-diagonal 2-D call (singleton axis in the middle) *)
Example C21_example :
  (1 + 1 : QcF) <> 0 /\ valid (Diagonal2D false) (2, 1, 2)%nat /\
  match sym_exec QcF (Diagonal2D false) (2, 1, 2)%nat [[[q 1 1; q 2 1]]; [[q 3 1; q 5 1]]] with
  | Some y => qlist3_eqb y [[[q 3 1; q 2 1]]; [[q 3 1; q 3 1]]] | None => false end = true.
Proof. split; [discriminate|]. split; [vm_compute; auto|]. vm_compute. reflexivity. Qed.
