(* C32 — symmetry unfolding is consistent.
   Only statements closed by [exact]; model: model/Symmetry.v; lemmas: proofs/Symmetry_proofs.v,
   proofs/Symmetry_det_proofs.v.  [arr K d] = rank-d nested list over the field K. *)
From Coq Require Import ZArith List Bool QArith Qcanon.
From FV Require Import base.Scalar model.Symmetry proofs.Symmetry_proofs proofs.Symmetry_det_proofs.
Import ListNotations.

(* ---- tables (all component / axis integers, both wall types) ------------------------------- *)
(* parity = wall * reflection sign of a polar (E) / axial (H) vector component:
   refl_sign FE c a = (c = a ? -1 : 1), refl_sign FH c a = (c = a ? 1 : -1) *)
Theorem C32_parity_table : forall ft c a w, is_wall w ->
  field_component_parity ft c a w = Some (w * refl_sign ft c a)%Z.
Proof. exact parity_spec. Qed.
Print Assumptions C32_parity_table.

Theorem C32_parity_rejects_bad_wall : forall ft c a w, ~ is_wall w -> field_component_parity ft c a w = None.
Proof. exact parity_invalid. Qed.
Print Assumptions C32_parity_rejects_bad_wall.

(* the index map pairs about a shared row exactly for an electric wall and a component that is
   not half-cell staggered along the axis (yee_half_offset FE c a = (c = a), FH: (c <> a)) *)
Theorem C32_mirror_pairs_table : forall ft c a w,
  mirror_pairs_on_plane ft c a w = ((w =? -1)%Z && negb (yee_half_offset ft c a))%bool.
Proof. exact mirror_pairs_spec. Qed.
Print Assumptions C32_mirror_pairs_table.

Theorem C32_on_plane_components_are_odd : forall ft c a w,
  mirror_pairs_on_plane ft c a w = true -> field_component_parity ft c a w = Some (-1)%Z.
Proof. exact on_plane_is_odd. Qed.
Print Assumptions C32_on_plane_components_are_odd.

Theorem C32_poynting_parity : forall i a w, in_axes i -> in_axes a -> is_wall w ->
  poynting_parity i a w = (if (i =? a)%Z then -1 else 1)%Z.
Proof. exact poynting_spec. Qed.
Print Assumptions C32_poynting_parity.

(* ---- restrict o unfold = id ------------------------------------------------------------------ *)
(* any rank d, any array axis k, any parity value, both index maps, every shape (also ragged/empty) *)
Theorem C32_restrict_unfold_id : forall (K : Fld) d k p on (x : arr K d),
  restrict_at K d k (unfold_at K d k p on x) = x.
Proof. exact restrict_unfold_at. Qed.
Print Assumptions C32_restrict_unfold_id.

(* unfold_fields followed by restrict_to_kept_half on the symmetric axes, all symmetry tuples *)
Theorem C32_restrict_unfold_fields : forall (K : Fld) ft s (f u : list (arr K 3)),
  (length f <= 3)%nat -> unfold_fields K ft s f = Some u -> restrict_fields K (touched_axes s) u = f.
Proof. exact restrict_unfold_fields. Qed.
Print Assumptions C32_restrict_unfold_fields.

Theorem C32_unfold_fields_defined : forall (K : Fld) ft s (f : list (arr K 3)),
  unfold_fields K ft s f <> None <-> has_symmetry s = true /\ sym_ok s = true.
Proof. exact unfold_fields_defined. Qed.
Print Assumptions C32_unfold_fields_defined.

(* ---- index map ------------------------------------------------------------------------------- *)
(* sel_at d k i = _slice_axis(., k, i, i+1); n = length of axis k before unfolding.
   plain flip:  u[n-1-j] = p * u[n+j]  (0 <= j < n) *)
Theorem C32_index_map_flip : forall (K : Fld) d k n p j (x : arr K d), (k < d)%nat -> len_at K d k n x -> (j < n)%nat ->
  sel_at K d k (n - 1 - j) (unfold_at K d k p false x) = scale K d p (sel_at K d k (n + j) (unfold_at K d k p false x)).
Proof. exact sel_pair_off. Qed.
Print Assumptions C32_index_map_flip.

(* on-plane map:  u[n-j] = p * u[n+j]  (1 <= j < n); cell 0 repeats cell 1 *)
Theorem C32_index_map_on_plane : forall (K : Fld) d k n p j (x : arr K d), (k < d)%nat -> len_at K d k n x -> (1 <= j < n)%nat ->
  sel_at K d k (n - j) (unfold_at K d k p true x) = scale K d p (sel_at K d k (n + j) (unfold_at K d k p true x)).
Proof. exact sel_pair_on. Qed.
Print Assumptions C32_index_map_on_plane.

Theorem C32_on_plane_outer_cell : forall (K : Fld) d k n p (x : arr K d), (k < d)%nat -> len_at K d k n x -> (2 <= n)%nat ->
  sel_at K d k 0 (unfold_at K d k p true x) = sel_at K d k 1 (unfold_at K d k p true x).
Proof. exact sel_on_edge. Qed.
Print Assumptions C32_on_plane_outer_cell.

(* complete pointwise description of one unfolded axis (any slab type A) *)
Theorem C32_axis_pointwise_flip : forall (A : Type) (sm : A -> A) l i,
  nth_error (unfold1 sm false l) i =
    if (i <? length l)%nat then option_map sm (nth_error l (length l - 1 - i)) else nth_error l (i - length l).
Proof. exact @nth_error_unfold1_off. Qed.
Print Assumptions C32_axis_pointwise_flip.

Theorem C32_axis_pointwise_on_plane : forall (A : Type) (sm : A -> A) l i, (2 <= length l)%nat ->
  nth_error (unfold1 sm true l) i =
    if (i =? 0)%nat then option_map sm (nth_error l (length l - 1))
    else if (i <? length l)%nat then option_map sm (nth_error l (length l - i))
    else nth_error l (i - length l).
Proof. exact @nth_error_unfold1_on. Qed.
Print Assumptions C32_axis_pointwise_on_plane.

(* unfold_fields uses exactly the table values per component: component c of one axis step *)
Theorem C32_fields_component : forall (K : Fld) ft a w (f : list (arr K 3)) c, (c < 3)%nat ->
  nth_error (unfold_fields_axis K ft a w f) c =
    option_map (unfold_at K 3 a (KofZ K (parity_z ft (Z.of_nat c) (Z.of_nat a) w))
                          (mirror_pairs_on_plane ft (Z.of_nat c) (Z.of_nat a) w)) (nth_error f c).
Proof. exact unfold_fields_axis_component. Qed.
Print Assumptions C32_fields_component.

(* ---- volume-reduced detectors ---------------------------------------------------------------- *)
Theorem C32_sum_scaling : forall (K : Fld) d k p (x : arr K d), (k < d)%nat ->
  sum_all K d (unfold_at K d k p false x) = ((1 + p) * sum_all K d x)%F.
Proof. exact sum_unfold_at. Qed.
Print Assumptions C32_sum_scaling.

Theorem C32_mean_scaling : forall (K : Fld) d k p (x : arr K d), (k < d)%nat ->
  KofNat K (count_all K d x) <> 0%F -> (1 + 1)%F <> (0%F : K) ->
  mean_all K d (unfold_at K d k p false x) = ((1 + p) / (1 + 1) * mean_all K d x)%F.
Proof. exact mean_unfold_at. Qed.
Print Assumptions C32_mean_scaling.

(* for every detector kind with a reduce_volume twin (Phasor/Field: mean; Energy/Poynting: sum), every
   symmetry tuple and component subset: if no axis uses the on-plane map, unfolding the reduced value
   equals reducing the unfolded spatial record *)
Theorem C32_reduced_detector_consistent : forall (K : Fld) k k' mean exact touched (v : list (list (arr K 3))),
  reduced_kind k = Some (k', mean) ->
  (forall a, colocated_on_plane exact touched a = false) ->
  (mean = true -> (1 + 1)%F <> (0%F : K) /\ nonempty_blocks K v) ->
  exists v', unfold_one_detector K k exact touched (SSpatial K v) = Some (SSpatial K v') /\
             unfold_one_detector K k' exact touched (SReduced K (reduce_state K mean v)) = Some (SReduced K (reduce_state K mean v')).
Proof. exact reduced_detector_consistent. Qed.
Print Assumptions C32_reduced_detector_consistent.

(* the hypothesis is needed: with the on-plane map the rescaled sum differs (3 samples 1,2,3, p = 1) *)
Theorem C32_on_plane_sum_differs : exists x : arr QcF 1,
  sum_all QcF 1 (unfold_at QcF 1 0 1%Qc true x) <> ((1 + 1) * sum_all QcF 1 x)%Qc.
Proof. exists [q 1 1; q 2 1; q 3 1]. vm_compute. discriminate. Qed.
Print Assumptions C32_on_plane_sum_differs.

(* non-vacuity: a concrete E field of shape (3,2,1,2) unfolded across an electric x plane *)
Example C32_example :
  let f : list (arr QcF 3) := [ [[[q 1 1; q 2 1]]; [[q 3 1; q 4 1]]]; [[[q 5 1; q 6 1]]; [[q 7 1; q 8 1]]]; [[[q 9 1; q 1 2]]; [[q 1 4; q 3 4]]] ] in
  match unfold_fields QcF FE (-1, 0, 0)%Z f with
  | Some u => restrict_fields QcF [0%nat] u = f /\
              nth_error u 0 = Some [[[q 3 1; q 4 1]]; [[q 1 1; q 2 1]]; [[q 1 1; q 2 1]]; [[q 3 1; q 4 1]]] /\
              nth_error u 1 = Some [[[q (-7) 1; q (-8) 1]]; [[q (-7) 1; q (-8) 1]]; [[q 5 1; q 6 1]]; [[q 7 1; q 8 1]]]
  | None => False
  end.
Proof. vm_compute. repeat split. Qed.
