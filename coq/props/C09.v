(* C09 — periodic and Bloch domains match their supercells.  Model: model/Yee.v; proofs: proofs/Yee_tile.v (1-D ghost reads),
   proofs/Yee_tile3.v (3-D lift through curls, updates, masks, sources; induction over steps). *)
From Coq Require Import List Arith QArith Qcanon.
From FV Require Import base.Scalar base.Cplx model.Yee model.YeeFull proofs.Yee_steps proofs.Yee_tile proofs.Yee_tile3.
Import ListNotations.

(* Main theorem.  sc: any PML-free scene of the model (any halo kind per axis, widths, iso/diagonal materials, both
   conductivities, PEC/PMC masks, source terms).  Tscene: its mx x my x mz supercell - repeated materials / widths / masks,
   ghost factors hi^m and lo^m, source terms tiled with the per-copy phase.  Per axis either m = 1 (nothing assumed about that
   axis: walls, PEC, PMC, ...) or lo * hi = 1 (periodic: 1 * 1; Bloch: conj(phase) * phase with |phase| = 1) and the first and
   last cell widths of the period agree (true on uniform grids).  `tiles S s`: on every cell of the big box the fields of S are
   the fields of s of cell (i mod Nx, j mod Ny, k mod Nz) times hix^(i/Nx) * hiy^(j/Ny) * hiz^(k/Nz), and the step counters
   agree.  The relation is preserved by any number of forward steps. *)
Theorem C09_supercell_forward : forall (K : Fld) (sc : scene K) (mx my mz : nat),
  (0 < nx K sc)%nat -> (0 < ny K sc)%nat -> (0 < nz K sc)%nat ->
  (mx = 1%nat \/ cmul (lox K sc) (hix K sc) = c1) ->
  (my = 1%nat \/ cmul (loy K sc) (hiy K sc) = c1) ->
  (mz = 1%nat \/ cmul (loz K sc) (hiz K sc) = c1) ->
  (mx = 1%nat \/ wx K sc (nx K sc - 1)%nat = wx K sc O) ->
  (my = 1%nat \/ wy K sc (ny K sc - 1)%nat = wy K sc O) ->
  (mz = 1%nat \/ wz K sc (nz K sc - 1)%nat = wz K sc O) ->
  pmls K sc = [] ->
  forall n S s, tiles K sc mx my mz S s ->
    tiles K sc mx my mz (iterT K (Tscene K sc mx my mz) n S) (iterT K sc n s).
Proof. exact forward_tiles_n. Qed.
Print Assumptions C09_supercell_forward.

(* The same statement for the fully anisotropic lossless tiers (model/YeeFull.v): 9-component inverse permittivity and / or
   permeability tensor fields (TT T = the tensor field repeated over the supercell), whose co-location averages reach across the
   periodic / Bloch seam.  A tier given as None is the iso / diagonal tier. *)
Theorem C09_supercell_forward_full_tensor : forall (K : Fld) (sc : scene K) (mx my mz : nat),
  (0 < nx K sc)%nat -> (0 < ny K sc)%nat -> (0 < nz K sc)%nat ->
  (mx = 1%nat \/ cmul (lox K sc) (hix K sc) = c1) ->
  (my = 1%nat \/ cmul (loy K sc) (hiy K sc) = c1) ->
  (mz = 1%nat \/ cmul (loz K sc) (hiz K sc) = c1) ->
  (mx = 1%nat \/ wx K sc (nx K sc - 1)%nat = wx K sc O) ->
  (my = 1%nat \/ wy K sc (ny K sc - 1)%nat = wy K sc O) ->
  (mz = 1%nat \/ wz K sc (nz K sc - 1)%nat = wz K sc O) ->
  pmls K sc = [] ->
  forall (ie9 im9 : option (T9 K)) n S s, tiles K sc mx my mz S s ->
    tiles K sc mx my mz (iterTF K (Tscene K sc mx my mz) (TTo K sc ie9) (TTo K sc im9) n S) (iterTF K sc ie9 im9 n s).
Proof. exact forward_full_tiles_n. Qed.
Print Assumptions C09_supercell_forward_full_tensor.

(* ... and for the conductive fully anisotropic tiers (forward_lossy: per-cell 3x3 update matrices from the tensor and the conductivity
   tensor; the matrices of the tiled material are the tiled matrices).  A tier given as None is the iso / diagonal tier. *)
Theorem C09_supercell_forward_lossy_tensor : forall (K : Fld) (sc : scene K) (mx my mz : nat),
  (0 < nx K sc)%nat -> (0 < ny K sc)%nat -> (0 < nz K sc)%nat ->
  (mx = 1%nat \/ cmul (lox K sc) (hix K sc) = c1) ->
  (my = 1%nat \/ cmul (loy K sc) (hiy K sc) = c1) ->
  (mz = 1%nat \/ cmul (loz K sc) (hiz K sc) = c1) ->
  (mx = 1%nat \/ wx K sc (nx K sc - 1)%nat = wx K sc O) ->
  (my = 1%nat \/ wy K sc (ny K sc - 1)%nat = wy K sc O) ->
  (mz = 1%nat \/ wz K sc (nz K sc - 1)%nat = wz K sc O) ->
  pmls K sc = [] ->
  forall (e m : option (T9 K * T9 K)) n S s, tiles K sc mx my mz S s ->
    tiles K sc mx my mz (iterTL K (Tscene K sc mx my mz) (TTp K sc e) (TTp K sc m) n S) (iterTL K sc e m n s).
Proof. exact forward_lossy_tiles_n. Qed.
Print Assumptions C09_supercell_forward_lossy_tensor.

(* the two 1-D ingredients (kept as separate statements: they are the only non-local part of the step) *)
Theorem C09_forward_read_tiles : forall (K : Fld) (N m : nat) (phi : C K) (f : nat -> C K), (0 < N)%nat ->
  forall q r, (q < m)%nat -> (r < N)%nat ->
  nxt K (m * N) (cpow K phi m) (tiled K N phi f) (q * N + r) = cmul (cpow K phi q) (nxt K N phi f r).
Proof. exact nxt_tiled. Qed.
Print Assumptions C09_forward_read_tiles.

Theorem C09_backward_read_tiles : forall (K : Fld) (N m : nat) (phi : C K) (f : nat -> C K), (0 < N)%nat ->
  forall psi, cmul psi phi = c1 ->
  forall q r, (q < m)%nat -> (r < N)%nat ->
  prv K (m * N) (cpow K psi m) (tiled K N phi f) (q * N + r) = cmul (cpow K phi q) (prv K N psi f r).
Proof. exact prv_tiled. Qed.
Print Assumptions C09_backward_read_tiles.

(* ---- non-vacuity: a 2x3x2 scene, Bloch along x with phase (3/5, 4/5), periodic along y, PEC-type zero halo along z,
        tiled 3 x 2 x 1; the initial supercell state is the tiled unit-cell state ---- *)
Definition one3 : R3 QcF := fun _ _ _ => 1%Qc.
Definition zero3 : R3 QcF := fun _ _ _ => 0%Qc.
Definition ex_scene : scene QcF :=
  mkScene QcF 2 3 2 (q 3 5, q 4 5) (1%Qc, 0%Qc) (0%Qc, 0%Qc) (q 3 5, q (-4) 5) (1%Qc, 0%Qc) (0%Qc, 0%Qc)
    (fun _ => 1%Qc) (fun _ => 1%Qc) (fun i => match i with O => 1%Qc | _ => q 3 2 end) 1%Qc
    (mkM one3 one3 one3) (mkM one3 one3 one3) (mkM zero3 zero3 zero3) (mkM zero3 zero3 zero3)
    (q 377 1) (q 1 2) (mkM one3 one3 one3) (mkM one3 one3 one3) []
    (fun _ => vzero QcF) (fun _ => vzero QcF).
Definition ex_state : state QcF :=
  mkSt 0 (mkV (K:=QcF) (fun i j k => (q (Z.of_nat (i + 2 * j)) 4, q (Z.of_nat k) 2)) (fun i j k => (1%Qc, 0%Qc)) (fun i j k => (0%Qc, q (Z.of_nat j) 1)))
         (mkV (K:=QcF) (fun i j k => (q (Z.of_nat k) 1, 0%Qc)) (fun i j k => (q (Z.of_nat i) 1, 1%Qc)) (fun i j k => (0%Qc, 0%Qc))) [] [].
Example C09_nonvacuous :
  (3%nat = 1%nat \/ cmul (lox QcF ex_scene) (hix QcF ex_scene) = c1) /\
  (2%nat = 1%nat \/ cmul (loy QcF ex_scene) (hiy QcF ex_scene) = c1) /\
  (1%nat = 1%nat \/ cmul (loz QcF ex_scene) (hiz QcF ex_scene) = c1) /\
  tiles QcF ex_scene 3 2 1 (mkSt 0 (TV QcF ex_scene (fE ex_state)) (TV QcF ex_scene (fH ex_state)) [] []) ex_state.
Proof.
  split; [right; apply c_eq; apply Qc_is_canon; vm_compute; reflexivity|]. split; [right; apply c_eq; apply Qc_is_canon; vm_compute; reflexivity|].
  split; [left; reflexivity|]. split; [apply veqB_refl|]. split; [apply veqB_refl | reflexivity].
Qed.

(* ---- the width hypothesis is needed: the source's dual width of cell 0 is w0 (prev_widths = concat(w[:1], w[:-1]) in
        _metric_scale), not the width across the periodic seam (w0 + w_{N-1})/2.  With widths [1; 2] along a periodic x axis the
        2-fold supercell does NOT evolve like the tiled unit cell (witness by computation; replayed on the implementation by the
        C09 check, known finding `nonuniform-seam-width-mismatch`). ---- *)
Definition seam_scene : scene QcF :=
  mkScene QcF 2 1 1 (1%Qc, 0%Qc) (0%Qc, 0%Qc) (0%Qc, 0%Qc) (1%Qc, 0%Qc) (0%Qc, 0%Qc) (0%Qc, 0%Qc)
    (fun i => match i with O => 1%Qc | _ => q 2 1 end) (fun _ => 1%Qc) (fun _ => 1%Qc) 1%Qc
    (mkM one3 one3 one3) (mkM one3 one3 one3) (mkM zero3 zero3 zero3) (mkM zero3 zero3 zero3)
    (q 377 1) (q 1 2) (mkM one3 one3 one3) (mkM one3 one3 one3) []
    (fun _ => vzero QcF) (fun _ => vzero QcF).
Definition seam_state : state QcF :=
  mkSt 0 (vzero QcF) (mkV (K:=QcF) (fun _ _ _ => (0%Qc, 0%Qc)) (fun _ _ _ => (0%Qc, 0%Qc)) (fun i _ _ => (q (Z.of_nat i) 1, 0%Qc))) [] [].
Theorem C09_seam_width_needed_refuted :
  let S := mkSt 0 (TV QcF seam_scene (fE seam_state)) (TV QcF seam_scene (fH seam_state)) [] [] in
  tiles QcF seam_scene 2 1 1 S seam_state /\
  ~ tiles QcF seam_scene 2 1 1 (forward QcF (Tscene QcF seam_scene 2 1 1) S) (forward QcF seam_scene seam_state).
Proof.
  split; [split; [apply veqB_refl | split; [apply veqB_refl | reflexivity]]|].
  intros (HE & _).
  assert (Lx : (2 < nx QcF (Tscene QcF seam_scene 2 1 1))%nat) by (apply Nat.ltb_lt; vm_compute; reflexivity).
  assert (Ly : (0 < ny QcF (Tscene QcF seam_scene 2 1 1))%nat) by (apply Nat.ltb_lt; vm_compute; reflexivity).
  assert (Lz : (0 < nz QcF (Tscene QcF seam_scene 2 1 1))%nat) by (apply Nat.ltb_lt; vm_compute; reflexivity).
  destruct (HE 2%nat O O Lx Ly Lz) as (_ & ey & _).
  apply (f_equal (fun z => Qden (this (fst z)))) in ey. vm_compute in ey. discriminate.
Qed.
Print Assumptions C09_seam_width_needed_refuted.
