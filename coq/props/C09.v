(* C09 — periodic and Bloch domains match their supercells.  Model: model/Yee.v ghost reads; lemmas: proofs/Yee_tile.v *)
From Coq Require Import List Arith.
From FV Require Import base.Scalar base.Cplx model.Yee proofs.Yee_tile.

(* PARTIAL: the two ghost-read lemmas below are the only places where an N-cell domain and its m-fold supercell differ in the
   model (every other operation of the step is cell-local): reading the forward / backward neighbour in the tiled array
   F (q*N + r) = phi^q * f r, on m*N cells with ghost factors phi^m / psi^m, gives phi^q times the read in one period with
   ghost factors phi / psi (psi * phi = 1: periodic 1/1, Bloch phase/conj phase).  The lift to the full 3-D forward step is
   not yet a Coq theorem; it is checked by correspondence and by the implementation predicate. *)
Theorem C09_forward_read_tiles_partial : forall (K : Fld) (N m : nat) (phi : C K) (f : nat -> C K), (0 < N)%nat ->
  forall q r, (q < m)%nat -> (r < N)%nat ->
  nxt K (m * N) (cpow K phi m) (tiled K N phi f) (q * N + r) = cmul (cpow K phi q) (nxt K N phi f r).
Proof. exact nxt_tiled. Qed.
Print Assumptions C09_forward_read_tiles_partial.

Theorem C09_backward_read_tiles_partial : forall (K : Fld) (N m : nat) (phi : C K) (f : nat -> C K), (0 < N)%nat ->
  forall psi, cmul psi phi = c1 ->
  forall q r, (q < m)%nat -> (r < N)%nat ->
  prv K (m * N) (cpow K psi m) (tiled K N phi f) (q * N + r) = cmul (cpow K phi q) (prv K N psi f r).
Proof. exact prv_tiled. Qed.
Print Assumptions C09_backward_read_tiles_partial.
