(* C37 — grid geometry helpers (fdtdx/core/grid.py: RectilinearGrid; config.py: time_step_duration).
   Only statements; model in model/Grid.v, lemmas in proofs/Grid_proofs.v (ordered-field facts in
   base/GridBase.v).  Every theorem quantifies over an arbitrary ordered field K, all edge lists
   (strictly increasing where needed: [increasingb]/[valid_edges] is the constructor's validation)
   and all coordinates / sizes / positions. *)
From Coq Require Import ZArith List Bool QArith Qcanon.
From FV Require Import base.Scalar base.GridBase base.Util model.Grid proofs.Grid_proofs.
Import ListNotations.
Local Open Scope fld_scope.

(* ---- coordinate snapping ---- *)
(* "nearest": an edge of minimal distance, the first one among ties (np.argmin) *)
Theorem C37_nearest : forall (K : OFld) (edges : list K) (c : K), edges <> [] ->
  let i := Z.to_nat (coord_to_index K edges c Nearest) in
  (i < length edges)%nat
  /\ (forall j, (j < length edges)%nat -> fabs (e_at K edges i - c) <= fabs (e_at K edges j - c))
  /\ (forall j, (j < i)%nat -> flt (fabs (e_at K edges i - c)) (fabs (e_at K edges j - c))).
Proof. exact nearest_spec. Qed.
Print Assumptions C37_nearest.

(* "lower": every edge up to the returned index is <= c, every later edge is > c (index -1 below the grid) *)
Theorem C37_lower : forall (K : OFld) (edges : list K) (c : K), increasingb K edges = true ->
  let i := coord_to_index K edges c Lower in
  (-1 <= i <= Z.of_nat (length edges) - 1)%Z
  /\ (forall j, (Z.of_nat j <= i)%Z -> e_at K edges j <= c)
  /\ (forall j, (i < Z.of_nat j)%Z -> (j < length edges)%nat -> flt c (e_at K edges j)).
Proof. exact lower_spec. Qed.
Print Assumptions C37_lower.

(* "upper": every edge before the returned index is < c, every edge from it on is >= c *)
Theorem C37_upper : forall (K : OFld) (edges : list K) (c : K), increasingb K edges = true ->
  let i := coord_to_index K edges c Upper in
  (0 <= i <= Z.of_nat (length edges))%Z
  /\ (forall j, (Z.of_nat j < i)%Z -> flt (e_at K edges j) c)
  /\ (forall j, (i <= Z.of_nat j)%Z -> (j < length edges)%nat -> c <= e_at K edges j).
Proof. exact upper_spec. Qed.
Print Assumptions C37_upper.

(* ---- interval from a centre / an anchor: size preserved, inside the grid, distance minimal,
        first minimum; errors exactly for size <= 0 and for intervals that do not fit ---- *)
Theorem C37_bounds_for_center : forall (K : OFld) (half : K) (edges : list K) (center : K) (size : Z),
  match bounds_for_center K half edges center size with
  | BOk lo hi =>
      (0 < size)%Z /\ (hi - lo = size)%Z /\ (0 <= lo)%Z /\ (hi <= Z.of_nat (length edges) - 1)%Z
      /\ (forall l : nat, (Z.of_nat l + size <= Z.of_nat (length edges) - 1)%Z ->
            fabs (half * (e_at K edges (Z.to_nat lo) + e_at K edges (Z.to_nat hi)) - center)
            <= fabs (half * (e_at K edges l + e_at K edges (l + Z.to_nat size)) - center))
      /\ (forall l : nat, (Z.of_nat l < lo)%Z ->
            flt (fabs (half * (e_at K edges (Z.to_nat lo) + e_at K edges (Z.to_nat hi)) - center))
                (fabs (half * (e_at K edges l + e_at K edges (l + Z.to_nat size)) - center)))
  | BErrSize => (size <= 0)%Z
  | BErrFit => (0 < size)%Z /\ (Z.of_nat (length edges) - 1 < size)%Z
  end.
Proof. exact bounds_for_center_spec. Qed.
Print Assumptions C37_bounds_for_center.

Theorem C37_bounds_for_anchor : forall (K : OFld) (half : K) (edges : list K) (size : Z) (anchor pos : K),
  let a := fun lo hi : nat => e_at K edges lo + half * (pos + 1) * (e_at K edges hi - e_at K edges lo) in
  match bounds_for_anchor K half edges size anchor pos with
  | BOk lo hi =>
      (0 < size)%Z /\ (hi - lo = size)%Z /\ (0 <= lo)%Z /\ (hi <= Z.of_nat (length edges) - 1)%Z
      /\ (forall l : nat, (Z.of_nat l + size <= Z.of_nat (length edges) - 1)%Z ->
            fabs (a (Z.to_nat lo) (Z.to_nat hi) - anchor) <= fabs (a l (l + Z.to_nat size)%nat - anchor))
      /\ (forall l : nat, (Z.of_nat l < lo)%Z ->
            flt (fabs (a (Z.to_nat lo) (Z.to_nat hi) - anchor)) (fabs (a l (l + Z.to_nat size)%nat - anchor)))
  | BErrSize => (size <= 0)%Z
  | BErrFit => (0 < size)%Z /\ (Z.of_nat (length edges) - 1 < size)%Z
  end.
Proof. exact bounds_for_anchor_spec. Qed.
Print Assumptions C37_bounds_for_anchor.

(* anchor convention: -1 = lower edge, 0 = interval centre, +1 = upper edge; anchor 0 = bounds_for_center *)
Theorem C37_anchor_positions : forall (K : OFld) (half : K) (edges : list K) (size l : nat),
  half * (1 + 1) = 1 ->
  anchor_of K half edges size (- (1)) l = e_at K edges l
  /\ anchor_of K half edges size 0 l = center_of K half edges size l
  /\ anchor_of K half edges size 1 l = e_at K edges (l + size).
Proof. exact anchor_positions. Qed.
Print Assumptions C37_anchor_positions.
Theorem C37_anchor0_is_center : forall (K : OFld) (half : K) (edges : list K) (size : Z) (c : K),
  half * (1 + 1) = 1 -> bounds_for_anchor K half edges size c 0 = bounds_for_center K half edges c size.
Proof. exact anchor_center_same. Qed.
Print Assumptions C37_anchor0_is_center.

(* ---- extents, face areas, cell volumes vs the edges ---- *)
Theorem C37_extent_is_sum_of_widths : forall (K : OFld) (edges : list K) (lo hi : nat),
  (lo <= hi)%nat -> (hi < length edges)%nat -> sumF (slice K (diffs K edges) lo hi) = axis_extent K edges lo hi.
Proof. exact extent_sum_widths. Qed.
Print Assumptions C37_extent_is_sum_of_widths.
Theorem C37_widths_positive : forall (K : OFld) (edges : list K) (i : nat),
  increasingb K edges = true -> (S i < length edges)%nat -> flt 0 (nth i (diffs K edges) 0).
Proof. exact widths_positive. Qed.
Print Assumptions C37_widths_positive.
Theorem C37_face_area_entry : forall (K : OFld) (ea eb : list K) (la ha lb hb i j : nat),
  (i < ha - la)%nat -> (ha < length ea)%nat -> (j < hb - lb)%nat -> (hb < length eb)%nat ->
  nth j (nth i (face_area K ea eb la ha lb hb) []) 0 = nth (la + i) (diffs K ea) 0 * nth (lb + j) (diffs K eb) 0.
Proof. exact face_area_entry. Qed.
Print Assumptions C37_face_area_entry.
Theorem C37_face_area_total : forall (K : OFld) (ea eb : list K) (la ha lb hb : nat),
  (la <= ha)%nat -> (ha < length ea)%nat -> (lb <= hb)%nat -> (hb < length eb)%nat ->
  sum2 K (face_area K ea eb la ha lb hb) = axis_extent K ea la ha * axis_extent K eb lb hb.
Proof. exact face_area_total. Qed.
Print Assumptions C37_face_area_total.
Theorem C37_cell_volume_total : forall (K : OFld) (ex ey ez : list K) (x0 x1 y0 y1 z0 z1 : nat),
  (x0 <= x1)%nat -> (x1 < length ex)%nat -> (y0 <= y1)%nat -> (y1 < length ey)%nat -> (z0 <= z1)%nat -> (z1 < length ez)%nat ->
  sum3l K (cell_volume K ex ey ez x0 x1 y0 y1 z0 z1)
  = axis_extent K ex x0 x1 * axis_extent K ey y0 y1 * axis_extent K ez z0 z1.
Proof. exact cell_volume_total. Qed.
Print Assumptions C37_cell_volume_total.

(* ---- CFL ---- *)
Theorem C37_min_spacing : forall (K : OFld) (edges : list K), (2 <= length edges)%nat ->
  In (min_spacing_axis K edges) (diffs K edges) /\ (forall w, In w (diffs K edges) -> min_spacing_axis K edges <= w).
Proof. exact min_spacing_spec. Qed.
Print Assumptions C37_min_spacing.
Theorem C37_inv_metric_pos : forall (K : OFld) (ex ey ez : list K),
  valid_edges K ex = true -> valid_edges K ey = true -> valid_edges K ez = true -> flt 0 (inv_metric K ex ey ez).
Proof. exact inv_metric_pos. Qed.
Print Assumptions C37_inv_metric_pos.
(* the float formula (with exact square roots as oracles) has (c*dt)^2 = cfl_sq *)
Theorem C37_cfl_time_step_sq : forall (K : OFld) (tolU : K) (rnd14 : K -> K) (s3 sm c0 eps8 : K) (ex ey ez : list K) (cf : K),
  s3 * s3 = f3 -> sm * sm = inv_metric K ex ey ez -> c0 <> 0 -> s3 <> 0 -> sm <> 0 ->
  let dt := cfl_time_step K tolU rnd14 s3 sm c0 eps8 ex ey ez cf in
  (c0 * dt) * (c0 * dt) = cfl_sq K tolU rnd14 eps8 ex ey ez cf.
Proof. exact cfl_time_step_sq. Qed.
Print Assumptions C37_cfl_time_step_sq.
(* grids not classified uniform: (c dt)^2 * (1/dx_min^2+1/dy_min^2+1/dz_min^2) = courant_factor^2 *)
Theorem C37_cfl_nonuniform : forall (K : OFld) (tolU : K) (rnd14 : K -> K) (eps8 : K) (ex ey ez : list K) (cf : K),
  uniform_spacing K tolU rnd14 eps8 ex ey ez = None -> inv_metric K ex ey ez <> 0 ->
  cfl_sq K tolU rnd14 eps8 ex ey ez cf * inv_metric K ex ey ez = cf * cf.
Proof. exact cfl_nonuniform_tight. Qed.
Print Assumptions C37_cfl_nonuniform.
(* grids classified uniform: PARTIAL — the bound needs the stored spacing to be <= every real cell width,
   which the code does not ensure (rounding to 14 decimals; 1e-4 tolerance with the first x width) *)
Theorem C37_cfl_uniform_partial : forall (K : OFld) (tolU : K) (rnd14 : K -> K) (eps8 : K) (ex ey ez : list K) (cf us : K),
  uniform_spacing K tolU rnd14 eps8 ex ey ez = Some us -> 0 <= us ->
  flt 0 (min_spacing_axis K ex) -> flt 0 (min_spacing_axis K ey) -> flt 0 (min_spacing_axis K ez) ->
  us <= min_spacing_axis K ex -> us <= min_spacing_axis K ey -> us <= min_spacing_axis K ez ->
  cfl_sq K tolU rnd14 eps8 ex ey ez cf * inv_metric K ex ey ez <= cf * cf.
Proof. exact cfl_uniform_bound_partial. Qed.
Print Assumptions C37_cfl_uniform_partial.
(* and without that hypothesis the clause is false for the faithful model of the unchanged code *)
Theorem C37_cfl_uniform_rounding_refuted :
  exists (e : list Qc) (cf : Qc), valid_edges QcOF e = true /\ cfl_exceeds e cf = true.
Proof. exact cfl_uniform_refuted. Qed.
Print Assumptions C37_cfl_uniform_rounding_refuted.
Theorem C37_cfl_near_uniform_refuted :
  exists (e : list Qc) (cf : Qc), valid_edges QcOF e = true /\ cfl_exceeds e cf = true.
Proof. exact cfl_near_uniform_refuted. Qed.
Print Assumptions C37_cfl_near_uniform_refuted.

(* ---- uniform detection ---- *)
Theorem C37_is_uniform_sound : forall (K : OFld) (tolU eps8 : K) (ex ey ez : list K),
  (2 <= length ex)%nat -> (2 <= length ey)%nat -> (2 <= length ez)%nat ->
  is_uniform K tolU eps8 ex ey ez = true ->
  let sp := spacing0 K ex in
  forall edges, In edges [ex; ey; ez] -> forall w, In w (diffs K edges) ->
    fabs (w - sp) <= tolU * fabs sp + eps8 * maxl 0 (map fabs edges).
Proof. exact is_uniform_sound. Qed.
Print Assumptions C37_is_uniform_sound.
Theorem C37_exact_uniform_detected : forall (K : OFld) (tolU eps8 : K) (ex ey ez : list K),
  0 <= tolU -> 0 <= eps8 ->
  (forall edges, In edges [ex; ey; ez] -> forall w, In w (diffs K edges) -> w = spacing0 K ex) ->
  is_uniform K tolU eps8 ex ey ez = true.
Proof. exact exact_uniform_detected. Qed.
Print Assumptions C37_exact_uniform_detected.
Theorem C37_uniform_constructor_widths : forall (K : OFld) (lower sp : K) (n : nat),
  diffs K (uniform_edges K lower sp n) = repeat sp n.
Proof. exact uniform_edges_widths. Qed.
Print Assumptions C37_uniform_constructor_widths.

(* ---- reduce_symmetric ---- *)
Theorem C37_reduce_axis : forall (K : OFld) (tolU : K) (a : nat) (sym : Z) (edges : list K),
  let n := (length edges - 1)%nat in
  match reduce_axis K tolU a sym edges with
  | ROk e' =>
      (sym = 0%Z /\ e' = edges)
      \/ (sym <> 0%Z /\ (2 <= n)%nat /\ Nat.even n = true /\ mirror_close K tolU (diffs K edges) = true
          /\ e' = skipn (n / 2) edges /\ length e' = S (n / 2)
          /\ (forall i, e_at K e' i = e_at K edges (n / 2 + i))
          /\ diffs K e' = skipn (n / 2) (diffs K edges))
  | RErrOdd b => b = a /\ sym <> 0%Z /\ ((n < 2)%nat \/ Nat.even n = false)
  | RErrAsym b => b = a /\ sym <> 0%Z /\ (2 <= n)%nat /\ Nat.even n = true /\ mirror_close K tolU (diffs K edges) = false
  end.
Proof. exact reduce_axis_spec. Qed.
Print Assumptions C37_reduce_axis.
Theorem C37_reduce_axis_valid : forall (K : OFld) (tolU : K) (a : nat) (sym : Z) (edges e' : list K),
  valid_edges K edges = true -> reduce_axis K tolU a sym edges = ROk e' -> valid_edges K e' = true.
Proof. exact reduce_axis_valid. Qed.
Print Assumptions C37_reduce_axis_valid.
Theorem C37_reduce_symmetric : forall (K : OFld) (tolU : K) (sx sy sz : Z) (ex ey ez : list K),
  match reduce_symmetric K tolU sx sy sz ex ey ez with
  | ROk (nx, ny, nz) => reduce_axis K tolU 0 sx ex = ROk nx /\ reduce_axis K tolU 1 sy ey = ROk ny /\ reduce_axis K tolU 2 sz ez = ROk nz
  | RErrOdd a => (a = 0%nat /\ reduce_axis K tolU 0 sx ex = RErrOdd 0) \/ (a = 1%nat /\ reduce_axis K tolU 1 sy ey = RErrOdd 1)
                 \/ (a = 2%nat /\ reduce_axis K tolU 2 sz ez = RErrOdd 2)
  | RErrAsym a => (a = 0%nat /\ reduce_axis K tolU 0 sx ex = RErrAsym 0) \/ (a = 1%nat /\ reduce_axis K tolU 1 sy ey = RErrAsym 1)
                 \/ (a = 2%nat /\ reduce_axis K tolU 2 sz ez = RErrAsym 2)
  end.
Proof. exact reduce_symmetric_spec. Qed.
Print Assumptions C37_reduce_symmetric.

(* ---- non-vacuity: a concrete non-uniform grid (x widths 1,2,1,2; y,z cells 1/2) at Qc:
        snapping, centre/anchor choice with a tie, and the tight CFL product with sqrt(1+4+4) = 3 ---- *)
Definition ex_x : list Qc := [q 0 1; q 1 1; q 3 1; q 4 1; q 6 1].
Definition ex_h : list Qc := [q 0 1; q 1 2; q 1 1].
Example C37_example :
  valid_edges QcOF ex_x = true
  /\ coord_to_index QcOF ex_x (q 2 1) Nearest = 1%Z       (* tie between edges 1 and 3: the first *)
  /\ coord_to_index QcOF ex_x (q 2 1) Lower = 1%Z /\ coord_to_index QcOF ex_x (q 2 1) Upper = 2%Z
  /\ bounds_for_center QcOF q_half ex_x (q 5 2) 2 = BOk 1 3
  /\ bounds_for_anchor QcOF q_half ex_x 2 (q 5 2) (q 1 1) = BOk 0 2
  /\ uniform_spacing QcOF q_tolU Qc_rnd14 q_eps8 ex_x ex_h ex_h = None
  /\ Qc_eqb (q 3 1 * q 3 1)%Qc (inv_metric QcOF ex_x ex_h ex_h) = true
  /\ Qc_eqb (q 2 1 * cfl_time_step QcOF q_tolU Qc_rnd14 (q 1 1) (q 3 1) (q 2 1) q_eps8 ex_x ex_h ex_h (q 1 2))%Qc (q 1 6) = true
  /\ reduce_symmetric QcOF q_tolU 1 0 0 ex_x ex_h ex_h = RErrAsym 0
  /\ reduce_symmetric QcOF q_tolU 1 0 (-1) [q 0 1; q 1 1; q 3 1; q 5 1; q 6 1] ex_h ex_h = ROk ([q 3 1; q 5 1; q 6 1], ex_h, [q 1 2; q 1 1])
  /\ reduce_symmetric QcOF q_tolU 0 1 0 ex_h [q 0 1; q 1 1; q 2 1; q 3 1] ex_h = RErrOdd 1.
Proof. vm_compute. repeat split; reflexivity. Qed.
