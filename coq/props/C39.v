(* C39 — material descriptions are normalised and classified consistently.
   Only statements closed by [exact]; model: model/PaintMaterials.v, lemmas: proofs/PaintMaterials_proofs.v.
   Generic over an ordered field K (executed at Qc); Python values are the tree PFloat / PInt / PTuple. *)
From Coq Require Import ZArith List Bool Permutation QArith Qcanon.
From FV Require Import base.Scalar base.PaintBase base.Util model.PaintMaterials proofs.PaintMaterials_proofs.
Import ListNotations.

(* scalar x, (x,x,x), the flat 9-tuple diag(x) and the nested 3x3 diag(x) normalise to the same tensor *)
Theorem C39_isotropic_forms_agree :
  forall (K : OFld) (x : K),
  let X := @PFloat K x in let O := Z0 K in
  normalize K X = tensor K X O O O X O O O X /\
  normalize K (PTuple [X; X; X]) = tensor K X O O O X O O O X /\
  normalize K (PTuple [X; O; O; O; X; O; O; O; X]) = tensor K X O O O X O O O X /\
  normalize K (PTuple [PTuple [X; O; O]; PTuple [O; X; O]; PTuple [O; O; X]]) = tensor K X O O O X O O O X.
Proof. exact normalize_isotropic_forms. Qed.
Print Assumptions C39_isotropic_forms_agree.

Theorem C39_diagonal_forms_agree :
  forall (K : OFld) (a b c : K),
  let A := @PFloat K a in let B := @PFloat K b in let C := @PFloat K c in let O := Z0 K in
  normalize K (PTuple [A; B; C]) = tensor K A O O O B O O O C /\
  normalize K (PTuple [A; O; O; O; B; O; O; O; C]) = tensor K A O O O B O O O C /\
  normalize K (PTuple [PTuple [A; O; O]; PTuple [O; B; O]; PTuple [O; O; C]]) = tensor K A O O O B O O O C.
Proof. exact normalize_diagonal_forms. Qed.
Print Assumptions C39_diagonal_forms_agree.

Theorem C39_full_forms_agree :
  forall (K : OFld) (a b c d e f g h i : PyVal K),
  normalize K (PTuple [a; b; c; d; e; f; g; h; i]) = tensor K a b c d e f g h i /\
  normalize K (PTuple [PTuple [a; b; c]; PTuple [d; e; f]; PTuple [g; h; i]]) = tensor K a b c d e f g h i.
Proof. exact normalize_full_forms. Qed.
Print Assumptions C39_full_forms_agree.

(* quirks kept by the model: tuples of a length other than 3 or 9 and 3-tuples of ints are rejected
   (an int scalar is accepted) *)
Theorem C39_rejections :
  forall (K : OFld),
  (forall l : list (PyVal K), length l <> 3%nat -> length l <> 9%nat -> normalize K (PTuple l) = NValueError) /\
  (forall a b c : Z, normalize K (PTuple [@PInt K a; PInt b; PInt c]) = NValueError) /\
  (forall n : Z, normalize K (@PInt K n) = tensor K (PInt n) (Z0 K) (Z0 K) (Z0 K) (PInt n) (Z0 K) (Z0 K) (Z0 K) (PInt n)).
Proof. exact rejections_all. Qed.
Print Assumptions C39_rejections.

(* predicates agree with the tensor: normal forms are classified as such, isotropic implies
   diagonal, a diagonal tensor is isotropic iff its entries are pairwise isclose; the identity
   permeability is non-magnetic and the zero conductivity non-conductive *)
Theorem C39_predicates_agree :
  forall (K : OFld) (rel : K),
  (forall x, is_isotropic K rel (t9_diag K x x x) = true) /\
  (forall a b c, is_diagonal K rel (t9_diag K a b c) = true) /\
  (forall a b c, is_isotropic K rel (t9_diag K a b c) = isclose K rel a b && isclose K rel b c) /\
  (forall p, is_isotropic K rel p = true -> is_diagonal K rel p = true) /\
  (forall m, m_mu K m = t9_diag K (f1 K) (f1 K) (f1 K) -> is_magnetic K rel m = false) /\
  (forall m, m_sige K m = t9_diag K (f0 K) (f0 K) (f0 K) -> is_econductive K rel m = false).
Proof. exact predicates_agree_all. Qed.
Print Assumptions C39_predicates_agree.

(* one common order: names, materials and every compute_allowed_* list are maps over the same sorted
   list, which is a permutation of the dictionary that keeps the insertion order of equal keys *)
Theorem C39_common_order :
  forall (K : OFld) (N : Type) (mats : list (N * Mat K)),
  combine (ordered_names K mats) (ordered_materials K mats) = ordered_tuples K mats /\
  (forall prop iso diag, allowed K prop mats iso diag = map (fun m => components K iso diag (prop m)) (ordered_materials K mats)) /\
  Permutation mats (ordered_tuples K mats) /\
  (forall k keyb, (forall k', keyb k' = true -> k' = k) ->
     filter (fun o => keyb (mkey K (snd o))) (ordered_tuples K mats) = filter (fun o => keyb (mkey K (snd o))) mats).
Proof. exact common_order_all. Qed.
Print Assumptions C39_common_order.

(* a material built from a complex permittivity (and permeability) presents exactly that complex
   value at the reference angular frequency *)
Theorem C39_from_complex_reproduces :
  forall (K : OFld) (tol9 two_pi c0 eps0 mu0 : K) (r : RefSpec K) (eps_re eps_im mu_re mu_im : T9 K) (m : Mat K),
  from_complex K tol9 two_pi c0 eps0 mu0 r eps_re eps_im mu_re mu_im = MOk K m ->
  let w := resolve_omega K two_pi c0 r in
  fmul K w eps0 <> f0 K -> fmul K w mu0 <> f0 K ->
  complex_eps_at K eps0 w m = (eps_re, eps_im) /\ complex_mu_at K mu0 w m = (mu_re, mu_im).
Proof. exact from_complex_reproduces. Qed.
Print Assumptions C39_from_complex_reproduces.

(* non-vacuity: a diagonal input; the isclose tolerance; a dictionary with a key tie (materials 0 and 2
   have equal keys and keep their insertion order, material 1 has the smallest key); a lossy material *)
Definition ex_m (e : Qc) : Mat QcOF := CMAT (C9 e (q 0 1) (q 0 1) (q 0 1) e (q 0 1) (q 0 1) (q 0 1) e) (C9 (q 1 1) (q 0 1) (q 0 1) (q 0 1) (q 1 1) (q 0 1) (q 0 1) (q 0 1) (q 1 1)) (C9 (q 0 1) (q 0 1) (q 0 1) (q 0 1) (q 0 1) (q 0 1) (q 0 1) (q 0 1) (q 0 1)) (C9 (q 0 1) (q 0 1) (q 0 1) (q 0 1) (q 0 1) (q 0 1) (q 0 1) (q 0 1) (q 0 1)).
Example C39_example :
  norm_check (normalize QcOF (PT [PF (q 2 1); PF (q 3 1); PF (q 4 1)]))
    (Some [(true, q 2 1); (true, q 0 1); (true, q 0 1); (true, q 0 1); (true, q 3 1); (true, q 0 1); (true, q 0 1); (true, q 0 1); (true, q 4 1)]) = true /\
  norm_check (normalize QcOF (PT [PI 2; PI 3; PI 4])) None = true /\
  is_isotropic QcOF (q 1 1000000000) (C9 (q 2 1) (q 0 1) (q 0 1) (q 0 1) (q 20000000001 10000000000) (q 0 1) (q 0 1) (q 0 1) (q 2 1)) = true /\
  is_isotropic QcOF (q 1 1000000000) (C9 (q 2 1) (q 0 1) (q 0 1) (q 0 1) (q 3 1) (q 0 1) (q 0 1) (q 0 1) (q 2 1)) = false /\
  ordered_names QcOF [(0%nat, ex_m (q 2 1)); (1%nat, ex_m (q 1 1)); (2%nat, ex_m (q 2 1))] = [1%nat; 0%nat; 2%nat] /\
  match from_complex QcOF (q 1 1000000000) (q 6 1) (q 3 1) (q 1 2) (q 1 4) (RefFrequency QcOF (q 5 1))
          (C9 (q 2 1) (q 0 1) (q 0 1) (q 0 1) (q 2 1) (q 0 1) (q 0 1) (q 0 1) (q 2 1)) (C9 (q 1 2) (q 0 1) (q 0 1) (q 0 1) (q 1 2) (q 0 1) (q 0 1) (q 0 1) (q 1 2)) (C9 (q 1 1) (q 0 1) (q 0 1) (q 0 1) (q 1 1) (q 0 1) (q 0 1) (q 0 1) (q 1 1)) (C9 (q 0 1) (q 0 1) (q 0 1) (q 0 1) (q 0 1) (q 0 1) (q 0 1) (q 0 1) (q 0 1)) with
  | MOk _ m => t0 _ (m_sige _ m) = q 15 2
  | MSingular _ => False
  end.
Proof. vm_compute. repeat split; reflexivity. Qed.
