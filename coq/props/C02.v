(* C02 — one backward step exactly undoes one forward step.
   Statements only; model: model/Yee.v; lemmas: proofs/Yee_reverse.v *)
From Coq Require Import List Arith QArith Qcanon.
From FV Require Import base.Scalar base.Cplx model.Yee model.YeeExec model.YeeFull proofs.Yee_reverse proofs.YeeExec_proofs proofs.Yee_full_reverse.
Import ListNotations.

(* reversible_scene K sc: no PML; 0/1 PEC and PMC masks; for every cell and component the electric and
   magnetic loss factors f = c*sigma*eta0*inv_eps/2 (resp. c*sigma/eta0*inv_mu/2) satisfy 1+f <> 0 and 1-f <> 0.
   Nothing is assumed about ghost factors (periodic / Bloch / zero halo), cell widths (non-uniform grids),
   material values, or the source injections injE/injH (any sources, schedules and temporal profiles).
   wall_compatible s: fields vanish where a wall mask is 0. *)
Theorem C02_backward_forward_id : forall (K : Fld) (sc : scene K),
  reversible_scene K sc -> forall s, wall_compatible K sc s ->
  let s' := backward K sc (forward K sc s) in
  tstep s' = tstep s /\ veq_box K sc (fE s') (fE s) /\ veq_box K sc (fH s') (fH s).
Proof. exact backward_forward_id. Qed.
Print Assumptions C02_backward_forward_id.

(* every state produced by a forward step is wall compatible, so the identity holds at every step of a run *)
Theorem C02_forward_keeps_walls : forall (K : Fld) (sc : scene K),
  reversible_scene K sc -> forall s, wall_compatible K sc (forward K sc s).
Proof. exact forward_wall. Qed.
Print Assumptions C02_forward_keeps_walls.

Theorem C02_executed_is_backward : forall (K : Fld) (sc : scene K) s i j k,
  (i < nx K sc)%nat -> (j < ny K sc)%nat -> (k < nz K sc)%nat ->
  vx (fE (backwardX K sc s)) i j k = vx (fE (backward K sc s)) i j k /\
  vy (fE (backwardX K sc s)) i j k = vy (fE (backward K sc s)) i j k /\
  vz (fE (backwardX K sc s)) i j k = vz (fE (backward K sc s)) i j k /\
  vx (fH (backwardX K sc s)) i j k = vx (fH (backward K sc s)) i j k /\
  vy (fH (backwardX K sc s)) i j k = vy (fH (backward K sc s)) i j k /\
  vz (fH (backwardX K sc s)) i j k = vz (fH (backward K sc s)) i j k /\
  tstep (backwardX K sc s) = tstep (backward K sc s).
Proof. exact backwardX_in_box. Qed.
Print Assumptions C02_executed_is_backward.

(* The fully anisotropic LOSSLESS tiers (model/YeeFull.v: the "Full anisotropic case" branches of update_E / update_H and of their
   reverse versions, with sigma = None so that A = I and B = c * inverse tensor): for ANY 3x3 inverse permittivity and / or inverse
   permeability tensor field - symmetric or not -, any source terms, ghost factors and 0/1 wall masks, one backward step undoes one
   forward step on every cell of the box.  A tier given as None is the iso / diagonal tier of model/Yee.v (conductivities allowed,
   1 +- f <> 0 as in reversible_scene). *)
Theorem C02_full_tensor_backward_forward_id : forall (K : Fld) (sc : scene K), reversible_scene K sc ->
  forall (ie9 im9 : option (T9 K)) s, wall_compatible K sc s ->
  let s' := backward_full K sc ie9 im9 (forward_full K sc ie9 im9 s) in
  tstep s' = tstep s /\ veq_box K sc (fE s') (fE s) /\ veq_box K sc (fH s') (fH s).
Proof. exact backward_forward_full_id. Qed.
Print Assumptions C02_full_tensor_backward_forward_id.

(* ---- non-vacuity: a lossy periodic 2x2x2 box with a source ---- *)
Definition one3 : R3 QcF := fun _ _ _ => 1%Qc.
Definition half3 : R3 QcF := fun _ _ _ => q 1 1024.
Definition cq (a : Z) (b : Z) : C QcF := (q a b, 0%Qc).
Definition ex_scene : scene QcF :=
  mkScene QcF 2 2 2 (1%Qc, 0%Qc) (1%Qc, 0%Qc) (1%Qc, 0%Qc) (1%Qc, 0%Qc) (1%Qc, 0%Qc) (1%Qc, 0%Qc)
    (fun _ => 1%Qc) (fun _ => 1%Qc) (fun _ => 1%Qc) 1%Qc
    (mkM one3 one3 one3) (mkM one3 one3 one3) (mkM half3 half3 half3) (mkM half3 half3 half3)
    (q 377 1) (q 1 2) (mkM one3 one3 one3) (mkM one3 one3 one3) []
    (fun t => mkV (K:=QcF) (fun i j k => cq (Z.of_nat (t + i)) 3) (fun _ _ _ => cq 0 1) (fun _ _ _ => cq 1 7)) (fun _ => vzero QcF).
Definition ex_state : state QcF :=
  mkSt (K:=QcF) 3 (mkV (K:=QcF) (fun i j k => cq (Z.of_nat (i + 2 * j + k)) 4) (fun i j k => cq (Z.of_nat (i * k)) 2) (fun _ _ _ => cq 1 1))
         (mkV (K:=QcF) (fun i j k => cq (Z.of_nat j) 4) (fun _ _ _ => cq 0 1) (fun i j k => cq (Z.of_nat (i + k)) 2)) [] [].
Example C02_nonvacuous :
  reversible_scene QcF ex_scene /\ wall_compatible QcF ex_scene ex_state /\
  cq_eqb (vx (fE (forward QcF ex_scene ex_state)) 1%nat 0%nat 1%nat) (vx (fE ex_state) 1%nat 0%nat 1%nat) = false /\
  cq_eqb (vx (fE (backward QcF ex_scene (forward QcF ex_scene ex_state))) 1%nat 0%nat 1%nat) (vx (fE ex_state) 1%nat 0%nat 1%nat) = true.
Proof.
  split; [|split; [|split]].
  - constructor; cbn; try reflexivity; intros; repeat split; try (right; reflexivity); vm_compute; discriminate.
  - split; intros i j k _; repeat split; intros E; vm_compute in E; discriminate.
  - vm_compute. reflexivity.
  - vm_compute. reflexivity.
Qed.

(* non-vacuity of the full-tensor statement: a non-symmetric inverse permittivity tensor on the same box *)
Definition ex_T9 : T9 QcF := fun r s _ _ _ => if Nat.eqb r s then q 1 2 else if Nat.ltb r s then q 1 8 else q (-1) 16.
Example C02_full_nonvacuous :
  cq_eqb (vy (fE (forward_full QcF ex_scene (Some ex_T9) None ex_state)) 1%nat 0%nat 1%nat) (vy (fE ex_state) 1%nat 0%nat 1%nat) = false /\
  cq_eqb (vy (fE (backward_full QcF ex_scene (Some ex_T9) None (forward_full QcF ex_scene (Some ex_T9) None ex_state))) 1%nat 0%nat 1%nat)
         (vy (fE ex_state) 1%nat 0%nat 1%nat) = true.
Proof. split; vm_compute; reflexivity. Qed.
