(* C33 — electric-plane symmetry reduction is exact.  Model: model/Yee.v; lemmas: proofs/Yee_sym.v *)
From Coq Require Import List Arith.
From FV Require Import base.Scalar base.Cplx model.Yee proofs.Yee_steps proofs.Yee_sym.
Import ListNotations.

(* PARTIAL in scope: PML-free scenes, plane normal to x (other axes: axis equivariance, theorem C08); one step (the multi-step
   statement inside the light cone of the discarded far boundary follows by iterating the two theorems; that induction is not
   mechanised).  reduced K sc n keeps the cells i >= n, has a zero halo below the plane and masks tangential E on its first row. *)

(* (1) whenever the full-domain E field has zero tangential components on the plane row after its update, one step of the reduced
       scene equals the restriction of one step of the full scene on EVERY kept cell (E and H) *)
Theorem C33_reduced_step_is_restriction_partial : forall (K : Fld) (sc : scene K) (n : nat),
  (1 <= n)%nat /\ (n <= nx K sc)%nat -> hix K sc = c0 -> pmls K sc = [] ->
  forall s, (forall j k, vy (fE (forward K sc s)) n j k = c0 /\ vz (fE (forward K sc s)) n j k = c0) ->
  let sr := mkSt (tstep s) (shV K n (fE s)) (shV K n (fH s)) [] [] in
  veqA K (fE (forward K (reduced K sc n) sr)) (shV K n (fE (forward K sc s))) /\
  veqA K (fH (forward K (reduced K sc n) sr)) (shV K n (fH (forward K sc s))).
Proof. exact forward_reduced. Qed.
Print Assumptions C33_reduced_step_is_restriction_partial.

(* (2) mirror parity of the full state about an electric plane (tangential E zero on the plane row, tangential H even across
       the plane, normal H zero on the plane row, no tangential source on the plane row) gives exactly that premise *)
Theorem C33_parity_keeps_plane_row_partial : forall (K : Fld) (sc : scene K) (n : nat),
  (1 <= n)%nat /\ (n <= nx K sc)%nat -> wx K sc (n - 1) = wx K sc n ->     (* mirror-symmetric cell widths about the plane *)
  forall J E H j k,
  vy E n j k = c0 -> vz E n j k = c0 -> vy J n j k = c0 -> vz J n j k = c0 ->
  vy H (n - 1) j k = vy H n j k -> vz H (n - 1) j k = vz H n j k ->
  (forall q, vx H n j q = c0) -> (forall q, vx H n q k = c0) ->
  vy (stepE K sc J E H) n j k = c0 /\ vz (stepE K sc J E H) n j k = c0.
Proof. exact parity_keeps_plane_row. Qed.
Print Assumptions C33_parity_keeps_plane_row_partial.
