(* C26 — resolved object placement satisfies every constraint.
   Model: model/Place.v ([resolve false] = _apply_constraints_iteratively + resolve_object_constraints with
   fixes/C26.patch applied; [resolve true] = the loop as written, with its early exit).
   Meaning of the constraints: model/PlaceSpec.v.  Lemmas: proofs/Place_proofs.v, proofs/Place_refuted.v.
   A run is (final dictionaries, objects carrying an error, converged-before-max_iter). *)
From Coq Require Import ZArith List Bool.
From FV Require Import model.Place model.PlaceSpec proofs.Place_proofs proofs.Place_refuted.
Import ListNotations.
Open Scope Z_scope.

(* Repaired solver, any scene, any constraint list, any max_iter: if no object carries an error and the
   loop converged, then every constraint relation holds for the final slices (position/real-coordinate/
   size/extension up to first-nearest-edge snapping), every object is fully resolved with
   shape = upper - lower, and every object other than the volume is a non-empty interval inside the
   volume on every axis. *)
Theorem C26_success_implies_constraints : forall e cs fuel st,
  grid_ok e ->
  resolve false e cs fuel = (st, [], true) ->
  Forall (holds e st) cs /\
  (forall o, In o (order e) -> resolved_obj e st o) /\
  (forall o, In o (order e) -> o <> vol e -> inside_volume e st o).
Proof. intros e cs fuel st HG. exact (resolve_success e HG cs fuel st). Qed.
Print Assumptions C26_success_implies_constraints.

(* the snapping used by the solver is the FIRST nearest candidate, for every objective and range *)
Theorem C26_snapping_is_first_nearest : forall f cnt, 0 <= cnt -> first_argmin f cnt (argmin_first f cnt).
Proof. exact argmin_first_spec. Qed.
Print Assumptions C26_snapping_is_first_nearest.

(* ... which determines the snapped index uniquely, and leaves exact multiples of the spacing alone *)
Theorem C26_snapping_unique : forall f cnt b b', first_argmin f cnt b -> first_argmin f cnt b' -> b = b'.
Proof. exact first_argmin_unique. Qed.
Print Assumptions C26_snapping_unique.

Theorem C26_snapping_exact : forall e a i, 0 < D e -> 0 <= i <= N e a -> nearest_edge e a (2 * D e * i) = i.
Proof. exact nearest_edge_exact. Qed.
Print Assumptions C26_snapping_exact.

(* The solver as written violates the property: it accepts a system in which a position constraint is
   violated (A's lower side must touch B's upper side; A = (3,7), B = (8,12)) ... *)
Theorem C26_src_old_refuted :
  exists st, grid_ok wit_env /\
             resolve true wit_env [wit_C2; wit_C1; wit_C3] 1000 = (st, [], true) /\
             ~ Forall (holds wit_env st) [wit_C2; wit_C1; wit_C3].
Proof. destruct src_old_accepts_violation as (st & H1 & H2). exists st. split; [exact wit_grid_ok|]. split; assumption. Qed.
Print Assumptions C26_src_old_refuted.

(* ... and an object declared with grid shape 4 but pinned to (3,9): placed with size 6, no error *)
Theorem C26_src_old_wrong_size_refuted :
  exists st, resolve true wit1_env [wit1_C] 1000 = (st, [], true) /\
             static_shape wit1_env 1 0 = Some 4 /\ get st (vlo 1 0) = Some 3 /\ get st (vhi 1 0) = Some 9 /\
             ~ resolved_obj wit1_env st 1%nat.
Proof. exact src_old_accepts_wrong_size. Qed.
Print Assumptions C26_src_old_wrong_size_refuted.

(* non-vacuity: the repaired solver accepts a satisfiable system (B centred, A on top of B) and rejects the
   three witnesses above *)
Example C26_example :
  (exists st, resolve false wit_env [wit_C2; wit_C3] 1000 = (st, [], true) /\
              get st (vlo 1 0) = Some 12 /\ get st (vhi 1 0) = Some 16 /\ get st (vlo 2 0) = Some 8) /\
  (exists st errs, resolve false wit_env [wit_C2; wit_C1; wit_C3] 1000 = (st, errs, true) /\ errs <> []).
Proof.
  split; [eexists; split; [vm_compute; reflexivity|repeat split; reflexivity]|].
  exact (proj1 repaired_rejects).
Qed.
