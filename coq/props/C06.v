(* C06 — simulation state depends only on the steps executed, not on how the run is split; reset.
   Model: model/Loop.v (custom_fdtd_forward = run_between), model/Stop.v (reset); lemmas: proofs/Stop_proofs.v *)
From Coq Require Import ZArith List Bool.
From FV Require Import model.Loop model.Stop proofs.Loop_proofs proofs.Stop_proofs.
Open Scope Z_scope.

(* two consecutive partial runs [0,a) and [a,b) (each bounded by the total step count, as in the source) give the
   state of one run of b steps, for any state type and step function *)
Theorem C06_run_split : forall (S : Type) (fwd : S -> S) (step_of : S -> Z),
  (forall s, step_of (fwd s) = step_of s + 1) ->
  forall T a b s0, step_of s0 = 0 -> 0 <= a <= b -> b <= T ->
  run_between S fwd step_of T b (run_between S fwd step_of T a s0) = iter S fwd (Z.to_nat b) s0
  /\ run_between S fwd step_of T b s0 = iter S fwd (Z.to_nat b) s0.
Proof. exact run_split. Qed.
Print Assumptions C06_run_split.

(* reset keeps the materials, is idempotent, and runs from the reset of containers with equal materials coincide;
   in particular a re-run from the arrays returned by a previous run repeats the first run *)
Theorem C06_rerun_after_run : forall (M D : Type) (d0 : D) (g : M -> D -> D) n m (s : M * D),
  iter (M * D) (fwdMD M D g) n (reset d0 (iter (M * D) (fwdMD M D g) m (reset d0 s)))
  = iter (M * D) (fwdMD M D g) n (reset d0 s).
Proof. exact rerun_after_run. Qed.
Print Assumptions C06_rerun_after_run.

Theorem C06_reset_spec : forall (M D : Type) (d0 : D) (s : M * D),
  fst (reset d0 s) = fst s /\ snd (reset d0 s) = d0 /\ reset d0 (reset d0 s) = reset d0 s.
Proof. intros. repeat split. Qed.
Print Assumptions C06_reset_spec.

Example C06_nonvacuous :
  run_between Z Z.succ (fun s => s) 10 7 (run_between Z Z.succ (fun s => s) 10 3 0) = 7.
Proof. vm_compute. reflexivity. Qed.
