(* C41 — wave descriptions and temporal profiles are self-consistent.
   Only statements closed by [exact]; model: model/Waves.v, lemmas: proofs/Waves_proofs.v, proofs/Waves_R.v. *)
From Coq Require Import ZArith List Bool QArith Qcanon Reals.
From FV Require Import base.Scalar base.Util base.RecorderBase model.Waves proofs.Waves_proofs proofs.Waves_R.
Import ListNotations.
Open Scope Z_scope.

(* whichever of period / wavelength / frequency was given (non-zero), with c <> 0 *)
Theorem C41_period_frequency : forall (K : OFld) (c0 : K), c0 <> f0 K -> forall w : wave K, wave_nz K w ->
  fmul K (get_period K c0 w) (get_frequency K c0 w) = f1 K.
Proof. exact period_frequency. Qed.
Print Assumptions C41_period_frequency.
Theorem C41_wavelength_period : forall (K : OFld) (c0 : K), c0 <> f0 K -> forall w : wave K, wave_nz K w ->
  get_wavelength K c0 w = fmul K c0 (get_period K c0 w).
Proof. exact wavelength_period. Qed.
Print Assumptions C41_wavelength_period.

(* sampled custom signal: exact at the sample times (both interpolation modes, floor exact on integers),
   the straight line between neighbouring samples in linear mode, outside_value outside the sampled range *)
Theorem C41_custom_at_sample : forall (K : OFld) (floorf : K -> Z), (forall i : Z, floorf (fofZ i) = i) ->
  forall signal dt start outside nearest (i : Z),
  dt <> f0 K -> 0 <= i < Z.of_nat (length signal) ->
  (nearest = true -> fleb K (fdiv K (f1 K) (fadd K (f1 K) (f1 K))) (f0 K) = false) ->
  custom_signal K floorf signal dt start outside nearest (fadd K start (fmul K (fofZ i) dt)) = znth signal i (f0 K).
Proof. exact custom_at_sample. Qed.
Print Assumptions C41_custom_at_sample.
Theorem C41_custom_linear : forall (K : OFld) (floorf : K -> Z) signal dt start outside t,
  let idx := fdiv K (fsub K t start) dt in let i := floorf idx in
  0 <= i < Z.of_nat (length signal) - 1 ->
  custom_signal K floorf signal dt start outside false t
  = fadd K (znth signal i (f0 K)) (fmul K (fsub K idx (fofZ i)) (fsub K (znth signal (i + 1) (f0 K)) (znth signal i (f0 K)))).
Proof. exact custom_linear. Qed.
Print Assumptions C41_custom_linear.
Theorem C41_custom_outside : forall (K : OFld) (floorf : K -> Z) (signal : list K) (dt start outside : K) nearest (t : K),
  let i := floorf (fdiv K (fsub K t start) dt) in (i < 0 \/ Z.of_nat (length signal) <= i) ->
  custom_signal K floorf signal dt start outside nearest t = outside.
Proof. exact custom_outside. Qed.
Print Assumptions C41_custom_outside.

(* continuous-wave profile: the ramp starts at 0, is monotone, reaches 1 after the start-up time, and the amplitude
   stays within [-1, 1]  (cos is any function with values in [-1, 1]) *)
Theorem C41_ramp : forall (K : OFld) (d : K), fle K (f0 K) d -> d <> f0 K ->
  linear_rampup K (f0 K) d = f0 K
  /\ (forall t, fle K (f0 K) (linear_rampup K t d) /\ fle K (linear_rampup K t d) (f1 K))
  /\ (forall t, fle K d t -> linear_rampup K t d = f1 K)
  /\ (forall t1 t2, fle K t1 t2 -> fle K (linear_rampup K t1 d) (linear_rampup K t2 d)).
Proof.
  intros K d H0 Hn. split; [exact (ramp_start K d Hn)|]. split; [intros t; exact (ramp_bounds K t d)|].
  split; [intros t; exact (ramp_full K t d H0 Hn) | intros t1 t2; exact (ramp_mono K t1 t2 d H0 Hn)].
Qed.
Print Assumptions C41_ramp.
Theorem C41_single_frequency_bounded : forall (K : OFld) (cosf : K -> K) (two_pi : K),
  (forall x, fle K (fopp K (f1 K)) (cosf x) /\ fle K (cosf x) (f1 K)) ->
  forall own nstart t period ph,
  fle K (fopp K (f1 K)) (single_frequency K cosf two_pi own nstart t period ph) /\
  fle K (single_frequency K cosf two_pi own nstart t period ph) (f1 K).
Proof. exact single_frequency_bounded. Qed.
Print Assumptions C41_single_frequency_bounded.

(* Gaussian pulse: envelope in [0,1] for sigma <> 0, amplitude within [-1,1]
   (exp is any function with 0 <= exp(-y) <= 1 for y >= 0) *)
Theorem C41_gaussian_envelope_bounded : forall (K : OFld) (expf : K -> K),
  (forall y, fle K (f0 K) y -> fle K (f0 K) (expf (fopp K y)) /\ fle K (expf (fopp K y)) (f1 K)) ->
  forall t center sigma, sigma <> f0 K ->
  fle K (f0 K) (gaussian_envelope K expf t center sigma) /\ fle K (gaussian_envelope K expf t center sigma) (f1 K).
Proof. exact gaussian_envelope_bounded. Qed.
Print Assumptions C41_gaussian_envelope_bounded.
Theorem C41_gaussian_pulse_bounded : forall (K : OFld) (c0 : K) (cosf expf : K -> K) (two_pi : K),
  (forall x, fle K (fopp K (f1 K)) (cosf x) /\ fle K (cosf x) (f1 K)) ->
  (forall y, fle K (f0 K) y -> fle K (f0 K) (expf (fopp K y)) /\ fle K (expf (fopp K y)) (f1 K)) ->
  forall width center shift t ph, fmul K two_pi (get_frequency K c0 width) <> f0 K ->
  fle K (fopp K (f1 K)) (gaussian_pulse K c0 cosf expf two_pi width center shift t ph) /\
  fle K (gaussian_pulse K c0 cosf expf two_pi width center shift t ph) (f1 K).
Proof. exact gaussian_pulse_bounded. Qed.
Print Assumptions C41_gaussian_pulse_bounded.

(* non-vacuity: the hypotheses hold for the real cos / exp (instance ROF), and floor on Qc is exact on integers *)
Theorem C41_real_instance :
  (forall x : R, Rle (- (1)) (cos x) /\ Rle (cos x) 1) /\ (forall y : R, Rle 0 y -> Rle 0 (exp (- y)) /\ Rle (exp (- y)) 1)
  /\ forall t period : R,
     fle ROF (fopp ROF (f1 ROF)) (single_frequency ROF cos (2 * PI)%R PI 4%R t period 0%R) /\
     fle ROF (single_frequency ROF cos (2 * PI)%R PI 4%R t period 0%R) (f1 ROF).
Proof.
  split; [exact R_cos_bounds|]. split; [exact R_exp_bounds|]. intros t period.
  exact (single_frequency_bounded ROF cos (2 * PI)%R R_cos_bounds PI 4%R t period 0%R).
Qed.
Print Assumptions C41_real_instance.
Theorem C41_Qc_floor : forall i : Z, Qc_floor (fofZ (K := QcF) i) = i.
Proof. exact Qc_floor_int. Qed.
Print Assumptions C41_Qc_floor.

Example C41_example :
  Qc_eqb (custom_signal QcOF Qc_floor [q 1 1; q 3 1; q 2 1] (q 1 2) (q 1 1) (q 9 1) false (q 3 2)) (q 3 1) = true   (* sample 1 *)
  /\ Qc_eqb (custom_signal QcOF Qc_floor [q 1 1; q 3 1; q 2 1] (q 1 2) (q 1 1) (q 9 1) false (q 7 4)) (q 5 2) = true (* halfway 1..2 *)
  /\ Qc_eqb (custom_signal QcOF Qc_floor [q 1 1; q 3 1; q 2 1] (q 1 2) (q 1 1) (q 9 1) false (q 1 2)) (q 9 1) = true (* before start *)
  /\ Qc_eqb (fmul QcOF (get_period QcOF (q 3 1) (Wavelength (K := QcOF) (q 6 1))) (get_frequency QcOF (q 3 1) (Wavelength (K := QcOF) (q 6 1)))) (q 1 1) = true.
Proof. repeat split; vm_compute; reflexivity. Qed.
