(* C13 — plane sources radiate only in their stated direction.  Model: model/Tfsf.v; lemmas: proofs/Tfsf_proofs.v *)
From Coq Require Import ZArith.
From FV Require Import base.Scalar model.Tfsf proofs.Tfsf_proofs.

(* PARTIAL (DESIGN.md §5): the 1e-3 (uniform plane wave) and 10 % (Gaussian beam) leak thresholds depend on the numerical
   dispersion of the analytically sampled incident wave; they are measured by the check and never claimed as proved.
   Proved: the face injection rule of the source (which component receives which incident component, with which sign, at
   which cell and Yee time offset) nulls the field behind the source EXACTLY on the 1-D Yee line whenever the incident
   samples come from a solution (e, h) of the discrete source-free equations: Hinc = h_n(k0) (time n+1/2, position k0+1/2),
   Einc = e_{n+1}(k0).  Direction '+': zero on E cells k <= k0 and H cells k < k0; direction '-': zero on E cells k > k0 and
   H cells k >= k0.  By induction the property holds at every step from the zero state. *)
Theorem C13_tfsf_plus_exact_partial : forall (K : Fld) (c ie im : car K) (k0 : Z) (e h : nat -> line K),
  (forall n, step_free K c ie im (e n, h n) = (e (S n), h (S n))) ->
  forall n EH, form_plus K k0 e h n EH -> form_plus K k0 e h (S n) (step_src K c ie im (f1 K) k0 (h n k0) (e (S n) k0) EH).
Proof. exact tfsf_plus_exact. Qed.
Print Assumptions C13_tfsf_plus_exact_partial.

Theorem C13_tfsf_minus_exact_partial : forall (K : Fld) (c ie im : car K) (k0 : Z) (e h : nat -> line K),
  (forall n, step_free K c ie im (e n, h n) = (e (S n), h (S n))) ->
  forall n EH, form_minus K k0 e h n EH -> form_minus K k0 e h (S n) (step_src K c ie im (fopp K (f1 K)) k0 (h n k0) (e (S n) k0) EH).
Proof. exact tfsf_minus_exact. Qed.
Print Assumptions C13_tfsf_minus_exact_partial.
