(* C15 — detectors record the co-located fields of their region.
   Only statements closed by [exact]; model: model/Colocate.v, lemmas: proofs/Colocate_proofs.v.
   K is any field (base/Scalar.v); dims = grid shape, (lo, n) = detector region (start, extent),
   bnds = the boundary objects in container order, sym = config.symmetry, avg = None (uniform grid)
   or Some g (rectilinear grid, width-weighted averages). *)
From Coq Require Import List Arith Bool ZArith Lia QArith Qcanon.
From FV Require Import base.Scalar base.Sums base.Util base.DetectorsBase model.Detectors model.Colocate proofs.Colocate_proofs.
Import ListNotations.

(* (1) interior fast path = full-domain fallback restricted to the region:
   block = region plus one-cell halo cut out of the raw fields, interpolate_fields(region_slice=...)
   versus pad / zero / Bloch / mirror of the whole domain, interpolate_fields, then [:, *grid_slice].
   For every box with s >= 1 and e <= n-1 on each axis, every boundary list, no well-formedness needed. *)
Theorem C15_interior_eq_full :
  forall (K : Fld) (avg : option (Grid K)) (dims : shape3) (bnds : list (Bnd K)) (sym : Ax -> Z) (lo n : shape3)
         (E H Hprev : Vec K) (c i j k : nat),
  is_interior dims lo n = true -> (i < dimx n)%nat -> (j < dimy n)%nat -> (k < dimz n)%nat ->
  fst (path_block avg lo E H Hprev) c i j k = fst (path_full avg dims bnds sym lo E H Hprev) c i j k /\
  snd (path_block avg lo E H Hprev) c i j k = snd (path_full avg dims bnds sym lo E H Hprev) c i j k.
Proof. exact interior_eq_full. Qed.
Print Assumptions C15_interior_eq_full.

(* (2a) the padded array built by pad_fields (x, y, z in sequence), the zeroed min slab of a symmetric
   periodic axis, the Bloch corrections and the symmetry mirror (in boundary-list order) is, at every
   padded index including edges and corners, the separable one-cell extension of the field:
   zero / wrap / wrap * Bloch phase / parity * mirror partner per axis.
   wf: every axis has a cell and an axis with an electric mirror has two. *)
Theorem C15_padded_is_extended :
  forall (K : Fld) (dims : shape3) (bnds : list (Bnd K)) (sym : Ax -> Z) (isH : bool) (f : Vec K) (c : nat) (X Y Z : XI),
  wf K dims bnds sym -> (c < 3)%nat -> xi_ok (dimx dims) X -> xi_ok (dimy dims) Y -> xi_ok (dimz dims) Z ->
  pad_mirror dims bnds sym isH f c (pidx (dimx dims) X) (pidx (dimy dims) Y) (pidx (dimz dims) Z) = ext dims bnds sym isH f c X Y Z.
Proof. exact pad_mirror_ext. Qed.
Print Assumptions C15_padded_is_extended.

(* (2b) the slice stencil of interpolate_fields on that padded array = the neighbour-indexed
   specification: E_x x-backward/z-forward, E_y y-backward/z-forward, E_z as is, H_x y-backward,
   H_y x-backward, H_z x- and y-backward/z-forward, H time-centred as (H_prev + H)/2. *)
Theorem C15_colocation_spec_E :
  forall (K : Fld) (avg : option (Grid K)) (dims : shape3) (bnds : list (Bnd K)) (sym : Ax -> Z) (E H Hprev : Vec K) (c i j k : nat),
  wf K dims bnds sym -> (c < 3)%nat -> (i < dimx dims)%nat -> (j < dimy dims)%nat -> (k < dimz dims)%nat ->
  fst (full_interp avg dims bnds sym E H Hprev) c i j k = spec_E avg dims bnds sym E c i j k.
Proof. exact full_E_spec. Qed.
Print Assumptions C15_colocation_spec_E.

Theorem C15_colocation_spec_H :
  forall (K : Fld) (avg : option (Grid K)) (dims : shape3) (bnds : list (Bnd K)) (sym : Ax -> Z) (E H Hprev : Vec K) (c i j k : nat),
  wf K dims bnds sym -> (c < 3)%nat -> (i < dimx dims)%nat -> (j < dimy dims)%nat -> (k < dimz dims)%nat ->
  snd (full_interp avg dims bnds sym E H Hprev) c i j k = spec_H avg dims bnds sym H Hprev c i j k.
Proof. exact full_H_spec. Qed.
Print Assumptions C15_colocation_spec_H.

(* (1)+(2): what update_detector_states hands to an exact detector is the specification restricted
   to its region, identically whether the region touches the domain edge or not *)
Theorem C15_exact_fields_are_spec :
  forall (K : Fld) (avg : option (Grid K)) (dims : shape3) (bnds : list (Bnd K)) (sym : Ax -> Z) (lo n : shape3)
         (E H Hprev : Vec K) (c i j k : nat),
  wf K dims bnds sym -> in_box dims lo n -> (c < 3)%nat -> (i < dimx n)%nat -> (j < dimy n)%nat -> (k < dimz n)%nat ->
  fst (detector_fields true avg dims bnds sym lo n E H Hprev) c i j k = restrict lo (spec_E avg dims bnds sym E) c i j k /\
  snd (detector_fields true avg dims bnds sym lo n E H Hprev) c i j k = restrict lo (spec_H avg dims bnds sym H Hprev) c i j k.
Proof. exact detector_fields_spec. Qed.
Print Assumptions C15_exact_fields_are_spec.

(* the FieldDetector row r = canonical component (nth r sel) of the restricted specification *)
Theorem C15_record_spec :
  forall (K : Fld) (avg : option (Grid K)) (dims : shape3) (bnds : list (Bnd K)) (sym : Ax -> Z) (lo n : shape3)
         (E H Hprev : Vec K) (sel : list nat) (r i j k : nat),
  wf K dims bnds sym -> in_box dims lo n -> (nth r sel 0 < 6)%nat -> (i < dimx n)%nat -> (j < dimy n)%nat -> (k < dimz n)%nat ->
  record sel (detector_fields true avg dims bnds sym lo n E H Hprev) r i j k =
  EH (restrict lo (spec_E avg dims bnds sym E)) (restrict lo (spec_H avg dims bnds sym H Hprev)) (nth r sel 0%nat) i j k.
Proof. exact record_spec. Qed.
Print Assumptions C15_record_spec.

(* (3) without interpolation the raw slices are recorded *)
Theorem C15_raw_is_slice :
  forall (K : Fld) (avg : option (Grid K)) (dims : shape3) (bnds : list (Bnd K)) (sym : Ax -> Z) (lo n : shape3) (E H Hprev : Vec K),
  detector_fields false avg dims bnds sym lo n E H Hprev = (restrict lo E, restrict lo H).
Proof. exact detector_fields_raw. Qed.
Print Assumptions C15_raw_is_slice.

(* the width-weighted edge average degenerates to the arithmetic mean on equal widths (characteristic <> 2) *)
Theorem C15_weighted_equal_widths_is_mean :
  forall (K : Fld) (g : Grid K) (a : Ax) (i : nat) (cur prev w : K),
  (forall x, gw g a x = w) -> w <> f0 K -> fadd K (f1 K) (f1 K) <> f0 K ->
  edge_avg (Some g) a i cur prev = edge_avg None a i cur prev.
Proof. exact edge_avg_equal_widths. Qed.
Print Assumptions C15_weighted_equal_widths_is_mean.

(* non-vacuity: a 2x2x2 domain with an electric symmetry wall on x (mirror halo), periodic y, zero z;
   the hypotheses hold and the records at the corner cell are the expected numbers *)
Definition ex_bnds : list (Bnd QcF) :=
  [mkBnd AY false BPeriodic false; mkBnd AY true BPeriodic false; mkBnd AZ false BTerm false; mkBnd AX false BTerm true].
Definition ex_sym (a : Ax) : Z := match a with AX => (-1)%Z | _ => 0%Z end.
Definition ex_f : Vec QcF := fun c i j k => q (Z.of_nat (1 + c + 2 * i + 4 * j + 8 * k)) 1.
Example C15_example :
  wf QcF (2, 2, 2)%nat ex_bnds ex_sym /\ in_box (2, 2, 2)%nat (0, 0, 0)%nat (2, 2, 2)%nat /\
  is_interior (2, 2, 2)%nat (0, 0, 0)%nat (2, 2, 2)%nat = false /\
  (* E_y at cell (0,0,0): y-backward wraps to j = 1, z-forward at k = 1; tangential E is odd but not averaged along x *)
  Qc_eqb (fst (detector_fields true None (2, 2, 2)%nat ex_bnds ex_sym (0, 0, 0)%nat (2, 2, 2)%nat ex_f ex_f ex_f) 1%nat 0%nat 0%nat 0%nat) (q 8 1) = true /\
  (* E_x at cell (0,0,0): x-backward average with the even mirror image of itself *)
  Qc_eqb (fst (detector_fields true None (2, 2, 2)%nat ex_bnds ex_sym (0, 0, 0)%nat (2, 2, 2)%nat ex_f ex_f ex_f) 0%nat 0%nat 0%nat 0%nat) (q 5 1) = true /\
  (* H_x at (0,0,0): y-backward wrap *)
  Qc_eqb (snd (detector_fields true None (2, 2, 2)%nat ex_bnds ex_sym (0, 0, 0)%nat (2, 2, 2)%nat ex_f ex_f ex_f) 0%nat 0%nat 0%nat 0%nat) (q 3 1) = true.
Proof.
  split; [|split; [|split; [|split; [|split]]]].
  - intros a. destruct a; split; cbn; intros; try lia; try discriminate.
  - intros a. destruct a; cbn; lia.
  - reflexivity.
  - vm_compute. reflexivity.
  - vm_compute. reflexivity.
  - vm_compute. reflexivity.
Qed.
