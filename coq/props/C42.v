(* C42 — results do not depend on the number of devices.  Model: model/Sharding.v (shape arithmetic only). *)
From Coq Require Import List Arith.
From FV Require Import model.Sharding proofs.Sharding_proofs.
Import ListNotations.

(* PARTIAL: XLA's SPMD partitioner is runtime behaviour no Gallina model can exhibit.  Proved: splitting an axis over d devices
   and gathering is the identity exactly when d divides the extent (otherwise the request is rejected), all shards have equal
   size, and any cell-wise computation carried out shard by shard gives the single-device result whatever d is.  The Yee model
   itself has no device parameter; the check runs the real code under 1, 2 and 4 emulated host devices. *)
Theorem C42_gather_shard_id_partial : forall (X : Type) d (l : list X) parts, shard_axis d l = Some parts ->
  gather parts = l /\ length parts = d /\ Forall (fun p => length p = length l / d) parts.
Proof. intros X. exact (@gather_shard_id X). Qed.
Print Assumptions C42_gather_shard_id_partial.
Theorem C42_shard_rejects_partial : forall (X : Type) d (l : list X), shard_axis d l = None <-> d = 0 \/ length l mod d <> 0.
Proof. intros X. exact (@shard_rejects X). Qed.
Print Assumptions C42_shard_rejects_partial.
Theorem C42_cellwise_independent_partial : forall (X Y : Type) d d' (f : X -> Y) (l : list X) r r',
  on_devices d f l = Some r -> on_devices d' f l = Some r' -> r = r' /\ r = map f l.
Proof. intros X Y. exact (@on_devices_independent X Y). Qed.
Print Assumptions C42_cellwise_independent_partial.
Example C42_nonvacuous : on_devices 2 S [1;2;3;4] = Some [2;3;4;5] /\ on_devices 4 S [1;2;3;4] = Some [2;3;4;5] /\ on_devices 3 S [1;2;3;4] = None.
Proof. repeat split. Qed.
