(* C38 — equivalent grid descriptions give identical simulations.  Model: model/Yee.v; lemmas: proofs/Yee_metric.v *)
From Coq Require Import List Arith.
From FV Require Import base.Scalar base.Cplx model.Yee proofs.Yee_steps proofs.Yee_metric.
Import ListNotations.

(* PARTIAL in scope (PML-free scenes): a scene whose cell widths all equal its reference spacing (explicit rectilinear grid or
   quasi-uniform policy with equal spacings, solved on the non-uniform code path with metric factors) steps, for any number of
   steps, exactly like the same scene described by a uniform grid (all metric factors literally 1). *)
Theorem C38_equal_spacing_is_uniform_partial : forall (K : Fld) (sc : scene K),
  two K <> f0 K -> rf K sc <> f0 K ->
  (forall i, wx K sc i = rf K sc) -> (forall i, wy K sc i = rf K sc) -> (forall i, wz K sc i = rf K sc) ->
  pmls K sc = [] ->
  forall n s s', tstep s' = tstep s -> veqA K (fE s) (fE s') -> veqA K (fH s) (fH s') ->
  veqA K (fE (iterM K sc n s)) (fE (iterM K (unit_metric K sc) n s')) /\
  veqA K (fH (iterM K sc n s)) (fH (iterM K (unit_metric K sc) n s')).
Proof. intros K sc H2 Hr Hx Hy Hz Hp n. exact (forward_metric_n K sc H2 Hr Hx Hy Hz Hp n). Qed.
Print Assumptions C38_equal_spacing_is_uniform_partial.
