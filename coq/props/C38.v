(* C38 — equivalent grid descriptions give identical simulations.  Model: model/Yee.v; lemmas: proofs/Yee_metric.v, proofs/Yee_metric_pml.v *)
From Coq Require Import List Arith.
From FV Require Import base.Scalar base.Cplx model.Yee proofs.Yee_steps proofs.Yee_metric proofs.Yee_pml_loop proofs.Yee_metric_pml.
Import ListNotations.

(* For every scene of the model (any boundaries, materials, masks, sources, ANY list of CPML layers) whose cell widths all equal its
   reference spacing — an explicit rectilinear grid or a quasi-uniform policy with equal spacings, solved with metric factors — and any
   number of steps: the run equals, cell by cell (E, H and psi accumulators), the run of the same scene described by a uniform grid
   (unit_metric: all metric factors literally 1).  same_state relates the two states cell by cell. *)
Theorem C38_equal_spacing_is_uniform : forall (K : Fld) (sc : scene K),
  two K <> f0 K -> rf K sc <> f0 K ->
  (forall i, wx K sc i = rf K sc) -> (forall i, wy K sc i = rf K sc) -> (forall i, wz K sc i = rf K sc) ->
  forall n s s', same_state K s s' -> same_state K (iterM K sc n s) (iterM K (unit_metric K sc) n s').
Proof. intros K sc H2 Hr Hx Hy Hz n. exact (forward_metric_pml_n K sc H2 Hr Hx Hy Hz n). Qed.
Print Assumptions C38_equal_spacing_is_uniform.
