From FV Require Import model.Paint.
