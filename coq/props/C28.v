(* C28 — static materials are painted by placement order.
   Only statements closed by [exact]; model: model/Paint.v (+ model/PaintMaterials.v),
   lemmas: proofs/Paint_proofs.v.  Everything is generic over an ordered field K (executed at Qc). *)
From Coq Require Import ZArith List Bool QArith Qcanon.
From FV Require Import base.Scalar base.PaintBase model.PaintMaterials model.Paint proofs.Paint_proofs.
Import ListNotations.

(* [is_top K c objs o]: o is in the (unsorted) object list at some position i, covers the cell c
   (inside its slice, and its voxel mask is true there), no covering object has a higher
   placement_order, and every covering object of the same order sits at a position j <= i
   ("list order breaks ties"). *)

(* inverse permittivity / permeability, at any tier (1, 3 or 9 components), for any object list and
   any cell: if the material tensors can be inverted at that tier and the cell is grounded (a uniform
   object wrote it before any multi-material object touched it), the painted value is the inverse of
   the top object's material. *)
Theorem C28_cell_value_is_top_object :
  forall (K : OFld) (t : Tier) (prop : Mat K -> T9 K) (objs : list (RObj K)) (c : cell),
  Forall (inv_ok K t prop) objs ->
  grounded K c (sort_objs K objs) = true ->
  exists o, is_top K c objs o /\
            paint_inv K t prop objs c = Some (vinv K t (pick K t (prop (r_mat K o)))).
Proof. exact paint_inv_top. Qed.
Print Assumptions C28_cell_value_is_top_object.

(* conductivities: the top object's conductivity times the reference spacing *)
Theorem C28_conductivity_is_top_object :
  forall (K : OFld) (t : Tier) (prop : Mat K -> T9 K) (sp : K) (objs : list (RObj K)) (c : cell),
  grounded K c (sort_objs K objs) = true ->
  exists o, is_top K c objs o /\
            paint_cond K t prop sp objs c = vscale K t sp (pick K t (prop (r_mat K o))).
Proof. exact paint_cond_top. Qed.
Print Assumptions C28_conductivity_is_top_object.

(* "the volume is lowest": a uniform object whose slice contains the cell and whose order is strictly
   below every multi-material object touching the cell grounds the cell *)
Theorem C28_volume_grounds :
  forall (K : OFld) (c : cell) (v : RObj K) (objs : list (RObj K)),
  In v objs -> r_mask K v = None -> in_box c (r_box K v) = true ->
  (forall o, In o objs -> r_mask K o <> None -> in_box c (r_box K o) = true -> (r_order K v < r_order K o)%Z) ->
  grounded K c (sort_objs K objs) = true.
Proof. exact volume_grounds. Qed.
Print Assumptions C28_volume_grounds.

(* the tier-9 inverse written into the arrays is the matrix inverse *)
Theorem C28_full_tier_is_matrix_inverse :
  forall (K : OFld) (p : T9 K), det33 K p <> f0 K ->
  mul33 K p (inv33 K p) = id33 K /\ mul33 K (inv33 K p) p = id33 K.
Proof. exact inv33_both. Qed.
Print Assumptions C28_full_tier_is_matrix_inverse.

(* the material a multi-material object writes, looked up through the sorted material list
   (index of the name in the ordered names, then that entry of the ordered values), is the material
   registered under that name *)
Theorem C28_multi_material_is_named :
  forall (K : OFld) (mats : list (Mat K)) (sel : nat), multi_material K mats sel = nth_error mats sel.
Proof. exact multi_material_is_named. Qed.
Print Assumptions C28_multi_material_is_named.

(* the component count is the widest tier any material needs *)
Theorem C28_tier_is_widest_need :
  forall (K : OFld) (rel : K) (prop : Mat K -> T9 K) (mats : list (Mat K)),
  (forall m, In m mats -> tier_le (need K rel (prop m)) (tier_of K rel prop mats)) /\
  (mats = [] \/ exists m, In m mats /\ need K rel (prop m) = tier_of K rel prop mats).
Proof. exact tier_of_widest. Qed.
Print Assumptions C28_tier_is_widest_need.

(* the assembled output: component counts, per-cell contents (= the painted functions the theorems
   above speak about), scalar permeability iff no material is magnetic, conductivity arrays iff some
   material is conductive *)
Theorem C28_assemble :
  forall (K : OFld) (rel : K) shape c0 dt cn objs out robjs,
  assemble K rel shape c0 dt cn objs = Some out -> resolve_all K objs = Some robjs ->
  let mats := all_materials K objs in
  let sp := conductivity_spacing K c0 dt cn in
  let te := tier_of K rel (m_eps K) mats in
  out_eps_n K out = tier_n te /\
  combine (cells shape) (out_eps K out) =
    map (fun c => (c, option_map (vlist K te) (paint_inv K te (m_eps K) robjs c))) (cells shape) /\
  (out_mu K out = MuScalarOne K <-> forall m, In m mats -> is_magnetic K rel m = false) /\
  (forall n a, out_mu K out = MuArray K n a ->
     let tm := tier_of K rel (m_mu K) mats in
     n = tier_n tm /\ combine (cells shape) a = map (fun c => (c, option_map (vlist K tm) (paint_inv K tm (m_mu K) robjs c))) (cells shape)) /\
  (out_sige K out = None <-> forall m, In m mats -> is_econductive K rel m = false) /\
  (forall n a, out_sige K out = Some (n, a) ->
     let ts := tier_of K rel (m_sige K) mats in
     n = tier_n ts /\ combine (cells shape) a = map (fun c => (c, vlist K ts (paint_cond K ts (m_sige K) sp robjs c))) (cells shape)) /\
  (out_sigm K out = None <-> forall m, In m mats -> is_mconductive K rel m = false) /\
  (forall n a, out_sigm K out = Some (n, a) ->
     let ts := tier_of K rel (m_sigm K) mats in
     n = tier_n ts /\ combine (cells shape) a = map (fun c => (c, vlist K ts (paint_cond K ts (m_sigm K) sp robjs c))) (cells shape)).
Proof. exact assemble_reads_paint. Qed.
Print Assumptions C28_assemble.

(* storing the scalar 1.0 loses nothing: with identity permeabilities the array would hold 1 everywhere *)
Theorem C28_scalar_permeability_consistent :
  forall (K : OFld) (t : Tier) (objs : list (RObj K)) (c : cell),
  Forall (fun o => m_mu K (r_mat K o) = id33 K) objs -> grounded K c (sort_objs K objs) = true ->
  paint_inv K t (m_mu K) objs c = Some (pick K t (id33 K)).
Proof. exact nonmagnetic_array_would_be_one. Qed.
Print Assumptions C28_scalar_permeability_consistent.

(* non-vacuity: volume (eps 1) + box (eps 2, order 0) + later box (eps 4, order 0) + masked object of
   order 1 (eps 8): cell (1,1,1) is covered by all, the mask is true there -> 1/8; cell (0,0,0) is
   covered by the volume and the first box only -> 1/2; hypotheses of the theorems hold. *)
Definition ex_rel : Qc := q 1 1000000000.
Definition ex_objs : list (Obj QcOF) :=
  [ UNI (-1000) ((0,0,0),(3,3,3))%Z (MAT (D9 (q 1 1) (q 1 1) (q 1 1)) (D9 (q 1 1) (q 1 1) (q 1 1)) (D9 (q 0 1) (q 0 1) (q 0 1)) (D9 (q 0 1) (q 0 1) (q 0 1)));
    UNI 0 ((0,0,0),(2,2,2))%Z (MAT (D9 (q 2 1) (q 2 1) (q 2 1)) (D9 (q 1 1) (q 1 1) (q 1 1)) (D9 (q 0 1) (q 0 1) (q 0 1)) (D9 (q 0 1) (q 0 1) (q 0 1)));
    UNI 0 ((1,1,1),(3,3,3))%Z (MAT (D9 (q 4 1) (q 4 1) (q 4 1)) (D9 (q 1 1) (q 1 1) (q 1 1)) (D9 (q 0 1) (q 0 1) (q 0 1)) (D9 (q 0 1) (q 0 1) (q 0 1)));
    MUL 1 ((1,1,1),(3,3,3))%Z [MAT (D9 (q 9 1) (q 9 1) (q 9 1)) (D9 (q 1 1) (q 1 1) (q 1 1)) (D9 (q 0 1) (q 0 1) (q 0 1)) (D9 (q 0 1) (q 0 1) (q 0 1)); MAT (D9 (q 8 1) (q 8 1) (q 8 1)) (D9 (q 1 1) (q 1 1) (q 1 1)) (D9 (q 0 1) (q 0 1) (q 0 1)) (D9 (q 0 1) (q 0 1) (q 0 1))] 1
        [[[true; false]; [false; false]]; [[false; false]; [false; true]]] ].
Example C28_example :
  match resolve_all QcOF ex_objs with
  | Some r =>
      paint_inv QcOF Iso (m_eps QcOF) r (1,1,1)%Z = Some (q 1 8) /\
      paint_inv QcOF Iso (m_eps QcOF) r (0,0,0)%Z = Some (q 1 2) /\
      paint_inv QcOF Iso (m_eps QcOF) r (2,2,2)%Z = Some (q 1 8) /\
      paint_inv QcOF Iso (m_eps QcOF) r (2,2,1)%Z = Some (q 1 4) /\
      grounded QcOF (1,1,1)%Z (sort_objs QcOF r) = true /\
      tier_of QcOF ex_rel (m_eps QcOF) (all_materials QcOF ex_objs) = Iso
  | None => False
  end.
Proof. vm_compute. repeat split; reflexivity. Qed.
