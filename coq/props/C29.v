(* C29 — sources and detectors see the device materials after parameters are applied.
   Only statements closed by [exact]; model: model/DeviceOverlap.v, lemmas: proofs/DeviceOverlap_proofs.v.
   box = ((x0,x1),(y0,y1),(z0,z1)) = _grid_slice_tuple (python slices: cells x0..x1-1).
   check_overlap is the REPAIRED predicate (fixes/C29.patch); check_overlap_src_old the unchanged one. *)
From Coq Require Import ZArith List Bool.
From FV Require Import base.PyNum model.DeviceOverlap proofs.DeviceOverlap_proofs.
Import ListNotations.
Open Scope Z_scope.

(* ALL boxes (no well-formedness needed): boxes with a common cell are reported as overlapping *)
Theorem C29_intersecting_boxes_overlap : forall a b, share_cell a b -> check_overlap a b = true.
Proof. exact share_cell_overlap. Qed.
Print Assumptions C29_intersecting_boxes_overlap.

(* exact characterisation for boxes with x0<=x1 on every axis: true iff the closed boxes have a common grid point *)
Theorem C29_overlap_iff_intersect : forall a b, proper a -> proper b ->
  (check_overlap a b = true <-> share_point a b).
Proof. exact overlap_iff_share_point. Qed.
Print Assumptions C29_overlap_iff_intersect.

(* in cells, for non-empty boxes: true iff self has a cell in other grown by one cell on every side
   (a common cell, or contact at a face/edge/corner — the conservative convention the repository's tests pin) *)
Theorem C29_overlap_iff_share_cell_or_touch : forall a b, well_formed a -> well_formed b ->
  (check_overlap a b = true <-> share_cell a (grow b)).
Proof. exact overlap_iff_share_cell_grown. Qed.
Print Assumptions C29_overlap_iff_share_cell_or_touch.

(* apply_params' object loop: every object whose region shares a cell with some device is re-applied against
   the materials handed to the loop (the post-device arrays), for any object/material/key types *)
Theorem C29_every_intersecting_object_reapplied :
  forall (O M Key : Type) (box_of : O -> box) (apply : Key -> M -> O -> O) (split : Key -> Key * Key)
         (devs : list O) (m : M) (key : Key) (objs : list O) (i : nat) (o : O),
  nth_error objs i = Some o ->
  (exists d, In d devs /\ share_cell (box_of d) (box_of o)) ->
  exists k, nth_error (reapply_loop O M Key box_of apply split check_overlap devs m key objs) i = Some (apply k m o).
Proof. exact every_intersecting_object_reapplied_fixed. Qed.
Print Assumptions C29_every_intersecting_object_reapplied.

(* place_objects followed by apply_params: EVERY object ends up in the state of a set-up against the final
   materials m1, provided apply reads only the object's own cells (agree), keeps its box, and the device
   writes leave boxes that share no cell with a device unchanged (the frame property of C18) *)
Theorem C29_all_objects_current :
  forall (O M Key : Type) (box_of : O -> box) (apply : Key -> M -> O -> O) (split : Key -> Key * Key)
         (agree : box -> M -> M -> Prop),
  (forall k o m m', agree (box_of o) m m' -> apply k m o = apply k m' o) ->
  (forall k m o, box_of (apply k m o) = box_of o) ->
  forall devs m0 m1 key0 key1 objs i o,
  (forall b, (forall d, In d devs -> ~ share_cell (box_of d) b) -> agree b m0 m1) ->
  nth_error objs i = Some o ->
  exists k, nth_error (reapply_loop O M Key box_of apply split check_overlap devs m1 key1
                         (place_loop O M Key box_of apply split check_overlap devs m0 key0 objs)) i
            = Some (apply k m1 o).
Proof. exact all_objects_current_fixed. Qed.
Print Assumptions C29_all_objects_current.

(* UNCHANGED source: an object strictly inside a device is not reported (so it keeps its pre-device state) *)
Theorem C29_src_old_refuted :
  exists dev obj, well_formed dev /\ well_formed obj /\ share_cell dev obj /\ check_overlap_src_old dev obj = false.
Proof. exact src_old_refuted_inside. Qed.
Print Assumptions C29_src_old_refuted.

(* non-vacuity: the loop on a concrete list — boxes as objects, apply tags nothing, Key = nat *)
Example C29_example :
  reapplied box (fun b => b) check_overlap [((2, 10), (2, 10), (2, 10))]
    [((4, 6), (4, 6), (5, 6)); ((12, 14), (12, 14), (12, 14)); ((10, 12), (2, 10), (2, 10)); ((0, 12), (0, 12), (0, 12))]
  = [true; false; true; true]
  /\ reapplied box (fun b => b) check_overlap_src_old [((2, 10), (2, 10), (2, 10))]
    [((4, 6), (4, 6), (5, 6)); ((12, 14), (12, 14), (12, 14)); ((10, 12), (2, 10), (2, 10)); ((0, 12), (0, 12), (0, 12))]
  = [false; false; true; true].
Proof. split; vm_compute; reflexivity. Qed.
