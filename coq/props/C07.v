(* C07 — stopping conditions stop exactly where documented.
   Model: model/Loop.v (run_until = bounded while loop), model/Stop.v (the three conditions); lemmas: proofs/Stop_proofs.v.
   The float comparison "energy < threshold" and the FFT convergence verdict are oracle predicates on the state. *)
From Coq Require Import ZArith List Bool.
From FV Require Import model.Loop model.Stop proofs.Loop_proofs proofs.Stop_proofs.
Open Scope Z_scope.

Theorem C07_stop_is_first : forall (S : Type) (fwd : S -> S) (step_of : S -> Z),
  (forall s, step_of (fwd s) = step_of s + 1) ->
  forall T (cond : S -> bool) s0, 0 <= T ->
  exists k, (k <= Z.to_nat T)%nat /\ run_until S fwd T cond s0 = iter S fwd k s0 /\
            (forall j, (j < k)%nat -> cond (iter S fwd j s0) = true) /\ (k = Z.to_nat T \/ cond (iter S fwd k s0) = false).
Proof. exact stop_is_first. Qed.
Print Assumptions C07_stop_is_first.

Theorem C07_energy_cond_bounds : forall (S : Type) (fwd : S -> S) (step_of : S -> Z),
  (forall s, step_of (fwd s) = step_of s + 1) ->
  forall T mn mx below s0, 0 <= T -> step_of s0 = 0 ->
  exists k, run_until S fwd T (cond_energy S step_of mn mx below) s0 = iter S fwd k s0 /\
    Z.of_nat k <= Z.min (Z.max 0 mx) T /\
    (Z.of_nat k < Z.min (Z.max 0 mx) T -> mn <= Z.of_nat k /\ below (iter S fwd k s0) = true) /\
    (forall j, (j < k)%nat -> Z.of_nat j < mn \/ below (iter S fwd j s0) = false).
Proof. exact energy_cond_bounds. Qed.
Print Assumptions C07_energy_cond_bounds.

Theorem C07_detector_cond_bounds : forall (S : Type) (fwd : S -> S) (step_of : S -> Z),
  (forall s, step_of (fwd s) = step_of s + 1) ->
  forall T mn mx conv s0, 0 <= T -> step_of s0 = 0 ->
  exists k, run_until S fwd T (cond_detector S step_of mn mx conv) s0 = iter S fwd k s0 /\
    Z.of_nat k <= Z.min (Z.max 0 mx) T /\
    (Z.of_nat k < Z.min (Z.max 0 mx) T -> mn <= Z.of_nat k /\ conv (iter S fwd k s0) = true) /\
    (forall j, (j < k)%nat -> Z.of_nat j < mn \/ conv (iter S fwd j s0) = false).
Proof. exact detector_cond_bounds. Qed.
Print Assumptions C07_detector_cond_bounds.

(* a bound the user sets to 0 is a bound, not "unset": max_steps = 0 stops before the first step whatever the default would be,
   min_steps = 0 lets the verdict at step 0 stop the run *)
Theorem C07_explicit_zero_bounds : forall (S : Type) (fwd : S -> S) (step_of : S -> Z),
  (forall s, step_of (fwd s) = step_of s + 1) ->
  forall T mn mx d verdict s0, 0 <= T -> step_of s0 = 0 ->
  run_until S fwd T (cond_energy S step_of mn (setup_bound (Some 0) d) verdict) s0 = s0
  /\ run_until S fwd T (cond_detector S step_of mn (setup_bound (Some 0) d) verdict) s0 = s0
  /\ (verdict s0 = true ->
      run_until S fwd T (cond_energy S step_of (setup_bound (Some 0) d) mx verdict) s0 = s0
      /\ run_until S fwd T (cond_detector S step_of (setup_bound (Some 0) d) mx verdict) s0 = s0).
Proof.
  intros S fwd step_of Hs T mn mx d verdict s0 HT H0.
  destruct (explicit_zero_max_stops_at_once S fwd step_of Hs T mn d verdict s0 HT H0) as [A B].
  split; [exact A|]. split; [exact B|]. intros Hv.
  exact (explicit_zero_min_checks_from_start S fwd step_of Hs T d mx verdict s0 HT H0 Hv).
Qed.
Print Assumptions C07_explicit_zero_bounds.

(* regression witness: the snapshot's detector condition never read max_steps *)
Theorem C07_detector_src_old_refuted :
  exists T mn mx, mx < T /\ run_until Z Z.succ T (cond_detector_src_old Z (fun s => s) T mn mx (fun _ => false)) 0 = T.
Proof. exact detector_cond_src_old_refuted. Qed.
Print Assumptions C07_detector_src_old_refuted.

Example C07_nonvacuous :
  run_until Z Z.succ 60 (cond_detector Z (fun s => s) 18 30 (fun s => 25 <=? s)) 0 = 25
  /\ run_until Z Z.succ 60 (cond_energy Z (fun s => s) 9 40 (fun s => 12 <=? s)) 0 = 12.
Proof. split; vm_compute; reflexivity. Qed.
