(* C25 — brush-constrained designs are unions of brush placements.  PARTIAL.
   Model: model/MorphBrush.v (faithful fuelled loop of BrushConstraint2D._generator); lemmas: proofs/MorphBrush_proofs.v.
   bget bs brush i j p q = pixel (i,j) lies in the footprint of the brush centred at touch (p,q). *)
From Coq Require Import List ZArith Arith Bool.
From FV Require Import base.Util base.MorphBase model.MorphBrush proofs.MorphBrush_proofs.
Import ListNotations.

(* whenever the generator returns, its solid region is exactly the union of the in-domain parts of the brush
   footprints centred at the solid touches (so every solid pixel belongs to a brush placement lying in the solid) *)
Theorem C25_solid_is_union_of_footprints : forall nx ny bs brush design fuel r,
  generator nx ny bs brush design fuel = Some r ->
  exists tv ts, generator_touches nx ny bs brush design fuel = Some (tv, ts) /\
    forall i j, i < nx -> j < ny ->
      (get2 r i j = true <-> exists p q, p < nx /\ q < ny /\ get2 ts p q = true /\ bget bs brush i j p q = true).
Proof. exact generator_solid_union. Qed.
Print Assumptions C25_solid_is_union_of_footprints.

(* at exit every pixel lies in the footprint of a solid touch or of a void touch *)
Theorem C25_exit_covered : forall nx ny bs brush design fuel tv ts,
  generator_touches nx ny bs brush design fuel = Some (tv, ts) ->
  forall i j, i < nx -> j < ny -> get2 (dil nx ny bs brush ts) i j = true \/ get2 (dil nx ny bs brush tv) i j = true.
Proof. exact generator_exit_covered. Qed.
Print Assumptions C25_exit_covered.

(* touches are never withdrawn by an iteration *)
Theorem C25_touches_grow : forall nx ny bs brush design tv ts i j, i < nx -> j < ny ->
  (get2 tv i j = true -> get2 (fst (body nx ny bs brush design (tv, ts))) i j = true) /\
  (get2 ts i j = true -> get2 (snd (body nx ny bs brush design (tv, ts))) i j = true).
Proof. exact body_grows. Qed.
Print Assumptions C25_touches_grow.

(* termination under the feasibility hypothesis [progress]: as long as something is uncovered, an iteration adds
   at least one touch (the paper's assumption that a valid touch exists); then 2*nx*ny+1 iterations suffice *)
Theorem C25_terminates_if_progress_partial : forall nx ny bs brush design,
  progress nx ny bs brush design ->
  exists r, generator nx ny bs brush design (length (cells2 nx ny) + length (cells2 nx ny) + 1) = Some r.
Proof. exact generator_terminates. Qed.
Print Assumptions C25_terminates_if_progress_partial.

(* bounded-exhaustive: for EVERY two-level design on the boxes of brush_family (circular_brush(2.5) up to 3x3,
   circular_brush(1) up to 2x3) the loop terminates and the void region (complement of the result) is exactly the
   union of the void touches' footprints: solid and void footprints are disjoint and cover the domain *)
Theorem C25_void_is_union_bounded_partial : forall nx ny bs brush l,
  In (nx, ny, bs, brush) brush_family -> length l = nx * ny ->
  exists tv ts, generator_touches nx ny bs brush (design_of ny l) (2 * (nx * ny) + 1) = Some (tv, ts) /\
    forall i j, i < nx -> j < ny -> get2 (dil nx ny bs brush tv) i j = negb (get2 (dil nx ny bs brush ts) i j).
Proof. exact brush_bounded_spec. Qed.
Print Assumptions C25_void_is_union_bounded_partial.

(* non-vacuity: a 3x3 design with the plus-shaped brush *)
Example C25_example :
  generator 3 3 3 plus3 (design_of 3 [true; true; true; true; true; true; false; true; false]) 19
    = Some [[true; true; true]; [false; true; false]; [false; false; false]]
  /\ In (3, 3, 3, plus3) brush_family.
Proof. split; [vm_compute; reflexivity | vm_compute; tauto]. Qed.
