(* C24 — median filter and pillar discretization match their definitions.
   Model: model/MorphFilter.v; lemmas: proofs/MorphFilter_proofs.v.
   ext .. a i j k = value of the design a padded according to the PaddingConfig (constant / edge per face,
   applied axis 0 first as advanced_padding does), zero beyond the padding;  window k i = the k indices
   read by convolve(mode="same") around i (centred for odd k);  boxsum = number of ones in the box. *)
From Coq Require Import List ZArith Bool.
From FV Require Import base.Scalar base.PyNum base.Util base.MorphBase model.MorphFilter proofs.MorphFilter_proofs.
Import ListNotations.
Open Scope Z_scope.

(* BinaryMedianFilterModule (one application): for an odd box, every voxel of the result is 1 exactly when
   more than half of its box neighbourhood in the padded design is 1 (no tie is possible) *)
Theorem C24_median_eq_majority : forall nx ny nz px py pz k0 k1 k2 a (i j k : nat),
  0 < k0 -> 0 < k1 -> 0 < k2 -> Z.odd (k0 * k1 * k2) = true ->
  Z.of_nat i < nx -> Z.of_nat j < ny -> Z.of_nat k < nz ->
  get3 (median_filter nx ny nz px py pz k0 k1 k2 a) i j k =
    (k0 * k1 * k2 <? 2 * boxsum nx ny nz px py pz k0 k1 k2 a (Z.of_nat i) (Z.of_nat j) (Z.of_nat k)).
Proof. exact median_filter_majority. Qed.
Print Assumptions C24_median_eq_majority.

(* the rounding step alone: round-half-even of S/K is the strict majority test when K is odd *)
Theorem C24_round_is_majority : forall S K, 0 < K -> Z.odd K = true -> 0 <= S <= K ->
  (py_round_div S K =? 1) = (K <? 2 * S).
Proof. exact round_majority. Qed.
Print Assumptions C24_round_is_majority.

(* PillarDiscretization: the index chosen by argmin over the allowed columns is in range and minimises the
   configured distance (any ordered field; executed at Qc) *)
Theorem C24_pillar_argmin : forall (K : OFld) euclid inv_perm allowed v, allowed <> [] ->
  let ds := pillar_dists K euclid inv_perm allowed v in
  let c := pillar_choice K euclid inv_perm allowed v in
  (c < length allowed)%nat /\ forall q, (q < length allowed)%nat -> fle K (nth c ds (f0 K)) (nth q ds (f0 K)).
Proof. exact pillar_choice_min. Qed.
Print Assumptions C24_pillar_argmin.

(* allowed columns: background only as a top suffix, at most one non-background material if requested *)
Theorem C24_allowed_columns_char : forall L nm bg single col, (bg < nm)%nat -> (exists v, (v < nm)%nat /\ v <> bg) ->
  (In col (allowed_columns L nm bg single) <-> col_spec L nm bg single col).
Proof. exact allowed_columns_char. Qed.
Print Assumptions C24_allowed_columns_char.

(* non-vacuity *)
Example C24_example :
  median_filter 3 1 1 ({| pe_width := 1; pe_const := Some true |}, {| pe_width := 1; pe_const := None |})
                      ({| pe_width := 0; pe_const := None |}, {| pe_width := 0; pe_const := None |})
                      ({| pe_width := 0; pe_const := None |}, {| pe_width := 0; pe_const := None |}) 3 1 1
                      [[[false]]; [[true]]; [[false]]] = [[[true]]; [[false]]; [[false]]]
  /\ colset_eqb (allowed_columns 2 3 0 true) [[0;0]%nat; [1;0]%nat; [2;0]%nat; [1;1]%nat; [2;2]%nat] = true.
Proof. split; vm_compute; reflexivity. Qed.
