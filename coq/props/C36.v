(* C36 — dispersive cells follow their recurrence and accepted passive media stay bounded.
   Model: model/YeeDisp.v (ADE block of update_E, diagonal branch, no CCPR c4 term); lemmas: proofs/YeeDisp_proofs.v *)
From Coq Require Import List Arith.
From FV Require Import base.Scalar base.Cplx model.Yee model.YeeDisp proofs.Yee_steps proofs.YeeDisp_proofs.
Import ListNotations.

(* PARTIAL (DESIGN.md §5): the boundedness clause (energy within a factor 10 of its initial value for 10^4 steps for every passive
   Lorentz/Drude medium that placement accepts) is a coupled field-polarisation stability statement that is not proved here; it is
   measured by the check, and it FAILS on the unchanged tree for strongly coupled poles at Courant factor 0.99 (KNOWN_FINDINGS). *)

(* the stored polarisation follows P^{n+1} = c1 P^n + c2 P^{n-1} + c3 E^n, pole by pole, and P_prev' = P_curr *)
Theorem C36_P_follows_recurrence : forall (K : Fld) (sc : scene K) ps st t E H, length st = length ps ->
  let st' := snd (update_E_disp K sc ps st t E H) in
  length st' = length ps /\
  forall n p s, nth_error ps n = Some p -> nth_error st n = Some s -> nth_error st' n = Some (phat K p s E, fst s).
Proof. exact P_follows_recurrence. Qed.
Print Assumptions C36_P_follows_recurrence.

(* a cell whose pole coefficients are all zero (and whose stored polarisation is zero, as after reset) is updated exactly like the
   same cell without dispersion (stepE = the non-dispersive E update of model/Yee.v), and stays in that condition *)
Theorem C36_zero_coeff_cell_plain : forall (K : Fld) (sc : scene K) ps st t E H i j k, inert_cell K ps st i j k ->
  let r := update_E_disp K sc ps st t E H in
  vx (fst r) i j k = vx (stepE K sc (injE K sc t) E H) i j k /\
  vy (fst r) i j k = vy (stepE K sc (injE K sc t) E H) i j k /\
  vz (fst r) i j k = vz (stepE K sc (injE K sc t) E H) i j k /\
  inert_cell K ps (snd r) i j k.
Proof. exact zero_coeff_cell_plain. Qed.
Print Assumptions C36_zero_coeff_cell_plain.
