(* C01 — discrete electromagnetic energy is conserved, and lossy media only dissipate.
   Statements only; model: model/Yee.v (+ energy2 in model/YeeExec.v); lemmas: proofs/Yee_*.v *)
From Coq Require Import List Arith QArith Qcanon.
From FV Require Import base.Scalar base.Cplx base.Sums base.Order model.Yee model.YeeExec
     proofs.Yee_adjoint proofs.Yee_energy proofs.Yee_dissipation proofs.YeeExec_proofs.
Import ListNotations.

(* closed_scene K sc (proofs/Yee_energy.v): no PML, ghost factors with lo = conj hi on every axis
   (zero halo 0/0, periodic 1/1, Bloch phase/conj phase), non-zero cell widths and dual widths,
   non-zero inverse permittivity/permeability (1, 3 comps), 0/1 PEC and PMC masks on any faces,
   no sources, no magnetic conductivity.   lossless: sigma_E = 0 in the box.
   energy2 sc Hprev s = sum wE/inv_eps |E|^2 + sum wH/inv_mu Re(H conj Hprev)  (cell-volume weights from the widths). *)

(* the weighted discrete curls are mutually adjoint: every grid size, boundary combination, width list *)
Theorem C01_curl_adjoint : forall (K : Fld) (sc : scene K),
  lox K sc = cconj (hix K sc) -> loy K sc = cconj (hiy K sc) -> loz K sc = cconj (hiz K sc) ->
  (forall i, (i < nx K sc)%nat -> wx K sc i <> f0 K /\ dual K (wx K sc) i <> f0 K) ->
  (forall i, (i < ny K sc)%nat -> wy K sc i <> f0 K /\ dual K (wy K sc) i <> f0 K) ->
  (forall i, (i < nz K sc)%nat -> wz K sc i <> f0 K /\ dual K (wz K sc) i <> f0 K) ->
  forall H G, dotE K sc (curlH_raw K sc H) G = dotH K sc H (curlE_raw K sc G).
Proof. exact curl_adjoint. Qed.
Print Assumptions C01_curl_adjoint.

(* energy after step n+1 (with H_n as previous half-step) = energy after step 1, for every n and every state *)
Theorem C01_energy_conserved : forall (K : Fld) (sc : scene K),
  closed_scene K sc -> lossless K sc ->
  forall n s, energy2 K sc (fH (iterF K sc n s)) (iterF K sc (S n) s) = energy2 K sc (fH s) (forward K sc s).
Proof. intros K sc CS LL n s. exact (energy_conserved_n K sc CS LL n s). Qed.
Print Assumptions C01_energy_conserved.

(* with sigma_E >= 0 (passive: cn, eta0, weights, inv_eps, sigma_E >= 0) the energy never increases,
   and the decrease is exactly `loss` *)
Theorem C01_energy_dissipates : forall (K : OFld) (sc : scene K),
  closed_scene K sc -> passive K sc ->
  forall s, fle K (energy2 K sc (fH (forward K sc s)) (forward K sc (forward K sc s))) (energy2 K sc (fH s) (forward K sc s)).
Proof. exact energy_dissipates. Qed.
Print Assumptions C01_energy_dissipates.

Theorem C01_energy_balance : forall (K : OFld) (sc : scene K),
  closed_scene K sc -> passive K sc ->
  forall s, energy2 K sc (fH (forward K sc s)) (forward K sc (forward K sc s))
            = fsub K (energy2 K sc (fH s) (forward K sc s)) (loss K sc (fE (forward K sc s)) (fE (forward K sc (forward K sc s)))).
Proof. exact energy_balance. Qed.
Print Assumptions C01_energy_balance.

(* what the correspondence executes is, cell by cell, what the theorems are about *)
Theorem C01_executed_is_forward : forall (K : Fld) (sc : scene K) s i j k,
  (i < nx K sc)%nat -> (j < ny K sc)%nat -> (k < nz K sc)%nat ->
  vx (fE (forwardX K sc s)) i j k = vx (fE (forward K sc s)) i j k /\
  vy (fE (forwardX K sc s)) i j k = vy (fE (forward K sc s)) i j k /\
  vz (fE (forwardX K sc s)) i j k = vz (fE (forward K sc s)) i j k /\
  vx (fH (forwardX K sc s)) i j k = vx (fH (forward K sc s)) i j k /\
  vy (fH (forwardX K sc s)) i j k = vy (fH (forward K sc s)) i j k /\
  vz (fH (forwardX K sc s)) i j k = vz (fH (forward K sc s)) i j k /\
  tstep (forwardX K sc s) = tstep (forward K sc s).
Proof. exact forwardX_in_box. Qed.
Print Assumptions C01_executed_is_forward.

(* ---- non-vacuity: a periodic 2x2x2 box satisfies the hypotheses and carries non-zero energy ---- *)
Definition one3 : R3 QcF := fun _ _ _ => 1%Qc.
Definition zero3 : R3 QcF := fun _ _ _ => 0%Qc.
Definition ex_scene : scene QcF :=
  mkScene QcF 2 2 2 (1%Qc, 0%Qc) (1%Qc, 0%Qc) (1%Qc, 0%Qc) (1%Qc, 0%Qc) (1%Qc, 0%Qc) (1%Qc, 0%Qc)
    (fun _ => 1%Qc) (fun _ => 1%Qc) (fun _ => 1%Qc) 1%Qc
    (mkM one3 one3 one3) (mkM one3 one3 one3) (mkM zero3 zero3 zero3) (mkM zero3 zero3 zero3)
    (q 377 1) (q 1 2) (mkM one3 one3 one3) (mkM one3 one3 one3) []
    (fun _ => vzero QcF) (fun _ => vzero QcF).
Definition cq (a : Z) (b : Z) : C QcF := (q a b, 0%Qc).
Definition ex_state : state QcF :=
  mkSt (K:=QcF) 0 (mkV (K:=QcF) (fun i j k => cq (Z.of_nat (i + 2 * j + k)) 4) (fun i j k => cq (Z.of_nat (i * k)) 2) (fun _ _ _ => cq 1 1))
         (mkV (K:=QcF) (fun i j k => cq (Z.of_nat j) 4) (fun _ _ _ => cq 0 1) (fun i j k => cq (Z.of_nat (i + k)) 2)) [] [].
Example C01_nonvacuous :
  closed_scene QcF ex_scene /\ lossless QcF ex_scene /\
  energy2 QcF ex_scene (fH ex_state) (forward QcF ex_scene ex_state) <> 0%Qc /\
  energy2 QcF ex_scene (fH (iterF QcF ex_scene 2 ex_state)) (iterF QcF ex_scene 3 ex_state)
  = energy2 QcF ex_scene (fH ex_state) (forward QcF ex_scene ex_state).
Proof.
  assert (N1 : (1%Qc : QcF) <> 0%Qc) by discriminate.
  assert (N2 : dual QcF (fun _ => 1%Qc) 0 <> 0%Qc) by (vm_compute; discriminate).
  split; [|split; [|split]].
  - constructor; cbn; try reflexivity; intros; repeat split; auto; try (left; reflexivity); try (right; reflexivity).
  - intros i j k _. repeat split.
  - vm_compute. discriminate.
  - vm_compute. reflexivity.
Qed.
