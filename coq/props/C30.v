(* C30 — recorded boundary data decompresses to what was recorded.
   Only statements closed by [exact]; model: model/Recorder.v (the repaired code, fixes/C30.patch; the
   unchanged source is the [legacy]/_src_old variant), lemmas: proofs/Recorder_proofs.v. *)
From Coq Require Import ZArith List Bool QArith Qcanon.
From FV Require Import base.Scalar base.PyNum base.Util base.RecorderBase model.Recorder proofs.Recorder_proofs.
Import ListNotations.
Open Scope Z_scope.

(* A pipeline  [DtypeConversion…] ++ [LinearReconstructEveryK(k, start)] ++ [DtypeConversion…]  (conversions as
   arbitrary (compress, decompress) function pairs over any field K), recording a value history [vals] at the
   steps 0..T-1 into zero storage and decompressing step t >= start:
   - the saved steps are exactly start, start+k, … (< T) and T-1;
   - a saved step returns the recorded value passed through the conversions and back;
   - any other step returns the linear interpolation between the two enclosing saved steps p < t < n
     (consecutive saved steps), weight (t-p)/(n-p), taken between the round-tripped stored values;
   independent of the fill value [nan] of out-of-range reads. *)
Theorem C30_decompress_spec :
  forall (K : Fld) (pre post : list ((K -> K) * (K -> K))) (nan : K) T k s (vals : Z -> K) t,
  0 < k -> 0 <= s < T -> s <= t < T ->
  exists sv, save_steps T k s = Some sv /\
    (forall x, In x sv <-> s <= x < T /\ ((x - s) mod k = 0 \/ x = T - 1)) /\
    let C v := call post (call pre v) in
    let R := run_recorder K false nan (sconvs pre ++ SEveryK k s :: sconvs post) T vals t in
    (In t sv -> R = Some (dall pre (dall post (C (vals t))))) /\
    (~ In t sv -> exists p n, In p sv /\ In n sv /\ p < t < n /\ (forall x, In x sv -> x <= p \/ n <= x) /\
       R = Some (dall pre (lerp K (dall post (C (vals p))) (dall post (C (vals n))) (fdiv K (fofZ (t - p)) (fofZ (n - p)))))).
Proof. exact decompress_spec. Qed.
Print Assumptions C30_decompress_spec.

(* conversions only (no time filter): every step is stored and comes back through the conversions *)
Theorem C30_no_filter :
  forall (K : Fld) (cs : list ((K -> K) * (K -> K))) (nan : K) T (vals : Z -> K) t, 0 <= t < T ->
  run_recorder K false nan (sconvs cs) T vals t = Some (dall cs (call cs (vals t))).
Proof. exact decompress_no_filter. Qed.
Print Assumptions C30_no_filter.

(* widening conversions (decompress (compress x) = x for every module) round-trip exactly; a conversion that is
   the identity on values (every float32 is a float64) disappears from both formulas *)
Theorem C30_widening_roundtrip :
  forall (K : Fld) (l : list ((K -> K) * (K -> K))) (v : K),
  (forall cd, In cd l -> forall x, snd cd (fst cd x) = x) -> dall l (call l v) = v.
Proof. exact dall_call_roundtrip. Qed.
Print Assumptions C30_widening_roundtrip.
Theorem C30_identity_conversions :
  forall (K : Fld) (l : list ((K -> K) * (K -> K))) (v : K),
  (forall cd, In cd l -> forall x, fst cd x = x) /\ (forall cd, In cd l -> forall x, snd cd x = x) ->
  call l v = v /\ dall l v = v.
Proof. intros K l v [A B]. split; [exact (call_id K l v A) | exact (dall_id K l v B)]. Qed.
Print Assumptions C30_identity_conversions.

(* the interpolation weight of the executable instance is the rational number (t-p)/(n-p) *)
Theorem C30_weight_Qc : forall z, fofZ (K := QcF) z = Q2Qc (inject_Z z).
Proof. exact fofZ_Qc. Qed.
Print Assumptions C30_weight_Qc.

(* the correspondence evaluates [run_many] (one initialisation and one recording for all steps) *)
Theorem C30_run_many : forall (K : Fld) lg nan specs T vals ts,
  map (run_recorder K lg nan specs T vals) ts =
  match run_many K lg nan specs T vals ts with Some l => map Some l | None => map (fun _ => None) ts end.
Proof. exact run_many_spec. Qed.
Print Assumptions C30_run_many.

(* regression: the unchanged source violates the property (kept as the legacy variant of the model) *)
Theorem C30_decompress_src_old_refuted :
  exists T k s t (vals : Z -> Qc), 0 < k /\ 0 <= s < T /\ s <= t < T /\
    save_steps T k s = Some [2; 5; 8; 9] /\
    run_recorder QcF true 0%Qc [SEveryK k s] T vals t <> Some (lerp QcF (vals 2) (vals 5) (fdiv QcF (fofZ (t - 2)) (fofZ (5 - 2)))).
Proof. exact decompress_src_old_refuted. Qed.
Print Assumptions C30_decompress_src_old_refuted.
Theorem C30_slots_collide_src_old_refuted :
  exists T k s t (vals : Z -> Qc) sv, 0 < k /\ 0 <= s < T /\ s <= t < T /\
    save_steps T k s = Some sv /\ In t sv /\
    run_recorder QcF true 0%Qc [SEveryK k s] T vals t <> Some (vals t).
Proof. exact slots_collide_src_old_refuted. Qed.
Print Assumptions C30_slots_collide_src_old_refuted.

(* non-vacuity: the two witnesses of the defect under the repaired model, with a narrowing-like conversion
   (compress = halve, decompress = double) in front of the filter *)
Example C30_example :
  save_steps 10 3 2 = Some [2; 5; 8; 9]
  /\ option_map f_map (init_filter 10 3 2) = Some [0; 0; 0; 0; 0; 1; 1; 1; 2; 3]
  /\ option_map f_map (init_filter 5 8 0) = Some [0; 0; 0; 0; 1]
  /\ list_eqb (opt_eqb Qc_eqb)
       (map (fun t => run_recorder QcF false 0%Qc
                        [SConv (K := QcF) (fun x : Qc => x / q 2 1)%Qc (fun x : Qc => x * q 2 1)%Qc; SEveryK 3 2] 10
                        (fun t => q (t * t) 1) t) [2; 3; 4; 5; 9])
       [Some (q 4 1); Some (q 11 1); Some (q 18 1); Some (q 25 1); Some (q 81 1)] = true.
Proof. repeat split; vm_compute; reflexivity. Qed.
