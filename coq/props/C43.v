(* C43 — shapes are rasterised by cell-centre inclusion.
   Only statements closed by [exact]; model: model/PaintShapes.v, lemmas: proofs/PaintShapes_proofs.v.
   Generic over an ordered field K (executed at Qc); [Axis] = edge coordinates + the slice [lo,hi) of
   the placed object on one axis; abs_center a i = centre of the i-th cell of the slice,
   abs_mid a = centre of the slice, both in absolute grid coordinates. *)
From Coq Require Import ZArith List Bool QArith Qcanon.
From FV Require Import base.Scalar base.Util model.PaintShapes proofs.PaintShapes_proofs.
Import ListNotations.

(* sphere / ellipsoid: the mask (computed by the code in object-local coordinates) marks exactly the
   cells whose centre lies strictly inside the ellipsoid centred at the middle of the slice, on any
   (uniform or non-uniform) edge coordinates *)
Theorem C43_sphere_mask_is_inclusion :
  forall (K : OFld) (ax ay az : Axis K) (rx ry rz : K) (i j k : nat),
  sphere_mask K ax ay az rx ry rz i j k =
  in_ellipsoid K (abs_mid K ax) (abs_mid K ay) (abs_mid K az) rx ry rz
                 (abs_center K ax i) (abs_center K ay j) (abs_center K az k).
Proof. exact sphere_mask_is_inclusion. Qed.
Print Assumptions C43_sphere_mask_is_inclusion.

(* cylinder: strict inclusion of the transverse cell centre in the disc; nothing depends on the index
   along the axis *)
Theorem C43_cylinder_mask_is_inclusion :
  forall (K : OFld) (axis : nat) (ah av : Axis K) (r : K) (i j k : nat),
  cyl_mask K axis ah av r i j k =
  in_disc K (abs_mid K ah) (abs_mid K av) r
            (abs_center K ah (fst (transverse axis i j k))) (abs_center K av (snd (transverse axis i j k))).
Proof. exact cyl_mask_is_inclusion. Qed.
Print Assumptions C43_cylinder_mask_is_inclusion.

Theorem C43_cylinder_extruded :
  forall (K : OFld) (ah av : Axis K) (r : K) (i j k d : nat),
  cyl_mask K 0 ah av r d j k = cyl_mask K 0 ah av r i j k /\
  cyl_mask K 1 ah av r i d k = cyl_mask K 1 ah av r i j k /\
  cyl_mask K 2 ah av r i j d = cyl_mask K 2 ah av r i j k.
Proof. exact cyl_mask_extruded. Qed.
Print Assumptions C43_cylinder_extruded.

(* polygons (partial: "inside" is the even-odd crossing rule, no Jordan-curve theorem): the rule is
   translation invariant, hence the mask computed on locally shifted vertices is the rule applied to
   the polygon centred at the middle of the slice, evaluated at the absolute cell centres; the mask
   is constant along the extrusion axis *)
Theorem C43_crossing_rule_translation_invariant_partial :
  forall (K : OFld) (d : pt K) (verts : list (pt K)) (t : pt K),
  inside_evenodd K (map (shift K d) verts) (shift K d t) = inside_evenodd K verts t.
Proof. exact inside_evenodd_shift. Qed.
Print Assumptions C43_crossing_rule_translation_invariant_partial.

Theorem C43_polygon_mask_is_absolute_rule_partial :
  forall (K : OFld) (axis : nat) (ah av : Axis K) (verts : list (pt K)) (i j k : nat),
  poly_mask K axis ah av verts i j k =
  inside_evenodd K (map (shift K (abs_mid K ah, abs_mid K av)) verts)
                   (abs_center K ah (fst (transverse axis i j k)), abs_center K av (snd (transverse axis i j k))).
Proof. exact poly_mask_is_absolute_rule. Qed.
Print Assumptions C43_polygon_mask_is_absolute_rule_partial.

Theorem C43_polygon_extruded :
  forall (K : OFld) (ah av : Axis K) (verts : list (pt K)) (i j k d : nat),
  poly_mask K 0 ah av verts d j k = poly_mask K 0 ah av verts i j k /\
  poly_mask K 1 ah av verts i d k = poly_mask K 1 ah av verts i j k /\
  poly_mask K 2 ah av verts i j d = poly_mask K 2 ah av verts i j k.
Proof. exact poly_mask_extruded. Qed.
Print Assumptions C43_polygon_extruded.

(* non-vacuity: a non-uniform axis (edges 0,1,2,3,5) with a sphere of radius 2 on the slice [0,4):
   the first cell centre is at distance exactly 2 from the slice centre -> not strictly inside;
   the unit square polygon contains its centre and not a point to the right of it *)
Definition ex_x : Axis QcOF := AX [q 0 1; q 1 1; q 2 1; q 3 1; q 5 1] 0 4.
Definition ex_y : Axis QcOF := AX [q 0 1; q 2 1; q 3 1; q 5 1] 0 3.
Example C43_example :
  sphere_mask QcOF ex_x ex_y ex_y (q 2 1) (q 2 1) (q 2 1) 0 1 1 = false /\
  sphere_mask QcOF ex_x ex_y ex_y (q 2 1) (q 2 1) (q 2 1) 1 1 1 = true /\
  sphere_sum QcOF ex_x ex_y ex_y (q 2 1) (q 2 1) (q 2 1) 0 1 1 = q 1 1 /\
  cyl_mask QcOF 2 ex_x ex_y (q 2 1) 2 1 7 = true /\
  inside_evenodd QcOF [(q 0 1, q 0 1); (q 1 1, q 0 1); (q 1 1, q 1 1); (q 0 1, q 1 1)] (q 1 2, q 1 2) = true /\
  inside_evenodd QcOF [(q 0 1, q 0 1); (q 1 1, q 0 1); (q 1 1, q 1 1); (q 0 1, q 1 1)] (q 3 2, q 1 2) = false.
Proof. vm_compute. repeat split; reflexivity. Qed.
