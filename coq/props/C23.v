(* C23 — fabrication clean-up keeps exactly the connected material.
   Model: model/Morph.v (repaired code = fixes/C23.patch applied; *_src_old = code before the patch).
   Lemmas: proofs/Morph_proofs.v.  g t x = value of array t at cell x (false outside the array);
   reach m seed x = x is an m-cell joined to a seed m-cell by a path of face-adjacent m-cells. *)
From Coq Require Import List Arith Bool.
From FV Require Import base.Util base.MorphBase model.Morph proofs.Morph_proofs.
Import ListNotations.

(* the repaired flood fill (while loop until nothing changes) terminates for every design of every extent
   and marks exactly the material cells connected to the bottom layer *)
Theorem C23_flood_fix_eq_reach : forall nx ny nz m, wf3 nx ny nz m ->
  exists r, polymer_connection nx ny nz m = Some r /\ wf3 nx ny nz r /\
    forall x, g r x = true <-> reach (g m) is_bottom x.
Proof. exact polymer_connection_spec. Qed.
Print Assumptions C23_flood_fix_eq_reach.

(* same for the background: cells connected to the four side faces or the top through background *)
Theorem C23_air_connection_eq_reach : forall nx ny nz m,
  exists r, air_connection nx ny nz m = Some r /\ wf3 nx ny nz r /\
    forall x, g r x = true <-> reach (air nx ny nz m) (is_side nx ny nz) x.
Proof. exact air_connection_spec. Qed.
Print Assumptions C23_air_connection_eq_reach.

(* RemoveFloatingMaterial: a cell is material afterwards iff it was material connected to the bottom
   layer (every other cell is background) *)
Theorem C23_remove_floating_spec : forall nx ny nz m, wf3 nx ny nz m ->
  exists r, remove_floating nx ny nz m = Some r /\ wf3 nx ny nz r /\
    forall x, g r x = true <-> reach (g m) is_bottom x.
Proof. exact remove_floating_spec. Qed.
Print Assumptions C23_remove_floating_spec.

(* the code before the patch (max(shape) sweeps) deletes connected material: 3x3x3 serpentine *)
Theorem C23_remove_floating_refuted :
  exists m x r, wf3 3 3 3 m /\ reach (g m) is_bottom x /\ remove_floating_src_old 3 3 3 m = Some r /\ g r x = false.
Proof. exact remove_floating_src_old_refuted. Qed.
Print Assumptions C23_remove_floating_refuted.

(* ... removes ALL material of a one-layer design, and raises ValueError on thin boxes such as 2x4x4 *)
Theorem C23_remove_floating_one_layer_refuted :
  exists m x r, wf3 1 1 1 m /\ reach (g m) is_bottom x /\ remove_floating_src_old 1 1 1 m = Some r /\ g r x = false.
Proof. exact remove_floating_src_old_one_layer_refuted. Qed.
Print Assumptions C23_remove_floating_one_layer_refuted.
Theorem C23_thin_box_crash_refuted : forall m, remove_floating_src_old 2 4 4 m = None.
Proof. exact remove_floating_src_old_crash. Qed.
Print Assumptions C23_thin_box_crash_refuted.

(* ConnectHolesAndStructures (repaired): whenever it returns, the result has no floating material *)
Theorem C23_connect_no_floating : forall nx ny nz m r, connect_holes nx ny nz m = Some r ->
  wf3 nx ny nz r /\ forall x, g r x = true -> reach (g r) is_bottom x.
Proof. exact connect_no_floating. Qed.
Print Assumptions C23_connect_no_floating.

(* PARTIAL ("no enclosed background" is not proved for all sizes): for EVERY design of every box with at most
   8 cells and of the boxes 2x2x3, 2x3x2, 3x2x2, connect_holes terminates, leaves no floating material and no
   background cell cut off from the sides and the top ... *)
Theorem C23_connect_feasible_bounded_partial :
  forall nx ny nz, In (nx, ny, nz) small_shapes -> forall l, length l = nx * ny * nz ->
  exists r, connect_holes nx ny nz (of_flat nx ny nz l) = Some r /\
    (forall x, g r x = true -> reach (g r) is_bottom x) /\
    (forall x, inbox nx ny nz x -> g r x = false -> reach (air nx ny nz r) (is_side nx ny nz) x).
Proof. exact (bounded_ok_spec small_shapes small_shapes_ok). Qed.
Print Assumptions C23_connect_feasible_bounded_partial.

(* ... and for the 3x3x2 slabs of slab_family (9 rings x 2 centres x all 512 top layers), where the
   interior cell (1,1,0) really can be enclosed *)
Theorem C23_connect_feasible_slab_partial : forall l, In l slab_family ->
  exists r, connect_holes 3 3 2 (of_flat 3 3 2 l) = Some r /\
    (forall x, g r x = true -> reach (g r) is_bottom x) /\
    (forall x, inbox 3 3 2 x -> g r x = false -> reach (air 3 3 2 r) (is_side 3 3 2) x).
Proof. exact (family_ok_spec 3 3 2 slab_family slab_family_ok). Qed.
Print Assumptions C23_connect_feasible_slab_partial.

(* non-vacuity: the serpentine is kept entirely by the repaired code; an enclosed hole is opened *)
Example C23_example :
  remove_floating 3 3 3 serpentine3 = Some serpentine3
  /\ In (2, 2, 3) small_shapes
  /\ (exists l, In l slab_family /\ feasible_b 3 3 2 (of_flat 3 3 2 l) = false).
Proof.
  split; [vm_compute; reflexivity|]. split; [vm_compute; tauto|].
  exists (slab_design (repeat true 8) false (repeat true 9)). split; [|vm_compute; reflexivity].
  unfold slab_family. apply in_flat_map. exists (repeat true 8). split; [left; reflexivity|].
  apply in_flat_map. exists false. split; [left; reflexivity|]. apply in_map. apply (in_all_blists (repeat true 9)).
Qed.
