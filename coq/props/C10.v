(* C10 — fields are linear in sources and initial state.  Model: model/Yee.v; lemmas: proofs/Yee_linear.v *)
From Coq Require Import List Arith.
From FV Require Import base.Scalar base.Cplx model.Yee proofs.Yee_steps proofs.Yee_linear.
Import ListNotations.

(* PARTIAL in scope: proved for every PML-free scene (any grid, ghost factors, widths, masks, iso/diag lossy materials);
   scenes with absorbing layers are covered by the correspondence and the implementation predicate only.
   with_inj sc jE jH = the same scene with other source injections; lcV a b x y = a*x + b*y cell by cell. *)
Theorem C10_forward_linear_partial : forall (K : Fld) (sc : scene K) (a b : car K), pmls K sc = [] ->
  forall jE1 jH1 jE2 jH2 n s1 s2 s3,
  tstep s2 = tstep s1 -> tstep s3 = tstep s1 ->
  veqA K (fE s3) (lcV K a b (fE s1) (fE s2)) -> veqA K (fH s3) (lcV K a b (fH s1) (fH s2)) ->
  let sc1 := with_inj K sc jE1 jH1 in let sc2 := with_inj K sc jE2 jH2 in
  let sc3 := with_inj K sc (fun t => lcV K a b (jE1 t) (jE2 t)) (fun t => lcV K a b (jH1 t) (jH2 t)) in
  veqA K (fE (iterS K sc3 n s3)) (lcV K a b (fE (iterS K sc1 n s1)) (fE (iterS K sc2 n s2))) /\
  veqA K (fH (iterS K sc3 n s3)) (lcV K a b (fH (iterS K sc1 n s1)) (fH (iterS K sc2 n s2))).
Proof. intros K sc a b Hp jE1 jH1 jE2 jH2 n. exact (forward_linear_n K sc a b Hp jE1 jH1 jE2 jH2 n). Qed.
Print Assumptions C10_forward_linear_partial.
