(* C10 — fields are linear in sources and initial state.  Model: model/Yee.v; lemmas: proofs/Yee_linear.v, proofs/Yee_linear_pml.v *)
From Coq Require Import List Arith.
From FV Require Import base.Scalar base.Cplx model.Yee proofs.Yee_steps proofs.Yee_pml_loop proofs.Yee_linear proofs.Yee_linear_pml model.YeeFull proofs.Yee_full_props proofs.Yee_lossy_props.
Import ListNotations.

(* For every scene of the model — any grid, ghost factors (periodic / Bloch / zero halo), widths, wall masks, iso/diagonal lossy
   materials and ANY list of CPML absorbing layers — and any number of steps: if the initial E, H and psi accumulators of a third
   run are a*x1 + b*x2 of those of two runs, and its source injections are a*j1 + b*j2 (with_inj replaces the injections of the
   scene; an amplitude factor scales a source's injection), then so are its E and H after n steps, cell by cell.
   lin_psis relates the psi lists layer by layer (all three lists as long as the layer list). *)
Theorem C10_forward_linear : forall (K : Fld) (sc : scene K) (a b : car K) jE1 jH1 jE2 jH2 n s1 s2 s3,
  tstep s2 = tstep s1 -> tstep s3 = tstep s1 ->
  eqV K (fE s3) (lcVl K a b (fE s1) (fE s2)) -> eqV K (fH s3) (lcVl K a b (fH s1) (fH s2)) ->
  lin_psis K sc a b (psiE s1) (psiE s2) (psiE s3) -> lin_psis K sc a b (psiH s1) (psiH s2) (psiH s3) ->
  let sc1 := with_inj K sc jE1 jH1 in let sc2 := with_inj K sc jE2 jH2 in
  let sc3 := with_inj K sc (fun t => lcVl K a b (jE1 t) (jE2 t)) (fun t => lcVl K a b (jH1 t) (jH2 t)) in
  eqV K (fE (iterS K sc3 n s3)) (lcVl K a b (fE (iterS K sc1 n s1)) (fE (iterS K sc2 n s2))) /\
  eqV K (fH (iterS K sc3 n s3)) (lcVl K a b (fH (iterS K sc1 n s1)) (fH (iterS K sc2 n s2))).
Proof. intros K sc a b jE1 jH1 jE2 jH2 n. exact (forward_linear_pml_n K sc a b jE1 jH1 jE2 jH2 n). Qed.
Print Assumptions C10_forward_linear.

(* the CPML loop itself is linear in (derivatives, accumulators, curl) *)
Theorem C10_cpml_step_linear : forall (K : Fld) (a b ca cb ik : car K) k1 sim d1 d2 p1 p2,
  cpml_step K ca cb ik k1 sim (lc2 K a b d1 d2) (lc2 K a b p1 p2) =
  (lc2 K a b (fst (cpml_step K ca cb ik k1 sim d1 p1)) (fst (cpml_step K ca cb ik k1 sim d2 p2)),
   lc2 K a b (snd (cpml_step K ca cb ik k1 sim d1 p1)) (snd (cpml_step K ca cb ik k1 sim d2 p2))).
Proof. exact cpml_step_lin. Qed.
Print Assumptions C10_cpml_step_linear.

(* The fully anisotropic lossless tiers (model/YeeFull.v; 9-component inverse permittivity and / or permeability, co-location
   averages with ghost reads), PML-free scenes: the same superposition statement, for any number of steps.  A tier given as None is
   the iso / diagonal tier. *)
Theorem C10_forward_full_tensor_linear : forall (K : Fld) (sc : scene K) (a b : car K), pmls K sc = [] ->
  forall (ie9 im9 : option (T9 K)) jE1 jH1 jE2 jH2 n s1 s2 s3,
  tstep s2 = tstep s1 -> tstep s3 = tstep s1 ->
  veqA K (fE s3) (lcV K a b (fE s1) (fE s2)) -> veqA K (fH s3) (lcV K a b (fH s1) (fH s2)) ->
  let sc1 := with_inj K sc jE1 jH1 in let sc2 := with_inj K sc jE2 jH2 in
  let sc3 := with_inj K sc (fun t => lcV K a b (jE1 t) (jE2 t)) (fun t => lcV K a b (jH1 t) (jH2 t)) in
  veqA K (fE (iterF K ie9 im9 sc3 n s3)) (lcV K a b (fE (iterF K ie9 im9 sc1 n s1)) (fE (iterF K ie9 im9 sc2 n s2))) /\
  veqA K (fH (iterF K ie9 im9 sc3 n s3)) (lcV K a b (fH (iterF K ie9 im9 sc1 n s1)) (fH (iterF K ie9 im9 sc2 n s2))).
Proof. intros K sc a b Hp ie9 im9. exact (forward_full_linear_n K sc a b Hp ie9 im9). Qed.
Print Assumptions C10_forward_full_tensor_linear.

(* The conductive fully anisotropic tiers (model/YeeFull.v forward_lossy: per-cell 3x3 update matrices A = M1^-1 M2, B = c M1^-1 T from the
   inverse material tensor T and the conductivity tensor), PML-free scenes, any number of steps.  A tier given as None is the iso / diagonal tier. *)
Theorem C10_forward_lossy_tensor_linear : forall (K : Fld) (sc : scene K) (a b : car K), pmls K sc = [] ->
  forall (e m : option (T9 K * T9 K)) jE1 jH1 jE2 jH2 n s1 s2 s3,
  tstep s2 = tstep s1 -> tstep s3 = tstep s1 ->
  veqA K (fE s3) (lcV K a b (fE s1) (fE s2)) -> veqA K (fH s3) (lcV K a b (fH s1) (fH s2)) ->
  let sc1 := with_inj K sc jE1 jH1 in let sc2 := with_inj K sc jE2 jH2 in
  let sc3 := with_inj K sc (fun t => lcV K a b (jE1 t) (jE2 t)) (fun t => lcV K a b (jH1 t) (jH2 t)) in
  veqA K (fE (iterL K e m sc3 n s3)) (lcV K a b (fE (iterL K e m sc1 n s1)) (fE (iterL K e m sc2 n s2))) /\
  veqA K (fH (iterL K e m sc3 n s3)) (lcV K a b (fH (iterL K e m sc1 n s1)) (fH (iterL K e m sc2 n s2))).
Proof. intros K sc a b Hp e m. exact (forward_lossy_linear_n K sc a b Hp e m). Qed.
Print Assumptions C10_forward_lossy_tensor_linear.

(* the matrices of that tier are the solutions of the source's linear systems: M1 A = M2 (and likewise M1 B = c T), wherever M1 is regular *)
Theorem C10_lossy_matrices_solve : forall (K : Fld) (sc : scene K) etaf (T sg : T9 K) i j k,
  det9 K (lossy_M1 K sc etaf T sg) i j k <> f0 K ->
  forall r s, (r < 3)%nat -> (s < 3)%nat ->
  m9mul K (lossy_M1 K sc etaf T sg) (lossy_A K sc etaf T sg) r s i j k = lossy_M2 K sc etaf T sg r s i j k.
Proof. exact lossy_A_solves. Qed.
Print Assumptions C10_lossy_matrices_solve.
