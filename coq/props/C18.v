(* C18 — device parameters map to materials exactly as documented.
   Only statements closed by [exact]; model: model/DeviceApply.v, lemmas: proofs/DeviceApply_proofs.v.
   K any field (ordered field for the range); arrays are functions component -> cell -> K;
   invert = _invert_property on a cell's component vector (abstract: covers 1, 3 and 9 components),
   toidx = astype(int32) of the transform output; the transform chain's output p is an input (C19-C25). *)
From Coq Require Import ZArith List Bool QArith Qcanon.
From FV Require Import base.Scalar base.PyNum model.DeviceOverlap model.DeviceApply proofs.DeviceApply_proofs.
Import ListNotations.
Open Scope Z_scope.

(* cells outside every device keep the value the loop started from (the etch backup if present, else the input) *)
Theorem C18_frame :
  forall (K : Fld) invert toidx (init : option (arr K)) (cur : arr K) devs ps k c,
  outside K devs c ->
  apply_params K invert toidx init cur devs ps k c = match init with Some i => i k c | None => cur k c end.
Proof. exact frame. Qed.
Print Assumptions C18_frame.

(* continuous device (d, p) = the last device in the list that contains cell c:
   every component = invert(eps0 + p(voxel of c) * (eps1 - eps0)), independent of what was there before *)
Theorem C18_continuous_exact :
  forall (K : Fld) invert toidx init (cur : arr K) devs ps pre d p post k c,
  combine devs ps = pre ++ (d, p) :: post ->
  kind K d = Continuous -> inb (dbox K d) c = true ->
  (forall dp, In dp post -> inb (dbox K (fst dp)) c = false) ->
  apply_params K invert toidx init cur devs ps k c =
    invert (fun j => blend K (perm K (mat K d 0) j) (perm K (mat K d 1) j) (p (design_index K d c))) k.
Proof. exact continuous_exact. Qed.
Print Assumptions C18_continuous_exact.

(* discrete output: exactly the inverse permittivity of the one selected device material *)
Theorem C18_discrete_exact :
  forall (K : Fld) invert toidx init (cur : arr K) devs ps pre d p post k c,
  combine devs ps = pre ++ (d, p) :: post ->
  kind K d = Discrete -> inb (dbox K d) c = true ->
  (forall dp, In dp post -> inb (dbox K (fst dp)) c = false) ->
  apply_params K invert toidx init cur devs ps k c = invert (perm K (mat K d (toidx (p (design_index K d c))))) k.
Proof. exact discrete_exact. Qed.
Print Assumptions C18_discrete_exact.

(* etched device: blend between the background found at the cell before this device and the etch material *)
Theorem C18_etched_exact :
  forall (K : Fld) invert toidx init (cur : arr K) devs ps pre d p post k c,
  combine devs ps = pre ++ (d, p) :: post ->
  kind K d = Etched -> inb (dbox K d) c = true ->
  (forall dp, In dp post -> inb (dbox K (fst dp)) c = false) ->
  let before := fold_left (step_perm K invert toidx) pre (match init with Some i => i | None => cur end) in
  apply_params K invert toidx init cur devs ps k c =
    invert (fun j => blend K (invert (fun j' => before j' c) j) (perm K (mat K d 0) j) (p (design_index K d c))) k.
Proof. exact etched_exact. Qed.
Print Assumptions C18_etched_exact.

(* dispersive coefficient stacks: written value = (1-p) c_0 + p c_1 (continuous) or the selected material's
   coefficients (discrete); cells outside devices unchanged *)
Theorem C18_dispersive_exact :
  forall (K : Fld) toidx (cur : arr K) devs ps pre d p post k c,
  combine devs ps = pre ++ (d, p) :: post ->
  inb (dbox K d) c = true ->
  (forall dp, In dp post -> inb (dbox K (fst dp)) c = false) ->
  apply_params_disp K toidx cur devs ps k c = disp_value K toidx d p c k.
Proof. exact disp_exact. Qed.
Print Assumptions C18_dispersive_exact.
Theorem C18_dispersive_frame :
  forall (K : Fld) toidx (cur : arr K) devs ps k c,
  outside K devs c -> apply_params_disp K toidx cur devs ps k c = cur k c.
Proof. exact disp_frame. Qed.
Print Assumptions C18_dispersive_frame.

(* range: positive material permittivities e0 <= e1 and p in [0,1]  =>  1/e1 <= 1/(e0 + p(e1-e0)) <= 1/e0 *)
Theorem C18_inverse_blend_range :
  forall (K : OFld) (e0 e1 p : K),
  fle K (f0 K) p -> fle K p (f1 K) -> fle K (f0 K) e0 -> e0 <> f0 K -> fle K e0 e1 ->
  fle K (finv K e1) (finv K (blend K e0 e1 p)) /\ fle K (finv K (blend K e0 e1 p)) (finv K e0).
Proof. exact inv_blend_range. Qed.
Print Assumptions C18_inverse_blend_range.

(* any history of parameter sets followed by ps leaves the same array as ps alone.  init = Some _ is the
   etch backup; without a backup no device is etched (the code creates the backup iff some device etches) *)
Theorem C18_last_params_win :
  forall (K : Fld) invert toidx (init : option (arr K)) (cur : arr K) devs hist ps,
  (init = None -> no_etch K devs) -> length ps = length devs ->
  forall k c, run_history K invert toidx init cur devs (hist ++ [ps]) k c = apply_params K invert toidx init cur devs ps k c.
Proof. exact last_params_win. Qed.
Print Assumptions C18_last_params_win.

(* non-vacuity: 1-component grid 4x1x1, device on cells 1..2 with 2-cell voxels, materials eps 2 and 4,
   p = 1/2 -> 1/3; history [p=1; p=1/2] equals p=1/2 alone; outside cells keep 1/8 *)
Example C18_example :
  let d := Build_device QcF ((1, 3), (0, 1), (0, 1)) (2, 1, 1) Continuous
             [Build_material QcF (fun _ => q 2 1) (fun _ => q 0 1); Build_material QcF (fun _ => q 4 1) (fun _ => q 0 1)] in
  let cur : arr QcF := fun _ _ => q 1 8 in
  let half : cell -> Qc := fun _ => q 1 2 in
  let one : cell -> Qc := fun _ => q 1 1 in
  tabulate (run_history QcF (inv_comp QcF) qtoidx None cur [d] [[one]; [half]]) 1 4 1 1 = [[q 1 8; q 1 3; q 1 3; q 1 8]]
  /\ tabulate (apply_params QcF (inv_comp QcF) qtoidx None cur [d] [half]) 1 4 1 1 = [[q 1 8; q 1 3; q 1 3; q 1 8]].
Proof. split; vm_compute; reflexivity. Qed.
