#!/venv/bin/python
"""Regenerate /verif/MANIFEST.json from the property modules that exist (harness/props/Cxx.py)."""
import importlib, json, sys
from pathlib import Path
sys.path.insert(0, str(Path(__file__).resolve().parent))
V = Path(__file__).resolve().parents[1]
ids = [json.loads(l)["id"] for l in (V / "properties.jsonl").read_text().splitlines() if l.strip()]
NA = {}  # property id -> reason (properties deliberately not claimed)
na_file = V / "harness" / "not_applicable.json"
if na_file.exists():
    NA = json.loads(na_file.read_text())
checks, na = [], []
for pid in ids:
    if not (V / "harness" / "props" / f"{pid}.py").exists() or pid in NA:
        na.append({"property_id": pid, "reason": NA.get(pid, "model, theorems and correspondence for this property are not built yet in this development (planned in DESIGN.md §4); nothing is claimed")})
        continue
    m = importlib.import_module(f"props.{pid}")
    checks.append({
        "property_id": pid,
        "quick_cmd": f"/venv/bin/python harness/check.py {pid} --tier quick",
        "thorough_cmd": f"/venv/bin/python harness/check.py {pid} --tier thorough",
        "evidence_file": f"/verif/evidence/{pid}.json",
        "replay_cmd_template": f"/venv/bin/python harness/check.py {pid} --replay {{path}}",
        "engine": "coq-model+correspondence",
        "level_claimed": {"category": "proof", "text": getattr(m, "LEVEL_TEXT", ""), "design_ref": f"DESIGN.md §4 {pid}"},
        "level_note": getattr(m, "LEVEL_NOTE", "") or "; ".join(getattr(m, "ASSUMPTIONS", [])),
        "technique": getattr(m, "TECHNIQUE", "Coq theorems about an executable Gallina model + differential correspondence model vs /repo/src"),
    })
man = {
    "version": 1,
    "setup_cmd": "bash /verif/harness/setup.sh",
    "hooks": {"guard": "FDTDX_VERIF", "enable": "none needed: checks call /repo/src functions directly with PYTHONPATH=/repo/src (FDTDX_VERIF=1 is exported but no hook reads it)",
              "baseline_off_cmd": "cd /repo && /venv/bin/python -m pytest -ra -q -p no:cacheprovider --timeout=900 --continue-on-collection-errors",
              "source_commits": [], "add_only": True},
    "engines": [{"name": "coq-model+correspondence", "path": "/verif/harness/check.py", "serves_properties": [c["property_id"] for c in checks],
                 "kind_free_text": "Coq 8.16.1 proofs about executable Gallina models (coq/model), statements in coq/props; tie to /repo/src by vm_compute correspondence and a fail-closed ast translator"}],
    "checks": checks,
    "not_applicable": na,
    "notes": "See DESIGN.md. Level 'proof' refers to the theorems in coq/props/<id>.v about the model; the tie model<->code is the correspondence/translator run by every check. Clauses decided only by measurement are named in level_note.",
}
(V / "MANIFEST.json").write_text(json.dumps(man, indent=1) + "\n")
print(f"MANIFEST: {len(checks)} checks, {len(na)} not claimed")
