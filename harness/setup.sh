#!/bin/bash
# MANIFEST.setup_cmd: build every proof (full .vo build, never -vos) and run the gate.
set -u
cd "$(dirname "$0")/.."
/venv/bin/python - <<'PY'
import sys
sys.path.insert(0, "harness")
from lib import core
ok, log = core.coq_make(None, timeout=3000, keep_going=True)
print(log[-3000:])
import glob, os
files = [os.path.relpath(p, core.COQ) for d in ("base", "model", "proofs", "props") for p in glob.glob(str(core.COQ / d / "**" / "*.v"), recursive=True)]
bad = core.grep_gate(files)
print("gate:", bad or "clean")
sys.exit(0 if ok and not bad else 1)
PY
