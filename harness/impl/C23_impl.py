"""C23 driver: flood fills, remove_floating_polymer, connect_holes_and_structures and the two
parameter-transform modules on explicit binary designs (runs against FDTDX_REPO/src)."""
import json
import os
import sys

os.environ.setdefault("JAX_PLATFORMS", "cpu")
import jax
import jax.numpy as jnp
import numpy as np

import fdtdx
from fdtdx.objects.device.parameters import binary_transform as bt
from fdtdx.objects.device.parameters.discrete import ConnectHolesAndStructures, RemoveFloatingMaterial

CFG = None


def module(cls, shape, rev=False, **kw):
    global CFG
    if CFG is None:
        CFG = fdtdx.SimulationConfig(time=1e-13, grid=fdtdx.UniformGrid(spacing=1e-7), backend="cpu", dtype=jnp.float32)
    mats = {"air": fdtdx.Material(permittivity=1.0), "poly": fdtdx.Material(permittivity=2.25)}
    if rev:      # insertion order of the materials dict is arbitrary: parameters are encoded in ascending-permittivity order whatever the dict order
        mats = {"poly": mats["poly"], "air": mats["air"]}
    return cls(**kw).init_module(config=CFG, materials=mats, matrix_voxel_grid_shape=tuple(shape),
                                 single_voxel_size=(1e-7,) * 3, output_shape={"params": tuple(shape)})


JIT = {}
FUNS = {"polymer": "compute_polymer_connection", "air": "compute_air_connection", "remove": "remove_floating_polymer",
        "connect": "connect_holes_and_structures"}


def jitted(kind, shape, rev=False):
    """one compiled function per (kind, shape): the transforms are used under jit in practice, and
    un-jitted while/fori loops recompile on every call"""
    key = (kind, tuple(shape), bool(rev))
    if key not in JIT:
        if kind in FUNS:
            JIT[key] = jax.jit(getattr(bt, FUNS[kind]))
        else:  # indices: 0 = air (background), 1 = polymer
            mod = module(RemoveFloatingMaterial if kind == "remove_module" else ConnectHolesAndStructures, shape, rev=rev)
            JIT[key] = jax.jit(lambda p: mod({"params": p})["params"])
    return JIT[key]


def run(c):
    m = np.asarray(c["m"], dtype=bool).reshape(c["shape"])
    k = c["kind"]
    try:
        f = jitted(k, c["shape"], rev=bool(c.get("rev_dict")))
        out = f(jnp.asarray(m)) if k in FUNS else f(jnp.asarray(m.astype(np.float32)))
    except ValueError as e:
        return {"error": "ValueError: " + str(e)[:100]}
    out = np.asarray(out)
    if out.shape != m.shape:
        return {"error": f"shape {out.shape}"}
    vals = set(np.unique(out.astype(np.float64)).tolist())
    if not vals <= {0.0, 1.0}:
        return {"error": f"non-binary values {sorted(vals)[:4]}"}
    return {"out": out.astype(int).tolist()}


def main():
    payload = json.load(sys.stdin)
    outs = [run(c) for c in payload["cases"]]
    print("RESULT " + json.dumps({"outs": outs}))


main()
