"""C06 driver: one run vs split runs vs re-runs; reset."""
import json, sys
import scenes
from scenes import *  # noqa
setup_jax(True)
from fdtdx.fdtd.fdtd import custom_fdtd_forward

def D(a, b):
    a, b = np.asarray(a), np.asarray(b)
    return float(np.abs(a - b).max()) if a.size else 0.0

def diff(o, b):
    d = {"E": D(o.fields.E, b.fields.E), "H": D(o.fields.H, b.fields.H)}
    d["det"] = max([0.0] + [D(v, b.detector_states[k][kk]) for k, st in o.detector_states.items() for kk, v in st.items()])
    # every other leaf of the time-dependent field state: CPML psi accumulators, dispersive polarisation buffers (P_curr, P_prev), ...
    la, lb = jax.tree_util.tree_leaves(o.fields), jax.tree_util.tree_leaves(b.fields)
    d["psi"] = 1e300 if len(la) != len(lb) else max([0.0] + [D(x, y) if np.shape(x) == np.shape(y) else 1e300 for x, y in zip(la, lb)])
    return d

def run_case(c):
    oc, arrays, cfg, _ = build(c["spec"])
    T = int(cfg.time_steps_total)
    t0, base = fdtdx.run_fdtd(arrays=arrays, objects=oc, config=cfg, key=KEY, show_progress=False)
    scale = max(float(np.abs(np.asarray(base.fields.E)).max()), float(np.abs(np.asarray(base.fields.H)).max()), 1e-300)
    dscale = max([1e-300] + [float(np.abs(np.asarray(v)).max()) for st in base.detector_states.values() for v in st.values()])
    out = {"T": T, "t_plain": int(t0), "scale": scale, "dscale": dscale}
    # split runs
    splits = []
    for pts in c["splits"]:
        st = (0, arrays)
        first = True
        ts = []
        for e in pts:
            st = custom_fdtd_forward(arrays=st[1], objects=oc, config=cfg, key=KEY, reset_container=first, record_detectors=True,
                                     start_time=int(st[0]), end_time=int(e), show_progress=False)
            first = False
            ts.append(int(st[0]))
        splits.append({"pts": pts, "ts": ts, **diff(st[1], base)})
    out["splits"] = splits
    # the same chains with jax-array bounds (concrete) and through one jitted runner with traced bounds
    def chain(pts, mode):
        st = (0, arrays)
        first = True
        ts = []
        if mode == "traced":
            runner = {}
        for e in pts:
            a, b = int(st[0]), int(e)
            if mode == "concrete":
                st = custom_fdtd_forward(arrays=st[1], objects=oc, config=cfg, key=KEY, reset_container=first, record_detectors=True,
                                         start_time=jnp.asarray(a, dtype=jnp.int32), end_time=jnp.asarray(b, dtype=jnp.int32), show_progress=False)
            else:
                f = jax.jit(lambda arr, s0, s1, _first=first: custom_fdtd_forward(arrays=arr, objects=oc, config=cfg, key=KEY, reset_container=_first,
                                                                               record_detectors=True, start_time=s0, end_time=s1, show_progress=False))
                st = f(st[1], jnp.asarray(a, dtype=jnp.int32), jnp.asarray(b, dtype=jnp.int32))
            first = False
            ts.append(int(st[0]))
        return {"pts": pts, "ts": ts, "mode": mode, **diff(st[1], base)}
    out["array_splits"] = [chain(c["splits"][1], "concrete"), chain(c["splits"][-2 if len(c["splits"]) > 2 else 0], "traced")]
    # re-run from the returned arrays, and from a dirty container
    t1, again = fdtdx.run_fdtd(arrays=base, objects=oc, config=cfg, key=KEY, show_progress=False)
    out["rerun"] = {"t": int(t1), **diff(again, base)}
    # the same under every gradient strategy: first run from fresh arrays, second run from the arrays the first one returned
    out["grad_reruns"] = []
    lor = any(b.get("lorentz") for b in c["spec"].get("blocks", []))
    for g in c.get("grads", []):
        if lor and g["method"] == "reversible":
            continue      # the reversible method refuses dispersive media by design
        try:
            oc2, arrays2, cfg2, _ = build(dict(c["spec"], grad=g))
            ta, a1 = fdtdx.run_fdtd(arrays=arrays2, objects=oc2, config=cfg2, key=KEY, show_progress=False)
            tb, a2 = fdtdx.run_fdtd(arrays=a1, objects=oc2, config=cfg2, key=KEY, show_progress=False)
            out["grad_reruns"].append({"g": g, "t1": int(ta), "t2": int(tb), "first": diff(a1, base), "second": diff(a2, base)})
        except Exception as e:
            out["grad_reruns"].append({"g": g, "error": type(e).__name__ + ": " + str(e)[:200]})
    r = base.reset()
    zero = max([0.0] + [float(np.abs(np.asarray(x)).max()) for x in jax.tree_util.tree_leaves(r.fields) if np.size(x)] +
               [float(np.abs(np.asarray(v)).max()) for st in r.detector_states.values() for v in st.values() if np.size(v)])
    mats = max(D(r.inv_permittivities, arrays.inv_permittivities), D(r.inv_permeabilities, arrays.inv_permeabilities),
               0.0 if arrays.electric_conductivity is None else D(r.electric_conductivity, arrays.electric_conductivity),
               *[0.0 if getattr(arrays, n_, None) is None else D(getattr(r, n_), getattr(arrays, n_))
                 for n_ in ("magnetic_conductivity", "dispersive_c1", "dispersive_c2", "dispersive_c3", "dispersive_c4")])
    out["reset"] = {"dynamic_maxabs": zero, "materials_diff": mats}
    return out

if __name__ == "__main__":
    payload = json.load(sys.stdin)
    outs = []
    for c in payload["cases"]:
        try:
            outs.append(run_case(c))
        except Exception as e:
            import traceback
            outs.append({"error": type(e).__name__ + ": " + str(e)[:300], "trace": traceback.format_exc()[-1500:]})
    emit({"outs": outs})
