"""C05 driver: slice boundaries and run_fdtd under every gradient configuration."""
import json, sys
import scenes
from scenes import *  # noqa
setup_jax(True)
from fdtdx.fdtd.fdtd import _reversible_slice_boundaries

def D(a, b):
    return float(np.abs(np.asarray(a) - np.asarray(b)).max()) if np.asarray(a).size else 0.0

def run(spec, g):
    s = dict(spec); s["grad"] = g
    try:
        oc, arrays, cfg, _ = build(s)
        t, out = fdtdx.run_fdtd(arrays=arrays, objects=oc, config=cfg, key=KEY, show_progress=False)
    except Exception as e:
        return {"error": type(e).__name__ + ": " + str(e)[:120]}
    return {"t": int(t), "out": out, "T": int(cfg.time_steps_total)}

def main():
    payload = json.load(sys.stdin)
    outs = []
    for c in payload["cases"]:
        if c["kind"] == "bounds":
            outs.append({"bounds": [[int(v) for v in _reversible_slice_boundaries(c["T"], k)] for k in c["ks"]]})
            continue
        base = run(c["spec"], None)
        if "error" in base:
            outs.append({"error": "baseline run failed: " + base["error"]}); continue
        res = []
        scale = max(float(np.abs(np.asarray(base["out"].fields.E)).max()), 1e-30)
        for g in c["grads"]:
            r = run(c["spec"], g)
            if "error" in r:
                res.append({"g": g, "error": r["error"]}); continue
            o, b = r["out"], base["out"]
            dd = {k: {kk: D(v, b.detector_states[k][kk]) for kk, v in st.items()} for k, st in o.detector_states.items()}
            res.append({"g": g, "t": r["t"], "dE": D(o.fields.E, b.fields.E), "dH": D(o.fields.H, b.fields.H) ,
                        "ddet": max([0.0] + [v for d in dd.values() for v in d.values()])})
        dmax = max([0.0] + [float(np.abs(np.asarray(v)).max()) for st in base["out"].detector_states.values() for v in st.values()])
        outs.append({"T": base["T"], "t0": base["t"], "scale": scale, "detscale": dmax, "runs": res})
    emit({"outs": outs})
main()
