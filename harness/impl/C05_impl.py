"""C05 driver: slice boundaries and run_fdtd under every gradient configuration."""
import json, sys
import scenes
from scenes import *  # noqa
setup_jax(True)
from fdtdx.fdtd.fdtd import _reversible_slice_boundaries

def D(a, b):
    return float(np.abs(np.asarray(a) - np.asarray(b)).max()) if np.asarray(a).size else 0.0

def run(spec, g, again=False):
    """again: start the run from the container RETURNED by a first run under the same configuration (non-zero fields and detector
    states, e.g. an optimisation loop): run_fdtd resets the container, so the result must be the same"""
    s = dict(spec); s["grad"] = g
    try:
        oc, arrays, cfg, _ = build(s)
        t, out = fdtdx.run_fdtd(arrays=arrays, objects=oc, config=cfg, key=KEY, show_progress=False)
        if again:
            t, out = fdtdx.run_fdtd(arrays=out, objects=oc, config=cfg, key=KEY, show_progress=False)
    except Exception as e:
        return {"error": type(e).__name__ + ": " + str(e)[:120]}
    return {"t": int(t), "out": out, "T": int(cfg.time_steps_total)}

def main():
    payload = json.load(sys.stdin)
    outs = []
    for c in payload["cases"]:
        if c["kind"] == "bounds":
            outs.append({"bounds": [[int(v) for v in _reversible_slice_boundaries(c["T"], k)] for k in c["ks"]]})
            continue
        base = run(c["spec"], None)
        if "error" in base:
            outs.append({"error": "baseline run failed: " + base["error"]}); continue
        res = []
        scale = max(float(np.abs(np.asarray(base["out"].fields.E)).max()), 1e-30)
        for g in c["grads"]:
            r = run(c["spec"], g)
            if "error" in r:
                res.append({"g": g, "error": r["error"]}); continue
            o, b = r["out"], base["out"]
            dd = {k: {kk: D(v, b.detector_states[k][kk]) for kk, v in st.items()} for k, st in o.detector_states.items()}
            rec = {"g": g, "t": r["t"], "dE": D(o.fields.E, b.fields.E), "dH": D(o.fields.H, b.fields.H),
                   "ddet": max([0.0] + [v for d in dd.values() for v in d.values()])}
            if len(res) % 2 == 1 and g["method"] != "reversible":      # every reversible configuration, every other checkpointed one
                res.append(rec); continue
            r2 = run(c["spec"], g, again=True)
            if "error" in r2:
                rec["again_error"] = r2["error"]
            else:
                o2 = r2["out"]
                dd2 = {k: {kk: D(v, b.detector_states[k][kk]) for kk, v in st.items()} for k, st in o2.detector_states.items()}
                rec.update(t2=r2["t"], dE2=D(o2.fields.E, b.fields.E), dH2=D(o2.fields.H, b.fields.H), ddet2=max([0.0] + [v for d in dd2.values() for v in d.values()]))
            res.append(rec)
        dmax = max([0.0] + [float(np.abs(np.asarray(v)).max()) for st in base["out"].detector_states.values() for v in st.values()])
        outs.append({"T": base["T"], "t0": base["t"], "scale": scale, "detscale": dmax, "runs": res})
    emit({"outs": outs})
main()
