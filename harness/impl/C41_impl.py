"""C41 driver: WaveCharacter conversions and temporal profile amplitudes.

case kinds:
  wave    {"form":"period"|"wavelength"|"frequency","value":float} -> {"period","frequency","wavelength"} (hex)
  custom  {"signal":[..],"dt","start","outside","mode":"linear"|"nearest","times":[..]} -> {"amp":[hex]}
  cw      {"period","own_shift","nstart","phase_shift","times":[..]} -> {"amp":[hex]}
  gauss   {"width":{form,value},"center":{form,value,"phase_shift"},"phase_shift","times":[..]} -> {"amp":[hex],"fw","fc"}
"""
import json
import numpy as np, os, sys
os.environ.setdefault("JAX_PLATFORMS", "cpu")
import jax, jax.numpy as jnp, numpy as np
jax.config.update("jax_enable_x64", True)
from fdtdx.core.wavelength import WaveCharacter
from fdtdx.objects.sources.profile import SingleFrequencyProfile, GaussianPulseProfile, CustomTimeSignalProfile


def hx(a):
    return [float(v).hex() if np.isfinite(v) else "nan" for v in np.asarray(a, dtype=np.float64).reshape(-1)]


def wc(d):
    return WaveCharacter(phase_shift=float(d.get("phase_shift", 0.0)), **{d["form"]: float(d["value"])})


def one(c):
    k = c["kind"]
    if k == "wave":
        w = wc(c)
        return {"period": float(w.get_period()).hex(), "frequency": float(w.get_frequency()).hex(), "wavelength": float(w.get_wavelength()).hex()}
    t = jnp.asarray(c["times"], dtype=jnp.float64)
    if k == "custom":
        p = CustomTimeSignalProfile(signal=jnp.asarray(c["signal"], dtype=jnp.float64), time_step_duration=float(c["dt"]),
                                    start_time=float(c["start"]), outside_value=float(c["outside"]), interpolation=c["mode"])
        return {"amp": hx(p.get_amplitude(t, period=1.0))}
    if k == "custom_c":      # complex-valued sampled signal (analytic / quadrature waveforms)
        sig = jnp.asarray(np.asarray(c["signal"], dtype=np.float64) + 1j * np.asarray(c["signal_im"], dtype=np.float64))
        p = CustomTimeSignalProfile(signal=sig, time_step_duration=float(c["dt"]), start_time=float(c["start"]),
                                    outside_value=float(c["outside"]), interpolation=c["mode"])
        a = np.asarray(p.get_amplitude(t, period=1.0))
        return {"amp": hx(np.real(a)), "amp_im": hx(np.imag(a)), "is_complex": bool(np.iscomplexobj(a))}
    if k == "cw":
        p = SingleFrequencyProfile(phase_shift=float(c["own_shift"]), num_startup_periods=c["nstart"])
        return {"amp": hx(p.get_amplitude(t, period=float(c["period"]), phase_shift=float(c["phase_shift"])))}
    if k == "gauss":
        p = GaussianPulseProfile(spectral_width=wc(c["width"]), center_wave=wc(c["center"]))
        return {"amp": hx(p.get_amplitude(t, period=1.0, phase_shift=float(c["phase_shift"]))),
                "fw": float(wc(c["width"]).get_frequency()).hex(), "fc": float(wc(c["center"]).get_frequency()).hex()}
    raise ValueError(k)


def main():
    payload = json.load(sys.stdin)
    outs = []
    for c in payload["cases"]:
        try:
            outs.append(one(c))
        except Exception as e:
            outs.append({"crash": type(e).__name__ + ": " + str(e)[:200]})
    print("RESULT " + json.dumps({"outs": outs}))


main()
