"""C43 driver: place one sphere / cylinder / extruded polygon (scene construction: paint_scene.py) and report
its voxel mask, the grid edges of its slice and the permittivity array after placement."""
import json, sys
from paint_scene import *  # noqa


def hexl(a):
    return [float(v).hex() for v in np.asarray(a, dtype=np.float64)]


def main():
    payload = json.load(sys.stdin)
    outs = []
    for c in payload["cases"]:
        try:
            oc, arrays, cfg = build_case(c)
            o = oc["o0"]
            g = cfg.resolved_grid
            raw = np.asarray(o.get_voxel_mask_for_shape())
            out = {"box": [[int(a), int(b)] for a, b in o.grid_slice_tuple], "grid_shape": [int(v) for v in o.grid_shape],
                   "edges": [hexl(g.edges(a)) for a in range(3)], "raw_shape": [int(v) for v in raw.shape],
                   "mask": np.broadcast_to(raw, o.grid_shape).astype(int).tolist(),
                   "real_shape": [float(v).hex() for v in o.real_shape],
                   "vol_shape": [int(v) for v in oc.volume.grid_shape],
                   "inv_eps0": np.asarray(arrays.inv_permittivities)[0].tolist(),
                   "ncomp": int(np.asarray(arrays.inv_permittivities).shape[0])}
            k = c["objs"][0]["kind"]
            if k == "sphere":
                out["radii"] = [float(o.radius_x if o.radius_x is not None else o.radius).hex(),
                                float(o.radius_y if o.radius_y is not None else o.radius).hex(),
                                float(o.radius_z if o.radius_z is not None else o.radius).hex()]
            elif k == "cyl":
                out["radius"] = float(o.radius).hex()
                out["axis"] = int(o.axis)
            else:
                out["axis"] = int(o.axis)
                out["vertices"] = [[float(x).hex(), float(y).hex()] for x, y in np.asarray(o.vertices, dtype=np.float64)]
            outs.append(out)
        except Exception as e:
            import traceback
            outs.append({"error": type(e).__name__ + ": " + str(e)[:300], "trace": traceback.format_exc()[-1500:]})
    emit({"outs": outs})


main()
