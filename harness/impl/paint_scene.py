"""Paint area (C28, C43): place static material objects (boxes, spheres, cylinders, extruded polygons) and report
the placed objects (slices, materials, masks) together with the assembled material arrays."""
import json, sys, warnings
import scenes
from scenes import *  # noqa
setup_jax(True)


def per():
    return {f: "periodic" for f in FACES}


def mat9(m):
    return {"eps": [float(v).hex() for v in m.permittivity], "mu": [float(v).hex() for v in m.permeability],
            "sigma_e": [float(v).hex() for v in m.electric_conductivity], "sigma_m": [float(v).hex() for v in m.magnetic_conductivity]}


def cellmajor(a):
    a = np.asarray(a, dtype=np.float64)
    n = a.shape[0]
    return {"n": int(n), "v": [[float(x).hex() for x in row] for row in np.moveaxis(a, 0, -1).reshape(-1, n)]}


def coords(ob, c, axes, sides, idx):
    """grid-index placement; on explicit non-uniform grids the index API is rejected, use the edge coordinates"""
    if c.get("edges"):
        return fdtdx.RealCoordinateConstraint(object=ob.name, axes=tuple(axes), sides=tuple(sides),
                                              coordinates=tuple(float(c["edges"][a][i]) for a, i in zip(axes, idx)))
    return ob.set_grid_coordinates(axes=tuple(axes), sides=tuple(sides), coordinates=tuple(int(i) for i in idx))


def build_case(c):
    shape = tuple(int(v) for v in c["shape"])
    if c.get("edges"):
        grid = fdtdx.RectilinearGrid.custom(*[jnp.asarray(np.array([float.fromhex(v) if isinstance(v, str) else v for v in e])) for e in c["edges"]])
    else:
        grid = fdtdx.UniformGrid(spacing=float(c.get("spacing", 1e-7)))
    cfg = fdtdx.SimulationConfig(time=1e-14, grid=grid, backend="cpu", dtype=jnp.float64)
    volkw = {}
    if c.get("vol_mat"):
        volkw["material"] = mk_material(c["vol_mat"])
    if c.get("vol_order") is not None:
        volkw["placement_order"] = int(c["vol_order"])
    vol = fdtdx.SimulationVolume(partial_grid_shape=shape, **volkw)
    bc = fdtdx.BoundaryConfig.from_uniform_bound(thickness=1, override_types=per())
    bd, cons = fdtdx.boundary_objects_from_config(bc, vol)
    objs = []
    for i, o in enumerate(c["objs"]):
        name = f"o{i}"
        kw = {"name": name}
        if o.get("order") is not None:
            kw["placement_order"] = int(o["order"])
        if o["kind"] == "box":
            ob = fdtdx.UniformMaterialObject(material=mk_material(o["mat"]), **kw)
            b = o["box"]
            cons.append(coords(ob, c, (0, 0, 1, 1, 2, 2), ("-", "+") * 3, (b[0][0], b[0][1], b[1][0], b[1][1], b[2][0], b[2][1])))
        else:
            mats = {k: mk_material(v) for k, v in o["mats"]}
            if o["kind"] == "sphere":
                rk = {k: float(o[k]) for k in ("radius_x", "radius_y", "radius_z") if o.get(k) is not None}
                ob = fdtdx.Sphere(radius=float(o["radius"]), materials=mats, material_name=o["mat_name"], **rk, **kw)
                axes = (0, 1, 2)
            elif o["kind"] == "cyl":
                ax = int(o["axis"])
                pgs = [None, None, None]
                pgs[ax] = int(o["height"])
                ob = fdtdx.Cylinder(radius=float(o["radius"]), axis=ax, materials=mats, material_name=o["mat_name"],
                                    partial_grid_shape=tuple(pgs), **kw)
                axes = (0, 1, 2)
            elif o["kind"] == "poly":
                ax = int(o["axis"])
                pgs = [None, None, None]
                pgs[ax] = int(o["height"])
                ob = fdtdx.ExtrudedPolygon(vertices=np.array(o["vertices"], dtype=float), axis=ax, materials=mats,
                                           material_name=o["mat_name"], partial_grid_shape=tuple(pgs), **kw)
                axes = (0, 1, 2)
            else:
                raise ValueError(o["kind"])
            cons.append(coords(ob, c, axes, ("-", "-", "-"), tuple(int(v) for v in o["lo"])))
        objs.append(ob)
    # the volume is not necessarily first in the user's list
    pos = int(c.get("vol_pos", 0)) % (len(objs) + 1)
    object_list = objs[:pos] + [vol] + objs[pos:] + list(bd.values())
    with warnings.catch_warnings():
        warnings.simplefilter("ignore")
        oc, arrays, params, cfg2, _ = fdtdx.place_objects(object_list=object_list, config=cfg, constraints=cons, key=KEY)
    global USER_ORDER
    USER_ORDER = [o.name for o in object_list]
    return oc, arrays, cfg2


USER_ORDER = None


def report(oc, arrays, cfg):
    from fdtdx.objects.static_material.static import UniformMaterialObject, StaticMultiMaterialObject
    placed = []
    # the user's list order (as handed to place_objects), NOT the container's own static_material_objects property:
    # the tie-break rule of the property is about the user's list
    statics = [o for o in oc.object_list if isinstance(o, (UniformMaterialObject, StaticMultiMaterialObject))]
    if USER_ORDER is not None:
        # "the volume is lowest": it precedes every other object whatever its position in the user's list
        statics.sort(key=lambda o: (-1 if o.name == oc.volume.name else USER_ORDER.index(o.name)))
    for o in statics:
        d = {"name": o.name, "order": int(o.placement_order), "box": [[int(a), int(b)] for a, b in o.grid_slice_tuple]}
        if isinstance(o, UniformMaterialObject):
            d["kind"] = "uniform"
            d["mat"] = mat9(o.material)
        else:
            d["kind"] = "multi"
            names = list(o.materials.keys())
            d["mats"] = [mat9(o.materials[k]) for k in names]
            d["sel"] = names.index(o.material_name)
            m = np.broadcast_to(np.asarray(o.get_voxel_mask_for_shape()), o.grid_shape)
            d["mask"] = m.astype(int).tolist()
        placed.append(d)
    out = {"shape": [int(v) for v in oc.volume.grid_shape], "objs": placed,
           "c0": float(fdtdx.constants.c).hex(), "dt": float(cfg.time_step_duration).hex(), "courant": float(cfg.courant_number).hex(),
           "eps": cellmajor(arrays.inv_permittivities)}
    mu = arrays.inv_permeabilities
    if isinstance(mu, (float, int)):
        out["mu"] = {"scalar": float(mu).hex(), "pyfloat": isinstance(mu, float)}
    elif np.asarray(mu).ndim == 0:
        out["mu"] = {"scalar": float(mu).hex(), "pyfloat": False}
    else:
        out["mu"] = cellmajor(mu)
    out["sige"] = None if arrays.electric_conductivity is None else cellmajor(arrays.electric_conductivity)
    out["sigm"] = None if arrays.magnetic_conductivity is None else cellmajor(arrays.magnetic_conductivity)
    g = cfg.resolved_grid
    out["uniform_spacing"] = None
    try:
        if not cfg.has_nonuniform_grid:
            out["uniform_spacing"] = float(cfg.uniform_spacing()).hex()
    except Exception:
        pass
    return out


