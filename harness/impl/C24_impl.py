"""C24 driver: BinaryMedianFilterModule and PillarDiscretization (runs against FDTDX_REPO/src)."""
import json
import os
import sys

os.environ.setdefault("JAX_PLATFORMS", "cpu")
import jax

jax.config.update("jax_enable_x64", True)
import jax.numpy as jnp
import numpy as np

import fdtdx
from fdtdx.core.misc import PaddingConfig
from fdtdx.objects.device.parameters.discrete import BinaryMedianFilterModule
from fdtdx.objects.device.parameters.discretization import PillarDiscretization

CFG = fdtdx.SimulationConfig(time=1e-13, grid=fdtdx.UniformGrid(spacing=1e-7), backend="cpu", dtype=jnp.float64)


def init(mod, mats, shape):
    return mod.init_module(config=CFG, materials=mats, matrix_voxel_grid_shape=tuple(shape),
                           single_voxel_size=(1e-7,) * 3, output_shape={"params": tuple(shape)})


def run(c):
    if c["kind"] == "median":
        mats = {"air": fdtdx.Material(permittivity=1.0), "poly": fdtdx.Material(permittivity=2.25)}
        cfg = PaddingConfig(widths=tuple(c["widths"]), modes=tuple(c["modes"]), values=tuple(c["values"]))
        mod = init(BinaryMedianFilterModule(padding_cfg=cfg, kernel_sizes=tuple(c["kernel"]), num_repeats=c.get("repeats", 1)), mats, c["shape"])
        x = jnp.asarray(np.asarray(c["m"], dtype=np.float32).reshape(c["shape"]))
        out = np.asarray(mod({"params": x})["params"])
        vals = set(np.unique(out).tolist())
        if out.shape != tuple(c["shape"]) or not vals <= {0.0, 1.0}:
            return {"error": f"shape {out.shape} values {sorted(vals)[:4]}"}
        return {"out": out.astype(int).tolist()}
    # insertion order of the materials dict is arbitrary (the pipeline orders materials by permittivity)
    order = c.get("dict_order") or list(range(len(c["perms"])))
    mats = {f"m{i}": fdtdx.Material(permittivity=float(c["perms"][i])) for i in order}
    mod = init(PillarDiscretization(axis=c["axis"], single_polymer_columns=c["single"], distance_metric=c["metric"]), mats, c["shape"])
    res = {"allowed": np.asarray(mod._allowed_indices).astype(int).tolist()}
    if c["kind"] == "pillar":
        x = jnp.asarray(np.asarray(c["x"], dtype=np.float64).reshape(c["shape"]))
        out = np.asarray(mod({"params": x})["params"])
        if out.shape != tuple(c["shape"]):
            return {"error": f"output shape {out.shape} != input shape {tuple(c['shape'])}"}
        res["out"] = np.rint(out).astype(int).tolist()
        res["exact_int"] = bool(np.all(out == np.rint(out))) and out.shape == tuple(c["shape"])
    return res


def main():
    payload = json.load(sys.stdin)
    outs = []
    for c in payload["cases"]:
        try:
            outs.append(run(c))
        except Exception as e:  # noqa: BLE001
            outs.append({"error": type(e).__name__ + ": " + str(e)[:150]})
    print("RESULT " + json.dumps({"outs": outs}))


main()
