"""C28 driver: see paint_scene.py (scene construction and report)."""
import json, sys
from paint_scene import *  # noqa


def main():
    payload = json.load(sys.stdin)
    outs = []
    for c in payload["cases"]:
        try:
            oc, arrays, cfg = build_case(c)
            outs.append(report(oc, arrays, cfg))
        except Exception as e:  # reported, never swallowed: the property module treats it as a failure
            import traceback
            outs.append({"error": type(e).__name__ + ": " + str(e)[:300], "trace": traceback.format_exc()[-1500:]})
    emit({"outs": outs})


main()
