"""C10/C11 driver: superposition of runs (linearity) and complex-vs-real storage."""
import json, sys, copy
import scenes
from scenes import *  # noqa
setup_jax(True)
from fdtdx.fdtd.fdtd import custom_fdtd_forward

def run(spec, init_scale=1.0):
    oc, arrays, cfg, _ = build(spec)
    if init_scale != 1.0:
        arrays = arrays.aset("fields->E", arrays.fields.E * init_scale).aset("fields->H", arrays.fields.H * init_scale)
    T = int(cfg.time_steps_total)
    st = custom_fdtd_forward(arrays=arrays, objects=oc, config=cfg, key=KEY, reset_container=False, record_detectors=True,
                             start_time=0, end_time=T, show_progress=False)
    out = st[1]
    res = {"E": np.asarray(out.fields.E), "H": np.asarray(out.fields.H)}
    for name, d in out.detector_states.items():
        for k, v in d.items():
            res[f"{name}:{k}"] = np.asarray(v)
    return res

def lin_case(c):
    spec = c["spec"]
    n = len(spec["sources"])
    parts = []
    # each source ALONE in the scene (the other source objects are removed, not just given amplitude 0: a defect by which
    # one source's presence disturbs another's injection is linear in the amplitudes and would cancel out otherwise)
    for i in range(n):
        s = copy.deepcopy(spec)
        s["sources"] = [copy.deepcopy(spec["sources"][i])]
        s["sources"][0]["amp"] = 1.0
        parts.append(run(s, init_scale=0.0))
    s = copy.deepcopy(spec)
    s["sources"] = []
    parts.append(run(s, init_scale=1.0))
    amps = c["amps"]
    s = copy.deepcopy(spec)
    for j, src in enumerate(s["sources"]):
        src["amp"] = amps[j]
    comb = run(s, init_scale=amps[n])
    out = {"linear": {}, "quadratic": {}}
    for k in comb:
        quad = any(t in k for t in c["quad_keys"])
        if quad:
            continue
        exp = sum(a * p[k] for a, p in zip(amps, parts))
        sc = max(float(np.abs(exp).max()), float(np.abs(comb[k]).max()), 1e-300)
        out["linear"][k] = {"err": float(np.abs(comb[k] - exp).max()) / sc, "scale": sc}
    # quadratic records: common factor g on everything
    g = c["g"]
    s2 = copy.deepcopy(s)
    for j, src in enumerate(s2["sources"]):
        src["amp"] = amps[j] * g
    comb2 = run(s2, init_scale=amps[n] * g)
    for k in comb:
        quad = any(t in k for t in c["quad_keys"])
        exp = comb[k] * (g * g if quad else g)
        sc = max(float(np.abs(exp).max()), 1e-300)
        out["quadratic" if quad else "linear"][k + ("" if quad else "|scaled")] = {"err": float(np.abs(comb2[k] - exp).max()) / sc, "scale": sc}
    return out

def cplx_case(c):
    r = run(c["spec"])
    s = copy.deepcopy(c["spec"]); s["complex"] = True
    z = run(s)
    out = {}
    for k in r:
        sc = max(float(np.abs(r[k]).max()), 1e-300)
        zz = z[k]
        im = float(np.abs(np.imag(zz)).max()) / sc if np.iscomplexobj(zz) and not np.iscomplexobj(r[k]) else 0.0
        ref = r[k]
        cmpv = np.real(zz) if (np.iscomplexobj(zz) and not np.iscomplexobj(ref)) else zz
        out[k] = {"err": float(np.abs(cmpv - ref).max()) / sc, "imag": im, "scale": sc, "cplx": bool(np.iscomplexobj(zz))}
    return out

if __name__ == "__main__":
    payload = json.load(sys.stdin)
    outs = []
    for c in payload["cases"]:
        try:
            outs.append(lin_case(c) if c["kind"] == "lin" else cplx_case(c))
        except Exception as e:
            import traceback
            outs.append({"error": type(e).__name__ + ": " + str(e)[:300], "trace": traceback.format_exc()[-1500:]})
    emit({"outs": outs})
