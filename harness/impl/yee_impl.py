"""Driver for the Yee-core properties: hand-built containers, forward/backward steps, exact outputs.

case: {shape, bt{face:type|"none"}, edges:[[..],[..],[..]]|None, ncomp:1|3, pow2:bool, sigma:bool, kvec, seed, steps,
       back:int (number of backward steps after the forward ones), complex:bool}
out:  {cn, eta0, ref, widths[3], phases{axis:[re,im]}, ieps, imu, sigE, sigH (comp-major nested lists, hex),
       states:[{E,H}], back:[{E,H}], cplx}
"""
import json, math, sys
import scenes
from scenes import *  # noqa
setup_jax(True)
from fdtdx.fdtd.forward import forward
from fdtdx.fdtd.backward import backward
from fdtdx.constants import c as c0, eta0

def build_hand(c):
    shape = tuple(c["shape"])
    g = GradientConfig(method="reversible", recorder=Recorder(modules=[]))
    if c.get("edges"):
        grid = fdtdx.RectilinearGrid.custom(*[jnp.asarray(e, dtype=jnp.float64) for e in c["edges"]])
    else:
        grid = fdtdx.UniformGrid(spacing=c.get("spacing", 1e-7))
    kw = {}
    if c.get("courant", "exact_half") == "exact_half":
        kw["courant_factor"] = float(0.5 * math.sqrt(3))
    if c.get("complex"):
        kw["use_complex_fields"] = True
    cfg = fdtdx.SimulationConfig(time=20 * 1.67e-16, grid=grid, backend="cpu", dtype=jnp.float64, gradient_config=g, **kw)
    vol = fdtdx.SimulationVolume(partial_grid_shape=shape)
    bt = {f: (t if t != "none" else "pec") for f, t in c["bt"].items()}
    bc = fdtdx.BoundaryConfig.from_uniform_bound(thickness=1, override_types=bt, **({"bloch_vector": tuple(c["kvec"])} if c.get("kvec") else {}))
    bd, cl = fdtdx.boundary_objects_from_config(bc, vol)
    keep = {k: v for k, v in bd.items() if c["bt"].get(k) != "none"}
    names = {o.name for o in keep.values()} | {vol.name}
    cl = [x for x in cl if x.object in names and all(getattr(x, "other_object", vol.name) in names for _ in [0])]
    oc, arrays, params, cfg, _ = fdtdx.place_objects(object_list=[vol, *keep.values()], config=cfg, constraints=cl, key=KEY)
    rng = np.random.default_rng(int(c["seed"]))
    sh = arrays.fields.E.shape
    cplx = bool(jnp.iscomplexobj(arrays.fields.E))
    def rf():
        a = rng.integers(-8, 9, size=sh) / 4.0
        if cplx:
            a = a + 1j * rng.integers(-8, 9, size=sh) / 4.0
        return jnp.asarray(a)
    E, H = rf(), rf()
    for b in oc.boundary_objects:
        E = b.apply_post_E_update(E); H = b.apply_post_H_update(H)
    nc = int(c.get("ncomp", 1))
    if c.get("pow2", True):
        ie = 1.0 / (2.0 ** rng.integers(0, 3, size=(nc,) + sh[1:])); im = 1.0 / (2.0 ** rng.integers(0, 2, size=(nc,) + sh[1:]))
    else:
        ie = 1.0 / rng.uniform(1, 4, size=(nc,) + sh[1:]); im = 1.0 / rng.uniform(1, 2, size=(nc,) + sh[1:])
    def full9(diag_exp, n_off):
        """dyadic, non-symmetric 3x3 tensor field (row-major 9 components): diagonal 2^-k, off-diagonals in {0, +-1/8, +-1/16}"""
        t = np.zeros((9,) + sh[1:])
        offv = np.array([0.0, 0.0, 0.125, -0.125, 0.0625, -0.0625])
        for r in range(3):
            for q in range(3):
                t[3 * r + q] = (1.0 / (2.0 ** rng.integers(0, diag_exp, size=sh[1:]))) if r == q else offv[rng.integers(0, n_off, size=sh[1:])]
        return t
    if c.get("full_eps"):
        ie = full9(3, 6)
    if c.get("full_mu"):
        im = full9(2, 6)
    arrays = arrays.aset("fields->E", E).aset("fields->H", H).aset("inv_permittivities", jnp.asarray(ie)).aset("inv_permeabilities", jnp.asarray(im))
    if c.get("sigma"):
        se = rng.integers(0, 4, size=(nc,) + sh[1:]) / 2048.0 if c.get("pow2", True) else rng.uniform(0, 2e-3, size=(nc,) + sh[1:])
        sm = rng.integers(0, 4, size=(nc,) + sh[1:]) * 64.0 if c.get("pow2", True) else rng.uniform(0, 2e2, size=(nc,) + sh[1:])
        se = se * float(c.get("sigma_scale", 1.0)); sm = sm * float(c.get("sigma_scale", 1.0))      # strongly conducting cells: loss factor f > 1
        if c.get("sigma_single"):      # one conducting cell in a lossless box (directed search for a non-passive update)
            cell = tuple(int(rng.integers(0, n)) for n in sh[1:])
            keep = np.zeros_like(se); keep[(slice(None),) + cell] = 1.0
            se = np.maximum(se, 1.0 / 2048.0 * float(c.get("sigma_scale", 1.0))) * keep
        if c.get("full_sigma"):      # 9-component (non-symmetric) conductivity tensors: dyadic diagonals, small off-diagonals
            def sig9(unit):
                t = np.zeros((9,) + sh[1:])
                offv = np.array([0.0, 0.0, 0.25, -0.25, 0.125])
                for r in range(3):
                    for q in range(3):
                        t[3 * r + q] = (rng.integers(1, 4, size=sh[1:]) if r == q else offv[rng.integers(0, 5, size=sh[1:])]) * unit
                return t
            se, sm = sig9(1.0 / 2048.0), sig9(64.0)
        if c["sigma"] in (True, "E", "EH"):
            arrays = arrays.aset("electric_conductivity", jnp.asarray(se))
        if c["sigma"] in ("H", "EH"):
            arrays = arrays.aset("magnetic_conductivity", jnp.asarray(sm))
    return oc, arrays, cfg

def as9(a, sh):
    """row-major 9-component view of a 1 / 3 / 9 component material array (what expand_to_3x3 produces)"""
    a = np.asarray(a, dtype=np.float64)
    out = np.zeros((9,) + tuple(sh))
    if a.ndim == 4 and a.shape[0] == 9:
        return a
    d = np.broadcast_to(a, (3,) + tuple(sh)) if a.ndim == 4 else np.broadcast_to(a.reshape((1, 1, 1, 1)), (3,) + tuple(sh))
    for r in range(3):
        out[4 * r] = d[r]
    return out


def bc3(a, sh):
    a = np.asarray(a)
    if a.ndim == 4 and a.shape[0] == 9:      # full tensor: the diagonal (the off-diagonals are reported separately as ieps9 / imu9)
        return a[[0, 4, 8]]
    return np.broadcast_to(a, (3,) + tuple(sh)) if a.ndim == 4 else np.broadcast_to(a.reshape((1, 1, 1, 1)), (3,) + tuple(sh))

def cfl(a):
    return fl(np.asarray(a))

def describe(oc, arrays, cfg):
    sh = arrays.fields.E.shape[1:]
    grid = cfg.resolved_grid
    nonuni = bool(cfg.has_nonuniform_grid)
    widths = [np.asarray(grid.cell_widths(a), dtype=np.float64) for a in range(3)] if nonuni else [np.ones(n) for n in sh]
    ref = float(c0 * cfg.time_step_duration / cfg.courant_number) if nonuni else 1.0
    phases = {}
    phase_err = 0.0
    for b in oc.boundary_objects:
        # gated on the Bloch vector the USER declared, not on the implementation's own needs_complex_fields verdict
        if hasattr(b, "get_bloch_phase") and float(b.bloch_vector[b.axis]) != 0.0:
            sp = float(grid.min_spacing) if nonuni else cfg.uniform_spacing()
            ph = complex(b.get_bloch_phase(oc.volume.grid_shape, sp))
            phases[f"{b.axis}{b.direction}"] = [ph.real.hex(), ph.imag.hex()]
            # bit pattern is the implementation's (exact replay); the value is checked against exp(i k L) computed here
            L = float(np.sum(widths[b.axis])) if nonuni else sh[b.axis] * float(cfg.uniform_spacing())
            phase_err = max(phase_err, abs(ph - np.exp(1j * float(b.bloch_vector[b.axis]) * L)))
    zero = np.zeros((3,) + tuple(sh))
    return {"cn": float(cfg.courant_number).hex(), "eta0": float(eta0).hex(), "ref": float(ref).hex(), "nonuniform": nonuni,
            "widths": [fl(w) for w in widths], "phases": phases, "phase_err": float(phase_err),
            "ieps": fl(bc3(arrays.inv_permittivities, sh)), "imu": fl(bc3(arrays.inv_permeabilities, sh)),
            "sigE": fl(bc3(arrays.electric_conductivity, sh)) if arrays.electric_conductivity is not None else None,
            "sigH": fl(bc3(arrays.magnetic_conductivity, sh)) if arrays.magnetic_conductivity is not None else None,
            "cplx": bool(jnp.iscomplexobj(arrays.fields.E)),
            "ieps9": fl(np.asarray(arrays.inv_permittivities)) if np.ndim(arrays.inv_permittivities) == 4 and np.shape(arrays.inv_permittivities)[0] == 9 else None,
            "imu9": fl(np.asarray(arrays.inv_permeabilities)) if np.ndim(arrays.inv_permeabilities) == 4 and np.shape(arrays.inv_permeabilities)[0] == 9 else None,
            # 9-component views of the inverse tensors (what expand_to_3x3 produces) and whether a conductivity alone forces the full-anisotropic branch
            "ieps9x": fl(as9(arrays.inv_permittivities, sh)), "imu9x": fl(as9(arrays.inv_permeabilities, sh)),
            "sigE_full": bool(arrays.electric_conductivity is not None and np.ndim(arrays.electric_conductivity) == 4 and np.shape(arrays.electric_conductivity)[0] == 9),
            "sigH_full": bool(arrays.magnetic_conductivity is not None and np.ndim(arrays.magnetic_conductivity) == 4 and np.shape(arrays.magnetic_conductivity)[0] == 9),
            "sigE9": fl(as9(arrays.electric_conductivity, sh)) if arrays.electric_conductivity is not None else None,
            "sigH9": fl(as9(arrays.magnetic_conductivity, sh)) if arrays.magnetic_conductivity is not None else None}

def snap(st):
    return {"t": int(st[0]), "E": fl(st[1].fields.E), "H": fl(st[1].fields.H)}

def tile_fields(a, reps, phases):
    """tile array a (3,nx,ny,nz) reps[a] times along each axis, copy j multiplied by phase^j"""
    a = np.asarray(a)
    for ax in range(3):
        m = reps[ax]
        if m > 1:
            a = np.concatenate([a * (phases[ax] ** j) for j in range(m)], axis=ax + 1)
    return a

def run_tiled(c):
    """supercell: the N-cell container and the (reps*N)-cell container with tiled materials / fields"""
    small = run_case({k: v for k, v in c.items() if k != "tile"})
    oc, arrays, cfg = build_hand({k: v for k, v in c.items() if k != "tile"})
    reps = c["tile"]
    big_c = dict(c); big_c.pop("tile")
    big_c["shape"] = [n * r for n, r in zip(c["shape"], reps)]
    if c.get("edges"):
        # the grid is tiled too: the period's cell widths repeated reps[a] times
        big_edges = []
        for a in range(3):
            e = np.asarray(c["edges"][a], dtype=np.float64)
            wd = np.tile(np.diff(e), reps[a])
            big_edges.append(np.concatenate([[e[0]], e[0] + np.cumsum(wd)]).tolist())
        big_c["edges"] = big_edges
    oc2, arrays2, cfg2 = build_hand(big_c)
    phases = [1.0, 1.0, 1.0]
    for b in oc.boundary_objects:
        if hasattr(b, "get_bloch_phase") and float(b.bloch_vector[b.axis]) != 0.0 and b.direction == "+":
            sp = float(cfg.resolved_grid.min_spacing) if cfg.has_nonuniform_grid else cfg.uniform_spacing()
            phases[b.axis] = complex(b.get_bloch_phase(oc.volume.grid_shape, sp))
    E = tile_fields(arrays.fields.E, reps, phases); H = tile_fields(arrays.fields.H, reps, phases)
    one = [1.0, 1.0, 1.0]
    arrays2 = arrays2.aset("fields->E", jnp.asarray(E.astype(arrays2.fields.E.dtype))).aset("fields->H", jnp.asarray(H.astype(arrays2.fields.H.dtype)))
    arrays2 = arrays2.aset("inv_permittivities", jnp.asarray(tile_fields(arrays.inv_permittivities, reps, one)))
    arrays2 = arrays2.aset("inv_permeabilities", jnp.asarray(tile_fields(arrays.inv_permeabilities, reps, one)))
    if arrays.electric_conductivity is not None:
        arrays2 = arrays2.aset("electric_conductivity", jnp.asarray(tile_fields(arrays.electric_conductivity, reps, one)))
    if arrays.magnetic_conductivity is not None:
        arrays2 = arrays2.aset("magnetic_conductivity", jnp.asarray(tile_fields(arrays.magnetic_conductivity, reps, one)))
    big = describe(oc2, arrays2, cfg2)
    st = (jnp.asarray(0, dtype=jnp.int32), arrays2)
    states = [snap(st)]
    worst = 0.0
    scale = 1e-300
    for t in range(int(c.get("steps", 2))):
        st = forward(st, cfg2, oc2, KEY, record_detectors=False, record_boundaries=False, simulate_boundaries=True)
        states.append(snap(st))
    big["states"] = states
    # compare with the tiled small trajectory
    def cx(x):
        if isinstance(x, dict):
            return np.array(_unhex(x["re"])) + 1j * np.array(_unhex(x["im"]))
        return np.array(_unhex(x))
    errs = []
    for ss, bs in zip(small["states"], states):
        for f in ("E", "H"):
            exp = tile_fields(cx(ss[f]), reps, phases)
            got = cx(bs[f])
            scale = max(scale, float(np.abs(exp).max()))
            errs.append(float(np.abs(exp - got).max()))
    return {"small": small, "big": big, "tile_err": max(errs), "scale": scale, "phases": [[complex(p).real, complex(p).imag] for p in phases]}

def _unhex(x):
    return [_unhex(v) for v in x] if isinstance(x, list) else float.fromhex(x)

def run_case(c):
    if c.get("tile"):
        return run_tiled(c)
    oc, arrays, cfg = build_hand(c)
    out = describe(oc, arrays, cfg)
    st = (jnp.asarray(0, dtype=jnp.int32), arrays)
    states = [snap(st)]
    for _ in range(int(c.get("steps", 2))):
        st = forward(st, cfg, oc, KEY, record_detectors=False, record_boundaries=False, simulate_boundaries=True)
        states.append(snap(st))
    out["states"] = states
    back = []
    for _ in range(int(c.get("back", 0))):
        st = backward(st, cfg, oc, KEY, record_detectors=False, reset_fields=False)
        back.append(snap(st))
    out["back"] = back
    return out

if __name__ == "__main__":
    payload = json.load(sys.stdin)
    outs = []
    for c in payload["cases"]:
        try:
            outs.append(run_case(c))
        except Exception as e:
            import traceback
            outs.append({"error": type(e).__name__ + ": " + str(e)[:300], "trace": traceback.format_exc()[-1500:]})
    emit({"outs": outs})
