"""C33 driver: reduced (config.symmetry electric plane) vs full domain, hand-set parity-consistent fields; forward steps; co-located detector."""
import json, sys, warnings
import scenes
from scenes import *  # noqa
setup_jax(True)
from fdtdx.fdtd.forward import forward
from fdtdx.fdtd.symmetry import unfold_fields, unfold_detector_states
from yee_impl import describe, snap

def place(shape, sym, bt, sp, det=None):
    cfg = fdtdx.SimulationConfig(time=20 * 1.9e-16, grid=fdtdx.UniformGrid(spacing=sp), backend="cpu", dtype=jnp.float64, symmetry=tuple(sym),
                                 courant_factor=float(0.5 * math.sqrt(3)))
    vol = fdtdx.SimulationVolume(partial_grid_shape=tuple(shape))
    bc = fdtdx.BoundaryConfig.from_uniform_bound(thickness=1, override_types=bt)
    bd, cons = fdtdx.boundary_objects_from_config(bc, vol)
    objs = [vol, *bd.values()]
    if det:
        d = fdtdx.FieldDetector(name="det", partial_grid_shape=tuple(b[1] - b[0] for b in det), dtype=jnp.float64, exact_interpolation=True)
        cons += [d.set_grid_coordinates(axes=(0, 1, 2), sides=("-", "-", "-"), coordinates=tuple(b[0] for b in det))]
        objs.append(d)
    with warnings.catch_warnings():
        warnings.simplefilter("ignore")
        return fdtdx.place_objects(object_list=objs, config=cfg, constraints=cons, key=KEY)

import math
def run_case(c):
    shape, nst = list(c["shape"]), c["steps"]
    axes = list(c.get("axes") or [c["axis"]])      # electric symmetry planes (config.symmetry = -1) on these axes
    sym = [0, 0, 0]
    for a in axes:
        sym[a] = -1
    bt = c["bt"]
    ns = {a: shape[a] // 2 for a in axes}
    det = c.get("det")
    ocr, ar, _, cfgr, _ = place(shape, sym, bt, 1e-7, det)
    ocf, af, _, cfgf, _ = place(shape, (0, 0, 0), bt, 1e-7, det)
    rng = np.random.default_rng(c["seed"])
    rs = ar.fields.E.shape
    E = jnp.asarray(rng.integers(-8, 9, size=rs) / 4.0); H = jnp.asarray(rng.integers(-8, 9, size=rs) / 4.0)
    for b in ocr.boundary_objects:
        E = b.apply_post_E_update(E); H = b.apply_post_H_update(H)
    tsh = [3] + list(rs[1:])
    for a in axes:
        idx = [a] + [slice(None)] * 3; idx[a + 1] = 0
        H = H.at[tuple(idx)].set(0)      # normal H vanishes on the electric plane row
        tsh[a + 1] = 1                   # material constant along the mirrored axes (trivially mirror symmetric)
    inv_eps = np.broadcast_to(1.0 / (2.0 ** rng.integers(0, 3, size=tsh)), (3,) + tuple(rs[1:])).copy()
    inv_eps_full = inv_eps
    for a in axes:
        inv_eps_full = np.concatenate([inv_eps_full, inv_eps_full], axis=a + 1)
    ar = ar.aset("fields->E", E).aset("fields->H", H).aset("inv_permittivities", jnp.asarray(inv_eps))
    Ef = unfold_fields(E, tuple(sym), "E"); Hf = unfold_fields(H, tuple(sym), "H")
    for b in ocf.boundary_objects:
        Ef = b.apply_post_E_update(Ef); Hf = b.apply_post_H_update(Hf)
    af = af.aset("fields->E", Ef).aset("fields->H", Hf).aset("inv_permittivities", jnp.asarray(inv_eps_full))
    sr = (jnp.asarray(0, dtype=jnp.int32), ar); sf = (jnp.asarray(0, dtype=jnp.int32), af)
    red = describe(ocr, ar, cfgr); red["states"] = [snap(sr)]
    full = describe(ocf, af, cfgf); full["states"] = [snap(sf)]
    errs = []
    for t in range(nst):
        sr = forward(sr, cfgr, ocr, KEY, record_detectors=bool(det), record_boundaries=False, simulate_boundaries=True)
        sf = forward(sf, cfgf, ocf, KEY, record_detectors=bool(det), record_boundaries=False, simulate_boundaries=True)
        red["states"].append(snap(sr)); full["states"].append(snap(sf))
        worst = 0.0
        for nm in ("E", "H"):
            u = np.asarray(unfold_fields(getattr(sr[1].fields, nm), tuple(sym), nm)); f = np.asarray(getattr(sf[1].fields, nm))
            sl = [slice(None)] * 4
            for a in axes:
                sl[a + 1] = slice(t + 3, 2 * ns[a] - t - 3)
            if all(sl[a + 1].start < sl[a + 1].stop for a in axes):
                worst = max(worst, float(np.abs(u[tuple(sl)] - f[tuple(sl)]).max()))
        errs.append(worst)
    out = {"reduced": red, "full": full, "cone_err": errs, "n": [ns[a] for a in axes], "scale": float(max(np.abs(np.asarray(sf[1].fields.E)).max(), 1e-300)),
           "walls": [[int(b.axis), b.direction, type(b).__name__, bool(getattr(b, "_is_symmetry_wall", False)),
                      [list(map(int, sl_)) for sl_ in b.grid_slice_tuple]] for b in ocr.boundary_objects],
           "reduced_shape": [int(v) for v in rs[1:]]}
    if det:
        ur = unfold_detector_states(sr[1], ocr, cfgr)
        dr = np.asarray(ur.detector_states["det"]["fields"]); df = np.asarray(sf[1].detector_states["det"]["fields"])
        out["det_shapes"] = [list(dr.shape), list(df.shape)]
        derr = []
        if dr.shape == df.shape:
            for t in range(nst):
                sl = [t, slice(None), slice(None), slice(None), slice(None)]
                ok = True
                for a in axes:
                    lo = det[a][0]
                    a0, a1 = max(t + 4 - lo, 0), min(2 * ns[a] - t - 4 - lo, dr.shape[a + 2])
                    sl[a + 2] = slice(a0, a1)
                    ok = ok and a0 < a1
                derr.append(float(np.abs(dr[tuple(sl)] - df[tuple(sl)]).max()) if ok else 0.0)
        out["det_err"] = derr
        out["det_scale"] = float(max(np.abs(df).max(), 1e-300))
    return out

if __name__ == "__main__":
    payload = json.load(sys.stdin)
    outs = []
    for c in payload["cases"]:
        try:
            outs.append(run_case(c))
        except Exception as e:
            import traceback
            outs.append({"error": type(e).__name__ + ": " + str(e)[:300], "trace": traceback.format_exc()[-1500:]})
    emit({"outs": outs})
