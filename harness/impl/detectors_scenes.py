"""Scene helper shared by the Detectors-area drivers (C15, C16, C17): dyadic grids (uniform or
rectilinear), boxes placed by grid index on either kind, hand-set fields, direct calls of
update_detector_states.  Runs against $FDTDX_REPO/src (PYTHONPATH set by core.run_impl)."""
from __future__ import annotations

import os

os.environ.setdefault("JAX_PLATFORMS", "cpu")
import jax
import jax.numpy as jnp
import numpy as np

jax.config.update("jax_enable_x64", True)
import fdtdx  # noqa: E402
from fdtdx.objects.object import RealCoordinateConstraint  # noqa: E402

KEY = jax.random.PRNGKey(0)
U = 2.0 ** -24          # metres; widths are integer multiples of U/4 -> all weights are dyadic
FACES = ("min_x", "max_x", "min_y", "max_y", "min_z", "max_z")


def fl(x):
    a = np.asarray(x, dtype=np.float64).ravel()
    return [float(v).hex() for v in a]


def emit(obj):
    import json
    print("RESULT " + json.dumps(obj))


class Scene:
    """spec: shape, widths (None | [[int quarter-units]*3]), bt {face: kind}, T (time steps), symmetry, complex"""

    def __init__(self, spec):
        self.spec = spec
        self.shape = tuple(spec["shape"])
        w = spec.get("widths")
        self.nonuni = w is not None
        if self.nonuni:
            self.edges = [np.concatenate([[0.0], np.cumsum(np.asarray(wa, dtype=np.float64))]) * (U / 4) for wa in w]
            grid = fdtdx.RectilinearGrid.custom(*[jnp.asarray(e) for e in self.edges])
        else:
            grid = fdtdx.UniformGrid(spacing=U)
        kw = {}
        if spec.get("symmetry"):
            kw["symmetry"] = tuple(spec["symmetry"])
        if spec.get("complex"):
            kw["use_complex_fields"] = True
        cfg = fdtdx.SimulationConfig(time=1.0, grid=grid, backend="cpu", dtype=jnp.float64, **kw)
        self.cfg = cfg.aset("time", cfg.time_step_duration * int(spec.get("T", 4)) * 1.0001)
        self.vol = fdtdx.SimulationVolume(partial_grid_shape=self.shape)
        bt = dict(spec.get("bt") or {f: "periodic" for f in FACES})
        bkw = {}
        if spec.get("kvec"):
            bkw["bloch_vector"] = tuple(spec["kvec"])
        bc = fdtdx.BoundaryConfig.from_uniform_bound(thickness=int(spec.get("thickness", 1)), override_types=bt, **bkw)
        self.bd, self.cons = fdtdx.boundary_objects_from_config(bc, self.vol)
        self.objs = [self.vol, *self.bd.values()]

    def dt(self):
        return self.cfg.time_step_duration

    def box_constraint(self, d, box):
        (x0, x1), (y0, y1), (z0, z1) = box
        if self.nonuni:
            idx = ((0, x0), (0, x1), (1, y0), (1, y1), (2, z0), (2, z1))
            return RealCoordinateConstraint(object=d.name, axes=(0, 0, 1, 1, 2, 2), sides=("-", "+") * 3,
                                            coordinates=tuple(float(self.edges[a][i]) for a, i in idx))
        return d.set_grid_coordinates(axes=(0, 0, 1, 1, 2, 2), sides=("-", "+") * 3, coordinates=(x0, x1, y0, y1, z0, z1))

    def place(self, dets_with_boxes):
        objs = list(self.objs)
        cons = list(self.cons)
        for d, box in dets_with_boxes:
            objs.append(d)
            cons.append(self.box_constraint(d, box))
        oc, arrays, params, cfg, _ = fdtdx.place_objects(object_list=objs, config=self.cfg, constraints=cons, key=KEY)
        arrays, oc, _ = fdtdx.apply_params(arrays, oc, params, KEY)
        return oc, arrays, cfg


def quarter(a, dtype=np.float64):
    """nested int lists (quarter units) -> float array"""
    return np.asarray(a, dtype=dtype) / 4.0
