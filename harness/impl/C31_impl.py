"""C31 driver: JsonSetup.dumps / loads on generated scenes, export/import of synthetic object graphs."""
import dataclasses, json, sys, warnings
import scenes
from scenes import *  # noqa
setup_jax(True)
import pytreeclass as tc
from fdtdx.conversion.json import JsonSetup, export_json_str, import_from_json
from fdtdx.core.jax.pytrees import TreeClass
from fdtdx.core.null import NULL
from fdtdx.typing import JAX_DTYPES
from collections.abc import Sequence


# ------------------------------------------------------------------------ encodings handed to the harness
def enc_json(j):
    if j is None:
        return ["n"]
    if isinstance(j, bool):
        return ["b", j]
    if isinstance(j, int):
        return ["i", j]
    if isinstance(j, float):
        return ["f", j.hex()]
    if isinstance(j, str):
        return ["s", j]
    if isinstance(j, list):
        return ["l", [enc_json(x) for x in j]]
    if isinstance(j, dict):
        return ["o", [[k, enc_json(v)] for k, v in j.items()]]
    raise TypeError(type(j))


def reflect(o):
    """The object graph as _export_json's dispatch sees it, obtained independently of json.py
    (pytreeclass.fields for tree classes, __dict__ for dataclasses)."""
    if type(o).__name__ != type(o).__qualname__:
        return ["opaque"]
    if o is NULL:
        return ["null"]
    if o is None:
        return ["none"]
    if isinstance(o, bool):
        return ["b", o]
    if isinstance(o, int):
        return ["i", o]
    if isinstance(o, float):
        return ["f", o.hex()]
    if isinstance(o, str):
        return ["s", o]
    if isinstance(o, (np.ndarray, jax.Array)):
        return ["arr", enc_json(np.asarray(o).tolist())]
    if any(o is d for d in JAX_DTYPES):
        return ["dtype", o.__name__]
    mod, name = type(o).__module__, type(o).__name__
    if dataclasses.is_dataclass(o) and not isinstance(o, type) and hasattr(o, "__dict__") and not isinstance(o, TreeClass):
        return ["data", mod, name, [[k, reflect(v)] for k, v in o.__dict__.items()]]
    if isinstance(o, TreeClass):
        return ["tree", mod, name, [[f.name, reflect(getattr(o, f.name))] for f in tc.fields(o) if f.init]]
    if isinstance(o, dict):
        if not all(isinstance(k, str) for k in o):
            return ["opaque"]
        return ["dict", [[k, reflect(v)] for k, v in o.items()]]
    if isinstance(o, Sequence):
        return ["seq", mod, name, [reflect(v) for v in o]]
    return ["opaque"]


def D(a, b):
    if a is None or b is None:
        return a is b
    a, b = np.asarray(a), np.asarray(b)
    return bool(a.shape == b.shape and np.array_equal(a, b))


# ------------------------------------------------------------------------ scenes
def extra_objects(spec, objs, cons, vol):
    """objects / constraints beyond scenes.make_objects: size extension, relative placement"""
    byname = {o.name: o for o in objs}
    for i, e in enumerate(spec.get("extra") or []):
        if e["kind"] == "slab":
            o = fdtdx.UniformMaterialObject(name=e["name"], partial_grid_shape=(None, None, int(e["nz"])), material=mk_material(e),
                                            placement_order=int(e.get("order", 1)))
            cons += [o.same_size(vol, axes=(0, 1)), o.place_at_center(vol, axes=(0, 1)),
                     o.set_grid_coordinates(axes=(2,), sides=("-",), coordinates=(int(e["z"]),))]
        elif e["kind"] == "pillar":
            o = fdtdx.UniformMaterialObject(name=e["name"], partial_grid_shape=(int(e["n"]), int(e["n"]), None), material=mk_material(e))
            base = byname[e["on"]]
            cons += [o.place_at_center(base, axes=(0, 1)), o.place_above(base), o.extend_to(None if e.get("to") is None else byname[e["to"]], axis=2, direction="+")]
        elif e["kind"] == "rel":
            o = fdtdx.UniformMaterialObject(name=e["name"], partial_real_shape=tuple(e["real_shape"]), material=mk_material(e))
            cons += [o.place_relative_to(vol, axes=(0, 1, 2), own_positions=(0, 0, 0), other_positions=tuple(e["pos"]), margins=tuple(e.get("margins", (0, 0, 0))))]
        elif e["kind"] == "sized":
            o = fdtdx.UniformMaterialObject(name=e["name"], material=mk_material(e))
            base = byname[e["like"]]
            cons += [o.size_relative_to(base, axes=(0, 1, 2), proportions=tuple(e["prop"])), o.place_at_center(base)]
        elif e["kind"] == "sphere":          # not accepted by JsonSetup.validate
            o = fdtdx.Sphere(name=e["name"], radius=1.5e-7, materials={"a": fdtdx.Material(permittivity=1.0), "b": fdtdx.Material(permittivity=4.0)},
                             material_name="b")
            cons += [o.place_at_center(vol)]
        elif e["kind"] == "realcoord":       # RealCoordinateConstraint is not accepted
            o = fdtdx.UniformMaterialObject(name=e["name"], partial_grid_shape=(2, 2, 2), material=mk_material(e))
            from fdtdx.objects.object import RealCoordinateConstraint
            cons += [RealCoordinateConstraint(object=o.name, axes=(0, 1, 2), sides=("-", "-", "-"), coordinates=(1e-7, 1e-7, 1e-7))]
        else:
            raise ValueError(e["kind"])
        objs.append(o)
        byname[o.name] = o
    return objs, cons


def scene(c):
    spec = c["spec"]
    if spec.get("rect_widths"):      # explicit RectilinearGrid in the configuration (cell widths in metres per axis)
        edges = [jnp.asarray(np.concatenate([[0.0], np.cumsum(np.asarray(w, dtype=np.float64))])) for w in spec["rect_widths"]]
        spec = dict(spec, grid_obj=fdtdx.RectilinearGrid.custom(*edges))
    cfg = base_config(spec)
    cfg = set_steps(cfg, int(spec.get("steps", 4)))
    objs, cons, vol = make_objects(spec, cfg.time_step_duration)
    objs, cons = extra_objects(spec, objs, cons, vol)
    if spec.get("dangling"):      # constraints that reference an object missing from the list
        objs = [o for o in objs if o.name != spec["extra"][0]["name"]]
    setup = JsonSetup(config=cfg, object_list=objs, constraints=cons, meta=spec.get("meta"))
    out = {}
    try:
        s = setup.dumps()
    except Exception as e:
        return {"dump_error": type(e).__name__ + ": " + str(e)[:200]}
    jv = json.loads(s)
    out["json"] = {k: enc_json(jv[k]) for k in ("config", "object_list", "constraints")}
    out["top_keys"] = sorted(jv.keys())
    out["graph"] = {"config": reflect(cfg), "object_list": reflect(objs), "constraints": reflect(cons)}
    try:
        back = JsonSetup.loads(s)
    except Exception as e:
        out["load_error"] = type(e).__name__ + ": " + str(e)[:300]
        return out
    out["graph_back"] = {"config": reflect(back.config), "object_list": reflect(back.object_list), "constraints": reflect(back.constraints)}
    out["text_fixpoint"] = bool(back.dumps() == s)
    out["len"] = len(s)
    if c.get("place", True):
        res = {}
        try:
            with warnings.catch_warnings():
                warnings.simplefilter("ignore")
                try:
                    o1, a1, p1, c1, _ = fdtdx.place_objects(object_list=objs, config=cfg, constraints=cons, key=KEY)
                except Exception as e:
                    out["place"] = {"place_error_orig": type(e).__name__ + ": " + str(e)[:300]}
                    return out
                o2, a2, p2, c2, _ = fdtdx.place_objects(object_list=back.object_list, config=back.config, constraints=back.constraints, key=KEY)
            res["slices"] = {o.name: [list(map(int, s_)) for s_ in o.grid_slice_tuple] for o in o1.objects}
            res["slices_back"] = {o.name: [list(map(int, s_)) for s_ in o.grid_slice_tuple] for o in o2.objects}
            res["arrays"] = {n: D(getattr(a1, n), getattr(a2, n)) for n in
                             ("inv_permittivities", "inv_permeabilities", "electric_conductivity", "magnetic_conductivity")}
            res["arrays"]["E"] = D(a1.fields.E, a2.fields.E)
            res["arrays"]["H"] = D(a1.fields.H, a2.fields.H)
            res["arrays"]["detector_states"] = bool(set(a1.detector_states) == set(a2.detector_states) and all(
                D(a1.detector_states[k][kk], a2.detector_states[k][kk]) for k in a1.detector_states for kk in a1.detector_states[k]))
            res["steps"] = [int(c1.time_steps_total), int(c2.time_steps_total)]
            res["nonvac"] = float(np.abs(np.asarray(a1.inv_permittivities) - 1.0).max())
        except Exception as e:
            res["place_error"] = type(e).__name__ + ": " + str(e)[:300]
        out["place"] = res
    return out


# ------------------------------------------------------------------------ synthetic graphs
class Outer:
    class Inner:      # nested class: __name__ != __qualname__
        pass


def build_value(r):
    """recipe (JSON) -> python object"""
    t = r[0]
    if t == "none":
        return None
    if t in ("b", "i", "s"):
        return r[1]
    if t == "f":
        return float.fromhex(r[1])
    if t == "nparr":
        return np.asarray(r[2], dtype=getattr(np, r[1]))
    if t == "jarr":
        return jnp.asarray(np.asarray(r[2], dtype=getattr(np, r[1])))
    if t == "dtype":
        return getattr(jnp, r[1])
    if t == "list":
        return [build_value(x) for x in r[1]]
    if t == "tuple":
        return tuple(build_value(x) for x in r[1])
    if t == "dict":
        return {k: build_value(v) for k, v in r[1]}
    if t == "intkeydict":
        return {1: 2}
    if t == "wave":
        return fdtdx.WaveCharacter(wavelength=float.fromhex(r[1]))
    if t == "material":
        return fdtdx.Material(permittivity=build_value(r[1]), electric_conductivity=float.fromhex(r[2]))
    if t == "switch":
        return fdtdx.OnOffSwitch(start_time=float.fromhex(r[1]), interval=int(r[2]), fixed_on_time_steps=None if r[3] is None else list(r[3]))
    if t == "poscons":
        return fdtdx.objects.object.PositionConstraint(object=r[1], other_object=r[2], axes=(0, 2), object_positions=(0.0, -1.0),
                                                       other_object_positions=(1.0, 0.5), margins=(0.0, 1e-7), grid_margins=(0, 3))
    if t == "poscons_private":     # a dataclass instance carrying a private attribute in __dict__ (dropped by the export)
        o = build_value(["poscons", r[1], r[2]])
        object.__setattr__(o, "_cache", 5)
        return o
    if t == "null":
        return NULL
    if t == "set":
        return {1, 2}
    if t == "nested":
        return Outer.Inner()
    if t == "complex":
        return 1 + 2j
    raise ValueError(t)


def graph(c):
    try:
        obj = build_value(c["recipe"])
    except Exception as e:
        return {"build_error": type(e).__name__ + str(e)[:100]}
    out = {"graph": reflect(obj)}
    try:
        s = export_json_str(obj)
    except BaseException as e:
        out["export_error"] = type(e).__name__
        return out
    out["json"] = enc_json(json.loads(s))
    try:
        back = import_from_json(s)
    except BaseException as e:
        out["import_error"] = type(e).__name__
        return out
    out["graph_back"] = reflect(back)
    try:
        out["text_fixpoint"] = bool(export_json_str(back) == s)
    except BaseException as e:
        out["text_fixpoint"] = False
    return out


def main():
    payload = json.load(sys.stdin)
    outs = []
    for c in payload["cases"]:
        outs.append({"scene": scene, "graph": graph}[c["kind"]](c))
    emit({"outs": outs})


main()
