"""C32 driver: parity tables, unfold_fields, unfold_array, _unfold_one_detector, unfold_detector_states."""
import json, sys, warnings
import scenes
from scenes import *  # noqa
setup_jax(True)
from fdtdx.core.physics import symmetry as PS
from fdtdx.fdtd import symmetry as FS

COMPONENTS = ("Ex", "Ey", "Ez", "Hx", "Hy", "Hz")


def err(e):
    return {"error": type(e).__name__}


def tables(c):
    out = {"parity": [], "sits": [], "pairs": [], "poynting": [], "rf": [], "spec": []}
    for ft in "EH":
        for comp in range(3):
            for ax in range(3):
                out["sits"].append(bool(PS.component_sits_on_plane(ft, comp, ax)))
                for w in (-2, -1, 0, 1, 2):
                    try:
                        out["parity"].append(int(PS.field_component_parity(ft, comp, ax, w)))
                    except ValueError:
                        out["parity"].append(None)
                    out["pairs"].append(bool(PS.mirror_pairs_on_plane(ft, comp, ax, w)))
    for i in range(3):
        for ax in range(3):
            for w in (-1, 1):
                out["poynting"].append(int(FS._poynting_parity(i, ax, w)))
    for par, mean in c["rf"]:
        f = FS._reduce_factor(par, ndim=2, component_axis=1, mean=bool(mean))
        out["rf"].append(fl(np.asarray(f).reshape(-1)))
    for sub in c["subsets"]:
        comps = tuple(COMPONENTS[i] for i in sub)
        out["spec"].append([[ft, int(ax)] for ft, ax in FS._stored_component_spec(comps)])
    return out


def arr_of(data, den):
    return jnp.asarray(np.asarray(data, dtype=np.float64) / float(den))


def fields(c):
    f = arr_of(c["data"], c["den"])
    try:
        u = FS.unfold_fields(f, tuple(c["sym"]), c["ft"])
    except (ValueError, TypeError) as e:
        return err(e)
    axes = tuple(a for a in range(3) if c["sym"][a] != 0)
    r = PS.restrict_to_kept_half(u, axes)
    return {"u": fl(u), "restrict_ok": bool(r.shape == f.shape and np.array_equal(np.asarray(r), np.asarray(f)))}


def array(c):
    a = arr_of(c["data"], c["den"])
    signs = None if c.get("signs") is None else {int(k): jnp.asarray(float(v)) for k, v in c["signs"].items()}
    try:
        u = FS.unfold_array(a, tuple(c["sym"]), tuple(c["spatial_axes"]), signs, tuple(c["on_plane_axes"]))
    except ValueError as e:
        return err(e)
    return {"u": fl(u)}


def make_detector(dk):
    wc = fdtdx.WaveCharacter(wavelength=6e-7)
    t = dk["type"]
    ex = {"exact_interpolation": bool(dk.get("exact", True))}
    if t in ("field", "phasor"):
        comps = tuple(COMPONENTS[i] for i in dk["components"])
        if t == "field":
            return fdtdx.FieldDetector(name="d", components=comps, reduce_volume=bool(dk["reduce"]), dtype=jnp.float64, **ex)
        return fdtdx.PhasorDetector(name="d", components=comps, reduce_volume=bool(dk["reduce"]), dtype=jnp.complex128,
                                    wave_characters=(wc,) * int(dk.get("nfreq", 1)), **ex)
    if t == "energy":
        return fdtdx.EnergyDetector(name="d", as_slices=bool(dk["as_slices"]), reduce_volume=bool(dk["reduce"]), dtype=jnp.float64, **ex)
    if t == "poynting":
        return fdtdx.PoyntingFluxDetector(name="d", direction="+", keep_all_components=bool(dk["keep_all"]), reduce_volume=bool(dk["reduce"]),
                                          fixed_propagation_axis=int(dk["axis"]), dtype=jnp.float64, **ex)
    if t == "diffractive":
        from fdtdx.objects.detectors.diffractive import DiffractiveDetector
        return DiffractiveDetector(name="d", frequencies=(5e14,), direction="+")
    raise ValueError(t)


def to_state(st):
    out = {}
    for k, v in st.items():
        if isinstance(v, dict):
            out[k] = jnp.asarray(np.asarray(v["re"], dtype=np.float64) + 1j * np.asarray(v["im"], dtype=np.float64))
        else:
            out[k] = jnp.asarray(np.asarray(v, dtype=np.float64))
    return out


def det(c):
    d = make_detector(c["dk"])
    touched = tuple(int(v) for v in c["touched"])
    count = sum(1 for a in range(3) if touched[a] != 0)
    try:
        res = FS._unfold_one_detector(d, to_state(c["state"]), touched, count)
    except NotImplementedError as e:
        return err(e)
    out = {"state": {k: fl(v) for k, v in res.items()}}
    if c.get("twin"):
        tw = make_detector(dict(c["twin"], exact=c["dk"].get("exact", True)))
        tin = {k: reduce_np(c["dk"]["type"], np.asarray(v)) for k, v in to_state(c["state"]).items()}
        out["twin_in"] = {k: fl(v) for k, v in tin.items()}
        try:
            tres = FS._unfold_one_detector(tw, {k: jnp.asarray(v) for k, v in tin.items()}, touched, count)
            out["twin"] = {"state": {k: fl(v) for k, v in tres.items()}}
        except NotImplementedError as e:
            out["twin"] = err(e)
    return out


def reduce_np(kind, a):
    """the reduce_volume reduction of the detector kinds (constant cell-volume / face-area factors dropped)"""
    a = np.asarray(a)
    if kind in ("field", "phasor"):
        return a.mean(axis=(-3, -2, -1))
    s = a.sum(axis=(-3, -2, -1))
    return s[:, None] if a.ndim == 4 else s


def placed(c):
    spec = dict(c["spec"])
    with warnings.catch_warnings():
        warnings.simplefilter("ignore")
        oc, arrays, cfg, _ = build(spec)
    rng = np.random.default_rng(int(c["seed"]))
    states, info = {}, {}
    dets = {d.name: d for d in oc.detectors}
    for dsp in spec["detectors"]:
        name = dsp["name"]
        if name not in dets:
            info[name] = {"dropped": True}
            continue
        d = dets[name]
        st = {}
        for k, v in arrays.detector_states[name].items():
            a = rng.integers(-8, 9, size=v.shape).astype(np.float64)
            if np.iscomplexobj(np.asarray(v)):
                a = a + 1j * rng.integers(-8, 9, size=v.shape)
            st[k] = a
        if dsp.get("pair_of"):
            src = states[dsp["pair_of"]]
            st = {k: reduce_np(dsp["kind"], v).reshape(st[k].shape) for k, v in src.items()}
        states[name] = st
        info[name] = {"straddles": [bool(d.straddles_symmetry_plane(a)) for a in range(3)],
                      "slice": [list(map(int, s)) for s in d.grid_slice_tuple],
                      "in": {k: fl(v) for k, v in st.items()}}
    arrays = arrays.aset("detector_states", {k: {kk: jnp.asarray(vv) for kk, vv in v.items()} for k, v in states.items()})
    try:
        full = FS.unfold_detector_states(arrays, oc, cfg).detector_states
    except (ValueError, NotImplementedError) as e:
        return dict(err(e), info=info)
    for name in states:
        info[name]["out"] = {k: fl(v) for k, v in full[name].items()}
    return {"info": info}


def main():
    payload = json.load(sys.stdin)
    outs = []
    for c in payload["cases"]:
        outs.append({"tables": tables, "fields": fields, "array": array, "det": det, "placed": placed}[c["kind"]](c))
    emit({"outs": outs})


main()
