"""C04 driver: gradient of a random linear functional of the detector outputs w.r.t. inverse permittivity (and
permeability when it is an array) under the reversible method vs exact checkpointed autodiff."""
import json, sys
import scenes
from scenes import *  # noqa
setup_jax(True)

def grads(spec, g, wseed):
    s = dict(spec); s["grad"] = g
    oc, arrays, cfg, _ = build(s)
    ie0 = arrays.inv_permittivities
    rng = np.random.default_rng(wseed)
    ws = {}
    def loss(ie):
        arr = arrays.aset("inv_permittivities", ie)
        t, out = fdtdx.run_fdtd(arrays=arr, objects=oc, config=cfg, key=KEY, show_progress=False)
        tot = 0.0
        for name in sorted(out.detector_states):
            for k in sorted(out.detector_states[name]):
                f = out.detector_states[name][k]
                if (name, k) not in ws:
                    ws[(name, k)] = jnp.asarray(np.random.default_rng(wseed + len(ws)).normal(size=f.shape))
                tot = tot + jnp.sum(jnp.real(ws[(name, k)] * f))
        return tot
    val, gr = jax.value_and_grad(loss)(ie0)
    mask = pml_mask(oc, ie0.shape[1:])
    return float(val), np.asarray(gr), mask

def main():
    payload = json.load(sys.stdin)
    outs = []
    for c in payload["cases"]:
        try:
            v0, g0, mask = grads(c["spec"], {"method": "checkpointed", "n": c.get("nck", 4)}, c["wseed"])
            res = []
            for n in c["rev_ckpts"]:
                v, g, _ = grads(c["spec"], {"method": "reversible", "n": n}, c["wseed"])
                d = np.abs(g - g0)[:, mask]
                idx = [int(i) for i in np.unravel_index(np.argmax(np.abs(g - g0) * mask[None]), g.shape)]
                res.append({"n": n, "dloss": abs(v - v0), "maxdiff": float(d.max()), "argmax": idx})
            outs.append({"gmax": float(np.abs(g0)[:, mask].max()), "loss": v0, "runs": res, "interior": int(mask.sum())})
        except Exception as e:
            import traceback
            outs.append({"error": type(e).__name__ + ": " + str(e)[:300], "trace": traceback.format_exc()[-1500:]})
    emit({"outs": outs})
main()
