"""C17 driver: a placed scene with phasor detectors (PhasorDetector, PhasorPoyntingFluxDetector,
ClosedSurfacePhasorPoyntingFluxDetector; raw fields) fed step by step through update_detector_states
with a prescribed random field history.  Output: final phasor states / fluxes, base on-lists."""
import json
import sys

from detectors_scenes import *  # noqa
from fdtdx.fdtd.update import update_detector_states
from fdtdx.objects.detectors.poynting_flux import (ClosedSurfacePhasorPoyntingFluxDetector, PhasorPoyntingFluxDetector)


def make_switch(sw, dt):
    if not sw:
        return fdtdx.OnOffSwitch()
    kw = {}
    if "interval" in sw:
        kw["interval"] = int(sw["interval"])
    if "start" in sw:
        kw["start_time"] = (sw["start"] - 0.25) * dt
    if "end" in sw:
        kw["end_time"] = (sw["end"] + 0.25) * dt
    if "fixed" in sw:
        kw["fixed_on_time_steps"] = [int(t) for t in sw["fixed"]]
    return fdtdx.OnOffSwitch(**kw)


def make_window(w, dt):
    if not w:
        return None
    if w["kind"] == "gauss":
        return fdtdx.GaussianWindow(center_time=w["center"] * dt, sigma_time=w["sigma"] * dt)
    return fdtdx.TukeyWindow(start_time=w["start"] * dt, end_time=w["end"] * dt, alpha=w["alpha"])


def make_det(d, dt):
    o = dict(d.get("opts") or {})
    wcs = tuple(fdtdx.WaveCharacter(period=float(p) * dt) for p in o.get("periods", [7.3]))
    kw = dict(name=d["name"], exact_interpolation=False, dtype=jnp.complex128, wave_characters=wcs, inverse=False,
              scaling_mode=o.get("mode", "continuous"), dft_subsample=int(o.get("stride", 1)),
              switch=make_switch(o.get("switch"), dt), apodization=make_window(o.get("window"), dt))
    k = d["kind"]
    if k == "phasor":
        return fdtdx.PhasorDetector(reduce_volume=bool(o.get("reduce")), components=tuple(o.get("components") or ("Ex", "Ey", "Ez", "Hx", "Hy", "Hz")), **kw)
    if k == "phasor_poynting":
        return PhasorPoyntingFluxDetector(direction=o.get("direction", "+"), fixed_propagation_axis=o.get("fixed_axis"), **kw)
    if k == "closed_phasor":
        return ClosedSurfacePhasorPoyntingFluxDetector(orientation=o.get("orientation", "outward"),
                                                       axes=None if o.get("axes") is None else tuple(o["axes"]), **kw)
    raise ValueError(k)


def run_case(c):
    sc = Scene(dict(c["scene"]))
    dt = sc.dt()
    oc, arrays, cfg = sc.place([(make_det(d, dt), d["box"]) for d in c["dets"]])
    T = int(cfg.time_steps_total)

    @jax.jit
    def step(t, arrays, E, H):   # one traced time step, as in the real loop (time_step is a tracer)
        arrays = arrays.aset("fields->E", E).aset("fields->H", H)
        arrays = arrays.aset("detector_states", {n: dict(s) for n, s in arrays.detector_states.items()})
        return update_detector_states(t, arrays, oc, cfg, H, False)

    for t in range(T):
        arrays = step(jnp.asarray(t, dtype=jnp.int32), arrays, jnp.asarray(quarter(c["E"][t])), jnp.asarray(quarter(c["H"][t])))
    outs = {}
    for d in c["dets"]:
        det = oc[d["name"]]
        st = arrays.detector_states[d["name"]]
        o = {"base_on": [bool(b) for b in det.switch.calculate_on_list(num_total_time_steps=T, time_step_duration=cfg.time_step_duration)],
             "omega": [float(v) for v in np.asarray(det._angular_frequencies)], "shape": list(det.grid_shape)}
        if d["kind"] == "closed_phasor":
            o["faces"] = {k: {"re": fl(np.asarray(v).real), "im": fl(np.asarray(v).imag), "shape": list(np.asarray(v).shape)} for k, v in st.items()}
            o["flux"] = fl(det.compute_net_flux(st))
        else:
            ph = np.asarray(st["phasor"])
            o["re"], o["im"], o["oshape"] = fl(ph.real), fl(ph.imag), list(ph.shape)
            if d["kind"] == "phasor_poynting":
                o["flux"] = fl(det.compute_poynting_flux(st))
        outs[d["name"]] = o
    return {"dets": outs, "dt": float(cfg.time_step_duration), "T": T}


def main():
    payload = json.load(sys.stdin)
    outs = []
    for c in payload["cases"]:
        try:
            outs.append(run_case(c))
        except Exception as e:
            import traceback
            outs.append({"crash": type(e).__name__ + ": " + str(e)[:200], "trace": traceback.format_exc()[-1500:]})
    emit({"outs": outs})


main()
