"""C40 driver: TreeClass.aset on random nested objects; reports structure + object identities before/after."""
import json, sys, os
os.environ.setdefault("JAX_PLATFORMS", "cpu")
from typing import Any
from fdtdx.core.jax.pytrees import TreeClass, autoinit, field, frozen_field


@autoinit
class NodeA(TreeClass):
    x: Any = field(default=None)
    y: Any = field(default=None)
    z: Any = frozen_field(default=None)


@autoinit
class NodeB(TreeClass):
    p: Any = field(default=None)
    q: Any = field(default=None)


CLS = {"A": NodeA, "B": NodeB}
FIELDS = {"A": ["x", "y", "z"], "B": ["p", "q"]}


def build(spec):
    t = spec["t"]
    if t == "leaf":
        return spec["v"]
    if t == "list":
        return [build(s) for s in spec["items"]]
    if t == "dict":
        return {k: build(s) for k, s in spec["entries"]}
    return CLS[spec["cls"]](**{k: build(s) for k, s in spec["fields"]})


def snap(o):
    """structure with identities of containers (leaves: value only)"""
    if isinstance(o, TreeClass):
        name = {NodeA: "A", NodeB: "B"}.get(type(o), type(o).__name__)
        return {"t": "class", "cls": name, "id": id(o), "fields": [[k, snap(getattr(o, k))] for k in FIELDS.get(name, [])]}
    if isinstance(o, list):
        return {"t": "list", "id": id(o), "items": [snap(x) for x in o]}
    if isinstance(o, dict):
        return {"t": "dict", "id": id(o), "entries": [[k, snap(v)] for k, v in o.items()]}
    if isinstance(o, (int, float)) and not isinstance(o, bool):
        return {"t": "leaf", "v": o}
    return {"t": "other", "repr": repr(o)[:40]}


def main():
    payload = json.load(sys.stdin)
    outs = []
    keep = []
    for c in payload["cases"]:
        root = build(c["root"])
        val = build(c["val"])
        keep += [root, val]          # keep objects alive so ids stay unique
        before = snap(root)
        vsnap = snap(val)
        r = {"before": before, "val": vsnap}
        try:
            new = root.aset(c["path"], val, create_new_ok=bool(c.get("create")))
            keep.append(new)
            r["new"] = snap(new)
            r["same_type"] = type(new) is type(root)
            r["new_is_old"] = new is root
        except Exception as e:
            r["error"] = type(e).__name__ + ": " + str(e)[:80]
        r["after"] = snap(root)
        r["val_after"] = snap(val)
        outs.append(r)
    print("RESULT " + json.dumps({"outs": outs}))


main()
