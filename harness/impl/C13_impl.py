"""C13 driver: (a) measured back/front power ratio of plane sources, (b) face-injection arrays of a placed plane source
together with the incident samples the source uses (for the injection-rule correspondence)."""
import json, sys
import scenes
from scenes import *  # noqa
setup_jax(True)

def leak_case(c):
    sp = 5e-8
    axis, direction, pol, gauss, cpw, pulsed = c["axis"], c["dir"], c["pol"], c.get("gauss"), c["cpw"], c.get("pulsed", False)
    L = c.get("L", 140)
    tr = 6 if gauss is None else c.get("tr", 48)
    shape = [tr, tr, tr]; shape[axis] = L
    eps = float(c.get("eps", 1.0))
    wl = cpw * sp * float(np.sqrt(eps))        # cpw cells per wavelength IN the medium
    cfg = fdtdx.SimulationConfig(time=1.0, grid=fdtdx.UniformGrid(spacing=sp), backend="cpu", dtype=jnp.float64)
    nsteps = c.get("nsteps", 700)
    cfg = cfg.aset("time", cfg.time_step_duration * nsteps * 1.0001)
    vol = fdtdx.SimulationVolume(partial_grid_shape=tuple(shape), **({"material": fdtdx.Material(permittivity=eps)} if eps != 1.0 else {}))
    bt = {}
    for a, ax in enumerate("xyz"):
        bt["min_" + ax] = bt["max_" + ax] = ("pml" if a == axis else "periodic")
    bc = fdtdx.BoundaryConfig.from_uniform_bound(thickness=12, override_types=bt)
    bd, cons = fdtdx.boundary_objects_from_config(bc, vol)
    wc = fdtdx.WaveCharacter(wavelength=wl, phase_shift=float(c.get("phase", 0.0)))
    pgs = [None, None, None]; pgs[axis] = 1
    others = tuple(a for a in range(3) if a != axis)
    prof = fdtdx.GaussianPulseProfile(spectral_width=fdtdx.WaveCharacter(wavelength=4 * wl), center_wave=wc) if pulsed else fdtdx.SingleFrequencyProfile()
    # the polarisation may be declared through E or through H (the other one is derived from the propagation direction)
    polkw = {"fixed_H_polarization_vector": tuple(pol)} if c.get("hgiven") else {"fixed_E_polarization_vector": tuple(pol)}
    if gauss is None:
        src = fdtdx.UniformPlaneSource(name="src", partial_grid_shape=tuple(pgs), direction=direction, wave_character=wc, temporal_profile=prof, **polkw)
    else:
        src = fdtdx.GaussianPlaneSource(name="src", partial_grid_shape=tuple(pgs), direction=direction, wave_character=wc, radius=gauss * wl, temporal_profile=prof, **polkw)
    cons += [src.same_size(vol, axes=others), src.place_at_center(vol, axes=others), src.set_grid_coordinates(axes=(axis,), sides=("-",), coordinates=(L // 2,))]
    dets = []
    for nm, pos in (("front", L // 2 + (25 if direction == "+" else -25)), ("back", L // 2 - (25 if direction == "+" else -25))):
        d = fdtdx.PoyntingFluxDetector(name=nm, partial_grid_shape=tuple(pgs), direction="+", dtype=jnp.float64)
        cons += [d.same_size(vol, axes=others), d.place_at_center(vol, axes=others), d.set_grid_coordinates(axes=(axis,), sides=("-",), coordinates=(pos,))]
        dets.append(d)
    oc, arrays, params, cfg, _ = fdtdx.place_objects(object_list=[vol, *bd.values(), src, *dets], config=cfg, constraints=cons, key=KEY)
    arrays, oc, _ = fdtdx.apply_params(arrays, oc, params, KEY)
    t, out = jax.jit(lambda a: fdtdx.run_fdtd(arrays=a, objects=oc, config=cfg, key=KEY, show_progress=False))(arrays)
    f = np.asarray(out.detector_states["front"]["poynting_flux"])[:, 0]; b = np.asarray(out.detector_states["back"]["poynting_flux"])[:, 0]
    if pulsed:
        return {"ratio": float(abs(b.sum()) / abs(f.sum())), "front": float(abs(f.sum()))}
    k = 200
    return {"ratio": float(abs(b[-k:].mean()) / abs(f[-k:].mean())), "front": float(abs(f[-k:].mean()))}

def inject_case(c):
    oc, arrays, cfg, _ = build(c["spec"])
    src = oc.sources[0]
    n = src.propagation_axis
    a, b = (n + 1) % 3, (n + 2) % 3
    gs = src.grid_slice
    dt = cfg.time_step_duration
    sign = 1.0 if src.direction == "+" else -1.0
    outs = []
    for t in c["steps"]:
        tt = jnp.asarray(t, dtype=jnp.int32)
        zE = jnp.zeros_like(arrays.fields.E)
        dE = np.asarray(src.update_E(E=zE, inv_permittivities=arrays.inv_permittivities, inv_permeabilities=arrays.inv_permeabilities, time_step=tt, inverse=False))
        dH = np.asarray(src.update_H(H=zE, inv_permittivities=arrays.inv_permittivities, inv_permeabilities=arrays.inv_permeabilities, time_step=tt + 0.5, inverse=False))
        def amp(off, tbase):
            return np.asarray(src.temporal_profile.get_amplitude(time=(tbase + off) * dt, period=src.wave_character.get_period(),
                                                                phase_shift=src.wave_character.phase_shift)) * src.static_amplitude_factor
        Hinc = {ax: np.asarray(src._H[ax]) * amp(np.asarray(src._time_offset_H[ax]), t) for ax in (a, b)}
        Einc = {ax: np.asarray(src._E[ax]) * amp(np.asarray(src._time_offset_E[ax]), t + 0.5) for ax in (a, b)}
        ie = np.broadcast_to(np.asarray(arrays.inv_permittivities), (3,) + arrays.fields.E.shape[1:]) if arrays.inv_permittivities.shape[0] == 1 else np.asarray(arrays.inv_permittivities)
        imu = arrays.inv_permeabilities
        im = np.broadcast_to(np.asarray(imu), (3,) + arrays.fields.E.shape[1:]) if (np.ndim(imu) == 0 or np.asarray(imu).shape[0] == 1) else np.asarray(imu)
        off = np.ones_like(dE, dtype=bool); off[(slice(None),) + tuple(gs)] = False
        outs.append({"t": t, "outside_maxabs": float(max(np.abs(dE[off]).max(), np.abs(dH[off]).max())),
                     "normal_maxabs": float(max(np.abs(dE[n]).max(), np.abs(dH[n]).max())),
                     "dEa": fl(dE[a][gs]), "dEb": fl(dE[b][gs]), "dHa": fl(dH[a][gs]), "dHb": fl(dH[b][gs]),
                     "Ha": fl(Hinc[a]), "Hb": fl(Hinc[b]), "Ea": fl(Einc[a]), "Eb": fl(Einc[b]),
                     "ie_a": fl(ie[a][gs]), "ie_b": fl(ie[b][gs]), "im_a": fl(im[a][gs]), "im_b": fl(im[b][gs])})
    return {"sign": sign, "c": float(cfg.courant_number).hex(), "axis": int(n), "steps": outs}

if __name__ == "__main__":
    payload = json.load(sys.stdin)
    outs = []
    for c in payload["cases"]:
        try:
            outs.append(leak_case(c) if c["kind"] == "leak" else inject_case(c))
        except Exception as e:
            import traceback
            outs.append({"error": type(e).__name__ + ": " + str(e)[:300], "trace": traceback.format_exc()[-1500:]})
    emit({"outs": outs})
