"""C36 driver: (a) dispersive forward steps with coefficient arrays and polarisation state (exact hex);
(b) closed-box stability measurement over many steps."""
import json, sys, warnings
import scenes
from scenes import *  # noqa
setup_jax(True)
from fdtdx.fdtd.forward import forward
from fdtdx.fdtd.fdtd import custom_fdtd_forward
from fdtdx.core.physics.metrics import compute_energy
from yee_impl import describe, snap

def mk_pole(p, dt):
    if p["kind"] == "drude":
        return fdtdx.DrudePole(plasma_frequency=p["w"] / dt, damping=p["g"] / dt)
    return fdtdx.LorentzPole(resonance_frequency=p["w"] / dt, damping=p["g"] / dt, delta_epsilon=p["deps"])

def step_case(c):
    shape = tuple(c["shape"])
    cfg = fdtdx.SimulationConfig(time=1.0, grid=fdtdx.UniformGrid(spacing=5e-8), backend="cpu", dtype=jnp.float64, courant_factor=float(c.get("cf", 0.7)))
    dt = cfg.time_step_duration
    cfg = cfg.aset("time", dt * 6)
    vol = fdtdx.SimulationVolume(partial_grid_shape=shape)
    bc = fdtdx.BoundaryConfig.from_uniform_bound(thickness=1, override_types=c["bt"])
    bd, cons = fdtdx.boundary_objects_from_config(bc, vol)
    mat = fdtdx.Material(permittivity=c.get("eps", 2.0), dispersion=fdtdx.DispersionModel(poles=tuple(mk_pole(p, dt) for p in c["poles"])),
                         **({"electric_conductivity": float(c["sigma"])} if c.get("sigma") else {}))
    blk = fdtdx.UniformMaterialObject(name="blk", partial_grid_shape=tuple(b[1] - b[0] for b in c["box"]), material=mat)
    cons += [blk.set_grid_coordinates(axes=(0, 1, 2), sides=("-", "-", "-"), coordinates=tuple(b[0] for b in c["box"]))]
    with warnings.catch_warnings():
        warnings.simplefilter("ignore")
        oc, arrays, params, cfg, _ = fdtdx.place_objects(object_list=[vol, *bd.values(), blk], config=cfg, constraints=cons, key=KEY)
        arrays, oc, _ = fdtdx.apply_params(arrays, oc, params, KEY)
    rng = np.random.default_rng(c["seed"])
    sh = arrays.fields.E.shape
    E = jnp.asarray(rng.integers(-8, 9, size=sh) / 4.0); H = jnp.asarray(rng.integers(-8, 9, size=sh) / 4.0)
    for b in oc.boundary_objects:
        E = b.apply_post_E_update(E); H = b.apply_post_H_update(H)
    arrays = arrays.aset("fields->E", E).aset("fields->H", H)
    out = describe(oc, arrays, cfg)
    def coef(a):
        a = np.asarray(a)      # (npoles, 1|3, nx, ny, nz)
        return [fl(np.broadcast_to(a[p], (3,) + a.shape[2:])) for p in range(a.shape[0])]
    out["c1"], out["c2"], out["c3"] = coef(arrays.dispersive_c1), coef(arrays.dispersive_c2), coef(arrays.dispersive_c3)
    out["has_c4"] = arrays.dispersive_c4 is not None
    def psnap(st):
        f = st[1].fields
        return dict(snap(st), Pc=[fl(np.asarray(f.dispersive_P_curr)[p]) for p in range(len(c["poles"]))], Pp=[fl(np.asarray(f.dispersive_P_prev)[p]) for p in range(len(c["poles"]))])
    st = (jnp.asarray(0, dtype=jnp.int32), arrays)
    states = [psnap(st)]
    for _ in range(c["steps"]):
        st = forward(st, cfg, oc, KEY, record_detectors=False, record_boundaries=False, simulate_boundaries=True)
        states.append(psnap(st))
    out["states"] = states
    return out

def stab_case(c):
    cfg = fdtdx.SimulationConfig(time=1.0, grid=fdtdx.UniformGrid(spacing=5e-8), backend="cpu", dtype=jnp.float64, courant_factor=float(c["cf"]))
    dt = cfg.time_step_duration
    nsteps = c["nsteps"]
    cfg = cfg.aset("time", dt * nsteps)
    mat = fdtdx.Material(permittivity=c.get("eps", 1.0), dispersion=fdtdx.DispersionModel(poles=tuple(mk_pole(p, dt) for p in c["poles"])),
                         **({"electric_conductivity": float(c["sigma"])} if c.get("sigma") else {}))
    extra = []
    if c.get("layered"):
        # the dispersive medium is a sphere (multi-material object) in a plain volume, and a plain block is placed AFTER it through its middle:
        # the block's cells are non-dispersive cells of the accepted scene
        n = int(c["layered"])
        vol = fdtdx.SimulationVolume(partial_grid_shape=(n, n, n), material=fdtdx.Material(permittivity=float(c.get("bg_eps", 1.0))))
        sph = fdtdx.Sphere(name="sphere", materials={"m": mat}, material_name="m", radius=(n / 3.0) * 5e-8)
        slot = fdtdx.UniformMaterialObject(name="slot", partial_grid_shape=(n, max(2, n // 3), max(2, n // 3)), material=fdtdx.Material(permittivity=float(c.get("slot_eps", 1.0))))
        extra = [sph, slot]
    else:
        vol = fdtdx.SimulationVolume(partial_grid_shape=(4, 4, 4), material=mat)
    bc = fdtdx.BoundaryConfig.from_uniform_bound(thickness=1, override_types={f: c.get("wall", "periodic") for f in FACES})
    bd, cons = fdtdx.boundary_objects_from_config(bc, vol)
    for o in extra:
        cons.append(o.place_at_center(vol, axes=(0, 1, 2)))
    with warnings.catch_warnings(record=True) as wl:
        warnings.simplefilter("always")
        try:
            oc, arrays, params, cfg, _ = fdtdx.place_objects(object_list=[vol, *bd.values(), *extra], config=cfg, constraints=cons, key=KEY)
            arrays, oc, _ = fdtdx.apply_params(arrays, oc, params, KEY)
        except Exception as e:
            return {"rejected": type(e).__name__ + ": " + str(e)[:150]}
    nwarn = len([w for w in wl if "stab" in str(w.message).lower() or "unstable" in str(w.message).lower() or "dispers" in str(w.message).lower()])
    rng = np.random.default_rng(c["seed"])
    E = jnp.asarray(rng.normal(size=arrays.fields.E.shape)); H = jnp.asarray(rng.normal(size=arrays.fields.H.shape))
    for b in oc.boundary_objects:
        E = b.apply_post_E_update(E); H = b.apply_post_H_update(H)
    arrays = arrays.aset("fields->E", E).aset("fields->H", H)
    e0 = float(jnp.sum(compute_energy(arrays.fields.E, arrays.fields.H, arrays.inv_permittivities, arrays.inv_permeabilities)))
    run = jax.jit(lambda a: custom_fdtd_forward(a, oc, cfg, KEY, reset_container=False, record_detectors=False, start_time=0, end_time=nsteps, show_progress=False))
    t, out = run(arrays)
    e1 = float(jnp.sum(compute_energy(out.fields.E, out.fields.H, out.inv_permittivities, out.inv_permeabilities)))
    return {"e0": e0, "e1": e1 if np.isfinite(e1) else float("inf"), "warnings": nwarn, "all_warnings": [str(w.message)[:100] for w in wl][:3]}

if __name__ == "__main__":
    payload = json.load(sys.stdin)
    outs = []
    for c in payload["cases"]:
        try:
            outs.append(step_case(c) if c["kind"] == "step" else stab_case(c))
        except Exception as e:
            import traceback
            outs.append({"error": type(e).__name__ + ": " + str(e)[:300], "trace": traceback.format_exc()[-1500:]})
    emit({"outs": outs})
