"""C26 driver: resolve_object_constraints on constraint systems (see lib/place_util.py for the format)."""
import json, sys
from place_impl_common import resolve

def main():
    payload = json.load(sys.stdin)
    outs = [resolve(c["sys"]) for c in payload["cases"]]
    print("RESULT " + json.dumps({"outs": outs}))
main()
