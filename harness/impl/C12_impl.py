"""C12 driver: CPML coefficient arrays of placed layers; measured absorption (residual energy, reference-domain comparison)."""
import json, sys
import scenes
from scenes import *  # noqa
setup_jax(True)
from fdtdx.constants import eps0, eta0

def slab_extent(cfg, p):
    lo, hi = (int(v) for v in p.grid_slice_tuple[p.axis])
    if cfg.has_nonuniform_grid:
        return float(np.asarray(cfg.resolved_grid.cell_widths(p.axis), dtype=np.float64)[lo:hi].sum())
    return float(cfg.uniform_spacing()) * (hi - lo)


def coef_case(c):
    spec = c["spec"]
    oc, arrays, cfg, _ = build(spec)
    out = {"dt_eps0": float(cfg.time_step_duration / eps0).hex(), "layers": []}
    for p in oc.pml_objects:
        L = int(p.thickness)
        f = lambda a: [float(v).hex() for v in np.asarray(a, dtype=np.float64).reshape(-1)]
        out["layers"].append({"axis": int(p.axis), "minus": p.direction == "-", "L": L,
                              "params": {k: float(getattr(p, k)).hex() for k in ("sigma_start", "sigma_end", "sigma_order", "kappa_start", "kappa_end", "kappa_order", "alpha_start", "alpha_end", "alpha_order")},
                              "aE": f(p.pml_a_E), "bE": f(p.pml_b_E), "aH": f(p.pml_a_H), "bH": f(p.pml_b_H),
                              # physical thickness measured independently of the layer's own helper: extent of its grid slice along its axis
                              "thickness_m": float(slab_extent(cfg, p)).hex(), "eta0": float(eta0).hex()})
    return out

def absorb_case(c):
    sp = 5e-8
    th, N, pol, kind, nsteps = c["th"], c["N"], c["pol"], c["src"], c["nsteps"]
    def scene(Nn, steps, detbox, srcpos):
        cfg = fdtdx.SimulationConfig(time=1.0, grid=fdtdx.UniformGrid(spacing=sp), backend="cpu", dtype=jnp.float64)
        cfg = cfg.aset("time", cfg.time_step_duration * steps * 1.0001)
        vol = fdtdx.SimulationVolume(partial_grid_shape=(Nn, Nn, Nn))
        bc = fdtdx.BoundaryConfig.from_uniform_bound(thickness=th, boundary_type="pml")
        bd, cons = fdtdx.boundary_objects_from_config(bc, vol)
        wl = 16 * sp
        wc = fdtdx.WaveCharacter(wavelength=wl)
        prof = fdtdx.GaussianPulseProfile(spectral_width=fdtdx.WaveCharacter(wavelength=8 * wl), center_wave=wc)
        if kind == "plane":
            raise NotImplementedError
        src = fdtdx.PointDipoleSource(name="src", partial_grid_shape=(1, 1, 1), polarization=pol, wave_character=wc, temporal_profile=prof,
                                      source_type="magnetic" if kind == "magnetic" else "electric")
        cons.append(src.set_grid_coordinates(axes=(0, 1, 2), sides=("-", "-", "-"), coordinates=tuple(srcpos)))
        en = fdtdx.EnergyDetector(name="en", reduce_volume=True, dtype=jnp.float64, partial_grid_shape=tuple(b[1] - b[0] for b in detbox))
        cons.append(en.set_grid_coordinates(axes=(0, 1, 2), sides=("-", "-", "-"), coordinates=tuple(b[0] for b in detbox)))
        fd = fdtdx.FieldDetector(name="fd", dtype=jnp.float64, partial_grid_shape=tuple(b[1] - b[0] for b in detbox), exact_interpolation=False)
        cons.append(fd.set_grid_coordinates(axes=(0, 1, 2), sides=("-", "-", "-"), coordinates=tuple(b[0] for b in detbox)))
        objs = [vol, *bd.values(), src, en] + ([fd] if steps <= 400 else [])
        cons = [x for x in cons if x.object in {o.name for o in objs}]
        oc, arrays, params, cfg, _ = fdtdx.place_objects(object_list=objs, config=cfg, constraints=cons, key=KEY)
        arrays, oc, _ = fdtdx.apply_params(arrays, oc, params, KEY)
        t, out = jax.jit(lambda a: fdtdx.run_fdtd(arrays=a, objects=oc, config=cfg, key=KEY, show_progress=False))(arrays)
        return out
    inner = [[th, N - th]] * 3
    spos = [N // 2 - 2 + c.get("off", 0), N // 2 + 1, N // 2]
    out = scene(N, nsteps, inner, spos)
    e = np.asarray(out.detector_states["en"]["energy"])[:, 0]
    res = {"peak": float(e.max()), "peak_step": int(e.argmax()), "end": float(e[-1]), "min_after_peak": float(e[int(e.argmax()):].min())}
    # reference domain: same source and detector region embedded in a much larger domain
    W, R = c["window"], c["margin"]
    small = scene(N, W, inner, spos)
    big = scene(N + 2 * R, W, [[th + R, N - th + R]] * 3, [s + R for s in spos])
    a = np.asarray(small.detector_states["fd"]["fields"]); b = np.asarray(big.detector_states["fd"]["fields"])
    res["ref_rel_energy"] = float((np.abs(a - b) ** 2).sum() / max((np.abs(b) ** 2).sum(), 1e-300))
    res["ref_energy"] = float((np.abs(b) ** 2).sum())
    return res

if __name__ == "__main__":
    payload = json.load(sys.stdin)
    outs = []
    for c in payload["cases"]:
        try:
            outs.append(coef_case(c) if c["kind"] == "coef" else absorb_case(c))
        except Exception as e:
            import traceback
            outs.append({"error": type(e).__name__ + ": " + str(e)[:300], "trace": traceback.format_exc()[-1500:]})
    emit({"outs": outs})
