"""C18 driver: apply_params on placed devices with parameter histories.
case: {shape, vol_eps, bg:{box,eps}|None, devices:[{box, voxel, kind: cont|disc|etch, mats:[eps|[ex,ey,ez]]}], hist:[[seed per device]]}
out : base / final (after the whole history) / last (only the last set applied to the placed arrays) inverse permittivities,
      transform-chain outputs per step (model input), device slices, ordered permittivities."""
import json, sys, warnings
import scenes
from scenes import *  # noqa
setup_jax(True)
from fdtdx.materials import compute_allowed_permittivities


def mat(e, poles=None):
    if poles:
        from fdtdx.dispersion import DispersionModel, LorentzPole
        return fdtdx.Material(permittivity=float(e), dispersion=DispersionModel(
            poles=tuple(LorentzPole(resonance_frequency=w, damping=g, delta_epsilon=d) for w, g, d in poles)))
    if isinstance(e, list) and len(e) == 9:
        return fdtdx.Material(permittivity=tuple(tuple(float(v) for v in e[3 * r:3 * r + 3]) for r in range(3)))
    return fdtdx.Material(permittivity=(tuple(e) if isinstance(e, list) else float(e)))


def one(c):
    cfg = fdtdx.SimulationConfig(time=1e-14, grid=fdtdx.UniformGrid(spacing=1e-7), backend="cpu", dtype=jnp.float64)
    vol = fdtdx.SimulationVolume(partial_grid_shape=tuple(c["shape"]), material=mat(c["vol_eps"]))
    bc = fdtdx.BoundaryConfig.from_uniform_bound(thickness=1, override_types={f: "periodic" for f in FACES})
    bd, cons = fdtdx.boundary_objects_from_config(bc, vol)
    objs = [vol, *bd.values()]
    if c.get("bg"):
        b = c["bg"]
        o = fdtdx.UniformMaterialObject(name="bg", partial_grid_shape=tuple(hi - lo for lo, hi in b["box"]), material=mat(b["eps"], b.get("poles")))
        cons += box_constraints(o, b["box"])
        objs.append(o)
    for i, d in enumerate(c["devices"]):
        mats = {f"m{j}": mat(e, (d.get("poles") or [None] * len(d["mats"]))[j]) for j, e in enumerate(d["mats"])}
        tr = [fdtdx.ClosestIndex()] if d["kind"] == "disc" else []
        shape = tuple(hi - lo for lo, hi in d["box"])
        dev = fdtdx.Device(name=f"dev{i}", materials=mats, param_transforms=tr, partial_grid_shape=shape,
                           partial_voxel_grid_shape=tuple(d["voxel"]), use_etching=(d["kind"] == "etch"))
        cons += box_constraints(dev, d["box"])
        objs.append(dev)
    with warnings.catch_warnings():
        warnings.simplefilter("ignore")
        oc, arrays, params, cfg, _ = fdtdx.place_objects(object_list=objs, config=cfg, constraints=cons, key=KEY)
    ncomp = int(arrays.inv_permittivities.shape[0])
    iso, dia = ncomp == 1, ncomp == 3
    res = {"ncomp": ncomp, "base": fl(arrays.inv_permittivities), "has_backup": arrays.initial_inv_permittivities is not None,
           "boxes": [[list(map(int, t)) for t in d._grid_slice_tuple] for d in oc.devices], "names": [d.name for d in oc.devices],
           "vox": [[int(v) for v in d.single_voxel_grid_shape] for d in oc.devices],
           "allowed": [fl(np.asarray(compute_allowed_permittivities(d.materials, isotropic=iso, diagonally_anisotropic=dia), dtype=np.float64))
                       for d in oc.devices],
           "continuous": [bool(d.output_type == fdtdx.ParameterType.CONTINUOUS) for d in oc.devices] if hasattr(fdtdx, "ParameterType") else None,
           "pout": []}
    cur = arrays
    plist = []
    for step in c["hist"]:
        p = {}
        outs = []
        for d in oc.devices:
            i = int(d.name[3:])
            rng = np.random.default_rng(int(step[i]))
            shp = np.asarray(params[d.name]).shape
            kind = c["devices"][i]["kind"]
            if kind == "disc":
                v = rng.integers(-2, 4 * len(c["devices"][i]["mats"]) + 2, size=shp) / 4.0
            else:
                v = rng.integers(0, 17, size=shp) / 16.0
            p[d.name] = jnp.asarray(v)
            outs.append(fl(np.asarray(d(p[d.name], expand_to_sim_grid=False))))
        res["pout"].append(outs)
        plist.append(p)
        cur, _, _ = fdtdx.apply_params(cur, oc, p, KEY)
    res["final"] = fl(cur.inv_permittivities)
    last, _, _ = fdtdx.apply_params(arrays, oc, plist[-1], KEY)
    res["last"] = fl(last.inv_permittivities)
    if getattr(arrays, "dispersive_c1", None) is not None:
        # dispersion coefficient stacks (isotropic scenes: component axis of length 1) before / after the history / after the last set only,
        # and the per-material coefficient rows of every device material in the order the case lists them
        from fdtdx.dispersion import compute_pole_coefficients
        names = ("dispersive_c1", "dispersive_c2", "dispersive_c3")
        npoles = int(arrays.dispersive_c1.shape[0])
        def stack(a):
            return [fl(np.asarray(getattr(a, n_), dtype=np.float64)[:, 0]) for n_ in names]
        tabs = []
        for d in oc.devices:
            i = int(d.name[3:])
            rows = []
            for j in range(len(c["devices"][i]["mats"])):
                m = d.materials[f"m{j}"]
                row = np.zeros((3, npoles))
                if m.dispersion is not None and len(m.dispersion.poles):
                    cc = compute_pole_coefficients(m.dispersion.poles, cfg.time_step_duration)
                    for q in range(3):
                        row[q, :len(m.dispersion.poles)] = np.asarray(cc[q], dtype=np.float64)
                rows.append(fl(row))
            tabs.append(rows)
        res["disp"] = {"npoles": npoles, "base": stack(arrays), "final": stack(cur), "last": stack(last), "tables": tabs,
                       "comp_len": int(arrays.dispersive_c1.shape[1])}
    res["other_changed"] = float(np.abs(np.asarray(cur.inv_permeabilities) - np.asarray(arrays.inv_permeabilities)).max()) if np.ndim(arrays.inv_permeabilities) else 0.0
    return res


def main():
    payload = json.load(sys.stdin)
    outs = []
    for c in payload["cases"]:
        try:
            outs.append(one(c))
        except Exception as e:
            import traceback
            outs.append({"error": type(e).__name__ + ": " + str(e)[:300], "tb": traceback.format_exc()[-1200:]})
    emit({"outs": outs})


main()
