"""C30 driver: Recorder pipelines (DtypeConversion / LinearReconstructEveryK) on a value history.

case: {"T","mods":[{"kind":"everyk","k","s"} | {"kind":"conv","dtype":"float32"|"float64"}],
       "in_dtype":"float64"|"float32", "vals":[[component values] per step] (floats)}
out : {"saves","map","size","slots"(time_to_array_index per step),"data","dec"(decompressed value per step)} | {"error"}
"""
import json
import os
import sys

os.environ.setdefault("JAX_PLATFORMS", "cpu")
import jax
import jax.numpy as jnp
import numpy as np

jax.config.update("jax_enable_x64", True)
# compile cache on disk: compress/decompress are jitted per case with the filter's index arrays passed as
# arguments, so cases with equal shapes share one XLA compilation (within a run and across runs)
try:
    jax.config.update("jax_compilation_cache_dir", os.environ.get("C30_JAX_CACHE", "/tmp/fdtdx_verif_jaxcache_C30"))
    jax.config.update("jax_persistent_cache_min_compile_time_secs", 0)
    jax.config.update("jax_persistent_cache_min_entry_size_bytes", -1)
except Exception:
    pass
from fdtdx.interfaces.modules import DtypeConversion
from fdtdx.interfaces.recorder import Recorder
from fdtdx.interfaces.time_filter import LinearReconstructEveryK

KEY = jax.random.PRNGKey(0)


def hx(a):
    a = np.asarray(a, dtype=np.float64)
    return [float(v).hex() if np.isfinite(v) else "nan" for v in a.reshape(-1)]


def one(c):
    T = int(c["T"])
    mods = []
    for m in c["mods"]:
        if m["kind"] == "everyk":
            mods.append(LinearReconstructEveryK(k=int(m["k"]), start_recording_after=int(m["s"])))
        else:
            mods.append(DtypeConversion(dtype=getattr(jnp, m["dtype"])))
    in_dt = getattr(jnp, c.get("in_dtype", "float64"))
    vals = np.asarray(c["vals"], dtype=np.float64)
    ncomp = vals.shape[1]
    rec = Recorder(modules=mods)
    shapes = {"a": jax.ShapeDtypeStruct((ncomp,), in_dt)}
    try:
        rec, state = rec.init_state(shapes, max_time_steps=T, backend="cpu")
    except Exception as e:
        return {"error": type(e).__name__}
    idxs = [i for i, m in enumerate(rec.modules) if isinstance(m, LinearReconstructEveryK)]
    arrs = [(rec.modules[i]._save_time_steps, rec.modules[i]._time_to_arr_idx) for i in idxs]

    def with_arrays(arrs):   # the initialised recorder, its filters' index arrays as jit arguments
        ms = list(rec.modules)
        for i, (sv, mp) in zip(idxs, arrs):
            ms[i] = ms[i].aset("_save_time_steps", sv).aset("_time_to_arr_idx", mp)
        return rec.aset("modules", ms)

    cj = jax.jit(lambda arrs, v, st, t: with_arrays(arrs).compress({"a": v}, st, t, KEY))
    dj = jax.jit(lambda arrs, st, t: with_arrays(arrs).decompress(st, t, KEY)[0]["a"])
    jv = jnp.asarray(vals, dtype=in_dt)
    for t in range(T):
        state = cj(arrs, jv[t], state, jnp.asarray(t, dtype=jnp.int32))
    dec = [hx(dj(arrs, state, jnp.asarray(t, dtype=jnp.int32))) for t in range(T)]
    out = {"dec": dec, "data": [hx(r) for r in np.asarray(state.data["a"])]}
    tfs = [m for m in rec.modules if isinstance(m, LinearReconstructEveryK)]
    if len(tfs) == 1:
        tf = tfs[0]
        out["saves"] = [int(v) for v in np.asarray(tf._save_time_steps)]
        out["map"] = [int(v) for v in np.asarray(tf._time_to_arr_idx)]
        out["size"] = int(tf._array_size)
        out["slots"] = [int(tf.time_to_array_index(jnp.asarray(t, dtype=jnp.int32))) for t in range(T)] if c.get("slots") else None
    return out


def main():
    payload = json.load(sys.stdin)
    outs = []
    for c in payload["cases"]:
        try:
            outs.append(one(c))
        except Exception as e:  # a crash inside compress/decompress is an observation, not a driver failure
            outs.append({"crash": type(e).__name__ + ": " + str(e)[:200]})
    print("RESULT " + json.dumps({"outs": outs}))


main()
