"""C14 driver: OnOffSwitch methods on parameter grids; source gating and detector rows on small placed scenes.

switch case: {"kind":"switch","T","dt","sw":{start_time,...,period,fixed,off,interval}} (times as floats, exact dyadics)
  out: {"on": [...]|{"error":code}, "idx": [...]|{"error":code}, "ison": [bool|{"error":code} per step]}
run case: {"kind":"run","spec":scene spec with sources[0].switch and detectors "full"/"gated"}
  out: {"T","src_on","det_on","det_idx","rows","match"(index of the full-detector row equal to gated row i),
        "gate_E","gate_H" (per step: does update_E/H differ from the twin scene whose source is always off)}
"""
import json, sys
import scenes
from scenes import *  # noqa
setup_jax(True)
from fdtdx.core.switch import OnOffSwitch
from fdtdx.fdtd.update import update_E, update_H

CODES = {"Need to specify period!": 1, "Invalid start time specification!": 2, "Invalid end time specification!": 3,
         "This should never happen": 4}


def code(e):
    if isinstance(e, IndexError):
        return 5
    if isinstance(e, ZeroDivisionError):
        return 6
    return CODES.get(str(e), 99)


def mk(sw):
    kw = {k: sw[k] for k in ("start_time", "end_time", "on_for_time", "start_after_periods", "end_after_periods", "on_for_periods", "period")
          if sw.get(k) is not None}
    if sw.get("fixed") is not None:
        kw["fixed_on_time_steps"] = [int(t) for t in sw["fixed"]]
    if sw.get("off"):
        kw["is_always_off"] = True
    if sw.get("interval") is not None:
        kw["interval"] = int(sw["interval"])
    return OnOffSwitch(**kw)


def guard(f):
    try:
        return f()
    except Exception as e:
        return {"error": code(e)}


def switch_case(c):
    s = mk(c["sw"]); T, dt = int(c["T"]), float(c["dt"])
    on = guard(lambda: [bool(b) for b in s.calculate_on_list(num_total_time_steps=T, time_step_duration=dt)])
    idx = guard(lambda: [int(i) for i in s.calculate_time_step_to_on_arr_idx(num_total_time_steps=T, time_step_duration=dt)])
    ison = [guard(lambda t=t: bool(s.is_on_at_time_step(time_step=t, time_step_duration=dt))) for t in range(T)]
    return {"on": on, "idx": idx, "ison": ison}


def run_case(c):
    spec = c["spec"]
    oc, arrays, cfg, _ = build(spec)
    T = int(cfg.time_steps_total)
    src = oc.sources[0]
    det = {d.name: d for d in oc.detectors}
    out = {"T": T, "src_on": [bool(b) for b in np.asarray(src._is_on_at_time_step_arr)],
           "src_idx": [int(i) for i in np.asarray(src._time_step_to_on_idx)],
           "det_on": [bool(b) for b in np.asarray(det["gated"]._is_on_at_time_step_arr)],
           "det_idx": [int(i) for i in np.asarray(det["gated"]._time_step_to_arr_idx)]}
    _, res = fdtdx.run_fdtd(arrays=arrays, objects=oc, config=cfg, key=KEY, show_progress=False)
    full = np.asarray(res.detector_states["full"]["fields"]); gated = np.asarray(res.detector_states["gated"]["fields"])
    out["rows"] = int(gated.shape[0]); out["full_rows"] = int(full.shape[0])
    # run_fdtd starts from zero fields, so early full rows can coincide: report every full row equal to gated row i
    out["match"] = [[t for t in range(full.shape[0]) if np.array_equal(full[t], gated[i])] for i in range(gated.shape[0])]
    # gating of update_E / update_H: twin scene, same source always off
    spec2 = json.loads(json.dumps(spec)); spec2["sources"][0]["switch"] = {"off": True}
    oc2, arrays2, cfg2, _ = build(spec2)
    gE, gH = [], []
    for t in range(T):
        ts = jnp.asarray(t, dtype=jnp.int32)
        a1 = update_E(ts, arrays, oc, cfg, True); a2 = update_E(ts, arrays2, oc2, cfg2, True)
        gE.append(bool(not np.array_equal(np.asarray(a1.fields.E), np.asarray(a2.fields.E))))
        b1 = update_H(ts, arrays, oc, cfg, True); b2 = update_H(ts, arrays2, oc2, cfg2, True)
        gH.append(bool(not np.array_equal(np.asarray(b1.fields.H), np.asarray(b2.fields.H))))
    out["gate_E"], out["gate_H"] = gE, gH
    return out


def multi_case(c):
    """several switched field detectors on the same region (a never-active one listed first): rows of each against the always-on one"""
    oc, arrays, cfg, _ = build(c["spec"])
    T = int(cfg.time_steps_total)
    _, res = fdtdx.run_fdtd(arrays=arrays, objects=oc, config=cfg, key=KEY, show_progress=False)
    full = np.asarray(res.detector_states["full"]["fields"])
    out = {"T": T, "full_rows": int(full.shape[0]), "order": [d.name for d in oc.detectors], "dets": {}}
    for d in oc.detectors:
        if d.name == "full":
            continue
        g = np.asarray(res.detector_states[d.name]["fields"])
        out["dets"][d.name] = {"on": [bool(b) for b in np.asarray(d._is_on_at_time_step_arr)], "rows": int(g.shape[0]),
                               "match": [[t for t in range(full.shape[0]) if np.array_equal(full[t], g[i])] for i in range(g.shape[0])],
                               "zero_rows": [bool(not np.any(g[i])) for i in range(g.shape[0])]}
    return out


def edit_case(c):
    """the switch of a placed source is replaced (ObjectContainer.aset) and apply_params is called, as calculate_sparam does to silence the
    non-input ports: afterwards the source must follow the schedule it now carries"""
    oc, arrays, cfg, _ = build(c["spec"])
    T = int(cfg.time_steps_total)
    arrays = arrays.reset()
    for name, sw in c["edits"].items():
        idx = oc.index(name)
        if sw.get("off"):
            oc = oc.aset(f"object_list->[{idx}]->switch->is_always_off", True)
        else:
            oc = oc.aset(f"object_list->[{idx}]->switch", make_switch(sw, float(cfg.time_step_duration)))
    arrays, oc, _ = fdtdx.apply_params(arrays, oc, {}, KEY)
    srcs = sorted(oc.sources, key=lambda s_: int(s_.name[1:]))
    out = {"T": T, "names": [s_.name for s_ in srcs], "inj": [[False] * T for _ in srcs]}
    for t in range(T):
        ts = jnp.asarray(t, dtype=jnp.int32)
        E = np.asarray(update_E(ts, arrays, oc, cfg, True).fields.E)
        H = np.asarray(update_H(ts, arrays, oc, cfg, True).fields.H)
        for n, s_ in enumerate(srcs):
            gs = s_.grid_slice
            if np.abs(E[(slice(None),) + tuple(gs)]).max() > 0 or np.abs(H[(slice(None),) + tuple(gs)]).max() > 0:
                out["inj"][n][t] = True
    return out


def gate_case(c):
    """zero fields: what update_E / update_H leave at each source's own cell is that source's injection"""
    oc, arrays, cfg, _ = build(c["spec"])
    T = int(cfg.time_steps_total)
    arrays = arrays.reset()
    srcs = sorted(oc.sources, key=lambda s_: int(s_.name[1:]))
    out = {"T": T, "on": [[bool(b) for b in np.asarray(s_._is_on_at_time_step_arr)] for s_ in srcs], "inj": [[False] * T for _ in srcs]}
    for t in range(T):
        ts = jnp.asarray(t, dtype=jnp.int32)
        E = np.asarray(update_E(ts, arrays, oc, cfg, True).fields.E)
        H = np.asarray(update_H(ts, arrays, oc, cfg, True).fields.H)
        for n, s_ in enumerate(srcs):
            gs = s_.grid_slice
            if np.abs(E[(slice(None),) + tuple(gs)]).max() > 0 or np.abs(H[(slice(None),) + tuple(gs)]).max() > 0:
                out["inj"][n][t] = True
    return out


def main():
    payload = json.load(sys.stdin)
    outs = []
    for c in payload["cases"]:
        try:
            outs.append(switch_case(c) if c["kind"] == "switch" else (gate_case(c) if c["kind"] == "gate" else (multi_case(c) if c["kind"] == "multi" else (edit_case(c) if c["kind"] == "edit" else run_case(c)))))
        except Exception as e:
            outs.append({"crash": type(e).__name__ + ": " + str(e)[:300]})
    emit({"outs": outs})


main()
