"""C21 driver: the eight design symmetry transforms called through __call__ on a one-entry dict."""
import json, sys
import scenes
from scenes import *  # noqa
setup_jax(True)
from fdtdx.objects.device.parameters import symmetries as S


def make(t, o):
    if t == "Horizontal2D": return S.HorizontalSymmetry2D()
    if t == "Vertical2D": return S.VerticalSymmetry2D()
    if t == "Point2D": return S.PointSymmetry2D()
    if t == "Diagonal2D": return S.DiagonalSymmetry2D(min_min_to_max_max=bool(o["mm"]))
    if t == "Horizontal3D": return S.HorizontalSymmetry3D(mirror_axis=o["axis"])
    if t == "Vertical3D": return S.VerticalSymmetry3D()
    if t == "Point3D": return S.PointSymmetry3D()
    if t == "Diagonal3D": return S.DiagonalSymmetry3D(diagonal_plane=o["plane"], min_min_to_max_max=bool(o["mm"]))
    raise KeyError(t)


def arr(c):
    dt = np.float32 if c.get("dtype") == "f32" else np.float64
    if "num" in c:
        a = np.asarray(c["num"], dtype=np.float64) / float(c["den"])
    else:
        a = np.asarray([[[float.fromhex(v) for v in r] for r in p] for p in c["hex"]], dtype=np.float64)
    return jnp.asarray(a.astype(dt).reshape(c["shape"]))


def main():
    payload = json.load(sys.stdin)
    outs = []
    for c in payload["cases"]:
        try:
            tr = make(c["t"], c.get("opts", {}))
            x = arr(c)
            y = tr({"p": x})["p"]
            o = {"shape": [int(n) for n in y.shape], "dtype": str(y.dtype)}
            if list(y.shape) == list(x.shape):
                o["y"] = fl(y)
                o["yy"] = fl(tr({"p": y})["p"])
            outs.append(o)
        except Exception as e:
            outs.append({"error": type(e).__name__ + ": " + str(e)[:160]})
    emit({"outs": outs})
main()
