"""C34 driver.  kind "direct": fdtdx.fdtd.symmetry.reduce_resolved_slices on given full-domain slices;
kind "place": fdtdx.place_objects with config.symmetry (volume + PEC boundaries + boxes)."""
import json, sys, warnings, logging
import scenes
from scenes import *  # noqa
setup_jax(True)
from fdtdx.fdtd.symmetry import reduce_resolved_slices
logging.disable(logging.CRITICAL)
try:
    from loguru import logger as _lg
    _lg.remove()
except Exception:
    pass

def tl(t):
    return [[int(a), int(b)] for a, b in t]

def direct(c):
    cfg = fdtdx.SimulationConfig(time=1e-14, grid=fdtdx.UniformGrid(spacing=1e-7), backend="cpu", symmetry=tuple(c["sym"]))
    vol = fdtdx.SimulationVolume(name="vol", partial_grid_shape=tuple(b - a for a, b in c["vol"]))
    om = {"vol": vol}
    rs = {}
    names = []
    for i, b in enumerate(c["boxes"]):
        n = f"b{i}"
        om[n] = fdtdx.UniformMaterialObject(name=n, material=fdtdx.Material(permittivity=2.0))
        names.append(n)
    # volume deliberately not first in the dictionary for some cases
    order = names[: c.get("vol_pos", 0)] + ["vol"] + names[c.get("vol_pos", 0):]
    for n in order:
        rs[n] = tuple(tuple(p) for p in (c["vol"] if n == "vol" else c["boxes"][int(n[1:])]))
    try:
        new, unred, dropped, shape = reduce_resolved_slices(rs, om, cfg, "vol")
    except ValueError as e:
        return {"error": str(e)[:80]}
    return {"vol": tl(new["vol"]), "volu": tl(unred["vol"]), "shape": [int(s) for s in shape],
            "objs": [None if n in dropped else [tl(new[n]), tl(unred[n])] for n in names],
            "consistent": sorted(dropped) == sorted(n for n in names if n not in new) and sorted(new) == sorted(unred)}

def place(c):
    shape, sym = c["shape"], tuple(c["sym"])
    cfg = fdtdx.SimulationConfig(time=20 * 1.9e-16, grid=fdtdx.UniformGrid(spacing=1e-7), backend="cpu", dtype=jnp.float64, symmetry=sym)
    vol = fdtdx.SimulationVolume(partial_grid_shape=tuple(shape))
    bt = {f: c.get("bt", "pec") for f in FACES}
    bc = fdtdx.BoundaryConfig.from_uniform_bound(thickness=1, override_types=bt)
    bd, cons = fdtdx.boundary_objects_from_config(bc, vol)
    objs = [vol, *bd.values()]
    names = []
    for i, b in enumerate(c["boxes"]):
        o = fdtdx.UniformMaterialObject(name=f"b{i}", material=fdtdx.Material(permittivity=2.0))
        cons.append(o.set_grid_coordinates(axes=(0, 0, 1, 1, 2, 2), sides=("-", "+") * 3,
                                           coordinates=tuple(v for p in b for v in p)))
        objs.append(o); names.append(f"b{i}")
    try:
        with warnings.catch_warnings():
            warnings.simplefilter("ignore")
            oc, arrays, params, cfg2, _ = fdtdx.place_objects(object_list=objs, config=cfg, constraints=cons, key=KEY)
    except ValueError as e:
        return {"error": str(e)[:80]}
    present = {o.name: o for o in oc.objects}
    walls = [o for o in oc.boundary_objects if getattr(o, "_is_symmetry_wall", False)]
    others = [o for o in oc.boundary_objects if not getattr(o, "_is_symmetry_wall", False)]
    return {"shape": [int(s) for s in oc.volume.grid_shape], "vol": tl(oc.volume.grid_slice_tuple),
            "volu": tl(oc.volume.unreduced_grid_slice_tuple),
            "array_shape": [int(s) for s in arrays.fields.E.shape[1:]],
            "objs": [None if n not in present else [tl(present[n].grid_slice_tuple), tl(present[n].unreduced_grid_slice_tuple)] for n in names],
            "walls": sorted([[int(w.axis), tl(w.grid_slice_tuple), type(w).__name__, w.direction] for w in walls]),
            "boundaries": sorted([[int(b.axis), b.direction, tl(b.grid_slice_tuple)] for b in others])}

def main():
    payload = json.load(sys.stdin)
    outs = []
    for c in payload["cases"]:
        try:
            outs.append(direct(c) if c["kind"] == "direct" else place(c))
        except Exception as e:  # noqa
            outs.append({"crash": type(e).__name__ + ": " + str(e)[:200]})
    emit({"outs": outs})
main()
