"""C37 driver: RectilinearGrid helpers and config time step on given edge arrays (real /repo/src code)."""
import json, math, sys
import os
os.environ.setdefault("JAX_PLATFORMS", "cpu")
import jax
jax.config.update("jax_enable_x64", True)
import jax.numpy as jnp
import numpy as np
import fdtdx
from fdtdx import constants
from fdtdx.core.grid import RectilinearGrid, UniformGrid, QuasiUniformGrid


def H(x):
    return float(x).hex()


def hl(a):
    a = np.asarray(a, dtype=np.float64)
    if a.ndim == 0:
        return H(a)
    return [hl(v) for v in a]


def F(s):
    return float.fromhex(s) if isinstance(s, str) else float(s)


def bounds(fn):
    try:
        lo, hi = fn()
        return [int(lo), int(hi)]
    except ValueError as e:
        m = str(e)
        if "must be positive" in m:
            return {"error": "size"}
        if "does not fit" in m:
            return {"error": "fit"}
        return {"error": "other:" + m[:80]}


def cfl_info(g, cf):
    dt = g.cfl_time_step(cf)
    dx, dy, dz = g.min_spacings
    inv_metric = (1 / dx**2) + (1 / dy**2) + (1 / dz**2)
    us = g._uniform_spacing
    return {"dt": H(dt), "s3": H(float(np.sqrt(3.0))), "sm": H(float(np.sqrt(inv_metric))), "c": H(constants.c),
            "is_uniform": bool(g.is_uniform), "us": None if us is None else H(us)}


def do_op(g, op):
    k = op["op"]
    if k == "index":
        return int(g.coord_to_index(op["axis"], F(op["coord"]), op["snap"]))
    if k == "center":
        return bounds(lambda: g.bounds_for_center(op["axis"], F(op["center"]), op["size"]))
    if k == "anchor":
        return bounds(lambda: g.bounds_for_anchor(op["axis"], op["size"], F(op["anchor"]), F(op["pos"])))
    if k == "anchor_coord":
        return H(g.anchor_coordinate(op["axis"], tuple(op["bounds"]), F(op["pos"])))
    sl = tuple(tuple(int(v) for v in p) for p in op.get("sl", []))
    if k == "extent":
        return [H(v) for v in g.slice_extent(sl)]
    if k == "area":
        a = np.asarray(g.face_area(op["axis"], sl))
        tr = [x for x in range(3) if x != op["axis"]]
        return {"shape": list(a.shape), "val": hl(a.reshape(a.shape[tr[0]], a.shape[tr[1]]))}
    if k == "volume":
        a = np.asarray(g.cell_volume(sl))
        return {"shape": list(a.shape), "val": hl(a)}
    if k == "centers":
        return hl(np.asarray(g.centers(op["axis"])))
    if k == "cfl":
        cf = F(op["cf"])
        r = cfl_info(g, cf)
        cfg = fdtdx.SimulationConfig(grid=g, time=1e-13, courant_factor=cf)
        r["config_dt"] = H(cfg.time_step_duration)
        return r
    if k == "uniform":
        us = g._uniform_spacing
        try:
            prop = H(g.uniform_spacing)
        except ValueError:
            prop = None
        return {"is_uniform": bool(g.is_uniform), "us": None if us is None else H(us), "prop": prop,
                "mins": [H(v) for v in g.min_spacings], "min": H(g.min_spacing), "shape": [int(v) for v in g.shape]}
    if k == "reduce":
        try:
            r = g.reduce_symmetric(tuple(op["sym"]))
        except ValueError as e:
            m = str(e)
            ax = {"x": 0, "y": 1, "z": 2}.get(m.split("on axis ")[1][0], -1) if "on axis " in m else -1
            if "even number" in m:
                return {"error": "odd", "axis": ax}
            if "mirror-symmetric" in m:
                return {"error": "asym", "axis": ax}
            return {"error": "other:" + m[:80], "axis": ax}
        return {"edges": [hl(np.asarray(r.edges(a))) for a in range(3)], "same_obj": r is g,
                "orig": [hl(np.asarray(g.edges(a))) for a in range(3)]}
    raise ValueError(k)


def main():
    payload = json.load(sys.stdin)
    outs = []
    for c in payload["cases"]:
        if c["kind"] == "grid":
            dt = np.float32 if c.get("dtype") == "f32" else np.float64
            try:
                arrs = [jnp.asarray(np.array([F(v) for v in e], dtype=dt)) for e in c["edges"]]
                g = RectilinearGrid.custom(*arrs)
            except ValueError as e:
                outs.append({"error": str(e)[:100]})
                continue
            outs.append({"dtype": str(np.asarray(g.x_edges).dtype), "ops": [do_op(g, op) for op in c["ops"]]})
        elif c["kind"] == "ctor":
            sp = F(c["spacing"]); shape = tuple(c["shape"])
            kw = {}
            if c.get("origin") is not None:
                kw["origin"] = tuple(F(v) for v in c["origin"])
            if c.get("center") is not None:
                kw["center"] = tuple(F(v) for v in c["center"])
            g = RectilinearGrid.uniform(shape=shape, spacing=sp, **kw)
            cf = F(c["cf"])
            r = cfl_info(g, cf)
            r["edges"] = [hl(np.asarray(g.edges(a))) for a in range(3)]
            pol = UniformGrid(spacing=sp, center=kw.get("center", (0, 0, 0)))
            r["policy_dt"] = H(fdtdx.SimulationConfig(grid=pol, time=1e-13, courant_factor=cf).time_step_duration)
            r["resolved_edges"] = [hl(np.asarray(pol.resolve(shape).edges(a))) for a in range(3)]
            r["s3m"] = H(math.sqrt(3))
            outs.append(r)
        elif c["kind"] == "quasi":
            d = [F(v) for v in c["d"]]; cf = F(c["cf"])
            pol = QuasiUniformGrid(dx=d[0], dy=d[1], dz=d[2])
            r = {"policy_dt": H(fdtdx.SimulationConfig(grid=pol, time=1e-13, courant_factor=cf).time_step_duration),
                 "s3m": H(math.sqrt(3)), "c": H(constants.c), "min": H(pol.min_spacing)}
            shape = tuple(c["shape"])
            try:
                g = pol.resolve(shape)
                r.update(resolved=cfl_info(g, cf), edges=[hl(np.asarray(g.edges(a))) for a in range(3)])
            except ValueError as e:
                r["resolve_error"] = str(e)[:60]
            outs.append(r)
    print("RESULT " + json.dumps({"outs": outs}))


main()
