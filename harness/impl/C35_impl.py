"""C35 driver: pole coefficients, susceptibility from coefficients, declared model, padding (real /repo/src code)."""
import json, sys, os, cmath, math
os.environ.setdefault("JAX_PLATFORMS", "cpu")
import jax
jax.config.update("jax_enable_x64", True)
import numpy as np
import fdtdx
from fdtdx.dispersion import (LorentzPole, DrudePole, CCPRPole, DispersionModel, compute_pole_coefficients_per_axis,
                              compute_pole_coefficients_tensor, compute_pole_coefficients, susceptibility_from_coefficients)
from fdtdx.materials import Material, compute_allowed_dispersive_coefficients


def H(x):
    return float(x).hex()


def hl(a):
    a = np.asarray(a)
    if np.iscomplexobj(a):
        return {"re": hl(a.real), "im": hl(a.imag)}
    a = a.astype(np.float64)
    return H(a) if a.ndim == 0 else [hl(v) for v in a]


def F(s):
    return float.fromhex(s) if isinstance(s, str) else float(s)


def T(v):
    return tuple(F(x) for x in v) if isinstance(v, list) else F(v)


def mk(p):
    kw = {}
    if p.get("orientation") is not None:
        kw["orientation"] = tuple(F(v) for v in p["orientation"])
    if p["kind"] == "lorentz":
        return LorentzPole(resonance_frequency=T(p["w0"]), damping=T(p["g"]), delta_epsilon=T(p["de"]), **kw)
    if p["kind"] == "drude":
        return DrudePole(plasma_frequency=T(p["wp"]), damping=T(p["g"]), **kw)
    if p["kind"] == "ccpr":
        c = lambda v: complex(F(v[0]), F(v[1]))
        q = tuple(c(v) for v in p["q"]) if isinstance(p["q"][0], list) else c(p["q"])
        r = tuple(c(v) for v in p["r"]) if isinstance(p["r"][0], list) else c(p["r"])
        return CCPRPole(pole=q, residue=r)
    return CCPRPole.from_critical_point(amplitude=F(p["amp"]), phase=F(p["phase"]), resonance_frequency=F(p["om"]), damping=F(p["gm"]))


def main():
    payload = json.load(sys.stdin)
    outs = []
    for c in payload["cases"]:
        r = {}
        try:
            poles = tuple(mk(p) for p in c["poles"])
        except Exception as e:
            outs.append({"ctor_error": str(e)[:100]}); continue
        dt = F(c["dt"]); omegas = [F(w) for w in c["omegas"]]
        r["params"] = [{"w0": hl(p.omega_0_axes), "g": hl(p.gamma_axes), "a": hl(p.coupling_sq_axes), "b": hl(p.coupling_edot_axes),
                        "u": None if p.orientation is None else hl(p.orientation)} for p in poles]
        model = DispersionModel(poles=poles)
        oriented = any(p.is_oriented for p in poles)
        try:
            if oriented:
                raise ValueError("oriented")
            c1, c2, c3, c4 = compute_pole_coefficients_per_axis(poles, dt)
            r["axis"] = {"c": [hl(c1), hl(c2), hl(c3), hl(c4)],
                         "chi": [hl(np.asarray(susceptibility_from_coefficients(c1, c2, c3, w, dt, c4))) for w in omegas],
                         "model": [hl(np.asarray(model.susceptibility_axes(w))) for w in omegas]}
            if all(p.is_isotropic for p in poles):
                s1, s2, s3, s4 = compute_pole_coefficients(poles, dt)
                r["axis"]["scalar_same"] = bool(np.array_equal(s1, c1[:, 0]) and np.array_equal(s2, c2[:, 0]) and np.array_equal(s3, c3[:, 0]) and np.array_equal(s4, c4[:, 0]))
        except ValueError as e:
            r["axis_error"] = str(e)[:60]
        try:
            t1, t2, t3, t4 = compute_pole_coefficients_tensor(poles, dt)
            r["tensor"] = {"c": [hl(t1), hl(t2), hl(t3), hl(t4)],
                           "chi": [hl(np.asarray(susceptibility_from_coefficients(t1, t2, t3, w, dt, t4))) for w in omegas],
                           "model": [hl(np.asarray(model.susceptibility_tensor(w)).reshape(-1)) for w in omegas]}
            # zero padding through materials: a second material with fewer poles and a non-dispersive one
            mats = {"full": Material(permittivity=2.0, dispersion=model), "air": Material(permittivity=1.0)}
            if len(poles) > 1:
                mats["part"] = Material(permittivity=3.0, dispersion=DispersionModel(poles=poles[:1]))
            from fdtdx.materials import compute_ordered_material_name_tuples
            names = [n for n, _ in compute_ordered_material_name_tuples(mats)]
            a1, a2, a3, a4 = compute_allowed_dispersive_coefficients(mats, dt, len(poles) + c.get("extra_pad", 1), 3, 9)
            pad = {}
            for mi, n in enumerate(names):
                pad[n] = {"c": [hl(a1[mi]), hl(a2[mi]), hl(a3[mi]), hl(a4[mi])],
                          "chi": [hl(np.asarray(susceptibility_from_coefficients(a1[mi], a2[mi], a3[mi], w, dt, a4[mi]))) for w in omegas[2:3]]}
            r["pad"] = pad
        except ValueError as e:
            r["tensor_error"] = str(e)[:60]
        outs.append(r)
    print("RESULT " + json.dumps({"outs": outs}))


main()
