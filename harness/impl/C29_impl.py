"""C29 driver.
case kind "pairs": {"kind":"pairs","pairs":[[boxA, boxB], ...]} -> SimulationObject.check_overlap(A, B) for hand-set _grid_slice_tuple
case kind "scene": device(s) + sources + detectors with given boxes; runs place_objects and apply_params with instrumented
  `apply` methods and compares every object's state after apply_params with a fresh apply against the post-device arrays."""
import json, sys, warnings
import scenes
from scenes import *  # noqa
setup_jax(True)
from fdtdx.objects.object import SimulationObject
from fdtdx.fdtd import initialization as init_mod

LOG = []


def instrument():
    """wrap every concrete `apply` so that calls are logged by object name (driver-side only)"""
    seen = set()

    def walk(cls):
        for sub in cls.__subclasses__():
            walk(sub)
        if "apply" in cls.__dict__ and cls not in seen:
            seen.add(cls)
            orig = cls.__dict__["apply"]

            def wrapped(self, *a, __orig=orig, **k):
                LOG.append(self.name)
                return __orig(self, *a, **k)
            setattr(cls, "apply", wrapped)
    walk(SimulationObject)
    if "apply" in SimulationObject.__dict__ and SimulationObject not in seen:
        orig = SimulationObject.__dict__["apply"]

        def wrapped0(self, *a, __orig=orig, **k):
            LOG.append(self.name)
            return __orig(self, *a, **k)
        SimulationObject.apply = wrapped0


def mkbox(t):
    o = object.__new__(fdtdx.UniformMaterialObject)
    object.__setattr__(o, "_grid_slice_tuple", tuple((int(a), int(b)) for a, b in t))
    return o


def leaves(o):
    return [np.asarray(l) for l in jax.tree_util.tree_leaves(o) if hasattr(l, "shape")]


def maxdiff(a, b):
    la, lb = leaves(a), leaves(b)
    if len(la) != len(lb):
        return 1e300
    d = 0.0
    for x, y in zip(la, lb):
        if x.shape != y.shape:
            return 1e300
        if x.size:
            sc = max(float(np.abs(y).max()), 1e-300)
            d = max(d, float(np.abs(x.astype(np.complex128) - y.astype(np.complex128)).max()) / sc)
    return d


def scene(c):
    cfg = fdtdx.SimulationConfig(time=2e-14, grid=fdtdx.UniformGrid(spacing=1e-7), backend="cpu", dtype=jnp.float64)
    vol = fdtdx.SimulationVolume(partial_grid_shape=tuple(c["shape"]), material=fdtdx.Material(permittivity=1.5))
    bt = {f: "periodic" for f in FACES}
    bc = fdtdx.BoundaryConfig.from_uniform_bound(thickness=1, override_types=bt)
    bd, cons = fdtdx.boundary_objects_from_config(bc, vol)
    objs = [vol, *bd.values()]
    if c.get("dispersive"):
        from fdtdx.dispersion import DispersionModel, LorentzPole
        disp = DispersionModel(poles=(LorentzPole(resonance_frequency=4.0e15, damping=1.0e14, delta_epsilon=1.5),))
        mats = {"lo": fdtdx.Material(permittivity=2.0), "hi": fdtdx.Material(permittivity=5.0, dispersion=disp)}
    else:
        mats = {"lo": fdtdx.Material(permittivity=2.0), "hi": fdtdx.Material(permittivity=5.0)}
    if int(c.get("pseed", 0)) % 2:      # insertion order of the materials dict is arbitrary
        mats = {"hi": mats["hi"], "lo": mats["lo"]}
    for i, d in enumerate(c["devices"]):
        shape = tuple(hi - lo for lo, hi in d["box"])
        dev = fdtdx.Device(name=f"dev{i}", materials=mats, param_transforms=[], partial_grid_shape=shape,
                           partial_voxel_grid_shape=tuple(d.get("voxel", (1, 1, 1))))
        cons += box_constraints(dev, d["box"])
        objs.append(dev)
    wc = fdtdx.WaveCharacter(wavelength=6e-7)
    for i, s in enumerate(c["objects"]):
        shape = tuple(hi - lo for lo, hi in s["box"])
        name = f"o{i}"
        if s["kind"] == "dipole":
            o = fdtdx.PointDipoleSource(name=name, partial_grid_shape=(1, 1, 1), polarization=int(s.get("pol", 2)), wave_character=wc)
        elif s["kind"] == "plane":
            o = fdtdx.UniformPlaneSource(name=name, partial_grid_shape=shape, direction=s.get("dir", "+"),
                                         fixed_E_polarization_vector=tuple(s["epol"]), wave_character=wc)
        elif s["kind"] == "gauss":
            o = fdtdx.GaussianPlaneSource(name=name, partial_grid_shape=shape, direction=s.get("dir", "+"), radius=2e-7,
                                          fixed_E_polarization_vector=tuple(s["epol"]), wave_character=wc)
        elif s["kind"] == "gmode":      # Gaussian mode-overlap detector on a plane (its mode profile / index depends on the materials)
            o = fdtdx.GaussianModeOverlapDetector(name=name, partial_grid_shape=shape, wave_characters=(wc,), mode_radius=3e-7,
                                                  direction=s.get("dir", "+"))
        elif s["kind"] == "field":
            o = fdtdx.FieldDetector(name=name, partial_grid_shape=shape, dtype=jnp.float64)
        elif s["kind"] == "block":
            o = fdtdx.UniformMaterialObject(name=name, partial_grid_shape=shape, material=fdtdx.Material(permittivity=3.0))
        else:
            raise ValueError(s["kind"])
        cons += box_constraints(o, s["box"])
        objs.append(o)
    LOG.clear()
    with warnings.catch_warnings():
        warnings.simplefilter("ignore")
        oc, arrays, params, cfg, _ = fdtdx.place_objects(object_list=objs, config=cfg, constraints=cons, key=KEY)
    placed_log = list(LOG)
    rng = np.random.default_rng(int(c.get("pseed", 0)))
    newp = {k: jnp.asarray(rng.uniform(0.05, 0.95, size=np.asarray(v).shape)) for k, v in params.items()}
    LOG.clear()
    arrays2, oc2, _ = fdtdx.apply_params(arrays, oc, newp, KEY)
    re_log = list(LOG)
    devices = oc.devices
    names = [o.name for o in oc.object_list]
    after = {o.name: o for o in oc2.object_list}
    res = {"names": names, "devices": [d.name for d in devices],
           "boxes": {o.name: [list(map(int, t)) for t in o._grid_slice_tuple] for o in oc.object_list},
           "placed": [n in placed_log for n in names], "reapplied": [n in re_log for n in names],
           "overlap": {o.name: [bool(d.check_overlap(o)) for d in devices] for o in oc.object_list},
           "changed": float(np.abs(np.asarray(arrays2.inv_permittivities) - np.asarray(arrays.inv_permittivities)).max()), "stale": {}, "keydep": {}}
    kw = dict(inv_permittivities=arrays2.inv_permittivities, inv_permeabilities=arrays2.inv_permeabilities,
              dispersive_c1=arrays2.dispersive_c1, dispersive_c2=arrays2.dispersive_c2, dispersive_c3=arrays2.dispersive_c3,
              dispersive_c4=arrays2.dispersive_c4, electric_conductivity=arrays2.electric_conductivity)
    LOG.clear()
    for o in oc.object_list:
        if o.name in res["devices"] or o.name == vol.name or o.name in [b.name for b in bd.values()]:
            continue
        fresh = o.apply(key=KEY, **kw)
        fresh2 = o.apply(key=jax.random.PRNGKey(7), **kw)
        res["keydep"][o.name] = maxdiff(fresh2, fresh)
        res["stale"][o.name] = maxdiff(after[o.name], fresh)
        # how far is the pre-device set-up from the post-device one (0 => the check cannot distinguish)
    # a second parameter set applied to the containers RETURNED by the first call (an optimisation loop that rebinds objects / arrays)
    newp2 = {k: jnp.asarray(rng.uniform(0.05, 0.95, size=np.asarray(v).shape)) for k, v in params.items()}
    arrays3, oc3, _ = fdtdx.apply_params(arrays2, oc2, newp2, KEY)
    after3 = {o.name: o for o in oc3.object_list}
    kw3 = dict(inv_permittivities=arrays3.inv_permittivities, inv_permeabilities=arrays3.inv_permeabilities,
               dispersive_c1=arrays3.dispersive_c1, dispersive_c2=arrays3.dispersive_c2, dispersive_c3=arrays3.dispersive_c3,
               dispersive_c4=arrays3.dispersive_c4, electric_conductivity=arrays3.electric_conductivity)
    res["stale2"] = {}
    for o in oc.object_list:
        if o.name in res["stale"]:
            res["stale2"][o.name] = maxdiff(after3[o.name], o.apply(key=KEY, **kw3))
    return res


def main():
    payload = json.load(sys.stdin)
    instrument()
    outs = []
    for c in payload["cases"]:
        if c["kind"] == "pairs":
            outs.append({"vals": [bool(SimulationObject.check_overlap(mkbox(a), mkbox(b))) for a, b in c["pairs"]]})
        else:
            try:
                outs.append(scene(c))
            except Exception as e:
                import traceback
                outs.append({"error": type(e).__name__ + ": " + str(e)[:300], "tb": traceback.format_exc()[-1500:]})
    emit({"outs": outs})


main()
