"""C16 driver: one placed scene per case, raw (exact_interpolation=False) detectors of every variant on
boxes of the scene, full-domain hand-set fields, one call of update_detector_states (forward detectors)
and one with inverse=True (inverse detectors).  Output: the row written at that step per detector."""
import json
import sys

from detectors_scenes import *  # noqa
from fdtdx.fdtd.update import update_detector_states
from fdtdx.objects.detectors.poynting_flux import (ClosedSurfacePoyntingFluxDetector, PhasorPoyntingFluxDetector,
                                                   ClosedSurfacePhasorPoyntingFluxDetector)


def make_det(d):
    o = dict(d.get("opts") or {})
    common = dict(name=d["name"], exact_interpolation=False)
    k = d["kind"]
    sw = fdtdx.OnOffSwitch(interval=int(o.get("interval", 1)))
    if k == "field":
        return fdtdx.FieldDetector(dtype=jnp.float64, reduce_volume=bool(o.get("reduce")), components=tuple(o.get("components") or ("Ex", "Ey", "Ez", "Hx", "Hy", "Hz")), switch=sw, **common)
    if k == "energy":
        return fdtdx.EnergyDetector(dtype=jnp.float64, reduce_volume=bool(o.get("reduce")), switch=sw, **common)
    if k == "poynting":
        return fdtdx.PoyntingFluxDetector(dtype=jnp.float64, direction=o.get("direction", "+"), reduce_volume=bool(o.get("reduce", True)),
                                          keep_all_components=bool(o.get("keep_all")), fixed_propagation_axis=o.get("fixed_axis"), switch=sw, **common)
    if k == "closed":
        return ClosedSurfacePoyntingFluxDetector(dtype=jnp.float64, orientation=o.get("orientation", "outward"),
                                                 axes=None if o.get("axes") is None else tuple(o["axes"]), switch=sw, **common)
    wcs = tuple(fdtdx.WaveCharacter(wavelength=float(w)) for w in o.get("wavelengths", [1e-6]))
    pk = dict(dtype=jnp.complex128, wave_characters=wcs, inverse=bool(o.get("inverse")), scaling_mode=o.get("mode", "continuous"),
              dft_subsample=int(o.get("stride", 1)), switch=sw, **common)
    if k == "phasor":
        return fdtdx.PhasorDetector(reduce_volume=bool(o.get("reduce")), components=tuple(o.get("components") or ("Ex", "Ey", "Ez", "Hx", "Hy", "Hz")), **pk)
    if k == "phasor_poynting":
        return PhasorPoyntingFluxDetector(direction=o.get("direction", "+"), keep_all_components=bool(o.get("keep_all")),
                                          fixed_propagation_axis=o.get("fixed_axis"), **pk)
    if k == "closed_phasor":
        return ClosedSurfacePhasorPoyntingFluxDetector(orientation=o.get("orientation", "outward"),
                                                       axes=None if o.get("axes") is None else tuple(o["axes"]), **pk)
    raise ValueError(k)


def err(e):
    return type(e).__name__ + ": " + str(e)[:160]


def run_case(c):
    sc = Scene(dict(c["scene"]))
    dets = [(make_det(d), d["box"]) for d in c["dets"]]
    failed = {}
    try:
        oc, arrays, cfg = sc.place(dets)
    except Exception as e0:
        # find the detectors that cannot be placed (each alone with the volume), place the rest
        ok = []
        for (d, box) in dets:
            try:
                Scene(dict(c["scene"])).place([(d, box)])
                ok.append((d, box))
            except Exception as e:
                failed[d.name] = err(e)
        if not failed:
            raise e0
        sc = Scene(dict(c["scene"]))
        oc, arrays, cfg = sc.place(ok)
    E = jnp.asarray(quarter(c["E"]))
    H = jnp.asarray(quarter(c["H"]))
    if c.get("Eim") is not None:      # complex field storage (use_complex_fields / Bloch): real-output detectors only
        E = jnp.asarray(quarter(c["E"]) + 1j * quarter(c["Eim"]))
        H = jnp.asarray(quarter(c["H"]) + 1j * quarter(c["Him"]))
    arrays = arrays.aset("fields->E", E).aset("fields->H", H)
    arrays = arrays.aset("inv_permittivities", jnp.asarray(quarter(c["ie"])))
    if c.get("im") is not None:
        arrays = arrays.aset("inv_permeabilities", jnp.asarray(quarter(c["im"])))
    ph0 = complex(c["ph0"][0] / 4.0, c["ph0"][1] / 4.0)
    st0 = {}
    for n, st in arrays.detector_states.items():
        st0[n] = {k: (v + ph0).astype(v.dtype) if jnp.iscomplexobj(v) else v for k, v in st.items()}
    t = jnp.asarray(int(c["t"]), dtype=jnp.int32)
    res = {}
    for inverse in (False, True):
        a = arrays.aset("detector_states", {n: dict(s) for n, s in st0.items()})
        a2 = update_detector_states(t, a, oc, cfg, H, inverse)
        for d in (oc.backward_detectors if inverse else oc.forward_detectors):
            res[d.name] = (d, a2.detector_states[d.name])
    outs = {}
    for d in c["dets"]:
        n = d["name"]
        if n in failed:
            outs[n] = {"error": failed[n]}
            continue
        det, st = res[n]
        on = np.asarray(det._is_on_at_time_step_arr)
        o = {"n_on": int(on.sum()), "on_now": bool(on[int(c["t"])]), "shape": list(det.grid_shape)}
        if d["kind"] == "closed_phasor":
            o["faces"] = {}
            for key, v in st.items():
                v = np.asarray(v)
                o["faces"][key] = {"re": fl(v.real), "im": fl(v.imag), "shape": list(v.shape)}
            o["net"] = fl(np.asarray(det.compute_net_flux(st)))
        elif d["kind"] in ("phasor", "phasor_poynting"):
            ph = np.asarray(st["phasor"])
            o["re"], o["im"], o["oshape"] = fl(ph.real), fl(ph.imag), list(ph.shape)
            o["omega"] = [float(v) for v in np.asarray(det._angular_frequencies)]
            if d["kind"] == "phasor_poynting":
                f = np.asarray(det.compute_poynting_flux(st))
                o["flux"], o["fshape"] = fl(f), list(f.shape)
        else:
            key = next(iter(st))
            row = np.asarray(st[key])[int(np.asarray(det._time_step_to_arr_idx)[int(c["t"])])]
            o["out"], o["oshape"] = fl(row), list(row.shape)
            o["others_zero"] = bool(np.abs(np.asarray(st[key])).sum() == np.abs(row).sum())
        outs[n] = o
    return {"dets": outs, "dt": float(cfg.time_step_duration), "T": int(cfg.time_steps_total)}


def main():
    payload = json.load(sys.stdin)
    outs = []
    for c in payload["cases"]:
        try:
            outs.append(run_case(c))
        except Exception as e:
            import traceback
            outs.append({"crash": err(e), "trace": traceback.format_exc()[-1500:]})
    emit({"outs": outs})


main()
