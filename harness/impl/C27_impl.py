"""C27 driver: resolve_object_constraints on one system under several orders of the object list and of the
constraint list.  case = {"sys":..., "perms":[{"order":[ids], "cperm":[indices into sys.cons]}, ...]}"""
import json, sys
from place_impl_common import resolve

def main():
    payload = json.load(sys.stdin)
    outs = []
    for c in payload["cases"]:
        s = c["sys"]
        outs.append({"runs": [resolve(s, p["order"], [s["cons"][i] for i in p["cperm"]]) for p in c["perms"]]})
    print("RESULT " + json.dumps({"outs": outs}))
main()
