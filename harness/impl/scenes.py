"""Scene construction shared by the implementation drivers (runs against /repo/src).

spec (JSON-able dict):
  shape [nx,ny,nz]; spacing (m); steps; bt {face: pml|pec|pmc|periodic|bloch}; thickness; kvec
  courant ("exact_half" -> courant_number == 0.5 exactly | float factor | None default)
  grad: None | {"method":"checkpointed","n":k} | {"method":"reversible","n":k}
  complex: bool;  dtype: "f64"|"f32"
  sources: [{kind: plane|gauss|dipole, name, axis, pos, dir, pol[3] | (dipole) cell[3], pol, mag, az, el, amp, switch, profile}]
  detectors: [{kind: field|energy|poynting|phasor|..., name, box [[lo,hi]x3], opts{}, switch}]
  blocks: [{box, eps (scalar|3|9), mu, sigma_e, sigma_m, name}]
  init: None | {"seed":int, "kind":"int4"|"normal"}  random wall-compatible initial fields, zero inside PML
  mats: None | {"seed":int, "ncomp":1|3, "pow2":bool}  overwrite inv_eps / inv_mu arrays with random positive values
switch: None | {"start_time":a (in steps), "end_time":b, "interval":i, "fixed":[...], "off":true, ...}
"""
from __future__ import annotations

import math
import os

os.environ.setdefault("JAX_PLATFORMS", "cpu")
import jax
import jax.numpy as jnp
import numpy as np

FACES = ("min_x", "max_x", "min_y", "max_y", "min_z", "max_z")


def setup_jax(x64=True):
    jax.config.update("jax_enable_x64", bool(x64))


import fdtdx  # noqa: E402
from fdtdx.config import GradientConfig  # noqa: E402
from fdtdx.interfaces.recorder import Recorder  # noqa: E402

KEY = jax.random.PRNGKey(0)


def grad_config(g):
    if g is None:
        return None
    if g["method"] == "checkpointed":
        return GradientConfig(method="checkpointed", num_checkpoints=int(g["n"]))
    mods = []
    if g.get("every_k"):
        mods.append(fdtdx.LinearReconstructEveryK(k=int(g["every_k"])))
    if g.get("rec_dtype"):
        mods.append(fdtdx.DtypeConversion(dtype=getattr(jnp, g["rec_dtype"])))
    return GradientConfig(method="reversible", recorder=Recorder(modules=mods), num_checkpoints_reversible=int(g.get("n", 0)))


def make_switch(sw, dt):
    if sw is None:
        return fdtdx.OnOffSwitch()
    kw = {}
    for k in ("start_time", "end_time", "on_for_time", "start_after_periods", "end_after_periods", "on_for_periods", "period"):
        if sw.get(k) is not None:
            kw[k] = sw[k] * dt if "time" in k or k == "period" else sw[k]
    if sw.get("interval") is not None:
        kw["interval"] = int(sw["interval"])
    if sw.get("fixed") is not None:
        kw["fixed_on_time_steps"] = [int(t) for t in sw["fixed"]]
    if sw.get("off"):
        kw["is_always_off"] = True
    return fdtdx.OnOffSwitch(**kw)


def make_profile(p, wc):
    if p is None:
        return None
    if p["kind"] == "cw":
        return fdtdx.SingleFrequencyProfile(**{k: v for k, v in p.items() if k != "kind"})
    if p["kind"] == "pulse":
        return fdtdx.GaussianPulseProfile(spectral_width=fdtdx.WaveCharacter(wavelength=p.get("width_wl", 2e-7)), center_wave=wc)
    raise ValueError(p)


def base_config(spec):
    dt = jnp.float64 if spec.get("dtype", "f64") == "f64" else jnp.float32
    grid = spec.get("grid_obj") or fdtdx.UniformGrid(spacing=spec.get("spacing", 1e-7))
    kw = {}
    c = spec.get("courant", None)
    if c == "exact_half":
        kw["courant_factor"] = float(0.5 * math.sqrt(3))
    elif c is not None:
        kw["courant_factor"] = float(c)
    if spec.get("complex"):
        kw["use_complex_fields"] = True
    if spec.get("symmetry"):
        kw["symmetry"] = tuple(spec["symmetry"])
    cfg = fdtdx.SimulationConfig(time=1.0, grid=grid, backend="cpu", dtype=dt, gradient_config=grad_config(spec.get("grad")), **kw)
    return cfg


def set_steps(cfg, n):
    return cfg.aset("time", cfg.time_step_duration * n * 1.0001)


def box_constraints(obj, box):
    axes, sides, coords = [], [], []
    for a, (lo, hi) in enumerate(box):
        axes.append(a)
        sides.append("-")
        coords.append(int(lo))
    return [obj.set_grid_coordinates(axes=tuple(axes), sides=tuple(sides), coordinates=tuple(coords))]


def make_objects(spec, cfg_dt_src):
    """Returns (object list, constraints, volume).  cfg_dt_src: config with resolved dt for switch times."""
    dtm = cfg_dt_src
    vol = fdtdx.SimulationVolume(partial_grid_shape=tuple(spec["shape"]), **({"material": mk_material(spec["vol_material"])} if spec.get("vol_material") else {}))
    bt = dict(spec.get("bt") or {})
    thick = spec.get("thickness", 1)
    if isinstance(thick, dict):
        bc = fdtdx.BoundaryConfig(**{f"thickness_grid_{f.replace('_', '')}": int(thick.get(f, 1)) for f in FACES},
                                  **{f"boundary_type_{f.replace('_', '')}": bt.get(f, "pml") for f in FACES},
                                  **({"bloch_vector": tuple(spec["kvec"])} if spec.get("kvec") else {}))
    else:
        bc = fdtdx.BoundaryConfig.from_uniform_bound(thickness=int(thick), override_types=bt, **({"bloch_vector": tuple(spec["kvec"])} if spec.get("kvec") else {}))
    bd, cons = fdtdx.boundary_objects_from_config(bc, vol)
    objs = [vol, *bd.values()]
    wl = spec.get("wavelength", 6e-7)
    wc = fdtdx.WaveCharacter(wavelength=wl)
    for i, b in enumerate(spec.get("blocks") or []):
        shape = tuple(int(hi - lo) for lo, hi in b["box"])
        o = fdtdx.UniformMaterialObject(name=b.get("name", f"blk{i}"), partial_grid_shape=shape, material=mk_material(b),
                                        **({"placement_order": int(b["order"])} if "order" in b else {}),
                                        # centre of the object relative to the centre of the domain, in metres (no other positioning then)
                                        **({"partial_real_position": tuple(float(v) for v in b["real_pos"])} if b.get("real_pos") is not None else {}))
        if b.get("real_pos") is not None:
            pass
        elif b.get("real_lo") is not None:
            # lower face pinned to an ABSOLUTE physical coordinate along one axis (snapped to the nearest grid edge), grid indices elsewhere
            from fdtdx.objects.object import RealCoordinateConstraint, GridCoordinateConstraint
            ra = int(b["real_lo"]["axis"])
            oth = [a for a in range(3) if a != ra]
            cons.append(RealCoordinateConstraint(object=o.name, axes=(ra,), sides=("-",), coordinates=(float(b["real_lo"]["coord"]),)))
            cons.append(GridCoordinateConstraint(object=o.name, axes=tuple(oth), sides=("-",) * 2, coordinates=tuple(int(b["box"][a][0]) for a in oth)))
        else:
            cons += box_constraints(o, b["box"])
        objs.append(o)
    for i, s in enumerate(spec.get("sources") or []):
        name = s.get("name", f"src{i}")
        sw = make_switch(s.get("switch"), dtm)
        common = dict(name=name, wave_character=fdtdx.WaveCharacter(wavelength=s.get("wavelength", wl), phase_shift=float(s.get("phase", 0.0))), switch=sw,
                      static_amplitude_factor=float(s.get("amp", 1.0)))
        prof = make_profile(s.get("profile"), wc)
        if prof is not None:
            common["temporal_profile"] = prof
        if s["kind"] in ("plane", "gauss"):
            ax = int(s["axis"])
            pgs = [None, None, None]
            pgs[ax] = 1
            pol = {"fixed_E_polarization_vector": tuple(s["pol"])} if s.get("pol") is not None else {"fixed_H_polarization_vector": tuple(s["hpol"])}
            if "az" in s:
                pol["azimuth_angle"] = float(s["az"])
            if "el" in s:
                pol["elevation_angle"] = float(s["el"])
            if s["kind"] == "plane":
                o = fdtdx.UniformPlaneSource(partial_grid_shape=tuple(pgs), direction=s.get("dir", "+"), **pol, **common)
            else:
                o = fdtdx.GaussianPlaneSource(partial_grid_shape=tuple(pgs), direction=s.get("dir", "+"), radius=float(s.get("radius", 1.5e-7)), **pol, **common)
            tr = tuple(a for a in range(3) if a != ax)
            if s.get("box") is not None:
                o = o.aset("partial_grid_shape", tuple(int(hi - lo) for lo, hi in s["box"]))
                cons += box_constraints(o, s["box"])
            else:
                cons += [o.same_size(vol, axes=tr), o.place_at_center(vol, axes=tr),
                         o.set_grid_coordinates(axes=(ax,), sides=("-",), coordinates=(int(s["pos"]),))]
        elif s["kind"] == "mode":
            ax = int(s["axis"])
            pgs = [None, None, None]
            pgs[ax] = 1
            o = fdtdx.ModePlaneSource(partial_grid_shape=tuple(pgs), direction=s.get("dir", "+"), mode_index=int(s.get("mode_index", 0)),
                                      filter_pol=s.get("filter_pol"), **common)
            tr = tuple(a for a in range(3) if a != ax)
            cons += [o.same_size(vol, axes=tr), o.place_at_center(vol, axes=tr),
                     o.set_grid_coordinates(axes=(ax,), sides=("-",), coordinates=(int(s["pos"]),))]
        elif s["kind"] == "dipole":
            o = fdtdx.PointDipoleSource(partial_grid_shape=(1, 1, 1), polarization=int(s.get("pol", 0)),
                                        source_type="magnetic" if s.get("mag") else "electric",
                                        **({"azimuth_angle": float(s["az"])} if "az" in s else {}),
                                        **({"elevation_angle": float(s["el"])} if "el" in s else {}), **common)
            cons += [o.set_grid_coordinates(axes=(0, 1, 2), sides=("-", "-", "-"), coordinates=tuple(int(v) for v in s["cell"]))]
        else:
            raise ValueError(s["kind"])
        objs.append(o)
    cdt = jnp.complex128 if spec.get("dtype", "f64") == "f64" else jnp.complex64
    fdt = jnp.float64 if spec.get("dtype", "f64") == "f64" else jnp.float32
    for i, d in enumerate(spec.get("detectors") or []):
        name = d.get("name", f"det{i}")
        shape = tuple(int(hi - lo) for lo, hi in d["box"])
        opts = dict(d.get("opts") or {})
        sw = make_switch(d.get("switch"), dtm)
        kind = d["kind"]
        if "components" in opts:
            opts["components"] = tuple(opts["components"])
        if kind == "field":
            o = fdtdx.FieldDetector(name=name, partial_grid_shape=shape, dtype=fdt, switch=sw, **opts)
        elif kind == "energy":
            o = fdtdx.EnergyDetector(name=name, partial_grid_shape=shape, dtype=fdt, switch=sw, **opts)
        elif kind == "poynting":
            o = fdtdx.PoyntingFluxDetector(name=name, partial_grid_shape=shape, dtype=fdt, switch=sw, **opts)
        elif kind == "closed_poynting":
            o = fdtdx.ClosedSurfacePoyntingFluxDetector(name=name, partial_grid_shape=shape, dtype=fdt, switch=sw, **opts)
        elif kind in ("phasor", "phasor_poynting", "closed_phasor_poynting"):
            wls = opts.pop("wavelengths", [wl])
            win = opts.pop("window", None)
            if win is not None:
                opts["window"] = fdtdx.GaussianWindow(**win["args"]) if win["kind"] == "gauss" else fdtdx.TukeyWindow(**win["args"])
            cls = {"phasor": fdtdx.PhasorDetector, "phasor_poynting": fdtdx.PhasorPoyntingFluxDetector,
                   "closed_phasor_poynting": fdtdx.ClosedSurfacePhasorPoyntingFluxDetector}[kind]
            o = cls(name=name, partial_grid_shape=shape, dtype=cdt if kind == "phasor" else fdt, switch=sw,
                    wave_characters=tuple(fdtdx.WaveCharacter(wavelength=w) for w in wls), **opts)
        else:
            raise ValueError(kind)
        cons += box_constraints(o, d["box"])
        objs.append(o)
    if spec.get("gds_rib"):      # a GDS layer object (StaticMultiMaterialObject; optional sub-pixel smoothing: fractional fill at its side walls)
        import gdstk
        from fdtdx.objects.static_material.gds_layer_stack import GDSLayerSpec, gds_layer_stack
        g = spec["gds_rib"]
        lib = gdstk.Library(unit=1e-6, precision=1e-9)
        cell_ = lib.new_cell("RIB")
        cell_.add(gdstk.Polygon([tuple(p) for p in g["poly_um"]], layer=1, datatype=0))
        mats = {"rib": mk_material(g), "bg": fdtdx.Material(permittivity=float(g.get("bg_eps", 1.0)))}
        layers = [GDSLayerSpec(gds_layer=1, material_name="rib", thickness=float(g["thickness"]), z_base=float(g["z_base"]), sidewall_angle=90.0,
                               subpixel_smoothing=bool(g.get("smooth", True)))]
        ro, rc = gds_layer_stack(lib, "RIB", layers, mats, vol, gds_center=(0.0, 0.0))
        objs.extend(ro); cons.extend(rc)
    return objs, cons, vol


def mk_material(b):
    kw = {}
    for k_in, k_out in (("eps", "permittivity"), ("mu", "permeability"), ("sigma_e", "electric_conductivity"), ("sigma_m", "magnetic_conductivity")):
        if b.get(k_in) is not None:
            v = b[k_in]
            if isinstance(v, list) and len(v) == 9:
                v = tuple(tuple(v[3 * r:3 * r + 3]) for r in range(3))
            elif isinstance(v, list):
                v = tuple(v)
            kw[k_out] = v
    if b.get("lorentz"):      # dispersive material: one Lorentz pole {"w0": rad/s, "g": rad/s, "de": delta_epsilon}
        from fdtdx.dispersion import DispersionModel, LorentzPole
        L = b["lorentz"]
        kw["dispersion"] = DispersionModel(poles=(LorentzPole(resonance_frequency=float(L["w0"]), damping=float(L["g"]), delta_epsilon=float(L["de"])),))
    return fdtdx.Material(**kw)


def pml_mask(oc, shape):
    m = np.ones(shape, bool)
    for p in oc.pml_objects:
        m[p.grid_slice] = False
    return m


def build(spec):
    """-> (oc, arrays, cfg, params).  Placed scene, parameters applied, optional random init / materials."""
    cfg = base_config(spec)
    cfg = set_steps(cfg, int(spec.get("steps", 4))) if not isinstance(cfg.grid, fdtdx.RectilinearGrid) or True else cfg
    try:
        dt_src = cfg.time_step_duration
    except Exception:
        # dt needs the resolved grid: place once without time-dependent switches is not possible; resolve by a dry run
        dt_src = None
    if dt_src is None:
        raise RuntimeError("time step not available before placement")
    objs, cons, vol = make_objects(spec, dt_src)
    oc, arrays, params, cfg, _ = fdtdx.place_objects(object_list=objs, config=cfg, constraints=cons, key=KEY)
    arrays, oc, _ = fdtdx.apply_params(arrays, oc, params, KEY)
    arrays = randomize(spec, oc, arrays)
    return oc, arrays, cfg, params


def randomize(spec, oc, arrays):
    sh = arrays.fields.E.shape
    cplx = bool(jnp.iscomplexobj(arrays.fields.E))
    rdt = np.float64 if spec.get("dtype", "f64") == "f64" else np.float32
    m = spec.get("mats")
    if m:
        rng = np.random.default_rng(int(m["seed"]))
        nc = int(m.get("ncomp", 1))
        if m.get("pow2", True):
            ie = 1.0 / (2.0 ** rng.integers(0, 3, size=(nc,) + sh[1:]))
            im = 1.0 / (2.0 ** rng.integers(0, 2, size=(nc,) + sh[1:]))
        else:
            ie = 1.0 / rng.uniform(1.0, 4.0, size=(nc,) + sh[1:])
            im = 1.0 / rng.uniform(1.0, 2.0, size=(nc,) + sh[1:])
        arrays = arrays.aset("inv_permittivities", jnp.asarray(ie.astype(rdt)))
        if m.get("mu", True):
            arrays = arrays.aset("inv_permeabilities", jnp.asarray(im.astype(rdt)))
        if m.get("sigma_e"):
            arrays = arrays.aset("electric_conductivity", jnp.asarray(rng.uniform(0, float(m["sigma_e"]), size=(nc,) + sh[1:]).astype(rdt)))
        if m.get("sigma_m"):
            arrays = arrays.aset("magnetic_conductivity", jnp.asarray(rng.uniform(0, float(m["sigma_m"]), size=(nc,) + sh[1:]).astype(rdt)))
    ini = spec.get("init")
    if ini:
        rng = np.random.default_rng(int(ini["seed"]))

        def rf():
            if ini.get("kind", "int4") == "int4":
                a = rng.integers(-8, 9, size=sh) / 4.0
                if cplx:
                    a = a + 1j * rng.integers(-8, 9, size=sh) / 4.0
            else:
                a = rng.normal(size=sh)
                if cplx:
                    a = a + 1j * rng.normal(size=sh)
            return a

        E, H = rf(), rf()
        pm = pml_mask(oc, sh[1:])
        E = np.where(pm[None], E, 0)
        H = np.where(pm[None], H, 0)
        E, H = jnp.asarray(E.astype(arrays.fields.E.dtype)), jnp.asarray(H.astype(arrays.fields.H.dtype))
        for b in oc.boundary_objects:
            E = b.apply_post_E_update(E)
            H = b.apply_post_H_update(H)
        arrays = arrays.aset("fields->E", E).aset("fields->H", H)
    return arrays


# --------------------------------------------------------------------------- serialisation
def fl(x):
    """exact, JSON-able representation of a float array: nested lists of float.hex strings."""
    a = np.asarray(x)
    if np.iscomplexobj(a):
        return {"re": fl(a.real), "im": fl(a.imag)}
    if a.dtype.kind in "iub":
        return a.astype(int).tolist()
    a = a.astype(np.float64)
    if a.ndim == 0:
        return float(a).hex()
    return [fl(v) for v in a] if a.ndim > 1 else [float(v).hex() for v in a]


def digest(x, nd=12):
    """Tolerant fingerprint: max-abs and a few sampled values (floats)."""
    a = np.asarray(x)
    return {"shape": list(a.shape), "maxabs": float(np.abs(a).max()) if a.size else 0.0,
            "sum": complex(a.sum()).real if a.size else 0.0}


def emit(obj):
    import json
    print("RESULT " + json.dumps(obj))
