"""C15 driver: one placed scene per case (uniform or rectilinear dyadic grid, any boundary kinds, optional
config.symmetry planes, optional complex fields / Bloch vector), FieldDetectors (exact and raw) on the boxes of
the case, hand-set full-domain E, H, H_prev, then either one direct call of
fdtdx.fdtd.update.update_detector_states or (mode "forward") one fdtdx.fdtd.forward.forward step with
record_detectors=True (the fields it saw are reported back).  Output: the row written per detector plus
everything update_detector_states reads from `objects`/`config` (boundary list in container order, reduced
volume shape, cell widths, detector slices)."""
import json
import sys

from detectors_scenes import *  # noqa
from fdtdx.fdtd.update import pad_fields_with_symmetry_mirror, update_detector_states


def err(e):
    return type(e).__name__ + ": " + str(e)[:200]


def cfl(x):
    a = np.asarray(x).ravel()
    return [float(v).hex() for v in a.real], [float(v).hex() for v in a.imag]


def arr_in(a, cplx):
    re = quarter(a["re"])
    if cplx:
        return jnp.asarray(re + 1j * quarter(a["im"]), dtype=jnp.complex128)
    return jnp.asarray(re)


def describe_boundaries(oc, cfg):
    out = []
    vol_shape = oc.volume.grid_shape
    spacing = float(cfg.resolved_grid.min_spacing) if cfg.has_nonuniform_grid else cfg.uniform_spacing()
    for b in oc.boundary_objects:
        d = {"cls": type(b).__name__, "axis": int(b.axis), "max": b.direction == "+", "wrap": bool(b.uses_wrap_padding),
             "symwall": bool(getattr(b, "_is_symmetry_wall", False)), "needs_complex": bool(getattr(b, "needs_complex_fields", False))}
        if d["needs_complex"]:
            ph = complex(b.get_bloch_phase(vol_shape, spacing))
            d["phase"] = [float(ph.real).hex(), float(ph.imag).hex()]
        out.append(d)
    return out


def run_case(c):
    import warnings
    from loguru import logger
    logger.remove()
    spec = dict(c["scene"])
    cplx = bool(spec.get("complex"))
    sc = Scene(spec)
    dt = jnp.complex128 if cplx else jnp.float64
    dets = []
    for d in c["dets"]:
        det = fdtdx.FieldDetector(name=d["name"], dtype=dt, exact_interpolation=bool(d["exact"]),
                                  components=tuple(d.get("components") or ("Ex", "Ey", "Ez", "Hx", "Hy", "Hz")),
                                  switch=fdtdx.OnOffSwitch(interval=int(d.get("interval", 1))))
        dets.append((det, d["box"]))
    oc, arrays, cfg = sc.place(dets)
    shape = tuple(int(v) for v in oc.volume.grid_shape)
    if list(arrays.fields.E.shape[1:]) != list(c["rshape"]):
        return {"crash": f"reduced shape {arrays.fields.E.shape} != expected {c['rshape']}"}
    E, H, Hp = arr_in(c["E"], cplx), arr_in(c["H"], cplx), arr_in(c["Hprev"], cplx)
    if E.dtype != arrays.fields.E.dtype:
        return {"crash": f"field dtype {arrays.fields.E.dtype} vs supplied {E.dtype}"}
    t = int(c["t"])
    if c.get("mode") == "forward":
        from fdtdx.fdtd.forward import forward
        arrays = arrays.aset("fields->E", E).aset("fields->H", H)
        st = forward((jnp.asarray(t, dtype=jnp.int32), arrays), cfg, oc, KEY, record_detectors=True, record_boundaries=False, simulate_boundaries=True)
        a2 = st[1]
        Hp = H
        E, H = a2.fields.E, a2.fields.H
    else:
        arrays = arrays.aset("fields->E", E).aset("fields->H", H)
        a2 = update_detector_states(jnp.asarray(t, dtype=jnp.int32), arrays, oc, cfg, Hp, False)
    if cfg.has_nonuniform_grid:
        widths = [[float(v).hex() for v in np.asarray(cfg.resolved_grid.cell_widths(a), dtype=np.float64)] for a in range(3)]
    else:
        widths = None
    outs = {}
    for d in c["dets"]:
        det = oc[d["name"]]
        full = np.asarray(a2.detector_states[d["name"]]["fields"])
        on = np.asarray(det._is_on_at_time_step_arr)
        ri = int(np.asarray(det._time_step_to_arr_idx)[t])
        row = full[ri]
        rest = np.delete(full, ri, axis=0)
        re, im = cfl(row)
        outs[d["name"]] = {"slice": [[int(s), int(e)] for s, e in det.grid_slice_tuple], "on_now": bool(on[t]),
                           "re": re, "im": im if cplx else None, "oshape": list(row.shape),
                           "others_zero": bool((rest == 0).all())}
    res = {"shape": list(shape), "symmetry": [int(s) for s in cfg.symmetry], "bnds": describe_boundaries(oc, cfg),
           "widths": widths, "dets": outs, "nonuniform": bool(cfg.has_nonuniform_grid)}
    if c.get("padded"):
        # the padded arrays the full-domain fallback interpolates (anchored function called directly)
        PE = pad_fields_with_symmetry_mirror(E, oc, cfg, "E")
        PH = pad_fields_with_symmetry_mirror((Hp + H) / 2, oc, cfg, "H")
        res["padded"] = {k: dict(zip(("re", "im"), cfl(v))) for k, v in (("E", PE), ("H", PH))}
        res["padded_shape"] = list(PE.shape)
    if c.get("mode") == "forward":
        res["seen"] = {k: dict(zip(("re", "im"), cfl(v))) for k, v in (("E", E), ("H", H), ("Hprev", Hp))}
    return res


def main():
    payload = json.load(sys.stdin)
    outs = []
    for c in payload["cases"]:
        try:
            outs.append(run_case(c))
        except Exception as e:
            import traceback
            outs.append({"crash": err(e), "trace": traceback.format_exc()[-1500:]})
    emit({"outs": outs})


main()
