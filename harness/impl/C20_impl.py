"""C20 driver: TanhProjection / SubpixelSmoothedProjection through __call__; jnp.tanh / jnp.sqrt calls made by the
implementation are recorded (argument, value) and returned as the oracle tables of the model; jax.grad finiteness."""
import json, sys
import scenes
from scenes import *  # noqa
setup_jax(True)
from fdtdx.objects.device.parameters import projection as PJ
from fdtdx.config import SimulationConfig
from fdtdx.core.grid import UniformGrid
from fdtdx.materials import Material

LOG = {"tanh": [], "sqrt": []}


class Rec:
    def __getattr__(self, n):
        return getattr(jnp, n)

    def tanh(self, a):
        v = jnp.tanh(a); LOG["tanh"].append((np.asarray(a, dtype=np.float64).ravel(), np.asarray(v, dtype=np.float64).ravel())); return v

    def sqrt(self, a):
        v = jnp.sqrt(a); LOG["sqrt"].append((np.asarray(a, dtype=np.float64).ravel(), np.asarray(v, dtype=np.float64).ravel())); return v


def table(name):
    d = {}
    for a, v in LOG[name]:
        for k, w in zip(a, v):
            if np.isfinite(k) and np.isfinite(w):
                d[float(k)] = float(w)
    return [[k.hex(), w.hex()] for k, w in d.items()]


def H(v):
    return float.fromhex(v)


def main():
    payload = json.load(sys.stdin)
    cfg = SimulationConfig(time=100e-15, grid=UniformGrid(spacing=500e-9), backend="cpu")
    mats = {"Air": Material(permittivity=1.0), "Silicon": Material(permittivity=11.7)}
    outs = []
    for c in payload["cases"]:
        try:
            beta = float("inf") if c["beta"] == "inf" else float(c["beta"])
            eta = float(c["eta"])
            shape = tuple(c["shape"])
            x = jnp.asarray(np.asarray([[[H(v) for v in r] for r in p] for p in c["x"]], dtype=np.float64).reshape(shape))
            vox = tuple(c.get("voxel", [1e-6, 1e-6, 1e-6]))
            plain = PJ.TanhProjection(projection_midpoint=eta).init_module(
                config=cfg, materials=mats, matrix_voxel_grid_shape=shape, single_voxel_size=vox, output_shape={"p": shape})
            if c["kind"] == "smooth":
                tr = PJ.SubpixelSmoothedProjection(projection_midpoint=eta).init_module(
                    config=cfg, materials=mats, matrix_voxel_grid_shape=shape, single_voxel_size=vox, output_shape={"p": shape})
            else:
                tr = plain
            LOG["tanh"].clear(); LOG["sqrt"].clear()
            PJ.jnp = Rec()
            try:
                y = np.asarray(tr({"p": x}, beta=beta)["p"])
            finally:
                PJ.jnp = jnp
            o = {"y": fl(y), "shape": [int(n) for n in y.shape], "finite": bool(np.isfinite(y).all()),
                 "tanh": table("tanh"), "sqrt": table("sqrt")}
            g = np.asarray(jax.grad(lambda a: tr({"p": a}, beta=beta)["p"].sum())(x))
            o["grad_finite"] = bool(np.isfinite(g).all())
            # the same with beta passed as a concrete jax array and as a jit-traced value (a beta schedule inside lax.cond / jit)
            ba = jnp.asarray(beta, dtype=jnp.float64)
            ya = np.asarray(tr({"p": x}, beta=ba)["p"])
            ga = np.asarray(jax.grad(lambda a: tr({"p": a}, beta=ba)["p"].sum())(x))
            yt, gt = jax.jit(lambda a, b: jax.value_and_grad(lambda a_: tr({"p": a_}, beta=b)["p"].sum())(a))(x, ba)
            o["array_beta"] = {"grad_finite": bool(np.isfinite(ga).all()), "traced_grad_finite": bool(np.isfinite(np.asarray(gt)).all()),
                               "value_diff": float(np.nanmax(np.abs(ya - y))) if np.isfinite(ya).all() else float("inf"),
                               "grad_diff": float(np.nanmax(np.abs(ga - g))) if np.isfinite(ga).all() and np.isfinite(g).all() else float("inf"),
                               "traced_grad_diff": float(np.nanmax(np.abs(np.asarray(gt) - g))) if np.isfinite(np.asarray(gt)).all() and np.isfinite(g).all() else float("inf")}
            if c["kind"] == "smooth":
                o["plain"] = fl(np.asarray(plain({"p": x}, beta=beta)["p"]))
                va = shape.index(1)
                first = 0 if va != 0 else 1
                o["dx"] = float(1 / (1 / (vox[first] / 1e-6))).hex()
            outs.append(o)
        except Exception as e:
            outs.append({"error": type(e).__name__ + ": " + str(e)[:160]})
    emit({"outs": outs})
main()
