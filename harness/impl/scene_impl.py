"""Driver for placed scenes (scenes.build spec): per-step forward / backward states, source injections (oracle
arrays obtained by applying each source's update to a zero field), PML coefficient arrays, interface data.

case: {"spec": scene spec (see scenes.py), "steps": n, "back": m (reverse steps from the final state),
       "record": bool (record_boundaries / reset_fields: full backward with PML), "want": ["inj","pml"]}
"""
import json, math, sys
import scenes
from scenes import *  # noqa
setup_jax(True)
from fdtdx.fdtd.forward import forward
from fdtdx.fdtd.backward import backward
from fdtdx.constants import c as c0, eta0
from yee_impl import bc3 as _bc3, snap
bc3 = _bc3

def source_injection(oc, arrays, t, which):
    """What the sources add to a zero field at time step t (forward direction), replicating update_E/update_H gating."""
    z = jnp.zeros_like(arrays.fields.E)
    tt = jnp.asarray(t, dtype=jnp.int32)
    for s in oc.sources:
        sw = getattr(s, "switch", None)
        default_on = isinstance(sw, fdtdx.OnOffSwitch) and sw.is_default_always_on
        if default_on:
            ts = tt
        else:
            if not bool(s.is_on_at_time_step(tt)):
                continue
            ts = s.adjust_time_step_by_on_off(tt)
        kw = dict(inv_permittivities=arrays.inv_permittivities, inv_permeabilities=arrays.inv_permeabilities, inverse=False)
        if which == "E":
            z = s.update_E(E=z, time_step=ts, **kw)
        else:
            z = s.update_H(H=z, time_step=ts + 0.5, **kw)
    return z

def pml_desc(oc):
    out = []
    for p in oc.pml_objects:
        gs = p.grid_slice_tuple
        ax = p.axis
        def prof(a):
            return fl(np.asarray(a, dtype=np.float64).reshape(-1))
        out.append({"name": p.name, "axis": int(ax), "dir": p.direction, "box": [[int(a), int(b)] for a, b in gs],
                    "aE": prof(p.pml_a_E), "bE": prof(p.pml_b_E), "ikE": prof(p.inv_kappa_E),
                    "aH": prof(p.pml_a_H), "bH": prof(p.pml_b_H), "ikH": prof(p.inv_kappa_H),
                    "kappa1": bool(p.kappa_start == 1.0 and p.kappa_end == 1.0),
                    "iface": [[int(s.start), int(s.stop)] for s in p.interface_slice()]})
    return out

def psi_snap(st, oc):
    f = st[1].fields
    return {"psiE": [[fl(a) for a in f.psi_E[p.name]] for p in oc.pml_objects],
            "psiH": [[fl(a) for a in f.psi_H[p.name]] for p in oc.pml_objects]}

def run_case(c):
    spec = dict(c["spec"])
    spec.setdefault("grad", {"method": "reversible", "n": 0})
    oc, arrays, cfg, _ = build(spec)
    sh = arrays.fields.E.shape[1:]
    full9 = arrays.inv_permittivities.shape[0] == 9 or (getattr(arrays.inv_permeabilities, "ndim", 0) > 0 and arrays.inv_permeabilities.shape[0] == 9)
    # fully anisotropic: not representable in the diagonal model; states only
    bc = (lambda a, sh: np.zeros((3,) + tuple(sh))) if full9 else bc3
    out = {"cn": float(cfg.courant_number).hex(), "eta0": float(eta0).hex(), "ref": float(1.0).hex(), "nonuniform": bool(cfg.has_nonuniform_grid),
           "widths": [fl(np.ones(n)) for n in sh], "phases": {},
           "ieps": fl(bc(arrays.inv_permittivities, sh)), "imu": fl(bc(arrays.inv_permeabilities, sh)),
           "sigE": fl(bc(arrays.electric_conductivity, sh)) if arrays.electric_conductivity is not None else None,
           "sigH": fl(bc(arrays.magnetic_conductivity, sh)) if arrays.magnetic_conductivity is not None else None,
           "cplx": bool(jnp.iscomplexobj(arrays.fields.E)), "shape": [int(v) for v in sh],
           "ncomp_eps": int(arrays.inv_permittivities.shape[0]), "pmls": pml_desc(oc), "T": int(cfg.time_steps_total)}
    n = int(c.get("steps", 2))
    rec = bool(c.get("record", False))
    st = (jnp.asarray(0, dtype=jnp.int32), arrays)
    states = [dict(snap(st), **(psi_snap(st, oc) if c.get("psi") else {}))]
    injE, injH = [], []
    for t in range(n):
        injE.append(fl(source_injection(oc, arrays, t, "E")))
        injH.append(fl(source_injection(oc, arrays, t, "H")))
        st = forward(st, cfg, oc, KEY, record_detectors=False, record_boundaries=rec, simulate_boundaries=True)
        states.append(dict(snap(st), **(psi_snap(st, oc) if c.get("psi") else {})))
    out["states"], out["injE"], out["injH"] = states, injE, injH
    back = []
    for _ in range(int(c.get("back", 0))):
        st = backward(st, cfg, oc, KEY, record_detectors=False, reset_fields=rec)
        back.append(snap(st))
    out["back"] = back
    return out

if __name__ == "__main__":
    payload = json.load(sys.stdin)
    outs = []
    for c in payload["cases"]:
        try:
            outs.append(run_case(c))
        except Exception as e:
            import traceback
            outs.append({"error": type(e).__name__ + ": " + str(e)[:300], "trace": traceback.format_exc()[-2000:]})
    emit({"outs": outs})
