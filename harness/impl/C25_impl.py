"""C25 driver: BrushConstraint2D on explicit 2-D designs (runs against FDTDX_REPO/src)."""
import json
import os
import sys

os.environ.setdefault("JAX_PLATFORMS", "cpu")
import jax

jax.config.update("jax_enable_x64", True)
import jax.numpy as jnp
import numpy as np

import fdtdx
from fdtdx.objects.device.parameters.discretization import BrushConstraint2D, circular_brush

CFG = fdtdx.SimulationConfig(time=1e-13, grid=fdtdx.UniformGrid(spacing=1e-7), backend="cpu", dtype=jnp.float64)
MATS = {"air": fdtdx.Material(permittivity=1.0), "poly": fdtdx.Material(permittivity=2.25)}
CACHE = {}


def brush_of(c):
    if "brush" in c:
        return np.asarray(c["brush"], dtype=bool)
    return np.asarray(circular_brush(diameter=c["diameter"]))


def run(c):
    b = brush_of(c)
    nx, ny = c["shape"]
    axis = c.get("axis", 2)
    shape3 = [nx, ny]
    shape3.insert(axis, 1)
    key = (b.tobytes(), b.shape, tuple(shape3), axis)
    if key not in CACHE:
        mod = BrushConstraint2D(brush=jnp.asarray(b), axis=axis).init_module(
            config=CFG, materials=MATS, matrix_voxel_grid_shape=tuple(shape3), single_voxel_size=(1e-7,) * 3,
            output_shape={"params": tuple(shape3)})
        gen = jax.jit(mod._generator)
        CACHE[key] = (mod, gen)
    mod, gen = CACHE[key]
    x = np.asarray(c["x"], dtype=np.float64).reshape(nx, ny)
    res = {"brush": b.astype(int).tolist()}
    if c.get("module"):
        out = np.asarray(mod({"params": jnp.asarray(np.expand_dims(x, axis))})["params"])
        out = np.squeeze(out, axis)
        res["out"] = np.rint(out).astype(int).tolist()
        res["binary"] = bool(np.all((out == 0) | (out == 1)))
    else:
        out = np.asarray(gen(jnp.asarray(x)))
        res["out"] = out.astype(int).tolist()
        res["binary"] = out.dtype == bool
    return res


def main():
    payload = json.load(sys.stdin)
    outs = []
    for c in payload["cases"]:
        try:
            outs.append(run(c))
        except Exception as e:  # noqa: BLE001
            outs.append({"error": type(e).__name__ + ": " + str(e)[:150]})
    print("RESULT " + json.dumps({"outs": outs}))


main()
