"""C25 driver: BrushConstraint2D on explicit 2-D designs (runs against FDTDX_REPO/src)."""
import json
import os
import sys

os.environ.setdefault("JAX_PLATFORMS", "cpu")
import jax

jax.config.update("jax_enable_x64", True)
import jax.numpy as jnp
import numpy as np

import fdtdx
from fdtdx.objects.device.parameters.discretization import BrushConstraint2D, circular_brush

CFG = fdtdx.SimulationConfig(time=1e-13, grid=fdtdx.UniformGrid(spacing=1e-7), backend="cpu", dtype=jnp.float64)
MATS = {"air": fdtdx.Material(permittivity=1.0), "poly": fdtdx.Material(permittivity=2.25)}
CACHE = {}


def brush_of(c):
    if "brush" in c:
        return np.asarray(c["brush"], dtype=bool)
    return np.asarray(circular_brush(diameter=c["diameter"]))


def run(c):
    b = brush_of(c)
    nx, ny = c["shape"]
    axis = c.get("axis", 2)
    shape3 = [nx, ny]
    shape3.insert(axis, 1)
    key = (b.tobytes(), b.shape, tuple(shape3), axis)
    if key not in CACHE:
        mats = MATS if (nx + ny) % 2 else {"poly": MATS["poly"], "air": MATS["air"]}      # dict insertion order is arbitrary
        mod = BrushConstraint2D(brush=jnp.asarray(b), axis=axis).init_module(
            config=CFG, materials=mats, matrix_voxel_grid_shape=tuple(shape3), single_voxel_size=(1e-7,) * 3,
            output_shape={"params": tuple(shape3)})
        gen = jax.jit(mod._generator)
        CACHE[key] = (mod, gen)
    mod, gen = CACHE[key]
    x = np.asarray(c["x"], dtype=np.float64).reshape(nx, ny)
    res = {"brush": b.astype(int).tolist()}
    if c.get("module"):
        out = np.asarray(mod({"params": jnp.asarray(np.expand_dims(x, axis))})["params"])
        out = np.squeeze(out, axis)
        res["out"] = np.rint(out).astype(int).tolist()
        res["binary"] = bool(np.all((out == 0) | (out == 1)))
    else:
        out = np.asarray(gen(jnp.asarray(x)))
        res["out"] = out.astype(int).tolist()
        res["binary"] = out.dtype == bool
    return res


LIMIT = float(os.environ.get("C25_CASE_LIMIT", "240"))      # seconds per design (normal designs take well under 10 s incl. compilation)


def main():
    import threading, time
    payload = json.load(sys.stdin)
    cases = payload["cases"]
    outs = []
    t_start = [time.time()]

    def watchdog():
        # the property says the generator terminates: a design that runs for LIMIT seconds is reported as such (with the designs
        # after it marked as not run) instead of hanging the whole check
        while True:
            time.sleep(2.0)
            if time.time() - t_start[0] > LIMIT:
                res = list(outs) + [{"timeout": LIMIT}] + [{"skipped": True}] * (len(cases) - len(outs) - 1)
                sys.stdout.write("RESULT " + json.dumps({"outs": res[:len(cases)]}) + "\n")
                sys.stdout.flush()
                os._exit(0)

    threading.Thread(target=watchdog, daemon=True).start()
    for c in cases:
        t_start[0] = time.time()
        try:
            outs.append(run(c))
        except Exception as e:  # noqa: BLE001
            outs.append({"error": type(e).__name__ + ": " + str(e)[:150]})
    t_start[0] = time.time() + 1e9
    print("RESULT " + json.dumps({"outs": outs}))


main()
