"""C19 driver: ClosestIndex.__call__ (both modes) on given material sets / arrays, with a JVP for the
straight-through gradient.  Case: {mode: inv|int, mats: [eps | [ex,ey,ez]], shape, vals (float.hex, flat), tan (flat)}"""
import json, sys
import scenes
from scenes import *  # noqa
setup_jax(True)
from fdtdx.objects.device.parameters.discretization import ClosestIndex
from fdtdx.materials import Material, compute_allowed_permittivities

CFG = fdtdx.SimulationConfig(time=1e-13, grid=fdtdx.UniformGrid(spacing=1e-7), backend="cpu", dtype=jnp.float64)


def one(c):
    mats = {f"m{i}": Material(permittivity=(tuple(e) if isinstance(e, list) else float(e))) for i, e in enumerate(c["mats"])}
    shape = tuple(int(v) for v in c["shape"])
    arr = jnp.asarray(np.array([float.fromhex(v) for v in c["vals"]], dtype=np.float64).reshape(shape))
    tan = jnp.asarray(np.array(c["tan"], dtype=np.float64).reshape(shape))
    iso = all(m.is_isotropic_permittivity for m in mats.values())
    dia = all(m.is_diagonally_anisotropic_permittivity for m in mats.values())
    allowed = np.asarray(compute_allowed_permittivities(mats, isotropic=iso, diagonally_anisotropic=dia), dtype=np.float64)
    res = {"allowed_inv": fl((1.0 / allowed).ravel()), "ncomp": int(allowed.shape[-1])}
    try:
        ci = ClosestIndex(mapping_from_inverse_permittivities=(c["mode"] == "inv"))
        ci = ci.init_module(config=CFG, materials=mats, matrix_voxel_grid_shape=shape, single_voxel_size=(1e-7,) * 3,
                            output_shape={"params": shape})
        f = lambda a: ci({"params": a})["params"]
        out, tout = jax.jvp(f, (arr,), (tan,))
        res.update(shape=[int(v) for v in out.shape], vals=fl(np.asarray(out).ravel()), tan=fl(np.asarray(tout).ravel()),
                   dtype=str(out.dtype))
    except Exception as e:
        res["error"] = type(e).__name__ + ": " + str(e)[:100]
    return res


def main():
    payload = json.load(sys.stdin)
    emit({"outs": [one(c) for c in payload["cases"]]})


main()
