"""C39 driver: Material normalisation, predicates, ordered material lists, from_complex_permittivity."""
import json, sys, warnings
import scenes
from scenes import *  # noqa
import fdtdx
from fdtdx import constants
from fdtdx.materials import (compute_ordered_names, compute_ordered_materials, compute_allowed_permittivities,
                             compute_allowed_permeabilities, compute_allowed_electric_conductivities,
                             compute_allowed_magnetic_conductivities, compute_ordered_material_name_tuples)
import math


def dec(v):
    if "f" in v:
        return float.fromhex(v["f"])
    if "i" in v:
        return int(v["i"])
    if "c" in v:
        return complex(float.fromhex(v["c"][0]), float.fromhex(v["c"][1]))
    return tuple(dec(x) for x in v["t"])


def enc(x):
    if isinstance(x, bool):
        return {"other": repr(x)}
    if isinstance(x, float):
        return {"f": x.hex()}
    if isinstance(x, int):
        return {"i": x}
    if isinstance(x, tuple):
        return {"t": [enc(y) for y in x]}
    return {"other": repr(x)}


PROPS = ("permittivity", "permeability", "electric_conductivity", "magnetic_conductivity")
PREDS = ("is_isotropic_permittivity", "is_diagonally_anisotropic_permittivity", "is_isotropic_permeability",
         "is_diagonally_anisotropic_permeability", "is_isotropic_electric_conductivity",
         "is_diagonally_anisotropic_electric_conductivity", "is_isotropic_magnetic_conductivity",
         "is_diagonally_anisotropic_magnetic_conductivity", "is_magnetic", "is_electrically_conductive",
         "is_magnetically_conductive", "is_all_isotropic", "is_all_diagonally_anisotropic")


def mat(d):
    return fdtdx.Material(**{k: dec(v) for k, v in d.items()})


def mat_out(m):
    return {k: [float(x).hex() for x in getattr(m, k)] for k in PROPS}


def one(c):
    k = c["kind"]
    if k == "norm":
        res = []
        for v in c["forms"]:
            try:
                m = fdtdx.Material(**{c.get("prop", "permittivity"): dec(v)})
                res.append({"ok": [enc(x) for x in getattr(m, c.get("prop", "permittivity"))]})
            except ValueError as e:
                res.append({"error": "ValueError"})
            except Exception as e:
                res.append({"error": type(e).__name__})
        return {"res": res}
    if k == "pred":
        m = mat(c["mat"])
        return {"mat": mat_out(m), "preds": {p: bool(getattr(m, p)) for p in PREDS}}
    if k == "order":
        mats = {n: mat(d) for n, d in c["mats"]}
        out = {"names": compute_ordered_names(mats), "mats": [mat_out(m) for m in compute_ordered_materials(mats)],
               "tuples": [n for n, _ in compute_ordered_material_name_tuples(mats)],
               "input": [[n, mat_out(m)] for n, m in mats.items()], "allowed": {}}
        for fn, nm in ((compute_allowed_permittivities, "permittivity"), (compute_allowed_permeabilities, "permeability"),
                       (compute_allowed_electric_conductivities, "electric_conductivity"), (compute_allowed_magnetic_conductivities, "magnetic_conductivity")):
            for iso, diag in ((True, False), (False, True), (False, False), (True, True)):
                out["allowed"][f"{nm}/{int(iso)}{int(diag)}"] = [[float(x).hex() for x in t] for t in fn(mats, isotropic=iso, diagonally_anisotropic=diag)]
        return out
    if k == "complex":
        kw = {c["ref"][0]: float.fromhex(c["ref"][1])}
        if c["ref"][0] == "reference":
            kw = {"reference": fdtdx.WaveCharacter(**{c["ref"][2]: float.fromhex(c["ref"][1])})}
        if c.get("mu") is not None:
            kw["permeability"] = dec(c["mu"])
        try:
            m = fdtdx.Material.from_complex_permittivity(dec(c["eps"]), **kw)
        except ValueError as e:
            return {"error": "ValueError", "msg": str(e)[:120]}
        return {"mat": mat_out(m), "two_pi": float(2.0 * math.pi).hex(), "c0": float(constants.c).hex(),
                "eps0": float(constants.eps0).hex(), "mu0": float(constants.mu0).hex()}
    raise ValueError(k)


def main():
    payload = json.load(sys.stdin)
    outs = []
    with warnings.catch_warnings():
        warnings.simplefilter("ignore")
        for c in payload["cases"]:
            try:
                outs.append(one(c))
            except Exception as e:
                import traceback
                outs.append({"crash": type(e).__name__ + ": " + str(e)[:300], "trace": traceback.format_exc()[-1200:]})
    emit({"outs": outs})


main()
