"""C08/C38/C42 driver: run_fdtd on a placed scene and return final fields + raw detector records (exact hex)."""
import json, sys, os
import scenes
from scenes import *  # noqa
setup_jax(True)

def run_case(c):
    spec = dict(c["spec"])
    g = c.get("grid")
    if g:
        sp = spec.get("spacing", 5e-8)
        shape = spec["shape"]
        if g == "rect_custom":
            spec["grid_obj"] = fdtdx.RectilinearGrid.custom(*[jnp.asarray(np.arange(n + 1) * sp, dtype=jnp.float64) for n in shape])
        elif g == "rect_centered":      # explicit edges centred on the origin, as the uniform policy resolves them
            spec["grid_obj"] = fdtdx.RectilinearGrid.custom(*[jnp.asarray((np.arange(n + 1) - n / 2.0) * sp, dtype=jnp.float64) for n in shape])
        elif g == "rect_uniform":
            spec["grid_obj"] = fdtdx.RectilinearGrid.uniform(shape=tuple(shape), spacing=sp)
        elif g == "quasi":
            spec["grid_obj"] = fdtdx.QuasiUniformGrid(dx=sp, dy=sp, dz=sp)
        elif g == "uniform_shifted":     # same mesh, the physical coordinate of the domain centre moved away from the origin
            spec["grid_obj"] = fdtdx.UniformGrid(spacing=sp, center=(3.0 * sp, -7.5 * sp, 1.25e-6))
        elif g == "quasi_shifted":
            spec["grid_obj"] = fdtdx.QuasiUniformGrid(dx=sp, dy=sp, dz=sp, center=(-2.0 * sp, 0.5 * sp, 4.0e-7))
    oc, arrays, cfg, _ = build(spec)
    if c.get("shard"):
        pass
    t, out = fdtdx.run_fdtd(arrays=arrays, objects=oc, config=cfg, key=KEY, show_progress=False)
    res = {"t": int(t), "E": fl(out.fields.E), "H": fl(out.fields.H), "det": {}, "ndev": len(jax.devices()),
           "nonuniform": bool(cfg.has_nonuniform_grid), "dt": float(cfg.time_step_duration).hex()}
    for name, d in out.detector_states.items():
        for k, v in d.items():
            res["det"][f"{name}:{k}"] = fl(v)
    return res

if __name__ == "__main__":
    payload = json.load(sys.stdin)
    outs = []
    for c in payload["cases"]:
        try:
            outs.append(run_case(c))
        except Exception as e:
            import traceback
            outs.append({"error": type(e).__name__ + ": " + str(e)[:300], "trace": traceback.format_exc()[-1500:]})
    emit({"outs": outs})
