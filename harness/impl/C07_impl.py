"""C07 driver: run_fdtd with stopping conditions; per-step oracle traces (energy below threshold, FFT verdict)
obtained from a plain stepped run.  float32 stream (the detector condition's dynamic_slice mixes int32/int64 under x64)."""
import json, sys
import scenes
from scenes import *  # noqa
setup_jax(False)
from fdtdx.fdtd.forward import forward
from fdtdx.fdtd.stop_conditions import EnergyThresholdCondition, DetectorConvergenceCondition

def run_case(c):
    spec = dict(c["spec"]); spec["dtype"] = "f32"
    oc, arrays, cfg, _ = build(spec)
    T = int(cfg.time_steps_total)
    dt = cfg.time_step_duration
    wc = fdtdx.WaveCharacter(period=c["period_steps"] * dt)
    arrays0 = arrays.reset()
    step = jax.jit(lambda st: forward(st, cfg, oc, KEY, record_detectors=True, record_boundaries=False, simulate_boundaries=True))
    st = (jnp.asarray(0, dtype=jnp.int32), arrays0)
    states = [st]
    for _ in range(T):
        st = step(st)
        states.append(st)
    out = {"T": T, "runs": []}
    pp = int(c["prev_periods"])
    for r in c["runs"]:
        try:
            if r["kind"] == "energy":
                cond = EnergyThresholdCondition(threshold=r["thr"], min_steps=r.get("mn"), max_steps=r.get("mx"))
                probe = EnergyThresholdCondition(threshold=r["thr"], min_steps=0, max_steps=T + 5).setup(states[0], cfg, oc)
                trace = [not bool(probe(s, cfg, oc)) for s in states]          # energy < threshold at step t
            else:
                cond = DetectorConvergenceCondition(detector_name="det", wave_character=wc, prev_periods=pp, threshold=r["thr"],
                                                    min_steps=r.get("mn"), max_steps=r.get("mx"))
                probe = DetectorConvergenceCondition(detector_name="det", wave_character=wc, prev_periods=pp, threshold=r["thr"],
                                                     max_steps=T + 5).setup(states[0], cfg, oc)
                m0 = int(probe.min_steps)
                trace = [False if i < m0 else (not bool(probe(s, cfg, oc))) for i, s in enumerate(states)]   # FFT verdict at step t (t >= (pp+1)*spp)
            t, res = fdtdx.run_fdtd(arrays=arrays, objects=oc, config=cfg, key=KEY, stopping_condition=cond, show_progress=False)
            cs = cond.setup(states[0], cfg, oc)
            ref = states[int(t)][1]
            dE = float(jnp.abs(res.fields.E - ref.fields.E).max()); dH = float(jnp.abs(res.fields.H - ref.fields.H).max())
            sc = max(float(jnp.abs(ref.fields.E).max()), 1e-30)
            out["runs"].append({"r": r, "t": int(t), "mn": int(cs.min_steps), "mx": int(cs.max_steps), "trace": trace, "dE": dE / sc, "dH": dH / sc})
        except Exception as e:
            out["runs"].append({"r": r, "error": type(e).__name__ + ": " + str(e)[:200]})
    return out

if __name__ == "__main__":
    payload = json.load(sys.stdin)
    outs = []
    for c in payload["cases"]:
        try:
            outs.append(run_case(c))
        except Exception as e:
            import traceback
            outs.append({"error": type(e).__name__ + ": " + str(e)[:300], "trace": traceback.format_exc()[-1500:]})
    emit({"outs": outs})
