"""C22 driver: GaussianSmoothing2D called through __call__; also returns the kernel of _create_gaussian_kernel (oracle)."""
import json, sys
import scenes
from scenes import *  # noqa
setup_jax(True)
from fdtdx.objects.device.parameters.continuous import GaussianSmoothing2D


def H(v):
    return float.fromhex(v)


def main():
    payload = json.load(sys.stdin)
    outs = []
    for c in payload["cases"]:
        o = {"ys": []}
        for r in c["runs"]:
            try:
                pads = [None if p is None else jnp.asarray(np.asarray([H(v) for v in p], dtype=np.float64)) for p in r["pads"]]
                tr = GaussianSmoothing2D(std_discrete=int(c["std"]), padding_low_axis0=pads[0], padding_high_axis0=pads[1],
                                         padding_low_axis1=pads[2], padding_high_axis1=pads[3])
                x = jnp.asarray(np.asarray([[[H(v) for v in row] for row in pl] for pl in r["x"]], dtype=np.float64).reshape(c["shape"]))
                y = np.asarray(tr({"p": x})["p"])
                if "kern" not in o:
                    k = np.asarray(tr._create_gaussian_kernel(6 * int(c["std"]) + 1, int(c["std"])))
                    o["kern"] = fl(k) if np.isfinite(k).all() else None
                if list(y.shape) != list(c["shape"]) or not np.isfinite(y).all():
                    o["ys"].append({"error": f"shape {list(y.shape)} finite {bool(np.isfinite(y).all())}"})
                else:
                    o["ys"].append({"y": fl(y)})
            except Exception as e:
                o["ys"].append({"error": type(e).__name__ + ": " + str(e)[:160]})
        outs.append(o)
    emit({"outs": outs})
main()
