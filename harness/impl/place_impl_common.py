"""Common part of the Place drivers (C26, C27): build real fdtdx objects/constraints from a JSON system
and run fdtdx.fdtd.initialization.resolve_object_constraints."""
import os
os.environ.setdefault("JAX_PLATFORMS", "cpu")
import warnings
import jax
jax.config.update("jax_enable_x64", True)
import jax.numpy as jnp
import fdtdx
from fdtdx.objects.object import (PositionConstraint, SizeConstraint, SizeExtensionConstraint,
                                  GridCoordinateConstraint, RealCoordinateConstraint)
from fdtdx.fdtd.initialization import resolve_object_constraints

SPACING = 2.0 ** -10   # dyadic and exact to 14 decimals: every coordinate below is an exact float


def build(sys_, order, cons):
    D = sys_["D"]
    u = SPACING / (2 * D)
    objs = {}
    for i, sp in enumerate(sys_["shapes"]):
        pgs = tuple(s[1] if s is not None and s[0] == "g" else None for s in sp)
        prs = tuple(s[1] * u if s is not None and s[0] == "r" else None for s in sp)
        if i == 0:
            objs[i] = fdtdx.SimulationVolume(name="o0", partial_grid_shape=pgs, partial_real_shape=prs)
        else:
            rp = (sys_.get("real_pos") or {}).get(str(i))      # optional partial_real_position (predicate-only cases; not in the Coq model)
            kw = {"partial_real_position": tuple(None if v is None else float(v) for v in rp)} if rp else {}
            objs[i] = fdtdx.UniformMaterialObject(name=f"o{i}", partial_grid_shape=pgs, partial_real_shape=prs,
                                                  material=fdtdx.Material(permittivity=2.0), **kw)
    cl = []
    sd = lambda s: "+" if s else "-"
    for c in cons:
        k = c["k"]
        if k == "grid":
            cl.append(GridCoordinateConstraint(object=f"o{c['o']}", axes=tuple(e[0] for e in c["es"]),
                                               sides=tuple(sd(e[1]) for e in c["es"]), coordinates=tuple(int(e[2]) for e in c["es"])))
        elif k == "real":
            cl.append(RealCoordinateConstraint(object=f"o{c['o']}", axes=tuple(e[0] for e in c["es"]),
                                               sides=tuple(sd(e[1]) for e in c["es"]), coordinates=tuple(e[2] * u for e in c["es"])))
        elif k == "pos":
            cl.append(PositionConstraint(object=f"o{c['o']}", other_object=f"o{c['other']}", axes=tuple(e[0] for e in c["es"]),
                                         object_positions=tuple(e[1] / D for e in c["es"]),
                                         other_object_positions=tuple(e[2] / D for e in c["es"]),
                                         margins=tuple(e[3] * u for e in c["es"]), grid_margins=tuple(int(e[4]) for e in c["es"])))
        elif k == "size":
            cl.append(SizeConstraint(object=f"o{c['o']}", other_object=f"o{c['other']}", axes=tuple(e[0] for e in c["es"]),
                                     other_axes=tuple(e[1] for e in c["es"]), proportions=tuple(e[2] / D for e in c["es"]),
                                     offsets=tuple(e[3] * u for e in c["es"]), grid_offsets=tuple(int(e[4]) for e in c["es"])))
        elif k == "ext":
            cl.append(SizeExtensionConstraint(object=f"o{c['o']}", other_object=None if c["other"] is None else f"o{c['other']}",
                                              axis=c["a"], direction=sd(c["dir"]), other_position=c["pn"] / D,
                                              offset=c["off"] * u, grid_offset=int(c["goff"])))
        else:
            raise ValueError(k)
    return [objs[i] for i in order], cl


def resolve(sys_, order=None, cons=None, max_iter=None):
    order = sys_["order"] if order is None else order
    cons = sys_["cons"] if cons is None else cons
    if sys_.get("widths"):      # stretched grid (predicate-only cases): cell widths in units of SPACING / (2 D), like every other length
        import numpy as np
        u = SPACING / (2 * sys_["D"])
        edges = [jnp.asarray(np.concatenate([[0.0], np.cumsum(np.asarray(w, dtype=np.float64) * u)])) for w in sys_["widths"]]
        grid = fdtdx.RectilinearGrid.custom(*edges)
    else:
        grid = fdtdx.UniformGrid(spacing=SPACING)
    cfg = fdtdx.SimulationConfig(time=1e-9, grid=grid, backend="cpu", dtype=jnp.float64)
    try:
        objs, cl = build(sys_, order, cons)
        with warnings.catch_warnings():
            warnings.simplefilter("ignore")
            kw = {} if max_iter is None else {"max_iter": int(max_iter)}
            sl, errs = resolve_object_constraints(objs, cl, cfg, **kw)
    except Exception as e:  # noqa
        return {"raised": type(e).__name__ + ": " + str(e)[:200]}
    conv = lambda v: None if v is None else int(v)
    return {"slices": {k[1:]: [[conv(p[0]), conv(p[1])] for p in v] for k, v in sl.items()},
            "errs": sorted(int(k[1:]) for k, v in errs.items() if v)}
