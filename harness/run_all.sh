#!/bin/bash
# run every registered quick (or thorough) check, 3 at a time; summary on stdout
tier=${1:-quick}; par=${2:-3}
cd "$(dirname "$0")/.."
mkdir -p /tmp/verif_runall
ls harness/props | grep -o 'C[0-9]*' | sort -u | xargs -P $par -I{} sh -c "/usr/bin/time -f '{} %es' /venv/bin/python harness/check.py {} --tier $tier > /tmp/verif_runall/{}.log 2>&1; echo {} rc=\$? \$(tail -1 /tmp/verif_runall/{}.log | cut -c1-150)"
