"""Emit Coq terms (K = QcF) for the Yee model from a hand-built-container case + implementation output."""
from __future__ import annotations

from fractions import Fraction

from lib.core import frac, lst, qlit

HEADER = ("From Coq Require Import List QArith Qcanon. Import ListNotations.\n"
          "From FV Require Import base.Scalar base.Cplx base.Util model.Yee model.YeeExec model.YeeFull.\n"
          "Notation K := QcF.\n")

AX = "xyz"


def cq(re, im=0) -> str:
    if frac(im) == 0:
        return f"(rl {qlit(re)})"
    return f"({qlit(re)}, {qlit(im)})"


def l3(a, f) -> str:
    return lst(a, lambda p: lst(p, lambda r: lst(r, f)))


def field3(arr) -> str:
    """arr: comp-major [3][nx][ny][nz] of hex floats, or {"re":..,"im":..}"""
    if isinstance(arr, dict):
        re, im = arr["re"], arr["im"]
        return [l3([[[(re[c][i][j][k], im[c][i][j][k]) for k in range(len(re[c][i][j]))] for j in range(len(re[c][i]))]
                    for i in range(len(re[c]))], lambda p: cq(p[0], p[1])) for c in range(3)]
    return [l3(arr[c], lambda v: cq(v)) for c in range(3)]


def V3_of(shape, arr) -> str:
    a, b, c = field3(arr)
    nx, ny, nz = shape
    return f"(V3_of K {nx} {ny} {nz} {a} {b} {c})"


def fields_lit(arr) -> str:
    return lst(field3(arr))


def M3_of(shape, arr, default="0") -> str:
    nx, ny, nz = shape
    if arr is None:
        z = f"(fun _ _ _ => {qlit(0)})"
        return f"(mkM (K:=K) {z} {z} {z})"
    parts = [l3(arr[c], qlit) for c in range(3)]
    return f"(M3_of K {nx} {ny} {nz} {qlit(0)} {parts[0]} {parts[1]} {parts[2]})"


def masks(shape, bt):
    """PEC: tangential E zero in the face layer; PMC: tangential H zero in the face layer (1 = keep)."""
    nx, ny, nz = shape
    mE = [[[[1] * nz for _ in range(ny)] for _ in range(nx)] for _ in range(3)]
    mH = [[[[1] * nz for _ in range(ny)] for _ in range(nx)] for _ in range(3)]
    for face, t in bt.items():
        side, axn = face.split("_")
        a = AX.index(axn)
        n = shape[a]
        layer = 0 if side == "min" else n - 1
        tgt = mE if t == "pec" else mH if t == "pmc" else None
        if tgt is None:
            continue
        for c in range(3):
            if c == a:
                continue
            for i in range(nx):
                for j in range(ny):
                    for k in range(nz):
                        if (i, j, k)[a] == layer:
                            tgt[c][i][j][k] = 0
    return mE, mH


def ghost(bt, phases):
    """(hi, lo) per axis as complex (re, im) Fractions."""
    hi, lo = [], []
    for a, axn in enumerate(AX):
        tmin, tmax = bt.get(f"min_{axn}"), bt.get(f"max_{axn}")
        wrap = tmin in ("periodic", "bloch") or tmax in ("periodic", "bloch")
        if not wrap:
            hi.append((0, 0)); lo.append((0, 0)); continue
        h, l = (1, 0), (1, 0)
        if f"{a}+" in phases:
            re, im = phases[f"{a}+"]
            h = (frac(re), frac(im))
        if f"{a}-" in phases:
            re, im = phases[f"{a}-"]
            l = (frac(re), -frac(im))      # left ghost is multiplied by conj(phase)
        hi.append(h); lo.append(l)
    return hi, lo


def scene_term(case, out, inj=None, pmls="[]") -> str:
    shape = case["shape"]
    nx, ny, nz = shape
    hi, lo = ghost(case["bt"], out.get("phases", {}))
    mE, mH = masks(shape, case["bt"])
    w = [f"(of1 (X:=Qc) {qlit(1)} {lst(out['widths'][a], qlit)})" for a in range(3)]
    inj_t = "(fun _ => vzero K) (fun _ => vzero K)" if inj is None else inj
    return (f"(mkScene K {nx} {ny} {nz} {cq(*hi[0])} {cq(*hi[1])} {cq(*hi[2])} {cq(*lo[0])} {cq(*lo[1])} {cq(*lo[2])} "
            f"{w[0]} {w[1]} {w[2]} {qlit(out['ref'])} {M3_of(shape, out['ieps'])} {M3_of(shape, out['imu'])} "
            f"{M3_of(shape, out.get('sigE'))} {M3_of(shape, out.get('sigH'))} {qlit(out['eta0'])} {qlit(out['cn'])} "
            f"{M3_of(shape, mE)} {M3_of(shape, mH)} {pmls} {inj_t})")


def T9_opt(shape, arr9) -> str:
    """option (T9 K) term from a row-major 9-component nested list (None -> iso / diagonal tier)"""
    if arr9 is None:
        return "None"
    nx, ny, nz = shape
    return f"(Some (T9_of K {nx} {ny} {nz} {qlit(0)} {lst([l3(arr9[c], qlit) for c in range(9)])}))"


def full_steps_expr(case_shape, sc, out, steps, exact, tol=1e-9, scale=4):
    """like steps_expr, for the 9-component tiers: fn in {"forward_fullX", "backward_fullX"}"""
    nx, ny, nz = case_shape
    cmp_ = "fields_eqb" if exact else f"fields_close {qlit(tol)} {qlit(scale)}"
    ids, binds = {}, []
    def ref(st):
        if id(st) not in ids:
            n = len(ids)
            ids[id(st)] = n
            binds.append(f"let fe{n} := {fields_lit(st['E'])} in let fh{n} := {fields_lit(st['H'])} in ")
        return ids[id(st)]
    def v3(name):
        return f"(V3_of K {nx} {ny} {nz} (nth 0 {name} []) (nth 1 {name} []) (nth 2 {name} []))"
    parts = []
    for fn, a, b in steps:
        ia, ib = ref(a), ref(b)
        parts.append(f"(let s := {fn} K sc ie9 im9 (mkSt (K:=K) {a['t']} {v3(f'fe{ia}')} {v3(f'fh{ia}')} [] []) in (Nat.eqb (tstep s) {b['t']}) && "
                     f"({cmp_} (V3_tab K {nx} {ny} {nz} (fE s)) fe{ib}) && ({cmp_} (V3_tab K {nx} {ny} {nz} (fH s)) fh{ib}))")
    return (f"(let sc := {sc} in let ie9 := {T9_opt(case_shape, out.get('ieps9'))} in let im9 := {T9_opt(case_shape, out.get('imu9'))} in "
            + "".join(binds) + "(" + " && ".join(parts) + ")%bool)")


def T9_lit(shape, arr9) -> str:
    nx, ny, nz = shape
    return f"(T9_of K {nx} {ny} {nz} {qlit(0)} {lst([l3(arr9[c], qlit) for c in range(9)])})"


def lossy_tier(shape, t9, d3, sig9) -> str:
    """option (T9 K * T9 K): Some (tensor, conductivity tensor) when the implementation takes the full-anisotropic branch with a conductivity"""
    if t9 is None:
        return "None"
    zero = [[[["0x0p+0"] * shape[2] for _ in range(shape[1])] for _ in range(shape[0])] for _ in range(9)]
    return f"(Some ({T9_lit(shape, t9)}, {T9_lit(shape, sig9 if sig9 is not None else zero)}))"


def lossy_steps_expr(case_shape, sc, out, steps, tol=1e-9, scale=4):
    """forward steps of the conductive 9-component tiers (model/YeeFull.v forward_lossyX); always compared to `tol` (the 3x3 solves are not dyadic)"""
    nx, ny, nz = case_shape
    cmp_ = f"fields_close {qlit(tol)} {qlit(scale)}"
    ids, binds = {}, []
    def ref(st):
        if id(st) not in ids:
            n = len(ids)
            ids[id(st)] = n
            binds.append(f"let fe{n} := {fields_lit(st['E'])} in let fh{n} := {fields_lit(st['H'])} in ")
        return ids[id(st)]
    def v3(name):
        return f"(V3_of K {nx} {ny} {nz} (nth 0 {name} []) (nth 1 {name} []) (nth 2 {name} []))"
    parts = []
    for a, b in steps:
        ia, ib = ref(a), ref(b)
        parts.append(f"(let s := forward_lossyX K sc te tm (mkSt (K:=K) {a['t']} {v3(f'fe{ia}')} {v3(f'fh{ia}')} [] []) in (Nat.eqb (tstep s) {b['t']}) && "
                     f"({cmp_} (V3_tab K {nx} {ny} {nz} (fE s)) fe{ib}) && ({cmp_} (V3_tab K {nx} {ny} {nz} (fH s)) fh{ib}))")
    # the implementation takes the full-anisotropic branch of a half step when the inverse tensor OR the conductivity has 9 components
    tE = out.get('ieps9') or (out.get('ieps9x') if out.get('sigE_full') else None)
    tH = out.get('imu9') or (out.get('imu9x') if out.get('sigH_full') else None)
    return (f"(let sc := {sc} in let te := {lossy_tier(case_shape, tE, None, out.get('sigE9'))} in "
            f"let tm := {lossy_tier(case_shape, tH, None, out.get('sigH9'))} in "
            + "".join(binds) + "(" + " && ".join(parts) + ")%bool)")


def inj_term(shape, injE, injH) -> str:
    """oracle source injections: lists over time steps of comp-major arrays"""
    e = lst([V3_of(shape, a) for a in injE])
    h = lst([V3_of(shape, a) for a in injH])
    return f"(fun t => nth t {e} (vzero K)) (fun t => nth t {h} (vzero K))"


def steps_expr(case_shape, sc, steps, exact, tol=1e-9, scale=4):
    """steps: list of (fn, a, b): model step `fn` (forwardX/backwardX) applied to implementation state a must give
    implementation state b.  The scene term and every state literal are bound once."""
    nx, ny, nz = case_shape
    cmp_ = "fields_eqb" if exact else f"fields_close {qlit(tol)} {qlit(scale)}"
    ids, binds = {}, []
    def ref(st):
        if id(st) not in ids:
            n = len(ids)
            ids[id(st)] = n
            binds.append(f"let fe{n} := {fields_lit(st['E'])} in let fh{n} := {fields_lit(st['H'])} in ")
        return ids[id(st)]
    def v3(name):
        return f"(V3_of K {nx} {ny} {nz} (nth 0 {name} []) (nth 1 {name} []) (nth 2 {name} []))"
    parts = []
    for fn, a, b in steps:
        ia, ib = ref(a), ref(b)
        parts.append(f"(let s := {fn} K sc (mkSt (K:=K) {a['t']} {v3(f'fe{ia}')} {v3(f'fh{ia}')} [] []) in (Nat.eqb (tstep s) {b['t']}) && "
                     f"({cmp_} (V3_tab K {nx} {ny} {nz} (fE s)) fe{ib}) && ({cmp_} (V3_tab K {nx} {ny} {nz} (fH s)) fh{ib}))")
    return f"(let sc := {sc} in " + "".join(binds) + "(" + " && ".join(parts) + ")%bool)"


def pml_terms(out) -> str:
    """Coq list of CPML layer records from the driver's description (boxes and 1-D coefficient profiles)."""
    items = []
    for p in out["pmls"]:
        (x0, x1), (y0, y1), (z0, z1) = p["box"]
        prof = " ".join(f"(of1 (X:=Qc) 0%Qc {lst(p[k], qlit)})" for k in ("aE", "bE", "ikE", "aH", "bH", "ikH"))
        items.append(f"(mkPml K {p['axis']} {'true' if p['dir'] == '-' else 'false'} {x0} {x1} {y0} {y1} {z0} {z1} {prof} {'true' if p['kappa1'] else 'false'})")
    return lst(items)


def embed(shape, box, arr):
    """box-shaped nested list -> full-size nested list (zeros outside)"""
    nx, ny, nz = shape
    (x0, x1), (y0, y1), (z0, z1) = box
    z = float(0).hex()
    return [[[arr[i - x0][j - y0][k - z0] if (x0 <= i < x1 and y0 <= j < y1 and z0 <= k < z1) else z for k in range(nz)] for j in range(ny)] for i in range(nx)]


def psi_lit(shape, out, psis) -> str:
    """list over layers of [psi1; psi2] as full-size L3 Cq literals"""
    return lst([lst([l3(embed(shape, p["box"], a), lambda v: cq(v)) for a in pair]) for p, pair in zip(out["pmls"], psis)])


def pml_steps_expr(shape, sc, out, n_fwd, backs, tol=1e-9, scale=4):
    """forward steps with psi + recorded-interface backward steps (reset) against the implementation."""
    nx, ny, nz = shape
    cmp_ = f"fields_close {qlit(tol)} {qlit(scale)}"
    st = out["states"]
    binds = []
    for n, s_ in enumerate(st):
        binds.append(f"let fe{n} := {fields_lit(s_['E'])} in let fh{n} := {fields_lit(s_['H'])} in "
                     f"let pe{n} := {psi_lit(shape, out, s_['psiE'])} in let ph{n} := {psi_lit(shape, out, s_['psiH'])} in ")
    for n, s_ in enumerate(backs):
        binds.append(f"let be{n} := {fields_lit(s_['E'])} in let bh{n} := {fields_lit(s_['H'])} in ")
    def v3(name):
        return f"(V3_of K {nx} {ny} {nz} (nth 0 {name} []) (nth 1 {name} []) (nth 2 {name} []))"
    def psis(name):
        return f"(map (fun pr => (of3 (c0 (K:=K)) {nx} {ny} {nz} (nth 0 pr []), of3 (c0 (K:=K)) {nx} {ny} {nz} (nth 1 pr []))) {name})"
    def ptab(e):
        return f"(map (fun pr => [tab3 {nx} {ny} {nz} (fst pr); tab3 {nx} {ny} {nz} (snd pr)]) {e})"
    parts = []
    for n in range(n_fwd):
        parts.append(f"(let s := forwardX K sc (mkSt (K:=K) {st[n]['t']} {v3(f'fe{n}')} {v3(f'fh{n}')} {psis(f'pe{n}')} {psis(f'ph{n}')}) in "
                     f"({cmp_} (V3_tab K {nx} {ny} {nz} (fE s)) fe{n + 1}) && ({cmp_} (V3_tab K {nx} {ny} {nz} (fH s)) fh{n + 1}) && "
                     f"(list_eqb ({cmp_}) {ptab('(psiE s)')} pe{n + 1}) && (list_eqb ({cmp_}) {ptab('(psiH s)')} ph{n + 1}))")
    if backs:
        N = len(st) - 1
        rec = "(fun t => " + "".join(f"if Nat.eqb t {t} then ({v3(f'fe{t + 1}')}, {v3(f'fh{t + 1}')}) else " for t in range(N)) + "(vzero K, vzero K))"
        chain = [(f"fe{N}", f"fh{N}", st[N]["t"])] + [(f"be{n}", f"bh{n}", b["t"]) for n, b in enumerate(backs)]
        for (ea, ha, ta), (eb, hb, tb) in zip(chain, chain[1:]):
            parts.append(f"(let s := backward_recX K sc {rec} (mkSt (K:=K) {ta} {v3(ea)} {v3(ha)} {psis(f'pe{N}')} {psis(f'ph{N}')}) in "
                         f"(Nat.eqb (tstep s) {tb}) && ({cmp_} (V3_tab K {nx} {ny} {nz} (fE s)) {eb}) && ({cmp_} (V3_tab K {nx} {ny} {nz} (fH s)) {hb}))")
    return f"(let sc := {sc} in " + "".join(binds) + "(" + " && ".join(parts) + ")%bool)"


def np_fields(x):
    """hex nested lists (or {re,im}) -> numpy complex array"""
    import numpy as np
    def conv(a):
        return np.array([[[[float.fromhex(v) for v in r] for r in p] for p in c] for c in a])
    if isinstance(x, dict):
        return conv(x["re"]) + 1j * conv(x["im"])
    return conv(x).astype(complex)


def maxabs(out) -> float:
    import numpy as np
    return max(float(np.abs(np_fields(s[f])).max()) for s in out["states"] for f in ("E", "H"))


def state_term(shape, t, E, H, psiE="[]", psiH="[]") -> str:
    return f"(mkSt (K:=K) {t} {V3_of(shape, E)} {V3_of(shape, H)} {psiE} {psiH})"


def exact_ok(case) -> bool:
    """Is IEEE double arithmetic exact for this case (dyadic regime)?"""
    return bool(case.get("pow2", True)) and not case.get("edges") and not case.get("kvec") and not case.get("sigma") \
        and case.get("courant", "exact_half") == "exact_half" and case.get("steps", 2) <= 6
