"""Helpers of the C32 (Symmetry) check: translator extension for the Literal["E","H"] argument,
an independent statement of the documented parity / index-map table, array <-> Coq literal helpers."""
from __future__ import annotations

import ast
from fractions import Fraction

from lib import translate as T
from lib.core import qlit, lst, zlit


class TrSym(T.Tr):
    """Tr + comparisons of an enum-typed name with a string constant:  field_type == "E"  ->  ftype_eqb field_type FE."""

    def __init__(self, enums=None, **kw):
        super().__init__(**kw)
        self.enums = enums or {}          # python name -> {"E": "FE", "H": "FH"}

    def expr(self, e) -> str:
        if (isinstance(e, ast.Compare) and len(e.ops) == 1 and isinstance(e.ops[0], (ast.Eq, ast.NotEq))
                and isinstance(e.left, ast.Name) and e.left.id in self.enums
                and isinstance(e.comparators[0], ast.Constant) and isinstance(e.comparators[0].value, str)):
            tbl = self.enums[e.left.id]
            v = e.comparators[0].value
            if v not in tbl:
                raise T.Unsupported(f"enum constant {v!r}")
            c = f"(ftype_eqb {e.left.id} {tbl[v]})"
            return c if isinstance(e.ops[0], ast.Eq) else f"(negb {c})"
        return super().expr(e)

    def kind(self, e) -> str:
        if isinstance(e, ast.Call) and ast.unparse(e.func) in self.calls and self.types.get(ast.unparse(e.func)) == "bool":
            return "bool"
        return super().kind(e)


# ---------------------------------------------------------------------------- documented table (independent of the code)
def doc_parity(ft: str, c: int, a: int, wall: int) -> int:
    """PEC (-1): tangential E and normal H are odd; PMC (+1): tangential H and normal E are odd."""
    tangential = c != a
    if wall == -1:
        odd = tangential if ft == "E" else not tangential
    else:
        odd = (not tangential) if ft == "E" else tangential
    return -1 if odd else 1


def doc_on_plane(ft: str, c: int, a: int, wall: int) -> bool:
    """Electric plane on the min-edge node row: integer-positioned samples (E_c, c != a; H_a) pair about the row;
    a magnetic plane sits half a cell out: everything flips one-to-one."""
    integer_pos = (c != a) if ft == "E" else (c == a)
    return wall == -1 and integer_pos


COMPONENTS = ("Ex", "Ey", "Ez", "Hx", "Hy", "Hz")


# ---------------------------------------------------------------------------- literals
def nested(a, f=qlit):
    """nested python list (any depth) of scalars -> Coq list literal"""
    if isinstance(a, (list, tuple)):
        return "[" + "; ".join(nested(x, f) for x in a) + "]"
    return f(a)


def sym_lit(s):
    return "(" + ", ".join(zlit(int(v)) for v in s) + ")"


def ft_lit(ft):
    return {"E": "FE", "H": "FH"}[ft]


def blit(b):
    return "true" if b else "false"


def unhex(a):
    """nested lists of float.hex strings / ints -> nested lists of Fractions"""
    if isinstance(a, list):
        return [unhex(x) for x in a]
    if isinstance(a, str):
        return Fraction(*float.fromhex(a).as_integer_ratio())
    return Fraction(a)
