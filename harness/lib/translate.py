"""Fail-closed Python-ast -> Gallina translator for small pure scalar functions (DESIGN §3.2).

Supported: a function (module level or method) whose body is docstring + statements of
  Assign to a fresh name, If/elif/else ending in returns, Return, Raise (-> error value)
with expressions over ints (Z) / bools:  + - * // %  comparisons (chained)  and/or/not
  min max abs  round(p / q)  tuple construction/indexing by constant  list comprehension over range(n)
  conditional expression, names, int/bool constants, attribute reads listed in `attrs`.
Anything else raises Unsupported: the check then reports a broken tie.
"""
from __future__ import annotations

import ast
from pathlib import Path


class Unsupported(Exception):
    pass


def find_function(path: Path, qualname: str) -> ast.FunctionDef:
    mod = ast.parse(Path(path).read_text())
    parts = qualname.split(".")
    body = mod.body
    node = None
    for p in parts:
        node = next((n for n in body if isinstance(n, (ast.FunctionDef, ast.ClassDef)) and n.name == p), None)
        if node is None:
            raise Unsupported(f"{qualname} not found in {path}")
        body = node.body
    if not isinstance(node, ast.FunctionDef):
        raise Unsupported(f"{qualname} is not a function")
    return node


class Tr:
    def __init__(self, attrs=None, types=None, calls=None, err="None"):
        self.attrs = attrs or {}    # "self.x" -> coq name
        self.types = types or {}    # name -> 'Z' | 'bool'
        self.calls = calls or {}    # python callee text -> coq function
        self.err = err

    def kind(self, e) -> str:
        """static type of a python expression: 'Z' or 'bool'"""
        if isinstance(e, ast.Constant):
            return "bool" if isinstance(e.value, bool) else "Z"
        if isinstance(e, (ast.Compare, ast.BoolOp)):
            return "bool"
        if isinstance(e, ast.UnaryOp) and isinstance(e.op, ast.Not):
            return "bool"
        if isinstance(e, ast.Name):
            return self.types.get(e.id, "Z")
        if isinstance(e, ast.Attribute):
            return self.types.get(ast.unparse(e), "Z")
        if isinstance(e, ast.IfExp):
            return self.kind(e.body)
        return "Z"

    def expr(self, e) -> str:
        if isinstance(e, ast.Name):
            return e.id
        if isinstance(e, ast.Attribute):
            t = ast.unparse(e)
            if t in self.attrs:
                return self.attrs[t]
            raise Unsupported(f"attribute {t}")
        if isinstance(e, ast.Constant):
            if isinstance(e.value, bool):
                return "true" if e.value else "false"
            if isinstance(e.value, int):
                return f"({e.value})%Z"
            raise Unsupported(f"constant {e.value!r}")
        if isinstance(e, ast.UnaryOp):
            if isinstance(e.op, ast.USub):
                return f"(- {self.expr(e.operand)})%Z"
            if isinstance(e.op, ast.Not):
                return f"(negb {self.expr(e.operand)})"
            raise Unsupported(ast.dump(e))
        if isinstance(e, ast.BinOp):
            l, r = self.expr(e.left), self.expr(e.right)
            ops = {ast.Add: "+", ast.Sub: "-", ast.Mult: "*", ast.FloorDiv: "/", ast.Mod: "mod"}
            for k, v in ops.items():
                if isinstance(e.op, k):
                    return f"({l} {v} {r})%Z"
            raise Unsupported(ast.dump(e))
        if isinstance(e, ast.BoolOp):
            op = "&&" if isinstance(e.op, ast.And) else "||"
            return "(" + f" {op} ".join(self.expr(v) for v in e.values) + ")%bool"
        if isinstance(e, ast.Compare):
            parts, left = [], e.left
            for op, right in zip(e.ops, e.comparators):
                l, r = self.expr(left), self.expr(right)
                if isinstance(op, (ast.Eq, ast.NotEq)) and self.kind(left) == "bool":
                    c = f"(Bool.eqb {l} {r})"
                    c = c if isinstance(op, ast.Eq) else f"(negb {c})"
                else:
                    tbl = {ast.Lt: f"({l} <? {r})%Z", ast.LtE: f"({l} <=? {r})%Z", ast.Gt: f"({r} <? {l})%Z",
                           ast.GtE: f"({r} <=? {l})%Z", ast.Eq: f"({l} =? {r})%Z", ast.NotEq: f"(negb ({l} =? {r})%Z)"}
                    c = next((v for k, v in tbl.items() if isinstance(op, k)), None)
                    if c is None:
                        raise Unsupported(ast.dump(op))
                parts.append(c)
                left = right
            return parts[0] if len(parts) == 1 else "(" + " && ".join(parts) + ")%bool"
        if isinstance(e, ast.IfExp):
            return f"(if {self.expr(e.test)} then {self.expr(e.body)} else {self.expr(e.orelse)})"
        if isinstance(e, ast.Tuple):
            return "(" + ", ".join(self.expr(v) for v in e.elts) + ")"
        if isinstance(e, ast.Call):
            fn = ast.unparse(e.func)
            if fn == "round" and len(e.args) == 1 and isinstance(e.args[0], ast.BinOp) and isinstance(e.args[0].op, ast.Div):
                a = e.args[0]
                return f"(py_round_div {self.expr(a.left)} {self.expr(a.right)})"
            if fn in ("min", "max") and len(e.args) == 2 and not e.keywords:
                return f"(Z.{fn} {self.expr(e.args[0])} {self.expr(e.args[1])})"
            if fn == "abs" and len(e.args) == 1:
                return f"(Z.abs {self.expr(e.args[0])})"
            if fn in self.calls and not e.keywords:
                return "(" + self.calls[fn] + " " + " ".join(self.expr(a) for a in e.args) + ")"
            raise Unsupported(f"call {fn}")
        if isinstance(e, ast.ListComp) and len(e.generators) == 1:
            g = e.generators[0]
            if (isinstance(g.iter, ast.Call) and ast.unparse(g.iter.func) == "range" and len(g.iter.args) == 1
                    and not g.ifs and isinstance(g.target, ast.Name)):
                return f"(map (fun {g.target.id} : Z => {self.expr(e.elt)}) (zrange {self.expr(g.iter.args[0])}))"
        raise Unsupported(ast.dump(e)[:200])

    def block(self, stmts, wrap_ok) -> str:
        """statements -> Gallina expression; every path must end in return / raise."""
        if not stmts:
            raise Unsupported("path without return")
        s, rest = stmts[0], stmts[1:]
        if isinstance(s, ast.Expr) and isinstance(s.value, ast.Constant) and isinstance(s.value.value, str):
            return self.block(rest, wrap_ok)
        if isinstance(s, ast.Return):
            if s.value is None:
                raise Unsupported("bare return")
            return wrap_ok(self.expr(s.value))
        if isinstance(s, ast.Raise):
            return self.err
        if isinstance(s, ast.Assign) and len(s.targets) == 1 and isinstance(s.targets[0], ast.Name):
            return f"(let {s.targets[0].id} := {self.expr(s.value)} in\n  {self.block(rest, wrap_ok)})"
        if isinstance(s, ast.If):
            els = s.orelse if s.orelse else []
            # if the branch does not return, continue with the rest (duplicated)
            def ends(b):
                return b and isinstance(b[-1], (ast.Return, ast.Raise)) or (b and isinstance(b[-1], ast.If) and ends(b[-1].body) and ends(b[-1].orelse))
            tb = self.block(list(s.body) + ([] if ends(s.body) else rest), wrap_ok)
            eb = self.block(list(els) + ([] if ends(els) else rest), wrap_ok)
            return f"(if {self.expr(s.test)} then {tb}\n  else {eb})"
        raise Unsupported(ast.dump(s)[:200])


def translate_function(path, qualname, coq_name, args, ret_type, tr: Tr | None = None, partial_ok=False) -> str:
    """args: list of (python name, coq binder text).  ret_type: Coq type; if the function can
    raise, ret_type should be `option T` and tr.err = 'None' (returns wrapped in Some)."""
    fn = find_function(path, qualname)
    tr = tr or Tr()
    pyargs = [a.arg for a in fn.args.args if a.arg != "self"]
    if pyargs != [a for a, _ in args]:
        raise Unsupported(f"signature changed: {pyargs} vs expected {[a for a, _ in args]}")
    wrap = (lambda x: f"(Some {x})") if partial_ok else (lambda x: x)
    body = tr.block(fn.body, wrap)
    binders = " ".join(b for _, b in args)
    return f"Definition {coq_name} {binders} : {ret_type} :=\n  {body}.\n"
