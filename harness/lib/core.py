"""Shared machinery of the /verif checks (see DESIGN.md §1).

A property module (harness/props/Cxx.py) supplies generators, an implementation driver,
Coq case text and an implementation-level predicate; `run_check` orchestrates:
  build proofs -> translator tie -> correspondence (model in Coq vs /repo/src) -> predicate
  -> violation protocol (concrete failing input or no-failing-input-found) -> evidence.
"""
from __future__ import annotations

import fcntl
import hashlib
import json
import os
import random
import re
import subprocess
import sys
import time
from fractions import Fraction
from pathlib import Path

VERIF = Path(__file__).resolve().parents[2]
COQ = VERIF / "coq"
REPO = Path(os.environ.get("FDTDX_REPO", "/repo"))
PY = "/venv/bin/python"
NPROC = os.cpu_count() or 4


# ----------------------------------------------------------------------------- implementation
def impl_env(extra: dict | None = None) -> dict:
    env = dict(os.environ)
    env.update(
        PYTHONPATH=f"{REPO}/src:{VERIF}/harness",
        PYTHONHASHSEED="0",
        JAX_PLATFORMS="cpu",
        FDTDX_VERIF="1",
        PYTHONDONTWRITEBYTECODE="1",
        XLA_FLAGS=os.environ.get("XLA_FLAGS", ""),
        TF_CPP_MIN_LOG_LEVEL="3",
    )
    if extra:
        env.update(extra)
    return env


def run_impl(script: str, payload, timeout: int = 900, env: dict | None = None):
    """Run harness/impl/<script> under /venv/bin/python against /repo/src (working tree).
    payload -> stdin JSON, stdout's last line starting with 'RESULT ' -> JSON."""
    p = subprocess.run(
        [PY, str(VERIF / "harness" / "impl" / script)],
        input=json.dumps(payload),
        capture_output=True,
        text=True,
        timeout=timeout,
        env=impl_env(env),
        cwd="/",
    )
    for line in reversed(p.stdout.splitlines()):
        if line.startswith("RESULT "):
            return json.loads(line[7:])
    raise RuntimeError(f"impl driver {script} failed (rc={p.returncode}):\n{p.stdout[-2000:]}\n{p.stderr[-4000:]}")


def run_impl_sharded(script: str, cases: list, shard: int = 0, timeout: int = 900, key="cases", extra=None, jobs=None):
    """Split cases over several driver processes (JAX import is ~5 s; keep few)."""
    from concurrent.futures import ThreadPoolExecutor

    if not cases:
        return []
    n = shard or (max(1, min(jobs, (len(cases) + 1) // 2)) if jobs else max(1, min(4, (len(cases) + 19) // 20)))
    chunks = [cases[i::n] for i in range(n)]
    with ThreadPoolExecutor(n) as ex:
        res = list(ex.map(lambda c: run_impl(script, dict({key: c}, **(extra or {})), timeout)["outs"] if c else [], chunks))
    outs = [None] * len(cases)
    for s, r in enumerate(res):
        for j, o in enumerate(r):
            outs[s + j * n] = o
    return outs


# ----------------------------------------------------------------------------- Coq literals
def zlit(n: int) -> str:
    return f"({int(n)})%Z"


def natlit(n: int) -> str:
    assert 0 <= n < 5000
    return f"{int(n)}%nat"


def frac(x) -> Fraction:
    if isinstance(x, Fraction):
        return x
    if isinstance(x, int):
        return Fraction(x)
    if isinstance(x, float):
        a, b = x.as_integer_ratio()
        return Fraction(a, b)
    if isinstance(x, str):  # "a/b" or float.hex
        if "/" in x:
            a, b = x.split("/")
            return Fraction(int(a), int(b))
        return frac(float.fromhex(x)) if "x" in x else Fraction(x)
    return frac(float(x))


def qlit(x) -> str:
    f = frac(x)
    if f == 0:
        return "0%Qc"
    if f == 1:
        return "1%Qc"
    return f"(q ({f.numerator}) ({f.denominator}))"


def blit(b) -> str:
    return "true" if b else "false"


def lst(items, f=None) -> str:
    items = list(items)
    if f:
        items = [f(i) for i in items]
    return "[" + "; ".join(items) + "]"


def lst2(rows, f) -> str:
    return lst(rows, lambda r: lst(r, f))


def lst3(a, f) -> str:
    return lst(a, lambda r: lst2(r, f))


def opt(x, f) -> str:
    return "None" if x is None else f"(Some {f(x)})"


# ----------------------------------------------------------------------------- Coq build / eval
def _lock():
    fd = open(COQ / ".lock", "w")
    fcntl.flock(fd, fcntl.LOCK_EX)
    return fd


def coq_project() -> None:
    """(Re)generate _CoqProject + Makefile from the directory listing."""
    files = []
    for d in ("base", "model", "proofs", "props"):
        files += sorted(str(p.relative_to(COQ)) for p in (COQ / d).rglob("*.v"))
    text = "-Q . FV\n-arg -w -arg -notation-overridden,-deprecated\n" + "\n".join(files) + "\n"
    cp = COQ / "_CoqProject"
    if not cp.exists() or cp.read_text() != text or not (COQ / "Makefile").exists():
        cp.write_text(text)
        subprocess.run(["coq_makefile", "-f", "_CoqProject", "-o", "Makefile"], cwd=COQ, check=True, capture_output=True)


def coq_make(targets: list[str] | None = None, timeout: int = 1800, keep_going=False):
    """Full .vo build (never -vos).  Returns (ok, log)."""
    lk = _lock()
    try:
        coq_project()
        cmd = ["timeout", str(timeout), "make", f"-j{NPROC}"] + (["-k"] if keep_going else []) + (targets or [])
        p = subprocess.run(cmd, cwd=COQ, capture_output=True, text=True)
        return p.returncode == 0, p.stdout[-6000:] + p.stderr[-6000:]
    finally:
        lk.close()


def coqc(path: Path, timeout: int = 600, cwd: Path = COQ):
    p = subprocess.run(
        ["timeout", str(timeout), "coqc", "-Q", str(COQ), "FV", "-w", "-notation-overridden,-deprecated", str(path)],
        cwd=cwd, capture_output=True, text=True,
    )
    return p.returncode == 0, p.stdout, p.stderr


def coq_deps(vfile: str) -> list[str]:
    """Transitive .v dependencies of coq/<vfile> inside the development."""
    seen, todo = [], [vfile]
    while todo:
        f = todo.pop()
        if f in seen:
            continue
        seen.append(f)
        txt = (COQ / f).read_text()
        for m in re.finditer(r"\bRequire\s+(?:Import\s+|Export\s+)?(.*?)\.(?=\s|$)", txt, flags=re.S):
            for name in m.group(1).split():
                name = name.removeprefix("FV.")
                cand = name.replace(".", "/") + ".v"
                if (COQ / cand).exists():
                    todo.append(cand)
    return seen


def count_qed(files: list[str]) -> int:
    n = 0
    for f in files:
        n += len(re.findall(r"\b(?:Qed|Defined)\.", (COQ / f).read_text()))
    return n


FORBIDDEN = re.compile(r"\b(Admitted|admit|Axiom|Axioms|Parameter|Parameters|Conjecture|Admit Obligations|bypass_check)\b|Unset\s+Guard|Unset\s+Positivity|Unset\s+Universe|type-in-type|impredicative-set")


def grep_gate(files: list[str]) -> list[str]:
    bad = []
    for f in files:
        txt = re.sub(r"\(\*.*?\*\)", "", (COQ / f).read_text(), flags=re.S)
        for m in FORBIDDEN.finditer(txt):
            bad.append(f"{f}: {m.group(0)}")
        # Variable/Hypothesis outside a section
        depth = 0
        for line in txt.splitlines():
            s = line.strip()
            if re.match(r"Section\s", s):
                depth += 1
            elif re.match(r"End\s", s) and depth > 0:
                depth -= 1
            elif depth == 0 and re.match(r"(Variable|Variables|Hypothesis|Hypotheses|Context)\b", s):
                bad.append(f"{f}: {s[:40]} outside section")
    return bad


def coq_eval_shards(pid: str, header: str, exprs: list[str], shard_size: int = 200, timeout: int = 900, tag=""):
    """Evaluate boolean Coq expressions (model-agrees-with-implementation tests) with
    vm_compute, in shards run in parallel.  Returns list of True/False/None(=shard failed)
    and the error text of failed shards."""
    from concurrent.futures import ThreadPoolExecutor

    d = COQ / "cases"
    d.mkdir(exist_ok=True)
    shards = [exprs[i:i + shard_size] for i in range(0, len(exprs), shard_size)]
    paths = []
    for si, sh in enumerate(shards):
        body = [header, "From Coq Require Import List. Import ListNotations.", ""]
        for ci, e in enumerate(sh):
            body.append(f"Definition case_{ci} : bool := {e}.")
        body.append("Definition results : list bool := " + lst([f"case_{ci}" for ci in range(len(sh))]) + ".")
        body.append("Eval vm_compute in results.")
        p = d / f"cases_{pid}{tag}_{os.getpid()}_{si}.v"      # process id: concurrent runs of the same check do not share files
        p.write_text("\n".join(body) + "\n")
        paths.append(p)

    def one(p):
        ok, out, err = coqc(p, timeout)
        for ext in (".vo", ".glob", ".vok", ".vos"):
            q_ = p.with_suffix(ext)
            if q_.exists():
                q_.unlink()
        aux = p.parent / ("." + p.stem + ".aux")
        if aux.exists():
            aux.unlink()
        return ok, out, err

    with ThreadPoolExecutor(min(NPROC, max(1, len(paths)))) as ex:
        outs = list(ex.map(one, paths))
    results, errors = [], []
    for sh, (ok, out, err), p in zip(shards, outs, paths):
        toks = re.findall(r"\b(true|false)\b", out.split("=", 1)[1]) if ok and "=" in out else []
        if not ok or len(toks) != len(sh):
            results += [None] * len(sh)
            errors.append(f"{p.name}: {err[-1500:] or out[-500:]}")
        else:
            results += [t == "true" for t in toks]
    return results, errors


def gen_path(stem: str) -> Path:
    """Path of a translator-generated Coq file, unique per process (concurrent runs of one check must not share it);
    stale files of earlier runs (> 2 h) are removed."""
    d = COQ / "gen"
    d.mkdir(exist_ok=True)
    now = time.time()
    for q_ in d.glob(stem + "_p*"):
        try:
            if now - q_.stat().st_mtime > 7200:
                q_.unlink()
        except OSError:
            pass
    return d / f"{stem}_p{os.getpid()}.v"


def coq_eval_text(pid: str, header: str, expr: str, timeout=300) -> str:
    """Evaluate one expression and return Coq's printed value (for replay files)."""
    d = COQ / "cases"
    d.mkdir(exist_ok=True)
    p = d / f"show_{pid}_{os.getpid()}.v"
    p.write_text(f"{header}\nFrom Coq Require Import List. Import ListNotations.\nEval vm_compute in ({expr}).\n")
    ok, out, err = coqc(p, timeout)
    for ext in (".v", ".vo", ".glob", ".vok", ".vos"):
        q_ = p.with_suffix(ext)
        if q_.exists():
            q_.unlink()
    aux = p.parent / ("." + p.stem + ".aux")
    if aux.exists():
        aux.unlink()
    return (out if ok else err)[-3000:]


# ----------------------------------------------------------------------------- known findings
def known_findings(pid: str):
    """Lines 'finding: property=<id> key=<key> <text>' of KNOWN_FINDINGS.md (never written at run time)."""
    res = {}
    f = VERIF / "KNOWN_FINDINGS.md"
    if f.exists():
        for line in f.read_text().splitlines():
            m = re.match(r"\s*[-*]?\s*finding:\s*property=(\S+)\s+key=(\S+)\s+(.*)", line)
            if m and m.group(1) == pid:
                res[m.group(2)] = m.group(3)
    return res


# ----------------------------------------------------------------------------- check context
class Ctx:
    def __init__(self, pid: str, tier: str, seed: int):
        self.pid, self.tier, self.seed = pid, tier, seed
        self.rng = random.Random(seed * 1000003 + int(hashlib.sha1(pid.encode()).hexdigest()[:6], 16))
        self.quick = tier == "quick"
        self.notes: list[str] = []
        self.t0 = time.time()

    def pick(self, quick, thorough):
        return quick if self.quick else thorough


def case_hash(c) -> str:
    return hashlib.sha1(json.dumps(c, sort_keys=True, default=str).encode()).hexdigest()


def write_json(path: Path, obj) -> None:
    path.parent.mkdir(parents=True, exist_ok=True)
    tmp = path.with_suffix(path.suffix + f".tmp{os.getpid()}")
    tmp.write_text(json.dumps(obj, indent=1, default=str))
    tmp.replace(path)


def trunc(o, n=1500):
    s = json.dumps(o, default=str)
    return o if len(s) <= n else s[:n] + "…"
