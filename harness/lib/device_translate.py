"""Fail-closed extension of lib/translate.py for `SimulationObject.check_overlap`-shaped methods:

    for <v> in range(<int const>):
        a, b = <attr>[<v>]          (tuple-unpacking of a registered indexed attribute)
        if <cond>: return <const>   (no else, or elif chains ending in return)
    return <const>

->  for_return (zrange k) (fun v => let '(a, b) := f v in if cond then Some c else ... None) dflt
Anything outside this shape raises translate.Unsupported (the check then reports a broken tie)."""
from __future__ import annotations

import ast

from lib import translate as T


class TrLoop(T.Tr):
    def __init__(self, subs=None, **kw):
        super().__init__(**kw)
        self.subs = subs or {}          # "self._grid_slice_tuple" -> "axis_of self"

    def expr(self, e) -> str:
        if isinstance(e, ast.Subscript):
            base = ast.unparse(e.value)
            if base in self.subs and isinstance(e.slice, ast.Name):
                return f"({self.subs[base]} {e.slice.id})"
            raise T.Unsupported(f"subscript {ast.unparse(e)}")
        return super().expr(e)

    def opt_block(self, stmts) -> str:
        """loop body -> Gallina `option` expression (Some v = return v, None = fall through to next iteration)"""
        if not stmts:
            return "None"
        s, rest = stmts[0], stmts[1:]
        if isinstance(s, ast.Return):
            if s.value is None or rest:
                raise T.Unsupported("bare return / code after return")
            return f"Some {self.expr(s.value)}"
        if isinstance(s, ast.Assign) and len(s.targets) == 1:
            t = s.targets[0]
            if isinstance(t, ast.Name):
                return f"(let {t.id} := {self.expr(s.value)} in\n    {self.opt_block(rest)})"
            if isinstance(t, ast.Tuple) and all(isinstance(x, ast.Name) for x in t.elts):
                pat = ", ".join(x.id for x in t.elts)
                return f"(let '({pat}) := {self.expr(s.value)} in\n    {self.opt_block(rest)})"
            raise T.Unsupported(ast.dump(t)[:100])
        if isinstance(s, ast.If):
            def ends(b):
                return bool(b) and (isinstance(b[-1], ast.Return) or (isinstance(b[-1], ast.If) and ends(b[-1].body) and ends(b[-1].orelse)))
            tb = self.opt_block(list(s.body) + ([] if ends(s.body) else rest))
            eb = self.opt_block(list(s.orelse) + ([] if ends(s.orelse) else rest))
            return f"(if {self.expr(s.test)} then {tb}\n     else {eb})"
        raise T.Unsupported(ast.dump(s)[:200])

    def block(self, stmts, wrap_ok) -> str:
        if stmts and isinstance(stmts[0], ast.For):
            f, rest = stmts[0], stmts[1:]
            it = f.iter
            if not (isinstance(f.target, ast.Name) and isinstance(it, ast.Call) and ast.unparse(it.func) == "range"
                    and len(it.args) == 1 and isinstance(it.args[0], ast.Constant) and isinstance(it.args[0].value, int)
                    and not f.orelse):
                raise T.Unsupported("for loop shape")
            body = self.opt_block(list(f.body))
            return f"(for_return (zrange ({it.args[0].value})%Z) (fun {f.target.id} =>\n    {body}) {self.block(rest, wrap_ok)})"
        return super().block(stmts, wrap_ok)


def translate_method(path, qualname, coq_name, binders, ret_type, pyargs, tr: TrLoop) -> str:
    fn = T.find_function(path, qualname)
    got = [a.arg for a in fn.args.args]
    if got != pyargs:
        raise T.Unsupported(f"signature changed: {got} vs expected {pyargs}")
    body = tr.block(fn.body, lambda x: x)
    return f"Definition {coq_name} {binders} : {ret_type} :=\n  {body}.\n"
