"""Shared by the Place properties (C26, C27): constraint-system generator, Coq rendering, and an
independent evaluation of the constraint relations on implementation output.

A system (JSON):
  D: int (sub-cell unit u = spacing/(2D)),  N: [nx,ny,nz]
  shapes: per object id (0 = volume) three specs: None | ["g", n] | ["r", len_u]
  order: object list order (list of ids)
  cons: list of
    {"k":"grid","o":i,"es":[[axis,side,coord],...]}            side 0 = "-", 1 = "+"
    {"k":"real","o":i,"es":[[axis,side,coord_u],...]}          coordinate relative to the domain centre
    {"k":"pos","o":i,"other":j,"es":[[axis,qn,pn,margin_u,grid_margin],...]}   positions = qn/D, pn/D
    {"k":"size","o":i,"other":j,"es":[[axis,other_axis,prn,offset_u,grid_offset],...]}  proportion = prn/D
    {"k":"ext","o":i,"other":j|None,"a":axis,"dir":0|1,"pn":pn,"off":off_u,"goff":g}
"""
from __future__ import annotations

import copy

from lib.core import zlit, lst, natlit, blit

HEADER = "From Coq Require Import ZArith Bool.\nFrom FV Require Import base.Util model.Place.\nOpen Scope Z_scope."


# ----------------------------------------------------------------------------- Coq rendering
def n_(i):
    return f"{int(i)}%nat"


def spec_lit(s):
    if s is None:
        return "SNone"
    return f"(SGrid {zlit(s[1])})" if s[0] == "g" else f"(SReal {zlit(s[1])})"


def env_lit(sys_, order=None):
    order = sys_["order"] if order is None else order
    return ("(Build_env " + zlit(sys_["D"]) + " " + lst(sys_["N"], zlit) + " 0%nat " + lst(order, n_) + " "
            + lst(sys_["shapes"], lambda sp: lst(sp, spec_lit)) + ")")


def con_lit(c):
    k = c["k"]
    if k in ("grid", "real"):
        es = lst(c["es"], lambda e: f"({n_(e[0])}, {blit(e[1])}, {zlit(e[2])})")
        return f"({'CGrid' if k == 'grid' else 'CReal'} {n_(c['o'])} {es})"
    if k == "pos":
        es = lst(c["es"], lambda e: f"({n_(e[0])}, {zlit(e[1])}, {zlit(e[2])}, {zlit(e[3])}, {zlit(e[4])})")
        return f"(CPos {n_(c['o'])} {n_(c['other'])} {es})"
    if k == "size":
        es = lst(c["es"], lambda e: f"({n_(e[0])}, {n_(e[1])}, {zlit(e[2])}, {zlit(e[3])}, {zlit(e[4])})")
        return f"(CSize {n_(c['o'])} {n_(c['other'])} {es})"
    if k == "ext":
        ot = "None" if c["other"] is None else f"(Some {n_(c['other'])})"
        return f"(CExt {n_(c['o'])} {ot} {n_(c['a'])} {blit(c['dir'])} {zlit(c['pn'])} {zlit(c['off'])} {zlit(c['goff'])})"
    raise ValueError(k)


def cons_lit(cons):
    return lst(cons, con_lit)


def slices_lit(order, slices):
    """slices: {str(id): [[lo,hi]*3]} (None allowed) -> list (list (option Z * option Z)) in `order`."""
    o_ = lambda v: "None" if v is None else f"(Some {zlit(v)})"
    return lst(order, lambda o: lst(slices[str(o)], lambda p: f"({o_(p[0])}, {o_(p[1])})"))


def agree_expr(sys_, order, cons, out, fuel=1000, early=False):
    """Coq bool: the model's resolve on (order, cons) equals the implementation output `out`."""
    if "raised" in out:
        return "false"
    return (f"(place_agrees {blit(early)} {env_lit(sys_, order)} {cons_lit(cons)} {natlit(fuel)} "
            f"{slices_lit(order, out['slices'])} {lst(out['errs'], n_)})")


# ----------------------------------------------------------------------------- independent predicate
def _edge_np(n, i):
    if 0 <= i <= n:
        return i
    if -(n + 1) <= i < 0:
        return n + 1 + i
    return None


def _nearest_ok(D, n, idx, c):
    """idx in [0,n] minimises |2D*i - c| (any minimiser accepted)."""
    return 0 <= idx <= n and all(abs(2 * D * idx - c) <= abs(2 * D * i - c) for i in range(n + 1))


def check_constraints(sys_, cons, slices):
    """Evaluate every constraint relation on resolved slices {str(id): [[lo,hi]*3]}.  Returns list of
    human-readable violations (empty = all hold).  Uses only the statement of the property."""
    D, N = sys_["D"], sys_["N"]
    bad = []
    S = {int(k): v for k, v in slices.items()}
    for o, sl in S.items():
        for a in range(3):
            lo, hi = sl[a]
            if lo is None or hi is None:
                bad.append(f"object {o} axis {a} unresolved")
                continue
            if o != 0 and not (S[0][a][0] <= lo < hi <= S[0][a][1]):
                bad.append(f"object {o} axis {a} slice ({lo},{hi}) not a non-empty interval inside the volume {S[0][a]}")
            sp = sys_["shapes"][o][a]
            if sp is not None and sp[0] == "g" and hi - lo != sp[1]:
                bad.append(f"object {o} axis {a}: declared grid shape {sp[1]} but placed size {hi - lo}")
            if sp is not None and sp[0] == "r" and not _nearest_ok(D, N[a], hi - lo, sp[1]):
                bad.append(f"object {o} axis {a}: declared real shape {sp[1]}u but placed size {hi - lo}")
    if bad:
        return bad
    for ci, c in enumerate(cons):
        k, o = c["k"], c["o"]
        if k == "grid":
            for a, side, v in c["es"]:
                if S[o][a][side] != v:
                    bad.append(f"constraint {ci} (grid coordinate): object {o} axis {a} side {side} is {S[o][a][side]}, required {v}")
        elif k == "real":
            for a, side, v in c["es"]:
                if not _nearest_ok(D, N[a], S[o][a][side], v + D * N[a]):
                    bad.append(f"constraint {ci} (real coordinate): object {o} axis {a} side {side} is {S[o][a][side]}, not the edge nearest to {v}u")
        elif k == "pos":
            for a, qn, pn, m, g in c["es"]:
                pl, ph = S[c["other"]][a]
                el, eh = _edge_np(N[a], pl), _edge_np(N[a], ph)
                lo, hi = S[o][a]
                s = hi - lo
                if el is None or eh is None:
                    bad.append(f"constraint {ci} (position): reference object outside the grid")
                    continue
                target = 2 * D * el + (pn + D) * (eh - el) + m + 2 * D * g
                mine = lambda l: abs(2 * D * l + (qn + D) * s - target)
                if not (0 <= lo <= N[a] - s and all(mine(lo) <= mine(l) for l in range(N[a] - s + 1))):
                    bad.append(f"constraint {ci} (position): object {o} axis {a} at ({lo},{hi}) is not the placement whose anchor is nearest to {target}u")
        elif k == "size":
            for a, oa, prn, off, goff in c["es"]:
                pl, ph = S[c["other"]][oa]
                target = 2 * (ph - pl) * prn + off + 2 * D * goff
                lo, hi = S[o][a]
                if not (0 <= pl <= ph <= N[oa]) or target < 0 or not _nearest_ok(D, N[a], hi - lo, target):
                    bad.append(f"constraint {ci} (size): object {o} axis {a} size {hi - lo} is not the cell count nearest to {target}u")
        elif k == "ext":
            a, d = c["a"], c["dir"]
            if c["other"] is None:
                if S[o][a][d] != S[0][a][d]:
                    bad.append(f"constraint {ci} (extension to volume): object {o} axis {a} side {d} is {S[o][a][d]}, volume {S[0][a][d]}")
            else:
                pl, ph = S[c["other"]][a]
                el, eh = _edge_np(N[a], pl), _edge_np(N[a], ph)
                if el is None or eh is None:
                    bad.append(f"constraint {ci} (extension): reference object outside the grid")
                    continue
                target = 2 * D * el + (c["pn"] + D) * (eh - el) + c["off"] + 2 * D * c["goff"]
                if not _nearest_ok(D, N[a], S[o][a][d], target):
                    bad.append(f"constraint {ci} (extension): object {o} axis {a} side {d} is {S[o][a][d]}, not the edge nearest to {target}u")
    # unconstrained axes span the volume
    touched = set()
    for c in cons:
        if c["k"] == "ext":
            touched.add((c["o"], c["a"]))
        else:
            for e in c["es"]:
                touched.add((c["o"], e[0]))
    for o, sl in S.items():
        for a in range(3):
            if o != 0 and sys_["shapes"][o][a] is None and (o, a) not in touched and list(sl[a]) != [0, N[a]]:
                bad.append(f"object {o} axis {a} is unconstrained but placed at {sl[a]} instead of spanning (0,{N[a]})")
    return bad


# ----------------------------------------------------------------------------- generator
def gen_system(rng, nobj=None, valid=True, redundancy=0.5, dag=0.9):
    """Random constraint system built around a ground-truth layout, so that it is satisfiable;
    `valid=False` perturbs one number afterwards (usually making it inconsistent)."""
    D = rng.choice([1, 2, 2, 4])
    N = [rng.randint(6, 14) for _ in range(3)]
    n = nobj or rng.randint(2, 8)
    truth = {0: [(0, N[a]) for a in range(3)]}
    shapes = [[["g", N[a]] for a in range(3)]] + [[None] * 3 for _ in range(n - 1)]
    entries = []  # (kind, o, other, entry)  or ("ext", o, other, dict)

    def box(a):
        lo = rng.randint(0, N[a] - 1)
        return lo, rng.randint(lo + 1, N[a])

    def pick_other(o):
        if rng.random() < dag:
            return rng.randrange(0, o)
        c = [j for j in range(n) if j != o]
        return rng.choice(c)

    def pert():
        return rng.randint(-(D - 1), D - 1) if D > 1 and rng.random() < 0.5 else 0

    def posn():
        return rng.choice([-D, 0, D, D, -D, rng.randint(-D, D)])

    def pos_entry(o, a, other):
        lo, hi = truth[o][a]
        s = hi - lo
        pl, ph = truth[other][a] if other in truth and truth[other][a] else (0, N[a])
        qn, pn = posn(), posn()
        diff = 2 * D * lo + (qn + D) * s - (2 * D * pl + (pn + D) * (ph - pl))
        g = rng.choice([0, 0, 0, rng.randint(-2, 2)])
        return [a, qn, pn, diff - 2 * D * g + pert(), g]

    def size_entry(o, a, other, oa):
        lo, hi = truth[o][a]
        pl, ph = truth[other][oa]
        prn = rng.choice([D, D, 2 * D, rng.randint(0, 2 * D)])
        goff = rng.choice([0, 0, rng.randint(-2, 2)])
        return [a, oa, prn, 2 * D * (hi - lo) - 2 * (ph - pl) * prn - 2 * D * goff + pert(), goff]

    def ext_con(o, a, d, other):
        bound = truth[o][a][d]
        if other is None:
            return {"k": "ext", "o": o, "other": None, "a": a, "dir": d, "pn": 0, "off": 0, "goff": 0}
        pl, ph = truth[other][a]
        pn = posn()
        goff = rng.choice([0, 0, rng.randint(-2, 2)])
        off = 2 * D * bound - (2 * D * pl + (pn + D) * (ph - pl)) - 2 * D * goff + pert()
        return {"k": "ext", "o": o, "other": other, "a": a, "dir": d, "pn": pn, "off": off, "goff": goff}

    def shape_spec(s):
        return ["g", s] if rng.random() < 0.75 else ["r", 2 * D * s + pert()]

    # other objects may only be referenced once their truth on that axis exists: fill truths first
    modes = {}
    for o in range(1, n):
        truth[o] = [None] * 3
        for a in range(3):
            mode = rng.choice(["grid2", "shape_grid1", "shape_pos", "size_pos", "size_grid1", "ext2", "ext1_shape",
                               "ext1_free", "grid1_free", "free", "shape_free", "shape_pos", "size_pos"])
            lo, hi = box(a)
            if mode == "free":
                lo, hi = 0, N[a]
            elif mode in ("ext1_free", "grid1_free"):
                if rng.random() < 0.5:
                    hi = N[a]
                    modes[(o, a, "given")] = 0
                else:
                    lo = 0
                    modes[(o, a, "given")] = 1
            elif mode == "shape_free":
                lo = 0  # known size, no position: extends from 0
            truth[o][a] = (lo, hi)
            modes[(o, a)] = mode
    for o in range(1, n):
        for a in range(3):
            mode = modes[(o, a)]
            lo, hi = truth[o][a]
            s = hi - lo
            other = pick_other(o)
            if mode == "grid2":
                entries.append(("grid", o, None, [a, 0, lo]))
                entries.append(("grid", o, None, [a, 1, hi]))
                if rng.random() < 0.3:
                    shapes[o][a] = shape_spec(s)
            elif mode == "shape_grid1":
                shapes[o][a] = shape_spec(s)
                side = rng.randint(0, 1)
                if rng.random() < 0.7:
                    entries.append(("grid", o, None, [a, side, (lo, hi)[side]]))
                else:
                    entries.append(("real", o, None, [a, side, 2 * D * (lo, hi)[side] - D * N[a] + pert()]))
            elif mode == "shape_pos":
                shapes[o][a] = shape_spec(s)
                entries.append(("pos", o, other, pos_entry(o, a, other)))
            elif mode in ("size_pos", "size_grid1"):
                oa = rng.choice([a, a, rng.randrange(3)])
                so = pick_other(o)
                entries.append(("size", o, so, size_entry(o, a, so, oa)))
                if mode == "size_pos":
                    entries.append(("pos", o, other, pos_entry(o, a, other)))
                else:
                    side = rng.randint(0, 1)
                    entries.append(("grid", o, None, [a, side, (lo, hi)[side]]))
            elif mode == "ext2":
                for d in (0, 1):
                    ot = None if truth[o][a][d] == (0, N[a])[d] and rng.random() < 0.7 else pick_other(o)
                    entries.append(("ext", o, ot, ext_con(o, a, d, ot)))
            elif mode == "ext1_shape":
                shapes[o][a] = shape_spec(s)
                d = rng.randint(0, 1)
                entries.append(("ext", o, other, ext_con(o, a, d, other)))
            elif mode == "ext1_free":
                d = modes[(o, a, "given")]
                entries.append(("ext", o, other, ext_con(o, a, d, other)))
            elif mode == "grid1_free":
                d = modes[(o, a, "given")]
                entries.append(("grid", o, None, [a, d, (lo, hi)[d]]))
            elif mode == "shape_free":
                shapes[o][a] = shape_spec(s)
            # redundant (consistent) extra information: this is what late checks have to verify
            if mode != "free" and rng.random() < redundancy:
                r = rng.random()
                if r < 0.4:
                    side = rng.randint(0, 1)
                    entries.append(("grid", o, None, [a, side, (lo, hi)[side]]))
                elif r < 0.8:
                    ot = pick_other(o)
                    if shapes[o][a] is None and rng.random() < 0.5:
                        shapes[o][a] = ["g", s]
                    entries.append(("pos", o, ot, pos_entry(o, a, ot)))
                else:
                    ot = pick_other(o)
                    entries.append(("size", o, ot, size_entry(o, a, ot, a)))
    # group entries into constraint objects
    cons = []
    rng.shuffle(entries)
    for kind, o, other, e in entries:
        if kind == "ext":
            cons.append(e)
            continue
        merged = False
        if rng.random() < 0.6:
            for c in cons:
                if c["k"] == kind and c["o"] == o and c.get("other") == other and len(c["es"]) < 6:
                    c["es"].append(e)
                    merged = True
                    break
        if not merged:
            c = {"k": kind, "o": o, "es": [e]}
            if other is not None:
                c["other"] = other
            cons.append(c)
    rng.shuffle(cons)
    order = list(range(n))
    if rng.random() < 0.6:
        rng.shuffle(order)
    sys_ = {"D": D, "N": N, "shapes": shapes, "order": order, "cons": cons, "truth": {str(k): v for k, v in truth.items()}}
    if not valid:
        perturb(rng, sys_)
    return sys_


def perturb(rng, sys_):
    """Change one number by at least one cell."""
    D = sys_["D"]
    cons = sys_["cons"]
    for _ in range(20):
        if cons and rng.random() < 0.8:
            c = rng.choice(cons)
            delta = rng.choice([-2, -1, 1, 2, 3])
            if c["k"] == "grid":
                rng.choice(c["es"])[2] += delta
            elif c["k"] == "real":
                rng.choice(c["es"])[2] += 2 * D * delta
            elif c["k"] == "pos":
                e = rng.choice(c["es"])
                if rng.random() < 0.5:
                    e[3] += 2 * D * delta
                else:
                    e[4] += delta
            elif c["k"] == "size":
                e = rng.choice(c["es"])
                if rng.random() < 0.5:
                    e[3] += 2 * D * delta
                else:
                    e[4] += delta
            else:
                if c["other"] is None:
                    continue
                c["goff"] += delta
            sys_["perturbed"] = True
            return
        o = rng.randrange(1, len(sys_["shapes"]))
        a = rng.randrange(3)
        sp = sys_["shapes"][o][a]
        if sp is not None and sp[0] == "g":
            sp[1] = max(1, sp[1] + rng.choice([-1, 1, 2]))
            sys_["perturbed"] = True
            return


# witnesses of the early-exit defect (DESIGN §8 / appendix B.6), kept first in every run
def witness_three(order=(1, 0, 2)):
    """3 objects, A fixed at (3,7), B centred in the volume, A's lower side must touch B's upper side
    (violated: 3 != 12).  order = permutation of the constraint list [C1, C2, C3]."""
    cs = [{"k": "grid", "o": 1, "es": [[a, s, (3, 7)[s]] for a in range(3) for s in (0, 1)]},
          {"k": "pos", "o": 1, "other": 2, "es": [[a, -1, 1, 0, 0] for a in range(3)]},
          {"k": "pos", "o": 2, "other": 0, "es": [[a, 0, 0, 0, 0] for a in range(3)]}]
    return {"D": 1, "N": [20, 20, 20], "shapes": [[["g", 20]] * 3, [["g", 4]] * 3, [["g", 4]] * 3],
            "order": [0, 1, 2], "cons": [copy.deepcopy(cs[i]) for i in order]}


def witness_stagger():
    """pad (8x8x4) with y/z position known up front (partial_real_position) and x via [E]; chip (4^3) centred on pad in x AND y by ONE two-axis constraint [C], z by [Cz];
    probe (2^3) right of chip along x [D], centred in y/z [Dyz].  C resolves its y axis one pass before its x axis when it is listed before E
    (seeded regression C27_1: a per-call 'resolved something' flag that only reports the last axis)."""
    cs = [{"k": "pos", "o": 1, "other": 0, "es": [[0, -1, -1, 0, 3]]},
          {"k": "pos", "o": 2, "other": 1, "es": [[0, 0, 0, 0, 0], [1, 0, 0, 0, 0]]},
          {"k": "pos", "o": 2, "other": 1, "es": [[2, 0, 0, 0, 0]]},
          {"k": "pos", "o": 3, "other": 2, "es": [[0, -1, 1, 0, 0]]},
          {"k": "pos", "o": 3, "other": 2, "es": [[1, 0, 0, 0, 0], [2, 0, 0, 0, 0]]}]
    return {"D": 1, "N": [20, 20, 20], "shapes": [[["g", 20]] * 3, [["g", 8], ["g", 8], ["g", 4]], [["g", 4]] * 3, [["g", 2]] * 3],
            "order": [0, 1, 2, 3], "cons": cs, "real_pos": {"1": [None, 0.0, 0.0]}}


def witness_size_first():
    """stretched x axis (six cells of width 2 units, then six of width 4): Y (4 cells) sits at cells 6..10 (extent 16), X starts at 0 and takes
    Y's extent through a SizeConstraint, i.e. 6 + 1 = 7 cells... the size rule must wait until Y is placed: measuring Y's 4 cells anywhere
    else (seeded regression C27_3: from the lower domain edge) gives another cell count, and then the outcome depends on the constraint order."""
    cs = [{"k": "size", "o": 1, "other": 2, "es": [[0, 0, 1, 0, 0]]},
          # Y's lower side 12 units above the volume's lower side (= edge 6 of the stretched axis), by a PositionConstraint
          {"k": "pos", "o": 2, "other": 0, "es": [[0, -1, -1, 12, 0], [1, -1, -1, 0, 0], [2, -1, -1, 0, 0]]},
          {"k": "real", "o": 1, "es": [[0, 0, 0], [1, 0, 0], [2, 0, 0]]}]
    return {"D": 1, "N": [12, 2, 2], "shapes": [[["g", 12], ["g", 2], ["g", 2]], [None, ["g", 1], ["g", 1]], [["g", 4], ["g", 1], ["g", 1]]],
            "order": [0, 1, 2], "cons": cs, "widths": [[2] * 6 + [4] * 6, [2, 2], [2, 2]]}


def witness_single():
    """one object with declared grid shape 4 and grid coordinates (3,9) on every axis."""
    return {"D": 1, "N": [20, 20, 20], "shapes": [[["g", 20]] * 3, [["g", 4]] * 3], "order": [0, 1],
            "cons": [{"k": "grid", "o": 1, "es": [[a, s, (3, 9)[s]] for a in range(3) for s in (0, 1)]}]}
