#!/bin/bash
# usage: process_seed.sh <Cxx> <n> [check ids...]   — verifies demo on /repo and on the seed worktree, runs the checks against the seed, stores it
pid=$1; n=$2; shift 2; checks=${@:-$pid}
wt=/tmp/seed_${pid}_${n}
cd $wt || exit 1
echo "== demo on unmodified /repo/src"; (PYTHONPATH=/repo/src JAX_PLATFORMS=cpu timeout 1800 /venv/bin/python demo.py 2>&1 | tail -3; echo "rc=${PIPESTATUS[0]}")
echo "== demo on seeded worktree"; (PYTHONPATH=$wt/src JAX_PLATFORMS=cpu timeout 1800 /venv/bin/python demo.py 2>&1 | tail -3; echo "rc=${PIPESTATUS[0]}")
git -C /repo apply --check $wt/patch.diff && echo "patch applies to /repo HEAD" || echo "PATCH DOES NOT APPLY TO /repo HEAD"
mkdir -p /verif/seeded/${pid}_${n}; cp patch.diff demo.py notes.md /verif/seeded/${pid}_${n}/ 2>/dev/null
cd /verif
for c in $checks; do echo "== check $c against seed"; FDTDX_REPO=$wt /venv/bin/python harness/check.py $c 2>&1 | grep -v "^KNOWN" | tail -4; done
