#!/venv/bin/python
"""Entry point:  harness/check.py <Cxx> [--tier quick|thorough] [--replay path]

Exit 0: property held on everything explored (KNOWN-FINDING lines allowed).
Exit 1: prints  VIOLATION property=<id> replay=<path> [no-failing-input-found]
"""
from __future__ import annotations

import argparse
import importlib
import json
import os
import sys
import time
import traceback
from pathlib import Path

sys.path.insert(0, str(Path(__file__).resolve().parent))
from lib import core  # noqa: E402
from lib.core import COQ, VERIF, Ctx  # noqa: E402


def build_and_assumptions(mod, ctx, ev):
    """Step 1/4: build the proofs the property depends on; capture Print Assumptions."""
    broken = []
    props_file = mod.PROPS_FILE
    deps = core.coq_deps(props_file)
    gate = core.grep_gate(deps)
    if gate:
        broken.append({"kind": "gate", "what": gate})
    targets = [d[:-2] + ".vo" for d in deps if d != props_file]
    t = time.time()
    ok, log = core.coq_make(targets)
    if not ok:
        broken.append({"kind": "proof", "what": "make failed for dependencies of " + props_file, "log": log[-3000:]})
        ok2, out, err = False, "", ""
    else:
        ok2, out, err = core.coqc(COQ / props_file)
        if not ok2:
            broken.append({"kind": "proof", "what": f"{props_file} does not compile", "log": err[-3000:]})
    oblig = core.count_qed(deps)
    ev["coverage"]["obligations"] = oblig
    ev["coverage"]["discharged"] = oblig if (ok and ok2) else 0
    ev["coverage"]["proof_files"] = deps
    ev["coverage"]["checker_cmd"] = f"make -C /verif/coq {' '.join(targets[-3:])} ...; coqc -Q /verif/coq FV {props_file}"
    # Print Assumptions output
    tb = []
    if ok2:
        txt = out
        import re
        thms = re.findall(r"^Print Assumptions\s+(\S+)\.", (COQ / props_file).read_text(), flags=re.M)
        blocks = re.split(r"(?=Closed under the global context|Axioms:)", txt)
        blocks = [b.strip() for b in blocks if b.strip().startswith(("Closed", "Axioms"))]
        for name, b in zip(thms, blocks):
            b1 = " ".join(b.split())
            tb.append(f"{name}: {b1[:600]}")
        ev["coverage"]["theorems"] = thms
    ev["coverage"]["trusted_base"] = tb + list(getattr(mod, "TRUSTED", []))
    ev["coverage"]["build_s"] = round(time.time() - t, 1)
    return broken


def run_check(pid: str, tier: str, seed: int) -> int:
    mod = importlib.import_module(f"props.{pid}")
    ctx = Ctx(pid, tier, seed)
    ev = {
        "property_id": pid, "tier": tier, "seed": seed, "level": "proof",
        "coverage": {}, "assumptions": list(getattr(mod, "ASSUMPTIONS", [])), "wall_s": 0.0, "violations": 0,
    }
    cov = ev["coverage"]
    broken = build_and_assumptions(mod, ctx, ev)
    model_ok = not any(b["kind"] == "proof" and "make failed" in b["what"] for b in broken)

    # step 2: translator tie
    if hasattr(mod, "translate"):
        try:
            tr = mod.translate(ctx)
        except Exception as e:  # fail closed
            tr = [("translator", False, f"{type(e).__name__}: {e}")]
        cov["translator"] = [{"unit": n, "ok": ok, "msg": msg[-500:]} for n, ok, msg in tr]
        for n, ok, msg in tr:
            if not ok:
                broken.append({"kind": "translator", "what": n, "log": msg[-3000:]})

    # step 3: correspondence + predicate
    failures = []  # (case, out, key, msg)
    cases = mod.gen_cases(ctx)
    t = time.time()
    try:
        outs = mod.run_cases(ctx, cases) if hasattr(mod, "run_cases") else core.run_impl_sharded(mod.IMPL, cases)
    except Exception as e:
        outs = None
        broken.append({"kind": "impl", "what": "implementation driver failed", "log": f"{e}"[-4000:]})
    cov["impl_s"] = round(time.time() - t, 1)
    n_cmp = n_ok = 0
    if outs is not None:
        exprs, idx = [], []
        for i, (c, o) in enumerate(zip(cases, outs)):
            e = mod.coq_expr(c, o) if model_ok and hasattr(mod, "coq_expr") else None
            if e is not None:
                exprs.append(e)
                idx.append(i)
        t = time.time()
        if exprs:
            res, errs = core.coq_eval_shards(pid, mod.COQ_HEADER, exprs, shard_size=getattr(mod, "SHARD", 200))
            n_cmp = len(res)
            for r, i in zip(res, idx):
                if r is True:
                    n_ok += 1
                elif r is False:
                    broken.append({"kind": "correspondence", "what": f"model and implementation differ on case {i}",
                                   "case": cases[i], "impl_out": core.trunc(outs[i]),
                                   "model_says": mod.show_model(cases[i], outs[i]) if hasattr(mod, "show_model") else None})
            if errs:
                broken.append({"kind": "correspondence", "what": "model evaluation failed", "log": errs[:3]})
        cov["coq_eval_s"] = round(time.time() - t, 1)
        for i, (c, o) in enumerate(zip(cases, outs)):
            try:
                r = mod.predicate(c, o)
            except Exception as e:
                r = ("predicate-crash", f"{type(e).__name__}: {e}")
            if r:
                failures.append((c, o, r[0], r[1]))
    # de-duplicate correspondence breaks (keep first 5)
    corr = [b for b in broken if b["kind"] == "correspondence"]
    if len(corr) > 5:
        broken = [b for b in broken if b["kind"] != "correspondence"] + corr[:5]
        broken.append({"kind": "correspondence", "what": f"... and {len(corr) - 5} more mismatching cases"})

    # step 5: on a break without a concrete failing input, search for one
    searched = 0
    if broken and not failures and hasattr(mod, "search"):
        try:
            found, searched = mod.search(ctx, broken)
            failures += found
        except Exception as e:
            ctx.notes.append(f"search crashed: {e}")

    # evidence counts
    nontriv = set()
    hist = {}
    if outs is not None:
        for c, o in zip(cases, outs):
            if not hasattr(mod, "nontrivial") or mod.nontrivial(c, o):
                nontriv.add(core.case_hash(c))
            if hasattr(mod, "classify"):
                k = mod.classify(c, o)
                hist[k] = hist.get(k, 0) + 1
    cov.update(
        evaluations=len(cases) + searched,
        distinct_nontrivial=len(nontriv),
        traces_validated_against_impl=n_ok,
        model_vs_impl_compared=n_cmp,
        rule=getattr(mod, "RULE", ""),
        samples=[{"case": core.trunc(c, 600), "impl": core.trunc(o, 600)} for c, o in list(zip(cases, outs or []))[:3]],
        input_distribution=hist,
        exhaustive=bool(getattr(mod, "EXHAUSTIVE", {}).get(tier, False)),
        notes=ctx.notes,
    )
    if hasattr(mod, "extra_evidence"):
        cov.update(mod.extra_evidence(ctx))

    # step 6: report
    known = core.known_findings(pid)
    rc = 0
    rdir = VERIF / "replays" / pid
    n_viol = 0
    reported = set()
    for c, o, key, msg in failures:
        if key in reported:
            continue
        reported.add(key)
        if key in known:
            print(f"KNOWN-FINDING: property={pid} {key}: {known[key]}")
            continue
        n_viol += 1
        path = rdir / f"{tier}_{seed}_{n_viol}.json"
        core.write_json(path, {"property": pid, "kind": "failing-input", "key": key, "message": msg, "case": c,
                               "impl_out": core.trunc(o, 4000), "seed": seed, "tier": tier,
                               "broken_obligations": [b["what"] for b in broken]})
        print(f"VIOLATION property={pid} replay={path}")
        rc = 1
    if broken and n_viol == 0:
        known_only = failures and all(k in known for _, _, k, _ in failures)
        # a break explained only by listed findings is still a break of the proof/correspondence
        n_viol += 1
        path = rdir / f"{tier}_{seed}_broken.json"
        core.write_json(path, {"property": pid, "kind": "broken-obligation", "broken": broken, "seed": seed, "tier": tier,
                               "note": "no concrete input violating the property statement was found; the named theorem / "
                                       "correspondence no longer checks", "known_only": bool(known_only)})
        print(f"VIOLATION property={pid} replay={path} no-failing-input-found")
        rc = 1
    ev["violations"] = n_viol
    ev["wall_s"] = round(time.time() - ctx.t0, 1)
    cov["broken"] = [b["what"] for b in broken]
    # runs against another tree (FDTDX_REPO override: seeded changes, historical commits) keep their evidence apart
    ev_dir = VERIF / "evidence" if str(core.REPO) == "/repo" else VERIF / "replays" / "_evidence_other_tree"
    ev_dir.mkdir(parents=True, exist_ok=True)
    core.write_json(ev_dir / f"{pid}.json", ev)
    print(f"[{pid}] tier={tier} seed={seed} cases={len(cases)} compared={n_cmp} agree={n_ok} "
          f"obligations={cov.get('obligations')} discharged={cov.get('discharged')} violations={n_viol} wall={ev['wall_s']}s")
    return rc


def replay(pid: str, path: str) -> int:
    mod = importlib.import_module(f"props.{pid}")
    r = json.loads(Path(path).read_text())
    if r.get("kind") != "failing-input":
        print(json.dumps(r, indent=1)[:4000])
        return 1
    ctx = Ctx(pid, "quick", r.get("seed", 0))
    outs = mod.run_cases(ctx, [r["case"]]) if hasattr(mod, "run_cases") else core.run_impl_sharded(mod.IMPL, [r["case"]])
    res = mod.predicate(r["case"], outs[0])
    print("replay:", "still fails: " + str(res) if res else "passes now")
    return 1 if res else 0


if __name__ == "__main__":
    ap = argparse.ArgumentParser()
    ap.add_argument("pid")
    ap.add_argument("--tier", default=os.environ.get("VERIF_TIER", "quick"))
    ap.add_argument("--replay")
    a = ap.parse_args()
    seed = int(os.environ.get("VERIF_SEED", "0"))
    if a.replay:
        sys.exit(replay(a.pid, a.replay))
    try:
        sys.exit(run_check(a.pid, a.tier, seed))
    except Exception:
        traceback.print_exc()
        path = VERIF / "replays" / a.pid / f"{a.tier}_{seed}_crash.json"
        core.write_json(path, {"property": a.pid, "kind": "check-crash", "trace": traceback.format_exc()})
        print(f"VIOLATION property={a.pid} replay={path} no-failing-input-found")
        sys.exit(1)
