"""C05 — forward results do not depend on the gradient strategy; slice partition."""
from lib import core
from lib.core import zlit, lst
from lib import translate as T

PID = "C05"
PROPS_FILE = "props/C05.v"
IMPL = "C05_impl.py"
COQ_HEADER = "From Coq Require Import ZArith.\nFrom FV Require Import base.PyNum base.Util model.Loop."
RULE = ("bounds cases: every (T,k), 1<=k<=T<=Tmax (exhaustive), model list == implementation list; "
        "run cases: placed scene (sources, detectors, PML/PEC/periodic, blocks with electric and magnetic loss, diagonal tensors, a Lorentz pole) run under no-grad / checkpointed(n) / reversible(n), each from the fresh container and again from the container returned by the first run; "
        "non-trivial = T>=2 and (k>=2 or a run with non-zero fields)")
EXHAUSTIVE = {"quick": True, "thorough": True}
ASSUMPTIONS = ["round(i*T/k) evaluated in double equals round-half-even of the exact quotient (T*k < 2^52)",
               "correspondence of field values is by comparison across configurations of the implementation itself; "
               "the per-step update is modelled in the Yee properties (C01,C02)"]
TRUSTED = ["translator harness/lib/translate.py (gen = model by reflexivity)", "correspondence harness (exact Z comparison)"]


def translate(ctx):
    src = core.REPO / "src/fdtdx/fdtd/fdtd.py"
    text = T.translate_function(src, "_reversible_slice_boundaries", "gen_slice_boundaries",
                                [("time_steps_total", "(time_steps_total : Z)"), ("num_slices", "(num_slices : Z)")], "list Z")
    g = core.gen_path("Gen_C05")
    g.parent.mkdir(exist_ok=True)
    g.write_text("From Coq Require Import ZArith List.\nFrom FV Require Import base.PyNum model.Loop.\nOpen Scope Z_scope.\n" + text +
                 "Lemma gen_eq_model : forall T k, gen_slice_boundaries T k = slice_boundaries T k.\nProof. reflexivity. Qed.\n")
    ok, out, err = core.coqc(g)
    return [("fdtd.py:_reversible_slice_boundaries", ok, err or "gen = model (reflexivity)")]


def scene(rng, T, i=0):
    bts = [{"min_x": "pec", "max_x": "pmc", "min_y": "periodic", "max_y": "periodic", "min_z": "pml", "max_z": "pml"},
           {f: "pml" for f in ("min_x", "max_x", "min_y", "max_y", "min_z", "max_z")},
           {"min_x": "periodic", "max_x": "periodic", "min_y": "pec", "max_y": "pec", "min_z": "pmc", "max_z": "pml"}]
    # material blocks: every material array of the container takes part (electric / magnetic loss, diagonal tensors, a Lorentz pole)
    blocks = [{"box": [[2, 5], [1, 4], [5, 7]], "eps": rng.choice([2.25, [2.0, 3.0, 4.0]]), "mu": rng.choice([1.5, [1.6, 1.0, 2.2]]),
               "sigma_e": 50.0 if i % 2 else rng.choice([None, 50.0]), "sigma_m": rng.choice([None, 1.0e7]) if i % 2 else 1.0e7, "name": "lossy"}]
    if i % 2:
        blocks.append({"box": [[1, 4], [3, 6], [7, 8]], "eps": 2.25, "lorentz": {"w0": 4.0e15, "g": 1.0e14, "de": 1.5}, "name": "lor"})
    return {"shape": [7, 6, 10], "spacing": 5e-8, "steps": T, "bt": rng.choice(bts), "thickness": 2, "blocks": blocks,
            "sources": [{"kind": "plane", "axis": 2, "pos": 4, "dir": "+", "pol": [1.0, 0.5, 0.0], "switch": {"fixed": sorted(rng.sample(range(T), max(1, T // 2)))}},
                        {"kind": "dipole", "cell": [3, 3, 5], "pol": 2, "switch": {"start_time": 1, "end_time": max(2, T - 2)}}],
            "detectors": [{"kind": "field", "box": [[2, 5], [2, 4], [3, 7]], "name": "fd"},
                          {"kind": "phasor", "box": [[2, 4], [2, 4], [4, 6]], "name": "ph", "switch": {"start_time": min(1, T - 1)}},
                          {"kind": "energy", "box": [[2, 5], [2, 5], [3, 6]], "name": "en", "opts": {"as_slices": False}}]}


def gen_cases(ctx):
    Tmax = ctx.pick(16, 60)
    cases = [{"kind": "bounds", "T": T, "ks": list(range(1, T + 1))} for T in range(1, Tmax + 1)]
    for i, T in enumerate(ctx.pick([5, 9], [1, 2, 3, 7, 12, 17])):
        ks = sorted(set([0, 1, T - 1, T // 2, T, T + 2]) - {-1})
        grads = [{"method": "checkpointed", "n": n} for n in sorted({1, max(1, T // 2), T})]
        grads += [{"method": "reversible", "n": n} for n in ks if n >= 0]
        cases.append({"kind": "run", "T": T, "spec": scene(ctx.rng, T, i), "grads": grads})
    return cases


def run_cases(ctx, cases):
    b = [c for c in cases if c["kind"] == "bounds"]
    r = [c for c in cases if c["kind"] == "run"]
    ob = core.run_impl(IMPL, {"cases": b})["outs"]
    orr = core.run_impl_sharded(IMPL, r, shard=len(r), timeout=3000) if r else []
    it_b, it_r = iter(ob), iter(orr)
    return [next(it_b) if c["kind"] == "bounds" else next(it_r) for c in cases]


def gcoq(g):
    return "NoGrad" if g is None else (f"(Checkpointed {zlit(g['n'])})" if g["method"] == "checkpointed" else f"(Reversible {zlit(g['n'])})")


def coq_expr(case, out):
    if case["kind"] == "bounds":
        T = case["T"]
        return "(" + " && ".join(f"zlist_eqb (slice_boundaries {zlit(T)} {zlit(k)}) {lst(b, zlit)}" for k, b in zip(case["ks"], out["bounds"])) + ")%bool"
    # run structure: model on the trivial counter state must give the same final step / error as the implementation
    if "error" in out:
        return "false"
    parts = []
    for r in out["runs"]:
        m = f"run_fdtd Z Z.succ (fun s => s) {gcoq(r['g'])} {zlit(out['T'])} 0%Z"
        if "error" in r and "Dispersive time-reversible" in r["error"]:
            continue      # refusal of dispersive media by the reversible method: outside the loop model
        if "error" in r:
            parts.append(f"match {m} with ErrTooManyCheckpoints => true | Ok _ => false end")
        else:
            parts.append(f"match {m} with Ok s => Z.eqb s {zlit(r['t'])} | _ => false end")
    return "(" + " && ".join(parts) + ")%bool"


def predicate(case, out):
    if case["kind"] == "bounds":
        T = case["T"]
        for k, b in zip(case["ks"], out["bounds"]):
            if not (len(b) == k + 1 and b[0] == 0 and b[-1] == T and all(x < y for x, y in zip(b, b[1:]))):
                return (f"partition-T{T}-k{k}", f"boundaries {b} do not partition [0,{T}] into {k} non-empty increasing segments")
        return None
    if "error" in out:
        return ("driver-error", out["error"])
    if out["t0"] != out["T"]:
        return (f"steps-nograd-T{out['T']}", f"plain run stopped at {out['t0']} != {out['T']}")
    for r in out["runs"]:
        g = r["g"]
        tag = f"{g['method']}-{g['n']}-T{out['T']}"
        if "error" in r:
            if g["method"] == "reversible" and "Dispersive time-reversible" in r["error"] and any(b.get("lorentz") for b in case["spec"].get("blocks", [])):
                continue      # documented refusal: the reversible method does not support dispersive media
            if not (g["method"] == "reversible" and g["n"] > 0 and g["n"] + 1 > out["T"]):
                return ("error-" + tag, f"unexpected error {r['error']}")
            continue
        tol = 1e-9
        if r["t"] != out["T"] or r["dE"] > tol * out["scale"] or r["dH"] > tol * out["scale"] or r["ddet"] > tol * max(out["detscale"], 1e-30):
            return ("differs-" + tag, f"run under {g} differs from plain run: {r}")
        if "again_error" in r:
            return ("again-error-" + tag, f"second run from the returned container failed: {r['again_error']}")
        if "t2" in r and (r["t2"] != out["T"] or r["dE2"] > tol * out["scale"] or r["dH2"] > tol * out["scale"] or r["ddet2"] > tol * max(out["detscale"], 1e-30)):
            return ("differs-from-returned-container-" + tag, f"run under {g} started from the container returned by a previous run differs from the plain run: {r}")
    return None


def nontrivial(case, out):
    return "error" not in out and case["T"] >= 2 and (case["kind"] == "bounds" or out.get("scale", 0) > 0)


def classify(case, out):
    return case["kind"]

LEVEL_TEXT = ("Theorems (all T,k, any state type and step function): slice boundaries partition [0,T] into k strictly increasing "
              "non-empty segments; run_fdtd's loop structure under every gradient configuration equals T plain forward steps. "
              "Tie: translator regenerates the boundary function from fdtd.py (gen = model by reflexivity); exhaustive (T,k) "
              "comparison and run_fdtd under all configurations on placed scenes.")
LEVEL_NOTE = ("Trusted: Coq kernel; translator; float round() == exact round-half-even for T*k<2^52; the equality of field values across "
              "configurations is observed on the implementation (predicate), the loop-structure theorem is about model/Loop.v.")
TECHNIQUE = "Coq proof (lia/nia on banker's rounding, induction over segment lists) + ast translator + differential runs"
