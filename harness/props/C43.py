"""C43 — shapes are rasterised by cell-centre inclusion (sphere/ellipsoid, cylinder, extruded polygon)."""
import math
from fractions import Fraction

from lib import core
from lib.core import lst, qlit, frac

PID = "C43"
PROPS_FILE = "props/C43.v"
IMPL = "C43_impl.py"
COQ_HEADER = ("From Coq Require Import ZArith QArith Qcanon.\n"
              "From FV Require Import base.Scalar base.Util model.PaintShapes.")
SHARD = 4
RULE = ("one sphere/ellipsoid, cylinder (axis 0/1/2) or extruded polygon (triangles, convex and concave polygons, a pentagram that "
        "separates even-odd from non-zero winding) placed in a volume on uniform grids (two spacings) and random non-uniform grids; "
        "the model mask computed over Qc from the implementation's edge arrays must equal get_voxel_mask_for_shape cell by cell "
        "(cells within 1e-9 of the boundary are exempt; two dyadic-exact scenes with a cell centre exactly on the surface are compared "
        "exactly); non-trivial = mask contains both values")
EXHAUSTIVE = {"quick": False, "thorough": False}
ASSUMPTIONS = ["matplotlib.path.Path.contains_points is an oracle: compared with the crossing rule only at points farther than 1e-9*size from every polygon edge",
               "float evaluation of the ellipsoid sum agrees with the exact sum outside a band |s-1| <= 1e-9",
               "slices of the placed object are inputs (placement is C26/C27)"]
TRUSTED = ["correspondence harness (exact rational conversion of floats)", "python predicate with Fractions (independent analytic inclusion test)"]
TOL = "(q 1 1000000000)"
SP = 1e-7
U = 2.0 ** -23          # dyadic length unit of the exact-boundary scenes


# ------------------------------------------------------------------------------------------ generation
MATS = [["air", {"eps": 1.0}], ["si", {"eps": 4.0}]]


def _radius(rng, sp, lo=1.2, hi=3.9):
    while True:
        r = rng.uniform(lo, hi)
        f = (2 * r) % 1.0
        if 0.08 < f < 0.42 or 0.58 < f < 0.92:
            return r * sp


def polygon(rng, sp, idx):
    kind = ["star", "tri", "concave", "quad", "ngon"][idx % 5]
    w, h = rng.uniform(2.5, 6.0) * sp, rng.uniform(2.5, 5.0) * sp
    if kind == "tri":
        v = [[0, 0], [1, rng.uniform(0, 0.4)], [rng.uniform(0.2, 0.8), 1]]
    elif kind == "quad":
        v = [[0, rng.uniform(0, 0.3)], [1, 0], [rng.uniform(0.6, 1), 1], [rng.uniform(0, 0.4), rng.uniform(0.7, 1)]]
    elif kind == "concave":
        v = [[0, 0], [1, 0], [1, 1], [rng.uniform(0.4, 0.6), rng.uniform(0.2, 0.5)], [0, 1]]
    elif kind == "star":     # pentagram: the central pentagon has winding number 2 (outside under even-odd)
        v = [[0.5 + 0.5 * math.cos(math.pi / 2 + 4 * math.pi * k / 5), 0.5 + 0.5 * math.sin(math.pi / 2 + 4 * math.pi * k / 5)] for k in range(5)]
        w = h = rng.uniform(5.0, 7.0) * sp
    else:
        n = rng.randrange(5, 9)
        v = [[0.5 + 0.5 * rng.uniform(0.5, 1) * math.cos(2 * math.pi * k / n), 0.5 + 0.5 * rng.uniform(0.5, 1) * math.sin(2 * math.pi * k / n)] for k in range(n)]
    xs, ys = [p[0] for p in v], [p[1] for p in v]
    x0, x1, y0, y1 = min(xs), max(xs), min(ys), max(ys)
    # normalise to the bounding box [-w/2, w/2] x [-h/2, h/2] (vertices are given relative to the box centre)
    return [[(p[0] - x0) / (x1 - x0) * w - w / 2, (p[1] - y0) / (y1 - y0) * h - h / 2] for p in v], kind


def gen_case(rng, i):
    nonuni = (i // 3) % 3 == 2
    sp = SP if (i // 9) % 2 == 0 else 2.5e-8
    shape = [14, 13, 12] if nonuni else [11, 10, 12]
    case = {"shape": shape, "spacing": sp, "vol_pos": 0, "objs": []}
    if nonuni:
        edges = []
        off = rng.uniform(-5, 5) * sp
        for n in shape:
            e = [off]
            for _ in range(n):
                e.append(e[-1] + rng.uniform(0.7, 1.4) * sp)
            edges.append(e)
        case["edges"] = edges
    kind = ["sphere", "cyl", "poly"][i % 3]
    o = {"kind": kind, "mats": MATS, "mat_name": "si", "order": 0}
    if kind == "sphere":
        r = [_radius(rng, sp) for _ in range(3)]
        o.update(radius=r[0], radius_y=r[1], radius_z=r[2])
        if rng.random() < 0.3:
            o.update(radius_y=None, radius_z=None)
            r = [r[0]] * 3
        size = [2 * x / sp for x in r]
    elif kind == "cyl":
        ax = (i // 3) % 3
        r = _radius(rng, sp)
        o.update(radius=r, axis=ax, height=rng.randrange(1, 5))
        size = [2 * r / sp] * 3
        size[ax] = o["height"]
    else:
        ax = rng.randrange(3)
        verts, pk = polygon(rng, sp, i // 3)
        o.update(axis=ax, height=rng.randrange(1, 4), vertices=verts, poly_kind=pk)
        tr = [a for a in range(3) if a != ax]
        size = [0, 0, 0]
        size[tr[0]] = (max(p[0] for p in verts) - min(p[0] for p in verts)) / sp
        size[tr[1]] = (max(p[1] for p in verts) - min(p[1] for p in verts)) / sp
        size[ax] = o["height"]
    # upper bound on the number of cells the object takes (non-uniform: cells >= 0.7*sp wide, +1 for snapping)
    cells = [int(math.ceil(s / 0.7)) + 1 if nonuni else int(round(s)) + 1 for s in size]
    o["lo"] = [rng.randrange(0, max(1, min(3, n - c + 1))) if nonuni else rng.randrange(0, max(1, n - c + 1)) for n, c in zip(shape, cells)]
    case["objs"].append(o)
    return case


def exact_cases():
    """dyadic scenes (unit U = 2^-23 m): a cell centre lies exactly on the surface (sum == 1.0 exactly in floats) -> outside"""
    def edges(widths):
        e = [0.0]
        for w in widths:
            e.append(e[-1] + w * U)
        return e
    ex = edges([1, 1, 1, 2, 1])      # object: 4 cells [0,5U], centre 2.5U, first cell centre 0.5U: distance 2U = r
    ey = edges([2, 1, 2, 1])          # object: 3 cells [0,5U], the middle cell is centred
    ez = edges([2, 1, 2, 1, 1])
    sph = {"shape": [5, 4, 5], "spacing": U, "edges": [ex, ey, ez], "vol_pos": 0, "exact": True,
           "objs": [{"kind": "sphere", "mats": MATS, "mat_name": "si", "order": 0, "radius": 2 * U, "lo": [0, 0, 0]}]}
    cyl = {"shape": [5, 4, 5], "spacing": U, "edges": [ex, ey, ez], "vol_pos": 0, "exact": True,
           "objs": [{"kind": "cyl", "mats": MATS, "mat_name": "si", "order": 0, "radius": 2 * U, "axis": 2, "height": 2, "lo": [0, 0, 1]}]}
    return [sph, cyl]


def gen_cases(ctx):
    cases = exact_cases()
    n = ctx.pick(18, 180)
    for i in range(n):
        cases.append(gen_case(ctx.rng, i))
    return cases


def run_cases(ctx, cases):
    return core.run_impl_sharded(IMPL, cases, shard=ctx.pick(2, 6), timeout=1500)


# ------------------------------------------------------------------------------------------ exact geometry (Fractions)
def _axes(out):
    res = []
    for a in range(3):
        e = [frac(x) for x in out["edges"][a]]
        lo, hi = out["box"][a]
        res.append((e, lo, hi))
    return res


def _centres(ax):
    e, lo, hi = ax
    mid = (e[lo] + e[hi]) / 2
    return [(e[i] + e[i + 1]) / 2 - mid for i in range(lo, hi)]      # relative to the box centre


def _seg_dist2(p, a, b):
    (px, py), (ax, ay), (bx, by) = p, a, b
    dx, dy = bx - ax, by - ay
    L = dx * dx + dy * dy
    t = Fraction(0) if L == 0 else max(Fraction(0), min(Fraction(1), ((px - ax) * dx + (py - ay) * dy) / L))
    qx, qy = ax + t * dx, ay + t * dy
    return (px - qx) ** 2 + (py - qy) ** 2


def _evenodd(p, verts):
    """textbook pnpoly with exact division (independent of the model's cross-multiplied form)"""
    px, py = p
    inside = False
    n = len(verts)
    for i in range(n):
        (xi, yi), (xj, yj) = verts[i], verts[(i - 1) % n]
        if (yi > py) != (yj > py):
            if px < (xj - xi) * (py - yi) / (yj - yi) + xi:
                inside = not inside
    return inside


def poly_tables(out):
    """expected mask (2-D, even-odd, coordinates relative to the box centre) and the skip table of near-edge cells"""
    axis = out["axis"]
    tr = [a for a in range(3) if a != axis]
    A = _axes(out)
    ch, cv = _centres(A[tr[0]]), _centres(A[tr[1]])
    verts = [(frac(x), frac(y)) for x, y in out["vertices"]]
    size = max(max(abs(x) for x, _ in verts), max(abs(y) for _, y in verts))
    tol2 = (Fraction(1, 10 ** 9) * size) ** 2
    exp = [[_evenodd((x, y), verts) for y in cv] for x in ch]
    skip = [[any(_seg_dist2((x, y), verts[k], verts[(k + 1) % len(verts)]) <= tol2 for k in range(len(verts))) for y in cv] for x in ch]
    return exp, skip, tr


def _expand(t2, axis, n):
    """2-D transverse table -> 3-D nested list [x][y][z] with n copies along axis"""
    if axis == 0:
        return [[[t2[j][k] for k in range(len(t2[0]))] for j in range(len(t2))] for _ in range(n)]
    if axis == 1:
        return [[[t2[i][k] for k in range(len(t2[0]))] for _ in range(n)] for i in range(len(t2))]
    return [[[t2[i][j] for _ in range(n)] for j in range(len(t2[0]))] for i in range(len(t2))]


# ------------------------------------------------------------------------------------------ Coq text
def axlit(out, a):
    lo, hi = out["box"][a]
    return f"(AX {lst(out['edges'][a], qlit)} {lo}%nat {hi}%nat)"


def b3(m):
    return lst(m, lambda p: lst(p, lambda r: lst(r, lambda b: "true" if b else "false")))


def coq_expr(case, out):
    if "error" in out:
        return None
    kind = case["objs"][0]["kind"]
    tol = "(q 0 1)" if case.get("exact") else TOL
    n3 = "(" + ", ".join(f"{n}%nat" for n in out["grid_shape"]) + ")"
    if kind == "sphere":
        r = out["radii"]
        return f"sphere_agree {tol} {axlit(out, 0)} {axlit(out, 1)} {axlit(out, 2)} {qlit(r[0])} {qlit(r[1])} {qlit(r[2])} {b3(out['mask'])}"
    axis = out["axis"]
    tr = [a for a in range(3) if a != axis]
    if kind == "cyl":
        return f"cyl_agree {tol} {axis}%nat {n3} {axlit(out, tr[0])} {axlit(out, tr[1])} {qlit(out['radius'])} {b3(out['mask'])}"
    _, skip, _ = poly_tables(out)
    verts = lst(out["vertices"], lambda v: f"({qlit(v[0])}, {qlit(v[1])})")
    return f"poly_agree {axis}%nat {n3} {axlit(out, tr[0])} {axlit(out, tr[1])} {verts} {b3(_expand(skip, axis, out['grid_shape'][axis]))} {b3(out['mask'])}"


# ------------------------------------------------------------------------------------------ predicate
def predicate(case, out):
    tag = "case-" + core.case_hash(case)[:10]
    if "error" in out:
        return (tag + "-error", "placement failed: " + out["error"])
    kind = case["objs"][0]["kind"]
    A = _axes(out)
    n = out["grid_shape"]
    mask = out["mask"]
    band = Fraction(0) if case.get("exact") else Fraction(1, 10 ** 9)
    if kind == "sphere":
        cs = [_centres(a) for a in A]
        r = [frac(x) for x in out["radii"]]
        for i in range(n[0]):
            for j in range(n[1]):
                for k in range(n[2]):
                    s = (cs[0][i] / r[0]) ** 2 + (cs[1][j] / r[1]) ** 2 + (cs[2][k] / r[2]) ** 2
                    if abs(s - 1) <= band and band > 0:
                        continue
                    if bool(mask[i][j][k]) != (s < 1):
                        return (tag + "-sphere", f"cell {(i, j, k)} of the sphere slice: mask={mask[i][j][k]} but the cell centre has "
                                                 f"normalised squared distance {float(s)!r} ({'inside' if s < 1 else 'not strictly inside'})")
    elif kind == "cyl":
        axis = out["axis"]
        tr = [a for a in range(3) if a != axis]
        ch, cv = _centres(A[tr[0]]), _centres(A[tr[1]])
        r = frac(out["radius"])
        for i in range(n[0]):
            for j in range(n[1]):
                for k in range(n[2]):
                    idx = (i, j, k)
                    s = (ch[idx[tr[0]]] / r) ** 2 + (cv[idx[tr[1]]] / r) ** 2
                    if abs(s - 1) <= band and band > 0:
                        continue
                    if bool(mask[i][j][k]) != (s < 1):
                        return (tag + "-cyl", f"cell {idx} of the cylinder slice (axis {axis}): mask={mask[i][j][k]} but the centre has "
                                              f"normalised squared distance {float(s)!r}")
    else:
        exp, skip, tr = poly_tables(out)
        for i in range(n[0]):
            for j in range(n[1]):
                for k in range(n[2]):
                    idx = (i, j, k)
                    a, b = idx[tr[0]], idx[tr[1]]
                    if skip[a][b]:
                        continue
                    if bool(mask[i][j][k]) != exp[a][b]:
                        return (tag + "-poly", f"cell {idx} of the polygon slice (axis {out['axis']}, {case['objs'][0].get('poly_kind')}): mask={mask[i][j][k]} "
                                               f"but the even-odd rule says {exp[a][b]}")
    # the mask is what ends up in the arrays: 1/4 inside, 1 elsewhere
    if out["ncomp"] != 1:
        return (tag + "-ncomp", f"isotropic scene allocated {out['ncomp']} components")
    (lx, hx), (ly, hy), (lz, hz) = out["box"]
    arr = out["inv_eps0"]
    for x in range(out["vol_shape"][0]):
        for y in range(out["vol_shape"][1]):
            for z in range(out["vol_shape"][2]):
                inside = lx <= x < hx and ly <= y < hy and lz <= z < hz and bool(mask[x - lx][y - ly][z - lz])
                if abs(arr[x][y][z] - (0.25 if inside else 1.0)) > 1e-12:
                    return (tag + "-array", f"inv_permittivities[{x},{y},{z}] = {arr[x][y][z]} but mask says inside={inside}")
    return None


def nontrivial(case, out):
    if "error" in out:
        return False
    flat = [b for p in out["mask"] for r in p for b in r]
    return any(flat) and not all(flat)


def classify(case, out):
    o = case["objs"][0]
    return f"{o['kind']}{'-' + o['poly_kind'] if o.get('poly_kind') else ''}-{'exact' if case.get('exact') else 'nonuni' if case.get('edges') else 'uni'}" + \
           (f"-ax{o['axis']}" if "axis" in o else "")


LEVEL_TEXT = ("Theorems (any ordered field, any edge coordinates, any slice): the sphere/ellipsoid and cylinder masks computed in "
              "object-local coordinates equal strict inclusion of the absolute cell centre in the analytic shape centred at the "
              "middle of the slice; the cylinder and polygon masks do not depend on the index along the extrusion axis; the "
              "polygon mask (crossing rule on locally shifted vertices) equals the crossing rule in absolute coordinates "
              "(translation invariance). Partial for polygons: 'inside' is defined by the even-odd crossing rule (no Jordan-curve "
              "theorem); matplotlib's contains_points is an oracle compared away from edges.")
LEVEL_NOTE = ("Exact-arithmetic semantics; cells whose centre is within 1e-9 (relative) of the surface are exempt from the comparison, "
              "except in the two dyadic scenes where the float computation is exact and the strictness of the inequality is tested.")
TECHNIQUE = "Coq proof (field identities, order lemmas of an abstract ordered field) + differential runs of get_voxel_mask_for_shape"
