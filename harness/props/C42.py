"""C42 — results do not depend on the number of devices."""
import numpy as np
from lib import core
from props import C08

PID = "C42"
PROPS_FILE = "props/C42.v"
IMPL = "C08_impl.py"
COQ_HEADER = "From Coq Require Import List Arith. Import ListNotations.\nFrom FV Require Import model.Sharding."
RULE = ("random placed scenes with grid extents divisible by 4 run through run_fdtd under XLA_FLAGS=--xla_force_host_platform_device_count "
        "in {1,2,4}; fields and detector records must be bit-identical or within 1e-12 relative; shape arithmetic of the shards vs the model")
ASSUMPTIONS = ["XLA SPMD partitioning and host-device emulation are runtime behaviour outside any model"]
TRUSTED = ["differential runs under emulated devices"]
LEVEL_TEXT = ("PARTIAL. Theorems: splitting an axis over d devices and gathering is the identity iff d divides the extent, shards are equal, and cell-wise "
              "computations are device-count independent. The end-to-end claim is decided by running the real code on 1, 2 and 4 emulated devices.")
LEVEL_NOTE = "The proof covers only the shard/gather arithmetic; the device-independence of the simulation is measured, not proved."
TECHNIQUE = "Coq proof (list split/concat) + differential runs under XLA host device emulation"
NDEV = [1, 2, 4]


def gen_cases(ctx):
    cases = []
    for i in range(ctx.pick(1, 4)):
        s = C08.gen_scene(ctx.rng, ctx.quick, i)
        s["bt"] = {f: ("periodic" if v == "pml" else v) for f, v in s["bt"].items()}
        for ax in "xyz":
            if "periodic" in (s["bt"][f"min_{ax}"], s["bt"][f"max_{ax}"]):
                s["bt"][f"min_{ax}"] = s["bt"][f"max_{ax}"] = "periodic"
        s["shape"] = [8, 8, 8]
        s["thickness"] = 1
        # two blocks of EQUAL extent at different positions (a sharded indexed update must not be keyed by extent only) and a third one
        s["blocks"] = [{"box": [[2, 6], [1, 5], [3, 7]], "eps": 2.25}, {"box": [[0, 4], [3, 7], [0, 4]], "eps": 9.0},
                       {"box": [[5, 8], [0, 2], [6, 8]], "eps": [2.0, 3.0, 4.0]},
                       # a top cladding slab and a block in the (+x,+y,+z) corner: regions that reach the upper faces without starting at 0
                       {"box": [[0, 8], [0, 8], [7, 8]], "eps": 1.5, "order": -1}, {"box": [[6, 8], [5, 8], [4, 8]], "eps": 6.0}]
        # a conductive GDS rib with sub-pixel smoothing: its side walls sit at sub-cell positions, so the blend mask of the conductivity
        # (and dispersion) arrays is fractional there
        s["gds_rib"] = {"poly_um": [[-0.13, -0.07], [0.09, -0.07], [0.09, 0.11], [-0.13, 0.11]], "thickness": 0.13e-6, "z_base": 0.06e-6,
                        "eps": 4.0, "sigma_e": 2.0e5, "smooth": True}
        s["sources"] = [{"kind": "dipole", "cell": [3, 4, 2], "pol": ctx.rng.randint(0, 2)}]
        s["detectors"] = [{"kind": "field", "box": [[1, 7], [2, 6], [1, 5]], "name": "fd", "opts": {"exact_interpolation": True}},
                          {"kind": "phasor", "box": [[2, 4], [2, 6], [3, 7]], "name": "ph"}]
        cases.append({"spec": s})
    return cases


def run_cases(ctx, cases):
    outs = []
    for c in cases:
        per = []
        for n in NDEV:
            r = core.run_impl(IMPL, {"cases": [c]}, timeout=2400, env={"XLA_FLAGS": f"--xla_force_host_platform_device_count={n}"})["outs"][0]
            per.append(r)
        outs.append(per)
    return outs


def coq_expr(case, out):
    n = case["spec"]["shape"][0]
    cells = core.lst([str(i) for i in range(n)])
    parts = [f"(match on_devices {d} S {cells} with Some r => list_eqb_nat r (map S {cells}) | None => false end)" for d in NDEV]
    return ("(let list_eqb_nat := (fix f (a b : list nat) := match a, b with [], [] => true | x :: a', y :: b' => Nat.eqb x y && f a' b' | _, _ => false end) in "
            + " && ".join(parts) + ")%bool")


def predicate(case, out):
    for n, o in zip(NDEV, out):
        if "error" in o:
            return (f"driver-error:ndev={n}", o["error"] + o.get("trace", "")[-300:])
        if o["ndev"] != n:
            return ("emulation-failed", f"asked for {n} devices, got {o['ndev']}")
    base = out[0]
    for n, o in zip(NDEV[1:], out[1:]):
        for k in ["E", "H"] + list(base["det"]):
            a = C08.arr(base[k] if k in ("E", "H") else base["det"][k])
            b = C08.arr(o[k] if k in ("E", "H") else o["det"][k])
            sc = max(float(np.abs(a).max()), 1e-300)
            if a.shape != b.shape or o["t"] != base["t"] or float(np.abs(a - b).max()) > 1e-12 * sc:
                return (f"device-count-differs:ndev={n}:{k}", f"{k} with {n} devices differs from 1 device by {float(np.abs(a - b).max()) / sc:.3e}")
    return None


def nontrivial(case, out):
    return all("error" not in o for o in out) and float(np.abs(C08.arr(out[0]["E"])).max()) > 0


def classify(case, out):
    return "ndev=1,2,4"
