"""C33 — electric-plane symmetry reduction is exact."""
from lib import core, yee_coq as Y

PID = "C33"
PROPS_FILE = "props/C33.v"
IMPL = "C33_impl.py"
COQ_HEADER = Y.HEADER
SHARD = 1
RULE = ("each axis as symmetry axis with an electric plane: full domain (2n cells along the axis, PEC ends, periodic / PEC / PMC transversally) and the "
        "domain reduced by config.symmetry; transversally varying materials, random parity-consistent initial fields (odd on-plane components vanish on "
        "the plane row); reduced run unfolded vs full run on every cell inside the light cone of the discarded far boundary; model tie: per-step "
        "correspondence of the Coq model on the reduced container (zero halo below the plane, PEC wall row) and on the full container")
ASSUMPTIONS = ["the model's reduced scene takes its wall mask from the boundary list the placement produced (C34 covers the placement)"]
TRUSTED = ["correspondence harness (bit-exact, dyadic regime)"]
LEVEL_TEXT = ("Theorems (PML-free scenes, plane normal to x, any grid/materials/sources): (1) if the full-domain tangential E vanishes on the plane row after its "
              "update, one step of the reduced scene equals the restriction of the full step on every kept cell; (2) mirror parity of the full state implies that "
              "premise. The light-cone induction over several steps, the other axes (via C08) and co-located detector records (a domain-spanning exact-interpolation field detector, unfolded) are checked by the correspondence "
              "and the implementation predicate.")
LEVEL_NOTE = "PARTIAL: one-step theorems; multi-step light-cone statement and unfolded detector records are measured."
TECHNIQUE = "Coq proof (index shift + wall mask, per-component case analysis on the plane row) + differential reduced/full runs"


def gen_cases(ctx):
    cases = []
    for axis in range(3):
        for rep in range(ctx.pick(1, 3)):
            shape = [ctx.rng.randint(2, 3), ctx.rng.randint(2, 4), ctx.rng.randint(2, 4)]
            shape[axis] = ctx.rng.choice([8, 10]) if ctx.quick else ctx.rng.choice([8, 10, 12])
            bt = {}
            for a, ax in enumerate("xyz"):
                if a == axis:
                    bt["min_" + ax] = bt["max_" + ax] = "pec"
                else:
                    k = ctx.rng.choice(["periodic", "pec", "pmc"])
                    bt["min_" + ax] = bt["max_" + ax] = k
            c = {"axis": axis, "shape": shape, "bt": bt, "steps": 2 if ctx.quick else 3, "seed": ctx.rng.randint(0, 10**6)}
            if rep == 0:      # co-located (exact_interpolation) field detector spanning the whole full domain, recorded at every step
                shape[axis] = ctx.rng.choice([10, 12])
                if axis != 2:          # a periodic in-plane transverse axis (the mirror halo's corner is only read through a wrap)
                    tr = [a for a in range(2) if a != axis][0]
                    bt["min_" + "xyz"[tr]] = bt["max_" + "xyz"[tr]] = "periodic"
                c["det"] = [[0, s_] for s_ in shape]
            cases.append(c)
    # two (and three) electric planes at once: every wall must be a full plane of the reduced volume
    combos = [(0, 1), (0, 2), (1, 2), (0, 1, 2)]
    for axes in (combos if not ctx.quick else [combos[ctx.rng.randint(0, 2)], combos[3]]):
        shape = [ctx.rng.randint(2, 4) for _ in range(3)]
        bt = {}
        for a, ax in enumerate("xyz"):
            if a in axes:
                shape[a] = 10
                bt["min_" + ax] = bt["max_" + ax] = "pec"
            else:
                k = ctx.rng.choice(["periodic", "pec", "pmc"])
                bt["min_" + ax] = bt["max_" + ax] = k
        cases.append({"axis": axes[0], "axes": list(axes), "shape": shape, "bt": bt, "steps": 2, "seed": ctx.rng.randint(0, 10**6)})
    return cases


def run_cases(ctx, cases):
    return core.run_impl_sharded(IMPL, cases, jobs=6)


def reduced_case(case, out):
    """case description of the reduced container for the model: shape, boundary types incl. the symmetry wall (PEC on the min face)"""
    shape = list(case["shape"])
    for a in (case.get("axes") or [case["axis"]]):
        shape[a] //= 2
    return {"shape": shape, "bt": dict(case["bt"])}      # min face of the symmetric axis: PEC wall (same mask as a user PEC)


def coq_expr(case, out):
    if "error" in out:
        return "false"
    parts = []
    for cs, o in ((reduced_case(case, out), out["reduced"]), ({"shape": case["shape"], "bt": case["bt"]}, out["full"])):
        sc = Y.scene_term(cs, o)
        st = o["states"]
        parts.append(Y.steps_expr(cs["shape"], sc, [("forwardX", a, b) for a, b in zip(st, st[1:])], True))
    return "(" + " && ".join(parts) + ")%bool"


def predicate(case, out):
    if "error" in out:
        return ("driver-error", out["error"] + out.get("trace", "")[-300:])
    for t, e in enumerate(out["cone_err"]):
        if e > 1e-12 * out["scale"]:
            return (f"reduction-differs:axis={case['axis']};bt={sorted(set(case['bt'].values()))}", f"unfolded reduced run differs from the full run inside the light cone at step {t + 1}: {e:.3e}")
    if case.get("det"):
        if out["det_shapes"][0] != out["det_shapes"][1]:
            return ("reduction-detector-shape", f"unfolded detector record has shape {out['det_shapes'][0]}, full-domain record {out['det_shapes'][1]}")
        for t, e in enumerate(out["det_err"]):
            if e > 1e-12 * out["det_scale"]:
                return (f"reduction-detector-differs:axis={case['axis']}", f"unfolded co-located detector record differs from the full-domain record inside the light cone at row {t}: {e:.3e}")
    walls = [w for w in out["walls"] if w[3]]
    axes = list(case.get("axes") or [case["axis"]])
    if sorted(w[0] for w in walls) != sorted(axes) or any(w[1] != "-" or "Electric" not in w[2] for w in walls):
        return ("symmetry-wall", f"expected exactly one PEC symmetry wall on the min face of each of the axes {axes}, got {out['walls']}")
    rshape = out.get("reduced_shape")
    for w in walls:       # each wall is the whole min-face plane of the reduced volume
        exp = [[0, 1] if a == w[0] else [0, rshape[a]] for a in range(3)]
        if rshape and len(w) > 4 and w[4] != exp:
            return (f"symmetry-wall-extent:axis={w[0]};planes={axes}", f"symmetry wall on axis {w[0]} covers {w[4]}, the min face of the reduced volume is {exp}")
    return None


def nontrivial(case, out):
    return "error" not in out and out["scale"] > 0


def classify(case, out):
    return f"axes={case.get('axes') or [case['axis']]}|" + "+".join(sorted(set(case["bt"].values())))
