"""C41 — wave descriptions and temporal profiles are self-consistent."""
import math

from lib import core
from lib.core import zlit, qlit, lst, blit

PID = "C41"
PROPS_FILE = "props/C41.v"
IMPL = "C41_impl.py"
COQ_HEADER = """From Coq Require Import ZArith QArith Qcanon Bool List.
From FV Require Import base.Scalar base.Util base.RecorderBase model.Waves proofs.Waves_proofs.
Import ListNotations. Open Scope Z_scope.
Definition rel_close (tol a b : Qc) : bool := Qcleb (Qc_abs (a - b)%Qc) (tol * Qc_abs b)%Qc.
Definition C0 : Qc := q 299792458 1.
Definition cst (v : Qc) : Qc -> Qc := fun _ => v."""
SHARD = 40
C = 299792458.0
RULE = ("wave cases: random period / wavelength / frequency over 12 decades -> the three getters, model (exact Qc) vs implementation, relative 1e-12; "
        "custom cases: random dyadic signals, sample times / interior times / outside times, linear and nearest mode, exact; "
        "cw / gauss cases: amplitude = model ramp (envelope) * carrier with cos/exp values supplied as oracle (math.cos / math.exp of the "
        "float phase / exponent computed by the harness), 1e-9; non-trivial = every case (no degenerate inputs generated)")
EXHAUSTIVE = {"quick": False, "thorough": False}
ASSUMPTIONS = ["cos and exp are oracles: the theorems assume |cos| <= 1 and 0 <= exp(-y) <= 1 (y >= 0); instance R (proofs/Waves_R.v) shows them satisfiable",
               "floor is an oracle with floor(i) = i on integers (proved for the Qc instance)",
               "float evaluation of the getters agrees with exact arithmetic to 1e-12 relative; custom-signal cases use dyadic data (exact)"]
TRUSTED = ["correspondence harness", "oracle values of cos/exp computed with Python's math module on the float phase/exponent"]


def gen_cases(ctx):
    rng = ctx.rng
    cases = []
    for i in range(ctx.pick(60, 400)):
        form = ("period", "wavelength", "frequency")[i % 3]
        mag = {"period": rng.uniform(-16, -8), "wavelength": rng.uniform(-8, -2), "frequency": rng.uniform(8, 16)}[form]
        cases.append({"kind": "wave", "form": form, "value": rng.uniform(1, 10) * 10 ** mag})
    for i in range(ctx.pick(30, 200)):
        n = rng.randint(2, 9)
        sig = [rng.randint(-32, 32) / 8.0 for _ in range(n)]
        dt = rng.choice([0.5, 0.25, 1.0, 2.0]); start = rng.choice([0.0, 1.0, -0.5, 2.25])
        times = [start + j * dt for j in range(n)]                                       # sample times
        times += [start + (j + rng.choice([0.25, 0.5, 0.75, 0.125])) * dt for j in range(n)]   # between (and beyond the last sample)
        times += [start - dt, start - 0.25 * dt, start + n * dt, start + (n + 3) * dt]  # outside
        cases.append({"kind": "custom", "signal": sig, "dt": dt, "start": start, "outside": rng.choice([0.0, 7.5]),
                      "mode": ("linear", "nearest")[i % 2], "times": times})
        if i % 5 == 0:      # the same with a complex-valued signal (predicate only): real and imaginary parts are sampled independently
            cases.append({"kind": "custom_c", "signal": sig, "signal_im": [rng.randint(-32, 32) / 8.0 for _ in range(n)], "dt": dt, "start": start,
                          "outside": 0.0, "mode": ("linear", "nearest")[(i // 5) % 2], "times": times})
    for i in range(ctx.pick(20, 120)):
        period = rng.uniform(1, 5) * 1e-15
        nstart = rng.choice([1, 2, 4, 7])
        times = [rng.uniform(-1, nstart + 3) * period for _ in range(10)] + [0.0, nstart * period, 0.5 * nstart * period]
        cases.append({"kind": "cw", "period": period, "own_shift": rng.choice([math.pi, 0.0, 0.3]), "nstart": nstart,
                      "phase_shift": rng.uniform(-3, 3), "times": times})
    for i in range(ctx.pick(20, 120)):
        fc = rng.uniform(1, 6) * 1e14; fw = fc * rng.uniform(0.02, 0.5)
        sig_t = 1 / (2 * math.pi * fw)
        width = rng.choice([{"form": "frequency", "value": fw}, {"form": "period", "value": 1 / fw}, {"form": "wavelength", "value": C / fw}])
        center = rng.choice([{"form": "frequency", "value": fc}, {"form": "wavelength", "value": C / fc}])
        center = dict(center, phase_shift=rng.uniform(-1, 1))
        times = [rng.uniform(-2, 14) * sig_t for _ in range(10)] + [6 * sig_t, 0.0]
        cases.append({"kind": "gauss", "width": width, "center": center, "phase_shift": rng.uniform(-3, 3), "times": times})
    return cases


def run_cases(ctx, cases):
    return core.run_impl_sharded(IMPL, cases, shard=2)


# ----------------------------------------------------------------------------- Coq side
def wave_coq(d):
    return f"({d['form'].capitalize()} (K := QcOF) {qlit(d['value'])})"


def fx(h):
    return float.fromhex(h)


def cw_oracle(c, t):
    """float phase exactly as written in SingleFrequencyProfile.get_amplitude"""
    return math.cos(2 * math.pi * t / c["period"] + c["phase_shift"] + c["own_shift"])


def gauss_oracle(c, out, t):
    fw, fc = fx(out["fw"]), fx(out["fc"])
    sigma_t = 1.0 / (2 * math.pi * fw); t0 = 6 * sigma_t
    env = math.exp(-((t - t0) ** 2) / (2.0 * sigma_t ** 2))
    car = math.cos(2 * math.pi * fc * t + c["phase_shift"] + c["center"]["phase_shift"])
    return env, car


def coq_expr(case, out):
    if "crash" in out:
        return "false"
    k = case["kind"]
    if k == "custom_c":
        return None
    if k == "wave":
        w = wave_coq(case)
        return (f"(rel_close (q 1 1000000000000) (get_period QcOF C0 {w}) {qlit(out['period'])} && "
                f"rel_close (q 1 1000000000000) (get_frequency QcOF C0 {w}) {qlit(out['frequency'])} && "
                f"rel_close (q 1 1000000000000) (get_wavelength QcOF C0 {w}) {qlit(out['wavelength'])})%bool")
    if "nan" in out["amp"]:
        return "false"
    if k == "custom":
        sig = lst(case["signal"], qlit)
        return (f"qlist_eqb (map (custom_signal QcOF Qc_floor {sig} {qlit(case['dt'])} {qlit(case['start'])} {qlit(case['outside'])} "
                f"{blit(case['mode'] == 'nearest')}) {lst(case['times'], qlit)}) {lst(out['amp'], qlit)}")
    parts = []
    if k == "cw":
        for t, a in zip(case["times"], out["amp"]):
            parts.append(f"Qc_close (q 1 1000000000) (single_frequency QcOF (cst {qlit(cw_oracle(case, t))}) 0%Qc {qlit(case['own_shift'])} "
                         f"{qlit(float(case['nstart']))} {qlit(t)} {qlit(case['period'])} {qlit(case['phase_shift'])}) {qlit(a)}")
    else:
        # the envelope / carrier values are oracles; the model contributes the structure envelope * carrier
        for t, a in zip(case["times"], out["amp"]):
            env, car = gauss_oracle(case, out, t)
            parts.append(f"Qc_close (q 1 1000000000) (gaussian_pulse QcOF C0 (cst {qlit(car)}) (cst {qlit(env)}) (q 6283185307179586 1000000000000000) "
                         f"{wave_coq(case['width'])} {wave_coq(case['center'])} {qlit(case['center']['phase_shift'])} {qlit(t)} {qlit(case['phase_shift'])}) {qlit(a)}")
    return "(" + " && ".join(parts) + ")%bool"


# ----------------------------------------------------------------------------- the property on the implementation
def predicate(case, out):
    if "crash" in out:
        return ("crash-" + case["kind"], out["crash"])
    k = case["kind"]
    tag = f"{k}-" + core.case_hash(case)[:10]
    if k == "wave":
        p, f, w = fx(out["period"]), fx(out["frequency"]), fx(out["wavelength"])
        if abs(p * f - 1) > 1e-12 or abs(w - C * p) > 1e-12 * abs(w):
            return (tag, f"period*frequency = {p * f!r}, wavelength = {w!r}, c*period = {C * p!r}")
        given = {"period": p, "frequency": f, "wavelength": w}[case["form"]]
        if given != case["value"]:
            return (tag, f"the given {case['form']} {case['value']!r} is returned as {given!r}")
        return None
    amp = [fx(a) if a != "nan" else float("nan") for a in out["amp"]]
    if k == "custom_c":
        if not out.get("is_complex"):
            return (tag, "a complex-valued custom signal is returned as a real array (imaginary part lost)")
        dt, st, n = case["dt"], case["start"], len(case["signal"])
        for part, sig, vals in (("real", case["signal"], amp), ("imaginary", case["signal_im"], [fx(a) for a in out["amp_im"]])):
            for t, a in zip(case["times"], vals):
                x = (t - st) / dt; i = math.floor(x); fr = x - i
                if i < 0 or i >= n:
                    exp = case["outside"] if part == "real" else 0.0
                else:
                    y0, y1 = sig[i], sig[min(i + 1, n - 1)]
                    exp = ((1 - fr) * y0 + fr * y1) if case["mode"] == "linear" else (y0 if fr < 0.5 else y1)
                if a != exp:
                    return (tag, f"complex custom signal, {part} part at t={t}: {a!r}, expected {exp!r}")
        return None
    if k == "custom":
        sig, dt, st, n = case["signal"], case["dt"], case["start"], len(case["signal"])
        for t, a in zip(case["times"], amp):
            x = (t - st) / dt; i = math.floor(x); fr = x - i
            if i < 0 or i >= n:
                exp = case["outside"]
            else:
                y0, y1 = sig[i], sig[min(i + 1, n - 1)]
                exp = ((1 - fr) * y0 + fr * y1) if case["mode"] == "linear" else (y0 if fr < 0.5 else y1)
            if a != exp:
                return (tag, f"custom signal at t={t}: {a!r}, expected {exp!r} (sample index {x})")
        return None
    for t, a in zip(case["times"], amp):
        if not abs(a) <= 1 + 1e-12:
            return (tag, f"|amplitude| = {abs(a)!r} > 1 at t={t}")
    if k == "cw":
        d = case["nstart"] * case["period"]
        for t, a in zip(case["times"], amp):
            ramp = min(max(t / d, 0.0), 1.0)
            if abs(a - ramp * cw_oracle(case, t)) > 1e-9:
                return (tag, f"continuous-wave amplitude {a!r} at t={t} is not ramp {ramp!r} * carrier")
    else:
        for t, a in zip(case["times"], amp):
            env, car = gauss_oracle(case, out, t)
            if abs(a - env * car) > 1e-9 or not (0 <= env <= 1):
                return (tag, f"gaussian pulse amplitude {a!r} at t={t} is not envelope {env!r} * carrier {car!r}")
    return None


def nontrivial(case, out):
    return "crash" not in out


def classify(case, out):
    return case["kind"] + (":" + case.get("form", case.get("mode", "")) if case["kind"] in ("wave", "custom") else "")


def search(ctx, broken):
    cases = gen_cases(core.Ctx(PID, "thorough", ctx.seed + 7))[:300]
    outs = run_cases(ctx, cases)
    found = [(c, o, *predicate(c, o)) for c, o in zip(cases, outs) if predicate(c, o)]
    return found[:3], len(cases)


LEVEL_TEXT = ("Theorems (any ordered field, any non-zero input): period*frequency = 1 and wavelength = c*period for each input form; sampled custom signal "
              "exact at the sample times (both modes), straight line between samples (linear mode), outside_value outside; ramp starts at 0, is monotone, "
              "reaches 1 after the start-up time; |ramp*carrier| <= 1 and Gaussian envelope in [0,1], |envelope*carrier| <= 1, for every cos with "
              "|cos|<=1 and exp with 0<=exp(-y)<=1 (y>=0).  Tie: random inputs, model in Qc vs implementation.")
LEVEL_NOTE = ("cos / exp / floor are parameters of the model (oracle values in the executable instance); the real-number instance proves the hypotheses "
              "are satisfiable (uses the standard-library real-number axioms, only in C41_real_instance).  Float rounding of the getters is a tolerance.")
TECHNIQUE = "Coq proof (field / ordered-field reasoning from the OFld interface) + differential correspondence with oracle tables"
