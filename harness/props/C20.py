"""C20 — projection filters are bounded, monotone and well-behaved at the extremes."""
import json
import numpy as np
from lib import core
from lib.core import lst, lst3, qlit

PID = "C20"
PROPS_FILE = "props/C20.v"
IMPL = "C20_impl.py"
COQ_HEADER = ("From Coq Require Import ZArith QArith Qcanon Bool.\n"
              "From FV Require Import base.Scalar base.Util base.DesignTransformsBase model.DesignTransforms_Sym model.DesignTransforms_Proj.")
SHARD = 8
RULE = ("tanh cases: beta in {0, 0.5, 1, 3, 8, 64, 1000, inf} x eta in {0, 0.25, 0.5, 0.9, 1} x arrays containing 0, 1, eta, values in [0,1] and a few "
        "outside; smooth cases: SubpixelSmoothedProjection on 2-D designs (singleton axis at every position, voxel sizes 1 um / 0.5 um / 20 nm, "
        "random + plateau regions so that cells with and without an interface occur) for the same betas; model (exact Qc, tanh/sqrt read from the "
        "tables recorded from the implementation's own jnp.tanh / jnp.sqrt calls) vs implementation within 1e-9; gradient finiteness via jax.grad "
        "(test only); malformed: no singleton axis, unequal voxel sizes, extent < 2; non-trivial = finite beta > 0 or a cell with an interface")
EXHAUSTIVE = {"quick": False, "thorough": False}
ASSUMPTIONS = ["tanh, sqrt are oracles: the theorems assume only that th is odd and strictly increasing (sqrt: nothing); the executable model looks the "
               "values up (key within 1e-12 relative) in the table recorded from the implementation",
               "gradient finiteness at beta in {0, inf} and eta in {0, 1} is TESTED (jax.grad on the sampled inputs), not proved",
               "float64 evaluation agrees with the exact rational model within 1e-9 away from the discontinuities (|d| = R, x = eta)"]
TRUSTED = ["correspondence harness (Qc_close 1e-9)", "oracle tables recorded by replacing the module-level jnp of projection.py by a recording proxy",
           "numpy re-computation of the needs_smoothing mask in the predicate"]

BETAS = [0.0, 0.5, 1.0, 3.0, 8.0, 64.0, 1000.0, "inf"]
ETAS = [0.0, 0.25, 0.5, 0.9, 1.0]


def hx(a):
    a = np.asarray(a, dtype=np.float64)
    return [hx(v) for v in a] if a.ndim > 1 else [float(v).hex() for v in a]


def un(h):
    return [un(v) for v in h] if isinstance(h, list) else float.fromhex(h)


def mk_tanh(rng, beta, eta, shape):
    n = shape[0] * shape[1] * shape[2]
    vals = [0.0, 1.0, eta, -0.3, 1.4] + [rng.random() for _ in range(n)]
    vals = vals[:n]
    rng.shuffle(vals)
    return {"kind": "tanh", "beta": beta, "eta": eta, "shape": shape, "x": hx(np.asarray(vals).reshape(shape))}


def mk_smooth(rng, beta, eta, shape, voxel):
    va = shape.index(1)
    dims = [s for i, s in enumerate(shape) if i != va]
    a = np.asarray([[rng.random() for _ in range(dims[1])] for _ in range(dims[0])])
    if dims[0] >= 4 and dims[1] >= 3:
        a[:3, :3] = rng.choice([0.2, 0.8, eta])       # plateau: zero gradient in its interior cell -> no interface
    return {"kind": "smooth", "beta": beta, "eta": eta, "shape": shape, "voxel": voxel, "x": hx(a.reshape(shape))}


def in_domain(c):
    if c["kind"] == "tanh":
        return True
    s = c["shape"]
    if 1 not in s:
        return False
    va = s.index(1)
    ax = [i for i in range(3) if i != va]
    return c["voxel"][ax[0]] == c["voxel"][ax[1]] and s[ax[0]] >= 2 and s[ax[1]] >= 2


def load_corpus():
    f = core.VERIF / "harness" / "corpus" / "C20.json"
    return json.loads(f.read_text()) if f.exists() else []


def gen_cases(ctx, more=1):
    rng = ctx.rng
    cases = load_corpus()
    shapes = [[2, 3, 2], [1, 4, 3], [5, 1, 2], [3, 2, 1]]
    k = 0
    for beta in BETAS:
        for eta in (ETAS if not ctx.quick or more > 1 else [ETAS[k % 5], [0.5, 0.25, 0.9][k % 3]]):
            cases.append(mk_tanh(rng, beta, eta, shapes[k % 4])); k += 1
    vox = [[1e-6] * 3, [5e-7] * 3, [2e-8] * 3]
    sshapes = [[4, 5, 1], [1, 4, 4], [5, 1, 3], [2, 1, 2], [6, 4, 1]]
    for beta in BETAS:
        for r in range(ctx.pick(1, 3) * more):
            eta = [0.5, 0.25, 0.9, 0.0, 1.0][k % 5] if r or k % 3 else 0.5
            cases.append(mk_smooth(rng, beta, eta, sshapes[k % len(sshapes)], vox[k % 3])); k += 1
    # large design voxels (THz / microwave scale) with a tiny but non-zero finite-difference gradient far from any interface:
    # the masked cells must still get a finite (zero) gradient
    for beta, eta, vx in ([(8.0, 0.5, 1e-3), ("inf", 0.25, 1e-5)] if ctx.quick else [(8.0, 0.5, 1e-3), ("inf", 0.25, 1e-5), (0.0, 0.9, 1e-3), (64.0, 1.0, 1e-4)]):
        m = mk_smooth(rng, beta, eta, [4, 5, 1], [vx] * 3)
        a = np.asarray([[float(rng.randint(0, 9)) * 1e-153 for _ in range(5)] for _ in range(4)])
        m["x"] = hx(a.reshape(4, 5, 1)); m["tiny"] = True
        cases.append(m)
    # malformed
    m = mk_smooth(rng, 8.0, 0.5, [4, 4, 1], [1e-6, 2e-6, 1e-6]); m["malformed"] = True; cases.append(m)       # unequal voxel sizes
    m = mk_smooth(rng, 8.0, 0.5, [1, 1, 4], [1e-6] * 3); m["malformed"] = True; cases.append(m)               # extent 1 < 2 in the plane
    m = mk_smooth(rng, 8.0, 0.5, [3, 1, 3], [1e-6] * 3); m["shape"] = [3, 3, 1]; m["x"] = hx(np.asarray(un(m["x"])).reshape(3, 3, 1))
    m["voxel"] = [1e-6, 1e-6, 3e-6]; cases.append(m)                                                          # vertical voxel size differs: fine
    m = mk_tanh(rng, 8.0, 0.5, [2, 2, 2]); m["kind"] = "smooth"; m["voxel"] = [1e-6] * 3; m["malformed"] = True; cases.append(m)  # no singleton axis
    return cases


# ---------------------------------------------------------------- correspondence
def qh(v):
    return qlit(float.fromhex(v))


def tab(t):
    return lst(t, lambda kv: f"({qh(kv[0])}, {qh(kv[1])})")


def coq_beta(b):
    return "(BInf QcOF)" if b == "inf" else f"(BFin QcOF {qlit(float(b))})"


def model_call(c, out):
    s = c["shape"]
    sh = f"({s[0]}, {s[1]}, {s[2]})%nat"
    if c["kind"] == "tanh":
        return f"Some (tanh_exec QcOF (oracle tbt) {coq_beta(c['beta'])} {qlit(float(c['eta']))} {sh} {lst3(c['x'], qh)})"
    va = s.index(1) if 1 in s else 0
    ax = [i for i in range(3) if i != va]
    veq = core.blit(c["voxel"][ax[0]] == c["voxel"][ax[1]])
    dx = qh(out["dx"]) if "dx" in out else "(q 1 1)"
    return (f"smoothed_exec QcOF (oracle tbt) (oracle tbs) {coq_beta(c['beta'])} {qlit(float(c['eta']))} {dx} {veq} {sh} {lst3(c['x'], qh)}")


def coq_expr(c, out):
    if c.get("tiny"):
        return None      # values in the float underflow range: outside the exact-arithmetic model (its sqrt oracle is keyed by exact arguments); predicate only
    tt = tab(out.get("tanh", [])); ts = tab(out.get("sqrt", []))
    m = model_call(c, out)
    if "error" in out:
        body = f"match {m} with None => true | Some _ => false end"
    elif not out.get("finite", True):
        return "false"                      # NaN/inf output: no exact literal; the predicate reports it ('nan')
    else:
        body = f"match {m} with Some y => qlist3_close (q 1 1000000000) y {lst3(out['y'], qh)} | None => false end"
    return f"(let tbt : list (Qc * Qc) := {tt} in let tbs : list (Qc * Qc) := {ts} in {body})"


def show_model(c, out):
    tt = tab(out.get("tanh", [])); ts = tab(out.get("sqrt", []))
    return core.coq_eval_text(PID, COQ_HEADER, f"let tbt : list (Qc * Qc) := {tt} in let tbs : list (Qc * Qc) := {ts} in {model_call(c, out)}")[-1500:]


# ---------------------------------------------------------------- the property on the implementation output
def key_of(c, what):
    return f"{what}-{c['kind']}-beta{c['beta']}-eta{c['eta']}-{'x'.join(map(str, c['shape']))}"


def needs_mask(x2, eta, dx):
    g0, g1 = np.gradient(x2)
    helper = (g0 / dx) ** 2 + (g1 / dx) ** 2
    nz = np.abs(helper) > 0
    norm = np.where(nz, np.sqrt(np.where(nz, helper, 1)), 1)
    d = (eta - x2) / norm
    R = 0.55 * dx
    return nz & (np.abs(d) < R), nz & (np.abs(np.abs(d) - R) < 1e-9 * R)


def predicate(c, out):
    if not in_domain(c):
        return None
    if "error" in out:
        return (key_of(c, "undefined"), f"in-domain call failed: {out['error']}")
    if not out["finite"]:
        return (key_of(c, "nan"), "output contains NaN/inf")
    if not out["grad_finite"]:
        return (key_of(c, "gradient"), "jax.grad of sum(output) w.r.t. the design is not finite")
    ab = out.get("array_beta")
    if ab is not None:
        if not ab["grad_finite"] or not ab["traced_grad_finite"]:
            return (key_of(c, "gradient-array-beta"), f"gradient is not finite when beta is passed as a jax array / traced value: {ab}")
        if ab["value_diff"] > 1e-12 or ab["grad_diff"] > 1e-9 or ab["traced_grad_diff"] > 1e-9:
            return (key_of(c, "array-beta-differs"), f"values / gradients differ between a Python-float beta and an array / traced beta: {ab}")
    beta, eta = c["beta"], float(c["eta"])
    x = np.asarray(un(c["x"])).reshape(c["shape"])
    y = np.asarray(un(out["y"])).reshape(c["shape"])
    tol = 1e-12
    if c["kind"] == "tanh":
        xs, ys = x.ravel(), y.ravel()
        inside = (xs >= 0) & (xs <= 1)
        if ys[inside].min() < -tol or ys[inside].max() > 1 + tol:
            return (key_of(c, "range"), f"[0,1] is mapped to [{ys[inside].min()!r}, {ys[inside].max()!r}]")
        o = np.argsort(xs, kind="stable")
        if (np.diff(ys[o]) < -tol).any():
            return (key_of(c, "monotone"), "output decreases while the input increases")
        if 0 < eta < 1:
            if (np.abs(ys[xs == 0.0]) > tol).any() or (np.abs(ys[xs == 1.0] - 1) > tol).any():
                return (key_of(c, "fixpoints"), f"0 -> {ys[xs == 0.0].tolist()}, 1 -> {ys[xs == 1.0].tolist()}")
        if beta == 0.0 and not np.array_equal(ys, np.clip(xs, 0, 1)):
            return (key_of(c, "beta0"), "beta = 0 is not clipping to [0,1]")
        if beta == "inf":
            away = xs != eta
            if not np.array_equal(ys[away], (xs[away] > eta).astype(float)):
                return (key_of(c, "betainf"), "beta = inf is not the step at the threshold")
        return None
    plain = np.asarray(un(out["plain"])).reshape(c["shape"])
    va = c["shape"].index(1)
    need, border = needs_mask(np.squeeze(x, va), eta, float.fromhex(out["dx"]))
    need, border = np.expand_dims(need, va), np.expand_dims(border, va)
    sel = ~need & ~border
    if not np.array_equal(y[sel], plain[sel]):
        return (key_of(c, "no-interface"), "smoothed projection differs from the plain projection in a cell without an interface")
    return None


def nontrivial(c, out):
    if not in_domain(c) or "error" in out:
        return False
    return c["beta"] not in (0.0, "inf") or c["kind"] == "smooth"


def classify(c, out):
    return f"{c['kind']}/beta{c['beta']}" + ("/malformed" if c.get("malformed") else "")


def search(ctx, broken):
    cases = [c for c in gen_cases(ctx, more=3) if in_domain(c)]
    outs = core.run_impl_sharded(IMPL, cases)
    found = []
    for c, o in zip(cases, outs):
        r = predicate(c, o)
        if r:
            found.append((c, o, r[0], r[1]))
    return found[:5], len(cases)


LEVEL_TEXT = ("Theorems (any ordered field, any odd strictly increasing th, beta in [0,inf], eta in [0,1]): tanh_projection maps [0,1] into [0,1], "
              "is non-decreasing, fixes 0 and 1 (eta < 1), is clip at beta = 0 and the step at eta for beta = inf (0 at the threshold itself); the "
              "smoothed projection equals the plain one wherever needs_smoothing is false (functional view and executed list function). "
              "PARTIAL: for the gradient clause only 'the tanh branch never divides by zero' is proved; finiteness of jax.grad at beta in {0,inf}, "
              "eta in {0,1} is tested, not proved. Tie: exact-rational model with tanh/sqrt tables recorded from the implementation vs the real "
              "__call__ (both transforms) within 1e-9.")
LEVEL_NOTE = ("Oracles: tanh, sqrt (recorded from the implementation). Not modelled: IEEE specials, jnp.where differentiation (gradient clause is test-only). "
              "Non-vacuity in Coq is shown with th = identity over Qc (odd, strictly increasing); tanh over R is not instantiated in this development.")
TECHNIQUE = "Coq proof (ordered-field reasoning by hand, generic th) + oracle-table differential correspondence at Qc + jax.grad finiteness test"
