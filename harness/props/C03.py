"""C03 — full backward pass reconstructs interior fields despite absorbing layers."""
import numpy as np
from lib import core, yee_coq as Y

PID = "C03"
PROPS_FILE = "props/C03.v"
IMPL = "scene_impl.py"
COQ_HEADER = Y.HEADER + "From FV Require Import proofs.Yee_pml_sweep.\n"
SHARD = 1
RULE = ("placed scenes with CPML slabs (thickness 2-3) on random face subsets mixed with periodic/PEC/PMC faces, plane/dipole sources with "
        "switches, random interior initial fields: T forward steps with record_boundaries (lossless recorder) then T backward steps with "
        "reset_fields; every forward step (fields and psi) and every backward step of the implementation is compared with the Coq model; "
        "predicate: interior agreement of the reverse sweep with the forward run at every step")
ASSUMPTIONS = ["recorder with no compression modules = identity (C30 covers the pipelines)", "source injections are oracle arrays",
               "CPML coefficient profiles a,b,1/kappa are oracle data from the placed layer objects (C12 covers their formulas)"]
TRUSTED = ["correspondence harness; tolerance 1e-9*max|field| (CPML coefficients are generic floats)"]
LEVEL_TEXT = ("Theorem (any grid, materials with 1+-f <> 0, wall masks, sources, any list of CPML layers with kappa = 1 and a = 0 on the interface row, "
              "geometry_ok): the reverse sweep with interface restoration and field reset reproduces the forward E and H at every earlier step on every "
              "cell outside all layers, for every T and every j <= T. geometry_ok is proved for EVERY face-slab configuration (C03_geometry_of_face_slabs: "
              "layers spanning the full transverse extent, touching their own face, on non-wrapping axes; any subset of faces, any thicknesses, "
              "overlapping edges and corners), giving C03_reverse_sweep_face_slabs with no geometry hypothesis; its boolean decision geometry_okb "
              "(proved sound) is additionally evaluated on every scene the correspondence runs. Tie: per-step correspondence of forward-with-CPML (fields and psi) and backward-with-restore/reset.")
LEVEL_NOTE = ("The recorder is the identity pipeline (compression is C30); 9-component tensors are outside the model; layer lists that are not "
              "face slabs need the per-scene geometry_okb evaluation.")
TECHNIQUE = "Coq proof (cell-level CPML loop lemmas, stencil locality, invariant over the reverse sweep) + vm_compute correspondence of CPML forward/backward"
FACES = ("min_x", "max_x", "min_y", "max_y", "min_z", "max_z")


def gen_case(rng, quick, i):
    T = 2 if quick else rng.choice([2, 3, 4])
    th = rng.choice([2, 3]) if not quick else 2
    bt = {}
    for ax in "xyz":
        r = rng.random()
        if r < 0.25:
            bt[f"min_{ax}"] = bt[f"max_{ax}"] = "periodic"
        else:
            for side in ("min", "max"):
                bt[f"{side}_{ax}"] = rng.choice(["pml", "pml", "pec", "pmc"])
    if not any(v == "pml" for v in bt.values()):
        bt["max_z"] = "pml"
        if bt["min_z"] == "periodic":      # periodic faces only come in pairs
            bt["min_z"] = rng.choice(["pml", "pec", "pmc"])
    shape = [2 * th + rng.randint(2, 3) if "pml" in (bt[f"min_{a}"], bt[f"max_{a}"]) else rng.randint(3, 4) for a in "xyz"]
    mid = [s // 2 for s in shape]
    srcs = [{"kind": "dipole", "cell": mid, "pol": rng.randint(0, 2), "switch": {"fixed": sorted(rng.sample(range(T), rng.randint(1, T)))}}]
    # several sources acting on the same field in the same step (the reverse update must un-inject every one of them)
    lo = [th if bt[f"min_{a}"] == "pml" else 0 for a in "xyz"]
    hi = [shape[n] - (th if bt[f"max_{a}"] == "pml" else 0) for n, a in enumerate("xyz")]
    for mag in (False, True, True):
        cell = [rng.randint(lo[a], hi[a] - 1) for a in range(3)]
        srcs.append({"kind": "dipole", "cell": cell, "pol": rng.randint(0, 2), "mag": mag, "amp": rng.choice([0.5, 2.0]),
                     "switch": rng.choice([None, {"fixed": sorted(rng.sample(range(T), rng.randint(1, T)))}])})
    if bt["min_z"] != "periodic" and shape[2] >= 2 * th + 2 and rng.random() < 0.5 and bt["min_x"] == "periodic" and bt["min_y"] == "periodic":
        srcs.append({"kind": "plane", "axis": 2, "pos": mid[2], "dir": rng.choice("+-"), "pol": [1.0, 0.5, 0.0]})
    spec = {"shape": shape, "spacing": 5e-8, "courant": "exact_half", "steps": T, "thickness": th, "bt": bt, "sources": srcs,
            "init": {"seed": rng.randint(0, 10**6), "kind": "int4"},
            "mats": {"seed": rng.randint(0, 10**6), "ncomp": rng.choice([1, 3]), "pow2": True}}
    return {"spec": spec, "steps": T, "back": T, "record": True, "psi": True, "shape": shape, "bt": bt}


def gen_cases(ctx):
    return [gen_case(ctx.rng, ctx.quick, i) for i in range(ctx.pick(5, 40))]


def run_cases(ctx, cases):
    return core.run_impl_sharded(IMPL, cases, jobs=6)


def coq_expr(case, out):
    if "error" in out:
        return "false"
    inj = Y.inj_term(case["shape"], out["injE"], out["injH"])
    sc = Y.scene_term(case, out, inj=inj, pmls=Y.pml_terms(out))
    wrap = " ".join("true" if case["bt"][f"min_{ax}"] in ("periodic", "bloch") else "false" for ax in "xyz")
    geo = f"(geometry_okb K {sc} {wrap})"
    return "(" + geo + " && " + Y.pml_steps_expr(case["shape"], sc, out, case["steps"], out["back"], scale=max(Y.maxabs(out), 1.0)) + ")%bool"


def interior_mask(case, out):
    m = np.ones(case["shape"], bool)
    for p in out["pmls"]:
        (x0, x1), (y0, y1), (z0, z1) = p["box"]
        m[x0:x1, y0:y1, z0:z1] = False
    return m


def predicate(case, out):
    if "error" in out:
        return ("driver-error", out["error"] + out.get("trace", "")[-300:])
    st = out["states"]
    m = interior_mask(case, out)
    scale = max(Y.maxabs(out), 1e-300)
    n = len(st) - 1
    for i, b in enumerate(out["back"]):
        ref = st[n - 1 - i]
        err = max(float(np.abs(Y.np_fields(b[f]) - Y.np_fields(ref[f]))[:, m].max()) for f in ("E", "H"))
        if err > 1e-9 * scale:
            key = "bt=" + ",".join(f"{k}:{v}" for k, v in sorted(case["bt"].items())) + f";th={case['spec']['thickness']}"
            return ("interior-mismatch:" + key, f"reverse sweep differs from the forward run outside the layers at step {ref['t']}: {err:.3e} (scale {scale:.3e})")
    for p in out["pmls"]:   # default grading: no loss at the inner face
        k = -1 if p["dir"] == "-" else 0
        if float.fromhex(p["aE"][k]) != 0.0 or float.fromhex(p["aH"][k]) != 0.0:
            return ("interface-coefficient-nonzero", f"layer {p['name']} has a != 0 on its interface row")
    return None


def nontrivial(case, out):
    return "error" not in out and Y.maxabs(out) > 0 and interior_mask(case, out).sum() >= 4


def classify(case, out):
    return "+".join(sorted(set(case["bt"].values()))) + f"|npml={sum(v == 'pml' for v in case['bt'].values())}"
