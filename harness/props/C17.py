"""C17 — phasor detectors compute the windowed discrete Fourier transform."""
import math

import numpy as np

from lib import core
from lib.core import qlit, lst

PID = "C17"
PROPS_FILE = "props/C17.v"
IMPL = "C17_impl.py"
COQ_HEADER = ("From Coq Require Import ZArith QArith Qcanon Bool List.\n"
              "From FV Require Import base.Scalar base.Sums base.Util base.DetectorsBase model.Detectors model.DetectorsPhasor.\n"
              "Local Open Scope bool_scope.\n"
              "Definition q4 (z : Z) : Qc := q z 4.\n"
              "Definition L4 (l : list (list (list (list Z)))) : list (list (list (list Qc))) := map (map (map (map q4))) l.")
SHARD = 1
RULE = ("each case = one placed scene, a prescribed random integer/4 field history of T=7 steps fed through "
        "update_detector_states, ~12 phasor detectors (component subsets, 1-2 frequencies, strides 1-3, continuous/pulse, "
        "Gaussian/Tukey/no apodization, interval/start-end/fixed switches, reduce, plane Poynting +/-, closed surface "
        "outward/inward); model state/flux == implementation (1e-9 of max-abs); predicate = numpy DFT of the history; "
        "non-trivial = at least two recorded steps and a non-constant window or stride > 1")
EXHAUSTIVE = {"quick": False, "thorough": False}
ASSUMPTIONS = ["base on-list of the detector's OnOffSwitch is taken from the implementation (C14 models the switch); the thinning, "
               "window array, window sum, scale and accumulation are modelled",
               "phase factors exp(i w t dt) and apodization values (Gaussian exp, Tukey cos) enter the model as oracle tables "
               "computed independently in Python (libm) from the driver-reported omega, dt and the window parameters",
               "the implementation evaluates the apodization window in float32 even in float64 runs: windowed detectors are compared with tolerance 1e-5",
               "real fields; raw (exact_interpolation=False) detectors; keep_all_components of the plane phasor Poynting detector is C16"]
TRUSTED = ["correspondence harness (Qc_close_abs 1e-9)", "oracle tables for exp/cos (Python libm)"]
LEVEL_TEXT = ("Theorems (any T, base on-list, stride, window and phase oracles, field history): the PhasorDetector state after the gated "
              "loop = scale * sum over the kept steps of window(t) * field(t) * e(w,t), with scale = 2/sum_kept(window) (continuous) or the "
              "stride (pulse); kept steps = every stride-th active step (characterised by nth); the repaired closed-surface detector "
              "stores exactly the boundary planes of that phasor (the unchanged one, which drops the window weight, is refuted); the "
              "Poynting phasor formulas are Re(E x conj H) with the 1/2 only in continuous mode.")
LEVEL_NOTE = "Trusted: Coq kernel; oracle tables; OnOffSwitch base on-list (C14); correspondence on generated histories (this check)."
TECHNIQUE = "Coq proof (induction over the step list / time range, ring on complex pairs) + differential correspondence on prescribed field histories"

TOL = "(q 1 1000000000)"
COMPS = ["Ex", "Ey", "Ez", "Hx", "Hy", "Hz"]
T_STEPS = 7


# ----------------------------------------------------------------------------- independent window / schedule
def window_values(w, T, dt):
    if not w:
        return [1.0] * T
    out = []
    for t in range(T):
        time = t * dt
        if w["kind"] == "gauss":
            out.append(math.exp(-((time - w["center"] * dt) ** 2) / (2.0 * (w["sigma"] * dt) ** 2)))
        else:
            s, e, al = w["start"] * dt, w["end"] * dt, w["alpha"]
            x = (time - s) / (e - s)
            if x < 0.0 or x > 1.0:
                out.append(0.0)
            elif al <= 0.0:
                out.append(1.0)
            elif x < al / 2:
                out.append(0.5 * (1.0 + math.cos(math.pi * (2 * x / al - 1.0))))
            elif x > 1.0 - al / 2:
                out.append(0.5 * (1.0 + math.cos(math.pi * (2 * (x - 1.0) / al + 1.0))))
            else:
                out.append(1.0)
    return out


def kept_list(base_on, stride):
    act = [t for t, b in enumerate(base_on) if b]
    return act[::max(1, stride)]


# ----------------------------------------------------------------------------- generation
VARIANTS = [("ph_a", "ph_c", "pp_p", "cs_t"), ("ph_b", "ph_r", "pp_m"), ("ph_t", "ph_fx", "cs_n", "ph_r")]


def make_case(rng, nonuni, boxkind, variant=VARIANTS[0]):
    shape = [3, 3, 3] if boxkind != "wide" else [4, 3, 2]
    T = T_STEPS
    widths = [[rng.randint(3, 7) for _ in range(n)] for n in shape] if nonuni else None

    def arr():
        return [[[[rng.randint(-8, 8) for _ in range(shape[2])] for _ in range(shape[1])] for _ in range(shape[0])] for _ in range(3)]

    if boxkind == "wide":
        box = [[0, 3], [1, 3], [0, 2]]
    else:
        lo = [rng.randint(0, 1) for _ in range(3)]
        box = [[l, l + 2] for l in lo]
    a = rng.randrange(3)
    plane = [list(b) for b in box]
    plane[a] = [box[a][0], box[a][0] + 1]
    sub = rng.sample(COMPS, rng.randint(1, 4))
    gauss = {"kind": "gauss", "center": rng.choice([3.0, 4.5]), "sigma": rng.choice([1.5, 2.5])}
    tukey = {"kind": "tukey", "start": rng.choice([0.0, 1.0]), "end": rng.choice([6.0, 7.0]), "alpha": rng.choice([0.5, 1.0, 0.3])}
    D = []

    def add(tag, kind, bx, **opts):
        D.append({"name": tag, "kind": kind, "box": bx, "opts": opts})

    add("ph_a", "phasor", box, periods=[7.3])
    add("ph_b", "phasor", box, periods=[7.3, 11.0], components=sub, stride=2, switch={"interval": rng.choice([1, 2])})
    add("ph_c", "phasor", box, periods=[5.1], mode="pulse", stride=3, switch={"start": 1})
    add("ph_g", "phasor", box, periods=[7.3], window=gauss, components=sub)
    add("ph_t", "phasor", box, periods=[9.7], window=tukey, mode="pulse", stride=2)
    add("ph_r", "phasor", box, periods=[7.3], window=gauss, reduce=True, switch={"start": 1, "end": 6})
    add("ph_fx", "phasor", box, periods=[6.1], window=tukey, switch={"fixed": sorted(rng.sample(range(T), 4))}, stride=rng.choice([1, 2]))
    add("pp_p", "phasor_poynting", plane, periods=[7.3], window=gauss)
    add("pp_m", "phasor_poynting", box, periods=[7.3, 5.0], direction="-", mode="pulse", stride=2, fixed_axis=a)
    add("cs_n", "closed_phasor", box, periods=[7.3], orientation="inward", mode="pulse", stride=2)
    add("cs_w", "closed_phasor", box, periods=[7.3], window=gauss)
    add("cs_t", "closed_phasor", box, periods=[8.9], window=tukey, axes=rng.sample([0, 1, 2], 2), switch={"interval": 1, "start": 1})
    keep = {"ph_g", "cs_w"} | set(variant)
    D = [d for d in D if d["name"] in keep]
    return {"scene": {"shape": shape, "widths": widths, "T": T}, "E": [arr() for _ in range(T)], "H": [arr() for _ in range(T)], "dets": D}


def gen_cases(ctx):
    plan = ctx.pick([(False, "cube"), (True, "cube"), (True, "wide")],
                    [(nu, k) for nu in (False, True) for k in ("cube", "wide", "cube", "cube", "wide", "cube")])
    return [make_case(ctx.rng, nu, k, VARIANTS[i % 3]) for i, (nu, k) in enumerate(plan)]


def run_cases(ctx, cases):
    return core.run_impl_sharded(IMPL, cases, shard=min(3, len(cases)))


# ----------------------------------------------------------------------------- Coq expression
def qq(n):
    return f"(q ({int(n)}) 4)"


def l4(a):
    return "(L4 " + lst(a, lambda x: lst(x, lambda y: lst(y, lambda z: lst(z, lambda v: f"({int(v)})")))) + "%Z)"


def ql(x):
    """oracle literal rounded to 2^-40 (error 1e-12, far below the comparison tolerance; keeps rationals small)"""
    return qlit(round(x * 2.0 ** 40) / 2.0 ** 40)


def shp(t):
    return f"({t[0]}, {t[1]}, {t[2]})%nat"


def sel_of(opts):
    return sorted(COMPS.index(c) for c in (opts.get("components") or COMPS))


def fvals(hexes):
    return [float.fromhex(h) for h in hexes]


TOLW = "(q 1 100000)"      # the implementation builds the apodization array in float32 (even under x64)
_cur_tol = [TOL]


def close(model, vals, sc=None):
    sc = sc if sc is not None else max([abs(v) for v in vals] + [1e-300])
    return f"qlist_close_abs {_cur_tol[0]} {qlit(sc)} ({model}) {lst(vals, qlit)}"


def prelude(case):
    w = case["scene"]["widths"] or [[4] * n for n in case["scene"]["shape"]]

    def wl(a):
        return "(get1 (K:=QcF) " + lst(a, lambda v: f"(q ({int(v)}) 67108864)") + ")"
    return (f"let Eh := {lst(case['E'], l4)} in let Hh := {lst(case['H'], l4)} in "
            f"let g := mkGrid {wl(w[0])} {wl(w[1])} {wl(w[2])} in "
            "let z5 : PhS QcF := (fun _ _ _ _ _ => c0 (K:=QcF)) in ")


def det_common(case, d, o, dt):
    opts = d["opts"]
    T = case["scene"]["T"]
    lo = shp([b[0] for b in d["box"]])
    n3 = [b[1] - b[0] for b in d["box"]]
    on = "(fun t => nth t " + lst(o["base_on"], core.blit) + " false)"
    apod = "(get1 (K:=QcF) " + lst(window_values(opts.get("window"), T, dt), ql) + ")"
    e = ("(fun t f => nth f (nth t " + lst([lst([f"(({ql(math.cos(w * (t * dt)))}, {ql(math.sin(w * (t * dt)))}) : Cx QcF)" for w in o["omega"]])
                                            for t in range(T)]) + " []) (c0 (K:=QcF)))")
    fE = f"(fun t => restrict {lo} (get4 (K:=QcF) (nth t Eh [])))"
    fH = f"(fun t => restrict {lo} (get4 (K:=QcF) (nth t Hh [])))"
    pulse = core.blit(opts.get("mode", "continuous") == "pulse")
    return dict(T=T, lo=lo, n3=n3, n=shp(n3), on=on, apod=apod, e=e, fE=fE, fH=fH, pulse=pulse, stride=int(opts.get("stride", 1)), nf=len(o["omega"]))


def det_expr(case, d, o, dt):
    _cur_tol[0] = TOLW if d["opts"].get("window") else TOL
    c = det_common(case, d, o, dt)
    opts = d["opts"]
    k = d["kind"]
    if k in ("phasor", "phasor_poynting"):
        sel = sel_of(opts) if k == "phasor" else list(range(6))
        sl = lst(sel, lambda s: f"{s}%nat")
        run = f"(phasor_detector_run {c['T']} {c['on']} {c['stride']} {c['pulse']} false {c['apod']} {sl} {c['fE']} {c['fH']} {c['e']} z5)"
        if k == "phasor" and opts.get("reduce"):
            st = f"(fun f r => cwmean {c['n']} (cell_volume g {c['lo']}) (run f r))"
            return f"(let run := {run} in " + close(f"flat_phr fst {c['nf']} {len(sel)} {st}", fvals(o["re"])) + " && " + close(f"flat_phr snd {c['nf']} {len(sel)} {st}", fvals(o["im"])) + ")"
        parts = [close(f"flat_ph fst {c['nf']} {len(sel)} {c['n']} run", fvals(o["re"])), close(f"flat_ph snd {c['nf']} {len(sel)} {c['n']} run", fvals(o["im"]))]
        if k == "phasor_poynting":
            fx = opts.get("fixed_axis")
            pa = fx if fx is not None else c["n3"].index(1)
            minus = core.blit(opts.get("direction") == "-")
            cont = core.blit(opts.get("mode", "continuous") == "continuous")
            fl_ = fvals(o["flux"])
            sc = flux_scale(case, d, o)
            parts.append(close("[" + "; ".join(f"phasor_poynting_flux {c['n']} (pf_weights_single g {c['lo']} {c['n']} {pa}) {pa} {minus} {cont} (run {f}%nat)"
                                               for f in range(c["nf"])) + "]", fl_, sc))
        return f"(let run := {run} in " + " && ".join(parts) + ")"
    if k == "closed_phasor":
        axes = opts.get("axes")
        active = sorted(a for a in range(3) if c["n3"][a] > 1) if axes is None else list(axes)
        inward = core.blit(opts.get("orientation") == "inward")
        cont = core.blit(opts.get("mode", "continuous") == "continuous")
        face = (f"(fun a side => closed_face_run true {c['T']} {c['on']} {c['stride']} {c['pulse']} false {c['apod']} {c['n']} a side "
                f"{c['fE']} {c['fH']} {c['e']} z5)")
        parts = []
        for a in active:
            for side, sb in (("min", "false"), ("max", "true")):
                fo = o["faces"][f"phasor_axis{a}_{side}"]
                pn = list(c["n3"])
                pn[a] = 1
                parts.append(close(f"flat_ph fst {c['nf']} 6 {shp(pn)} (face {a}%nat {sb})", fvals(fo["re"])))
                parts.append(close(f"flat_ph snd {c['nf']} 6 {shp(pn)} (face {a}%nat {sb})", fvals(fo["im"])))
        al = lst(active, lambda a: f"{a}%nat")
        parts.append(close("[" + "; ".join(f"closed_phasor_net g {c['lo']} {c['n']} {al} {inward} {cont} (fun a side => face a side {f}%nat)"
                                           for f in range(c["nf"])) + "]", fvals(o["flux"]), flux_scale(case, d, o)))
        return f"(let face := {face} in " + " && ".join(parts) + ")"
    return None


def flux_scale(case, d, o):
    w = case["scene"]["widths"] or [[4] * n for n in case["scene"]["shape"]]
    amax = (max(max(a) for a in w) * 2.0 ** -26) ** 2
    ncell = int(np.prod([b[1] - b[0] for b in d["box"]]))
    if "faces" in o:
        m = max(max(abs(v) for v in fvals(f["re"]) + fvals(f["im"])) for f in o["faces"].values())
    else:
        m = max(abs(v) for v in fvals(o["re"]) + fvals(o["im"]))
    return max(m * m * amax * ncell * 6, 1e-300)


def det_exprs(case, out):
    res = []
    for d in case["dets"]:
        e = det_expr(case, d, out["dets"][d["name"]], out["dt"])
        if e is not None:
            res.append((d["name"], e))
    return res


def coq_expr(case, out):
    if "crash" in out:
        return "false"
    return prelude(case) + "(" + " && ".join(e for _, e in det_exprs(case, out)) + ")"


def show_model(case, out):
    if "crash" in out:
        return str(out)[:400]
    names = det_exprs(case, out)
    res, errs = core.coq_eval_shards(PID, COQ_HEADER, [prelude(case) + e for _, e in names], shard_size=4, tag="_show")
    bad = [nm for (nm, _), r in zip(names, res) if r is not True]
    return "detectors whose model differs from the implementation: " + ", ".join(bad) + (" ; " + str(errs[:1]) if errs else "")


# ----------------------------------------------------------------------------- predicate (numpy DFT of the history)
def relerr(a, b, sc=None):
    a, b = np.asarray(a), np.asarray(b)
    if a.shape != b.shape:
        return float("inf")
    sc = sc or max(float(np.abs(a).max(initial=0)), float(np.abs(b).max(initial=0)), 1e-300)
    return float(np.abs(a - b).max(initial=0)) / sc


def expected_phasor(case, d, o, dt, use_window=True):
    opts = d["opts"]
    T = case["scene"]["T"]
    sl = tuple(slice(lo, hi) for lo, hi in d["box"])
    kept = kept_list(o["base_on"], int(opts.get("stride", 1)))
    win = window_values(opts.get("window"), T, dt)
    wsum = sum(win[t] for t in kept)
    scale = 2.0 / wsum if opts.get("mode", "continuous") == "continuous" else max(1, int(opts.get("stride", 1)))
    res = []
    for om in o["omega"]:
        acc = 0
        for t in kept:
            EH = np.concatenate([np.asarray(case["E"][t], dtype=float) / 4, np.asarray(case["H"][t], dtype=float) / 4])[(slice(None),) + sl]
            acc = acc + EH * np.exp(1j * om * t * dt) * (win[t] if use_window else 1.0)
        res.append(acc * scale)
    return np.stack(res), kept, win


def areas(case, box, a):
    w = [np.asarray(x, dtype=float) * 2.0 ** -26 for x in (case["scene"]["widths"] or [[4] * n for n in case["scene"]["shape"]])]
    t = [x for x in range(3) if x != a]
    ar = w[t[0]][box[t[0]][0]:box[t[0]][1], None] * w[t[1]][None, box[t[1]][0]:box[t[1]][1]]
    s = [hi - lo for lo, hi in box]
    s[a] = 1
    return ar.reshape(s)


def predicate(case, out):
    if "crash" in out:
        return ("driver-crash", out["crash"])
    dt = out["dt"]
    for d in case["dets"]:
        o = out["dets"][d["name"]]
        opts = d["opts"]
        tol = 1e-5 if opts.get("window") else 1e-9
        exp, kept, win = expected_phasor(case, d, o, dt)
        cont = opts.get("mode", "continuous") == "continuous"
        if d["kind"] in ("phasor", "phasor_poynting"):
            got = (np.asarray(fvals(o["re"])) + 1j * np.asarray(fvals(o["im"]))).reshape(o["oshape"])[0]
            sel = sel_of(opts) if d["kind"] == "phasor" else list(range(6))
            e2 = exp[:, sel]
            if opts.get("reduce"):
                w = [np.asarray(x, dtype=float) for x in (case["scene"]["widths"] or [[4] * n for n in case["scene"]["shape"]])]
                b = d["box"]
                V = w[0][b[0][0]:b[0][1], None, None] * w[1][None, b[1][0]:b[1][1], None] * w[2][None, None, b[2][0]:b[2][1]]
                e2 = (e2 * V).sum(axis=(2, 3, 4)) / V.sum()
            if relerr(got, e2) > tol:
                return (f"phasor-not-windowed-dft-{d['name']}", f"{d['name']} {opts}: state differs from scale*sum w f e over kept steps {kept}: rel {relerr(got, e2):.3e}")
            if d["kind"] == "phasor_poynting":
                n3 = [hi - lo for lo, hi in d["box"]]
                pa = opts.get("fixed_axis") if opts.get("fixed_axis") is not None else n3.index(1)
                S = np.real(np.cross(exp[:, :3], np.conj(exp[:, 3:]), axis=1))[:, pa]
                fx = (S * areas(case, d["box"], pa)).sum(axis=(1, 2, 3)) * (-1 if opts.get("direction") == "-" else 1) * (0.5 if cont else 1.0)
                if relerr(fvals(o["flux"]), fx, flux_scale(case, d, o)) > tol:
                    return (f"phasor-poynting-flux-{d['name']}", f"{d['name']}: flux {fvals(o['flux'])} expected {fx}")
        else:
            n3 = [hi - lo for lo, hi in d["box"]]
            active = sorted(a for a in range(3) if n3[a] > 1) if opts.get("axes") is None else list(opts["axes"])
            S = np.real(np.cross(exp[:, :3], np.conj(exp[:, 3:]), axis=1))
            net = 0
            for a in active:
                ar = areas(case, d["box"], a)
                net = net + (np.take(S[:, a], [n3[a] - 1], axis=a + 1) * ar).sum(axis=(1, 2, 3)) - (np.take(S[:, a], [0], axis=a + 1) * ar).sum(axis=(1, 2, 3))
            net = net * (-1 if opts.get("orientation") == "inward" else 1) * (0.5 if cont else 1.0)
            if relerr(fvals(o["flux"]), net, flux_scale(case, d, o)) > tol:
                key = "closed-phasor-window-omitted" if opts.get("window") else f"closed-phasor-flux-{d['name']}"
                return (key, f"{d['name']} {opts}: net flux {fvals(o['flux'])} but Re(E x H*) of the windowed phasors gives {list(net)}")
    return None


def nontrivial(case, out):
    return "crash" not in out


def classify(case, out):
    return ("nonuniform" if case["scene"]["widths"] else "uniform") + "-" + "x".join(str(s) for s in case["scene"]["shape"])


def search(ctx, broken):
    found, tried = [], 0
    for i in range(4):
        c = make_case(ctx.rng, i % 2 == 1, "cube")
        o = run_cases(ctx, [c])[0]
        tried += 1
        r = predicate(c, o)
        if r:
            found.append((c, o, r[0], r[1]))
            break
    return found, tried
