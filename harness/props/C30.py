"""C30 — recorded boundary data decompresses to what was recorded (Recorder, LinearReconstructEveryK, DtypeConversion)."""
import struct

from lib import core
from lib.core import zlit, qlit, lst

PID = "C30"
PROPS_FILE = "props/C30.v"
IMPL = "C30_impl.py"
COQ_HEADER = ("From Coq Require Import ZArith QArith Qcanon Bool.\n"
              "From FV Require Import base.Scalar base.PyNum base.Util base.RecorderBase model.Recorder.\nOpen Scope Z_scope.")
SHARD = 60
RULE = ("grid cases: every (T,k,start) with start < T, T <= 8, k in {1,2,3,8} (quick) / T <= 40, k <= 8 (thorough), exhaustive, pipeline [EveryK], "
        "random value history with two components (a 1x1 storage array trips an unrelated sharding helper); "
        "compared per case: saved steps, index map, array size, time_to_array_index of every step, storage array, "
        "decompressed value of every step t >= start (model in Qc vs implementation, float64 tolerance 1e-9); "
        "pipeline cases: random (T,k,start) with DtypeConversion float32/float64 before/after the filter or alone "
        "(float32 arithmetic tolerance 2e-6, rounding to float32 as an oracle table computed with struct.pack); "
        "error cases: start >= T (IndexError <-> model None); non-trivial = at least one unsaved step t >= start")
EXHAUSTIVE = {"quick": True, "thorough": True}
ASSUMPTIONS = ["float64/float32 interpolation arithmetic agrees with exact rational arithmetic within 1e-9 / 2e-6 (relative to max(1,|v|))",
               "narrowing DtypeConversion = round-to-nearest float32 (oracle table from struct.pack, independent of fdtdx); widening = identity on values",
               "one array component per value (arrays are processed elementwise); exclude_filter and chained time filters are not modelled",
               "the model is the code after fixes/C30.patch; the unchanged source is the legacy variant (refuted theorems)"]
TRUSTED = ["correspondence harness (exact Z comparison of index structures, tolerant Qc comparison of values)",
           "reconstruct (top-down recursion) stands for Recorder.decompress' gather + bottom-up loop"]


def f32(v):
    return struct.unpack("f", struct.pack("f", v))[0]


def spec_saves(T, k, s):
    return sorted(set(range(s, T, k)) | {T - 1})


# ----------------------------------------------------------------------------- cases
def mk_vals(rng, T, ncomp, kind):
    if kind == "dyadic":
        return [[rng.randint(-64, 64) / 8.0 for _ in range(ncomp)] for _ in range(T)]
    return [[rng.uniform(-4, 4) for _ in range(ncomp)] for _ in range(T)]


PIPES = {
    "k": lambda k, s: [{"kind": "everyk", "k": k, "s": s}],
    "n32_k": lambda k, s: [{"kind": "conv", "dtype": "float32"}, {"kind": "everyk", "k": k, "s": s}],
    "k_n32": lambda k, s: [{"kind": "everyk", "k": k, "s": s}, {"kind": "conv", "dtype": "float32"}],
    "n32_k_w64": lambda k, s: [{"kind": "conv", "dtype": "float32"}, {"kind": "everyk", "k": k, "s": s}, {"kind": "conv", "dtype": "float64"}],
    "w64_k": lambda k, s: [{"kind": "conv", "dtype": "float64"}, {"kind": "everyk", "k": k, "s": s}],   # input float32 (widening)
    "n32": lambda k, s: [{"kind": "conv", "dtype": "float32"}],
    "w64": lambda k, s: [{"kind": "conv", "dtype": "float64"}],
}


def mk_case(rng, T, k, s, pipe="k", ncomp=1, slots=False):
    in32 = pipe in ("w64_k", "w64")
    vals = mk_vals(rng, T, ncomp, "dyadic" if (pipe == "k" or in32) else "real")
    return {"T": T, "k": k, "s": s, "pipe": pipe, "mods": PIPES[pipe](k, s), "in_dtype": "float32" if in32 else "float64",
            "vals": vals, "slots": slots}


def gen_cases(ctx):
    rng = ctx.rng
    cases = []
    # corpus: the two witnesses of the defect found in the design phase, and neighbours
    for (T, k, s) in [(10, 3, 2), (5, 8, 0), (5, 8, 2), (10, 3, 4), (12, 4, 1), (4, 4, 3), (1, 1, 0), (1, 3, 0), (9, 1, 3)]:
        cases.append(mk_case(rng, T, k, s, "k", 2, True))
    Tmax, ks = ctx.pick((8, (1, 2, 3, 8)), (40, tuple(range(1, 9))))
    for T in range(1, Tmax + 1):
        for k in ks:
            for s in range(T):
                cases.append(mk_case(rng, T, k, s, "k", 2, slots=(T <= 5 and k <= 3)))
    for _ in range(ctx.pick(6, 60)):     # larger random configurations (T > k, T <= k both)
        T = rng.randint(2, 40); k = rng.randint(1, 12); s = rng.randint(0, T - 1)
        cases.append(mk_case(rng, T, k, s, "k", 2, False))
    for i in range(ctx.pick(14, 140)):   # pipelines with dtype conversions
        pipe = list(PIPES)[1:][i % (len(PIPES) - 1)]
        T = rng.randint(2, 24); k = rng.randint(1, 9); s = rng.randint(0, T - 1)
        cases.append(mk_case(rng, T, k, s, pipe, 2, False))
    # malformed stream: start at or after the end
    for (T, k, s) in [(6, 2, 6), (3, 1, 5), (1, 4, 1)]:
        cases.append(mk_case(rng, T, k, s, "k", 2, False))
    return cases


def run_cases(ctx, cases):
    return core.run_impl_sharded(IMPL, cases, shard=ctx.pick(4, 8), timeout=3000)


# ----------------------------------------------------------------------------- Coq side
def specs_coq(case, comp):
    """module_spec list; narrowing conversions get the rounding table of this component as compress function"""
    tbl = lst([f"({qlit(r[comp])}, {qlit(f32(r[comp]))})" for r in case["vals"]])
    out = []
    for m in case["mods"]:
        if m["kind"] == "everyk":
            out.append(f"SEveryK {zlit(m['k'])} {zlit(m['s'])}")
        elif m["dtype"] == "float32" and case["in_dtype"] == "float64" and not any(x["kind"] == "conv" for x in case["mods"][:case["mods"].index(m)]):
            out.append(f"SConv (K := QcF) (tab_fun {tbl}) (fun x : Qc => x)")
        else:   # widening (or a conversion of already float32 data): identity on values
            out.append("SConv (K := QcF) (fun x : Qc => x) (fun x : Qc => x)")
    return lst(out)


def tol_of(case):
    return "(q 2 1000000)" if any(m["kind"] == "conv" for m in case["mods"]) or case["in_dtype"] == "float32" else "(q 1 1000000000)"


def has_filter(case):
    return any(m["kind"] == "everyk" for m in case["mods"])


def coq_expr(case, out):
    T, k, s = case["T"], case["k"], case["s"]
    if "crash" in out:
        return "false"
    if "error" in out:
        return f"match init_filter {zlit(T)} {zlit(k)} {zlit(s)} with None => true | Some _ => false end"
    parts = []
    if has_filter(case):
        idx = [f"zlist_eqb (f_sv f) {lst(out['saves'], zlit)}", f"zlist_eqb (f_map f) {lst(out['map'], zlit)}", f"(f_size f =? {zlit(out['size'])})"]
        if out.get("slots") is not None:
            idx.append(f"zlist_eqb (map (time_to_array_index f) (zrange {zlit(T)})) {lst(out['slots'], zlit)}")
        parts.append(f"match init_filter {zlit(T)} {zlit(k)} {zlit(s)} with Some f => {' && '.join(idx)} | None => false end")
    ts = list(range(s if has_filter(case) else 0, T))
    ncomp = len(case["vals"][0])
    for j in range(ncomp):
        dec = [out["dec"][t][j] for t in ts]
        dat = [r[j] for r in out["data"]]
        if "nan" in dec or "nan" in dat:
            return "false"
        sp = specs_coq(case, j)
        hist = f"(hist {lst([qlit(r[j]) for r in case['vals']])})"
        parts.append(f"match run_many QcF false 0%Qc {sp} {zlit(T)} {hist} {lst(ts, zlit)} with "
                     f"Some l => qlist_close {tol_of(case)} l {lst(dec, qlit)} | None => false end")
        parts.append(f"match record_data QcF false {sp} {zlit(T)} {hist} with "
                     f"Some d => qlist_close {tol_of(case)} d {lst(dat, qlit)} | None => false end")
    return "(" + " && ".join(parts) + ")%bool"


def show_model(case, out):
    T, k, s = case["T"], case["k"], case["s"]
    if not has_filter(case):
        return None
    return core.coq_eval_text(PID, COQ_HEADER, f"(save_steps {zlit(T)} {zlit(k)} {zlit(s)}, option_map f_map (init_filter {zlit(T)} {zlit(k)} {zlit(s)}))")


# ----------------------------------------------------------------------------- the property on the implementation
def predicate(case, out):
    T, k, s, pipe = case["T"], case["k"], case["s"], case["pipe"]
    tag = f"{pipe}-T{T}-k{k}-s{s}"
    if "crash" in out:
        return ("crash-" + tag, out["crash"])
    if "error" in out:
        return None if s >= T else ("init-error-" + tag, f"init_state raised {out['error']} for a valid configuration")
    if has_filter(case) and s >= T:
        return ("no-error-" + tag, "start step beyond the last step was accepted")
    narrowing = pipe in ("n32_k", "k_n32", "n32_k_w64", "n32")
    loose = pipe != "k"
    tol = 2e-6 if loose else 1e-9
    saves = spec_saves(T, k, s) if has_filter(case) else list(range(T))
    for j in range(len(case["vals"][0])):
        v = [f32(r[j]) if narrowing else r[j] for r in case["vals"]]
        for t in range(s if has_filter(case) else 0, T):
            g = out["dec"][t][j]
            if g == "nan":
                return ("nan-" + tag, f"decompress({t}) is not finite")
            got = float.fromhex(g)
            if t in saves:
                exp, what = v[t], "recorded value"
                ok = got == exp      # exact: the stored value is returned through exact (widening) casts
            else:
                lo = max(x for x in saves if x < t); hi = min(x for x in saves if x > t)
                exp = v[lo] + (t - lo) / (hi - lo) * (v[hi] - v[lo]); what = f"interpolation between saved steps {lo} and {hi}"
                ok = abs(got - exp) <= tol * max(1.0, abs(exp))
            if not ok:
                return ("decompress-" + tag, f"decompress({t}) = {got!r}, expected the {what} = {exp!r} (component {j})")
    return None


def nontrivial(case, out):
    T, k, s = case["T"], case["k"], case["s"]
    return has_filter(case) and s < T and len(spec_saves(T, k, s)) < T - s


def classify(case, out):
    T, k, s = case["T"], case["k"], case["s"]
    if s >= T:
        return "error:start>=T"
    return f"{case['pipe']}:" + ("T<=k" if T <= k else "start>0,k>1" if s > 0 and k > 1 else "start=0" if s == 0 else "k=1")


def search(ctx, broken):
    """directed search for a failing input: small grid, all pipelines"""
    rng = ctx.rng
    cases = [mk_case(rng, T, k, s, p, 2, False) for p in ("k", "n32_k", "k_n32", "w64_k") for T in range(1, 8) for k in (1, 2, 3, 7) for s in range(T)]
    cases += [mk_case(rng, T, 1, 0, p, 2, False) for p in ("n32", "w64") for T in (1, 3, 6)]
    outs = run_cases(ctx, cases)
    found = []
    for c, o in zip(cases, outs):
        r = predicate(c, o)
        if r:
            found.append((c, o, r[0], r[1]))
    return found[:3], len(cases)


LEVEL_TEXT = ("Theorem (all T, k, start, t >= start, any field, any conversion functions before/after the filter): saved steps are exactly "
              "start+i*k (<T) and T-1; a saved step decompresses to the round-tripped recorded value, any other step to the linear interpolation "
              "between the two enclosing consecutive saved steps with weight (t-p)/(n-p); conversions-only pipelines return every step; "
              "d(c(x))=x conversions round-trip exactly.  Proved for the code after fixes/C30.patch; the unchanged source is refuted "
              "(two witnesses, also reproduced on the implementation).  Tie: exhaustive (T,k,start) comparison of index structures, storage and outputs.")
LEVEL_NOTE = ("Genuine defect in the unchanged tree (start_recording_after>0 with k>1; T<=k): the check reports VIOLATION until fixes/C30.patch is applied. "
              "Float rounding of the interpolation and the float32 rounding function are oracles (tolerance / table); chained time filters and exclude_filter not modelled.")
TECHNIQUE = "Coq proof (induction over fill-forward passes and recording steps, lia/nia on the arange arithmetic) + exhaustive differential correspondence"
