"""C28 — static materials are painted by placement order (painter's rule, tiers, scalar permeability)."""
import math
from fractions import Fraction

from lib import core
from lib.core import zlit, lst, qlit, frac

PID = "C28"
PROPS_FILE = "props/C28.v"
IMPL = "C28_impl.py"
COQ_HEADER = ("From Coq Require Import ZArith QArith Qcanon.\n"
              "From FV Require Import base.Scalar base.Util model.PaintMaterials model.Paint.\nOpen Scope Z_scope.")
SHARD = 2
RULE = ("scenes of 2..6 overlapping static objects (boxes, spheres/ellipsoids, cylinders, extruded polygons) with random placement "
        "orders (ties, negative, below the volume's -1000), random list position of the volume, materials from every tier "
        "(isotropic / diagonal / full tensor permittivity and permeability, scalar / diagonal / full conductivities, multi-material "
        "dictionaries with key ties), uniform and non-uniform grids; the model's assembled arrays are compared with place_objects' "
        "arrays cell by cell; non-trivial = at least one cell covered by two or more non-volume objects")
EXHAUSTIVE = {"quick": False, "thorough": False}
ASSUMPTIONS = ["voxel masks of spheres/cylinders/polygons are taken from get_voxel_mask_for_shape (their correctness is C43)",
               "object slices are taken from the placed objects (placement itself is C26/C27)",
               "float results are compared with the exact rational model at relative tolerance 1e-9 per cell vector",
               "materials with a zero / singular tensor in an inverted property are outside the theorem (hypothesis mat_ok)"]
TRUSTED = ["correspondence harness (exact rational conversion of floats, norm-wise 1e-9 comparison)",
           "numpy predicate (independent recomputation of the winner per cell)"]
TOL = "(q 1 1000000000)"
REL = qlit(1e-9)

SHAPES = [(5, 4, 6), (4, 6, 5), (6, 5, 4), (5, 5, 5)]
SP = 1e-7


# ------------------------------------------------------------------------------------------ generation
def rmat(rng, kind):
    e = lambda: float(rng.choice([1, 2, 3, 4, 5, 6, 2.25, 11.7, 1.5, 0.5]))
    s = lambda: float(rng.choice([0.5, 1, 2, 3, 1e4, 2.5e3]))
    if kind == 0:
        return {"eps": e()}
    if kind == 1:
        return {"eps": [e(), e(), e()]}
    if kind == 2:
        return {"eps": e(), "sigma_e": s()}
    if kind == 3:
        return {"eps": e(), "mu": [e(), e(), e()], "sigma_m": float(rng.choice([0, 1, 2]))}
    if kind == 4:
        a, b, c = e() + 1, e() + 1, e() + 1
        return {"eps": [a, 0.5, 0.0, 0.5, b, 0.25, 0.0, 0.25, c]}
    if kind == 5:
        return {"eps": e(), "mu": float(rng.choice([1, 2, 4])), "sigma_e": [s(), s(), s()]}
    if kind == 6:
        return {"eps": e(), "mu": [2.0, 0.25, 0.0, 0.25, 3.0, 0.0, 0.0, 0.0, 1.5], "sigma_e": [1.0, 0.5, 0.0, 0.5, 2.0, 0.0, 0.0, 0.0, 3.0],
                "sigma_m": [s(), s(), s()]}
    if kind == 8:   # full tensor that is NOT symmetric (an inverse-transpose slip is invisible on symmetric tensors)
        a, b, c = e() + 1, e() + 1, e() + 1
        return {"eps": [a, 0.5, 0.125, 0.25, b, 0.25, 0.0, 0.375, c], "mu": [2.0, 0.25, 0.0, 0.5, 3.0, 0.125, 0.0, 0.0, 1.5]}
    if kind == 7:   # isotropic within math.isclose but not exactly (only component [0] is used by the isotropic tier)
        x = e()
        return {"eps": [x, x * (1 + 2 ** -40), x]}
    raise ValueError(kind)


def rdict(rng, kinds):
    """materials dictionary of a multi-material object: 2-3 entries, random insertion order, sometimes with equal sort keys"""
    n = rng.choice([1, 2, 3])
    ms = [rmat(rng, rng.choice(kinds)) for _ in range(n)]
    if n >= 2 and rng.random() < 0.4:      # key tie on permittivity[0]: later key components / insertion order decide
        e0 = ms[0]["eps"]
        ms[1]["eps"] = e0 if not isinstance(ms[1].get("eps"), list) else ([e0 if not isinstance(e0, list) else e0[0]] + ms[1]["eps"][1:])
        if isinstance(e0, list) and not isinstance(ms[1]["eps"], list):
            ms[1]["eps"] = e0[0]
    names = [f"m{i}" for i in range(n)]
    rng.shuffle(names)
    return [[nm, m] for nm, m in zip(names, ms)], rng.choice(names)


def gen_scene(rng, idx, nonuni=False):
    shape = SHAPES[idx % len(SHAPES)]
    profile = idx % 6
    kinds = {0: [0], 1: [0, 1, 7], 2: [0, 2, 5], 3: [0, 1, 3], 4: [0, 1, 2, 3, 4, 8], 5: [0, 1, 2, 3, 4, 5, 6, 7, 8]}[profile]
    case = {"shape": list(shape), "spacing": SP, "vol_pos": rng.randrange(0, 5), "objs": []}
    if rng.random() < 0.5:
        case["vol_mat"] = rmat(rng, rng.choice([k for k in kinds if k in (0, 1, 2, 7)] or [0]))
    if nonuni:
        edges = []
        for n in shape:
            w = [rng.choice([1.0, 1.25, 1.5]) * SP for _ in range(n)]
            e = [0.0]
            for x in w:
                e.append(e[-1] + x)
            edges.append(e)
        case["edges"] = edges
    nobj = rng.randrange(2, 7)
    for i in range(nobj):
        order = rng.choice([0, 0, 0, 1, 1, 2, -1, 3, -1000, -1001])
        shp = rng.choice(["box", "box", "sphere", "cyl", "poly"])
        if nonuni and shp != "box":
            shp = rng.choice(["box", "sphere", "cyl"])
        if shp == "box":
            lo = [rng.randrange(0, s) for s in shape]
            hi = [rng.randrange(l + 1, s + 1) for l, s in zip(lo, shape)]
            case["objs"].append({"kind": "box", "box": [[l, h] for l, h in zip(lo, hi)], "order": order, "mat": rmat(rng, rng.choice(kinds))})
            continue
        mats, name = rdict(rng, kinds)
        o = {"kind": shp, "mats": mats, "mat_name": name, "order": order}
        if shp == "sphere":
            n = [rng.choice([k for k in ([3, 4] if nonuni else [3, 4, 5]) if k <= s]) for s in shape]
            r = [0.5 * k * SP for k in n]
            o.update(radius=r[0], radius_y=r[1], radius_z=r[2])
            if rng.random() < 0.3:
                n = [min(n)] * 3
                o.update(radius=0.5 * n[0] * SP, radius_y=None, radius_z=None)
        elif shp == "cyl":
            ax = rng.randrange(3)
            d = rng.choice([k for k in ([3, 4] if nonuni else [3, 4, 5]) if k <= min(shape[a] for a in range(3) if a != ax)])
            n = [d, d, d]
            n[ax] = rng.randrange(1, min(5, shape[ax]) + 1)
            o.update(radius=0.5 * d * SP, axis=ax, height=n[ax])
        else:
            ax = rng.randrange(3)
            tr = [a for a in range(3) if a != ax]
            w, h = rng.choice([k for k in (3, 4, 5) if k <= shape[tr[0]]]), rng.choice([k for k in (3, 4) if k <= shape[tr[1]]])
            hw, hh = 0.5 * w * SP, 0.5 * h * SP
            verts = rng.choice([
                [[-hw, -hh], [hw, -hh], [0.13 * hw, hh]],
                [[-hw, -hh], [hw, -0.3 * hh], [0.6 * hw, hh], [-0.7 * hw, 0.55 * hh]],
                [[-hw, -hh], [hw, -hh], [hw, hh], [0.1 * hw, -0.2 * hh], [-hw, hh]]])
            n = [0, 0, 0]
            n[tr[0]], n[tr[1]] = w, h
            n[ax] = rng.randrange(1, min(4, shape[ax]) + 1)
            o.update(axis=ax, height=n[ax], vertices=verts)
        # (on stretched grids every cell is at least SP wide, so a metric size of k*SP needs at most k cells)
        o["lo"] = [rng.randrange(0, s - k + 1) for s, k in zip(shape, n)]
        case["objs"].append(o)
    return case


def gen_cases(ctx):
    n = ctx.pick(12, 90)
    cases = []
    for p in sorted((core.VERIF / "harness" / "corpus" / PID).glob("*.json")) if (core.VERIF / "harness" / "corpus" / PID).exists() else []:
        import json
        cases.append(json.loads(p.read_text()))
    for i in range(n):
        cases.append(gen_scene(ctx.rng, i, nonuni=(i % 5 == 4)))
    return cases


def run_cases(ctx, cases):
    return core.run_impl_sharded(IMPL, cases, shard=ctx.pick(3, 6), timeout=1500)


# ------------------------------------------------------------------------------------------ Coq text
def t9(v):
    f = [frac(x) for x in v]
    if all(f[i] == 0 for i in (1, 2, 3, 5, 6, 7)):
        return f"(D9 {qlit(f[0])} {qlit(f[4])} {qlit(f[8])})"
    return "(M9 " + " ".join(qlit(x) for x in f) + ")"


def matlit(m):
    return f"(MAT {t9(m['eps'])} {t9(m['mu'])} {t9(m['sigma_e'])} {t9(m['sigma_m'])})"


def boxlit(b):
    return f"(({zlit(b[0][0])},{zlit(b[1][0])},{zlit(b[2][0])}),({zlit(b[0][1])},{zlit(b[1][1])},{zlit(b[2][1])}))"


def objlit(o):
    if o["kind"] == "uniform":
        return f"(UNI {zlit(o['order'])} {boxlit(o['box'])} {matlit(o['mat'])})"
    mask = lst(o["mask"], lambda p: lst(p, lambda r: lst(r, lambda b: "true" if b else "false")))
    return f"(MUL {zlit(o['order'])} {boxlit(o['box'])} {lst(o['mats'], matlit)} {o['sel']}%nat {mask})"


def arrlit(a):
    return lst(a["v"], lambda row: lst(row, qlit))


def model_call(out):
    s = out["shape"]
    return (f"(assemble QcOF {REL} ({zlit(s[0])},{zlit(s[1])},{zlit(s[2])}) {qlit(out['c0'])} {qlit(out['dt'])} {qlit(out['courant'])} "
            f"{lst(out['objs'], objlit)})")


def coq_expr(case, out):
    if "error" in out:
        return None
    mu = out["mu"]
    mul = f"(ImplMuScalar {qlit(mu['scalar'])})" if "scalar" in mu else f"(ImplMuArray {zlit(mu['n'])} {arrlit(mu)})"
    cond = lambda a: "None" if a is None else f"(Some ({zlit(a['n'])}, {arrlit(a)}))"
    return f"out_close {TOL} {model_call(out)} {zlit(out['eps']['n'])} {arrlit(out['eps'])} {mul} {cond(out['sige'])} {cond(out['sigm'])}"


def show_model(case, out):
    return core.coq_eval_text(PID, COQ_HEADER, model_call(out))[-2500:]


# ------------------------------------------------------------------------------------------ predicate
def isclose(a, b):
    return math.isclose(a, b)


def _iso(p):
    return isclose(p[0], p[4]) and isclose(p[4], p[8]) and all(isclose(p[i], 0.0) for i in (1, 2, 3, 5, 6, 7))


def _diag(p):
    return all(isclose(p[i], 0.0) for i in (1, 2, 3, 5, 6, 7))


def _need(p):
    return 1 if _iso(p) else 3 if _diag(p) else 9


def _f(m):
    return {k: [float.fromhex(x) for x in v] for k, v in m.items()}


def _inv3(p):
    a, b, c, d, e, f, g, h, i = [Fraction(x) for x in p]
    det = a * (e * i - f * h) - b * (d * i - f * g) + c * (d * h - e * g)
    return [float(x / det) for x in ((e * i - f * h), (c * h - b * i), (b * f - c * e), (f * g - d * i), (a * i - c * g), (c * d - a * f),
                                      (d * h - e * g), (b * g - a * h), (a * e - b * d))]


def predicate(case, out):
    """The property on the implementation's output: per cell, the arrays hold the values of the highest-order
    covering object (later list position wins ties), widths are the widest tier, non-magnetic scenes store 1.0."""
    tag = "case-" + core.case_hash(case)[:10]
    if "error" in out:
        return (tag + "-error", "placement failed: " + out["error"])
    objs = out["objs"]
    nx, ny, nz = out["shape"]
    # the material each object writes; all materials present
    allm, wmat = [], []
    for o in objs:
        if o["kind"] == "uniform":
            m = _f(o["mat"]); allm.append(m); wmat.append(m)
        else:
            ms = [_f(x) for x in o["mats"]]; allm += ms; wmat.append(ms[o["sel"]])
    # winner per cell: maximal order, latest in the list among equals
    win = {}
    for j, o in enumerate(objs):
        (lx, hx), (ly, hy), (lz, hz) = o["box"]
        for x in range(lx, hx):
            for y in range(ly, hy):
                for z in range(lz, hz):
                    if o["kind"] == "multi" and not o["mask"][x - lx][y - ly][z - lz]:
                        continue
                    k = win.get((x, y, z))
                    if k is None or objs[k]["order"] <= o["order"]:
                        win[(x, y, z)] = j
    if len(win) != nx * ny * nz:
        return (tag + "-uncovered", "some cell is covered by no object (volume missing?)")
    spacing = float.fromhex(out["c0"]) * float.fromhex(out["dt"]) / float.fromhex(out["courant"])
    if out.get("uniform_spacing") is not None and abs(spacing / float.fromhex(out["uniform_spacing"]) - 1) > 1e-9:
        return (tag + "-spacing", f"conductivity reference spacing {spacing} differs from the uniform grid spacing")

    def check(arr, key, inverse, scale, what):
        n = max(_need(m[key]) for m in allm)
        if arr["n"] != n:
            return (f"{tag}-tier-{what}", f"{what}: array has {arr['n']} components, widest material needs {n}")
        it = iter(arr["v"])
        for x in range(nx):
            for y in range(ny):
                for z in range(nz):
                    got = [float.fromhex(v) for v in next(it)]
                    p = wmat[win[(x, y, z)]][key]
                    if inverse:
                        exp = [1 / p[0]] if n == 1 else [1 / p[0], 1 / p[4], 1 / p[8]] if n == 3 else _inv3(p)
                    else:
                        exp = [v * scale for v in ([p[0]] if n == 1 else [p[0], p[4], p[8]] if n == 3 else p)]
                    sc = max(abs(v) for v in exp)
                    if any(abs(g - e) > 1e-9 * sc for g, e in zip(got, exp)) or any(g != g for g in got):
                        return (f"{tag}-{what}", f"{what} at cell {(x, y, z)}: array holds {got}, the top object "
                                                 f"{objs[win[(x, y, z)]]['name']} (order {objs[win[(x, y, z)]]['order']}) requires {exp}")
        return None

    r = check(out["eps"], "eps", True, 1.0, "inv_permittivities")
    if r:
        return r
    def _magnetic(m):
        p = m["mu"]
        return not (isclose(p[0], 1.0) and isclose(p[4], 1.0) and isclose(p[8], 1.0) and all(isclose(p[i], 0.0) for i in (1, 2, 3, 5, 6, 7)))
    nonmag = not any(_magnetic(m) for m in allm)
    if nonmag:
        if "scalar" not in out["mu"] or float.fromhex(out["mu"]["scalar"]) != 1.0:
            return (tag + "-mu-scalar", "non-magnetic scene does not store the scalar permeability 1.0")
    else:
        if "scalar" in out["mu"]:
            return (tag + "-mu-array", "magnetic scene stores a scalar permeability")
        r = check(out["mu"], "mu", True, 1.0, "inv_permeabilities")
        if r:
            return r
    for key, okey, what in (("sigma_e", "sige", "electric_conductivity"), ("sigma_m", "sigm", "magnetic_conductivity")):
        cond = any(not all(isclose(v, 0.0) for v in m[key]) for m in allm)
        if (out[okey] is not None) != cond:
            return (f"{tag}-{what}-alloc", f"{what} allocated={out[okey] is not None} but conductive materials present={cond}")
        if cond:
            r = check(out[okey], key, False, spacing, what)
            if r:
                return r
    return None


def _overlap_count(out):
    if "error" in out:
        return 0
    cnt = {}
    for o in out["objs"][1:]:
        (lx, hx), (ly, hy), (lz, hz) = o["box"]
        for x in range(lx, hx):
            for y in range(ly, hy):
                for z in range(lz, hz):
                    if o["kind"] == "multi" and not o["mask"][x - lx][y - ly][z - lz]:
                        continue
                    cnt[(x, y, z)] = cnt.get((x, y, z), 0) + 1
    return sum(1 for v in cnt.values() if v >= 2)


def nontrivial(case, out):
    return _overlap_count(out) > 0


def classify(case, out):
    if "error" in out:
        return "error"
    kinds = sorted({o["kind"] for o in case["objs"]})
    return f"eps{out['eps']['n']}-mu{'S' if 'scalar' in out['mu'] else out['mu']['n']}-se{out['sige']['n'] if out['sige'] else 0}-" \
           f"sm{out['sigm']['n'] if out['sigm'] else 0}-{'nonuni' if case.get('edges') else 'uni'}-{'+'.join(kinds)}"


LEVEL_TEXT = ("Theorems (all object lists, all cells, all four property arrays, tiers 1/3/9, over any ordered field): the assembled "
              "value of a grounded cell is that of the covering object with the highest placement order, the latest in list order among "
              "equals (stable sort + fold of box/mask writes, induction over the write list); the material a multi-material object "
              "writes, looked up through the sorted material list, is the named material; tier = maximum need over all materials; "
              "scalar permeability iff all materials non-magnetic. Tie: assembled arrays of place_objects vs the model on random scenes.")
LEVEL_NOTE = ("Exact-arithmetic semantics (round-off outside); masks and slices are inputs (C43 / placement properties); "
              "inverted properties require non-singular material tensors (hypothesis); dispersive coefficient arrays and sub-pixel "
              "smoothing are not modelled.")
TECHNIQUE = "Coq proof (induction over the sorted write list, field identities for the 3x3 adjugate inverse) + differential runs of place_objects"
