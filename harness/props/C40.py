"""C40 — functional updates (TreeClass.aset) never mutate their input."""
import copy

from lib import core
from lib.core import zlit, lst, blit

PID = "C40"
PROPS_FILE = "props/C40.v"
IMPL = "C40_impl.py"
COQ_HEADER = "From Coq Require Import ZArith Bool.\nFrom FV Require Import model.Heap model.HeapCheck."
SHARD = 40
RULE = ("random nested objects (two TreeClass types with pytree and frozen fields, lists, dicts, int leaves; depth <= 4) and "
        "update paths: ~70% valid paths of every shape (attribute / [index] incl. negative / ['key'] / through frozen fields / "
        "new dict key with create_new_ok), ~30% malformed (missing attribute or key, index out of range, operation of the wrong "
        "kind for the object); the value is a leaf or a small fresh subtree; non-trivial = successful update with path length >= 2")
EXHAUSTIVE = {"quick": False, "thorough": False}
ASSUMPTIONS = ["pytreeclass `.at[\"_aset\"]` is modelled as copy-then-setattr of the class node; its re-creation of off-path pytree "
               "containers below that node is not tracked (identity expectation XAny there, values still compared)",
               "creation of a new *attribute* on a TreeClass with create_new_ok is outside the model (dict-key creation is inside)",
               "object identity of leaves (interned ints) is not observed"]
TRUSTED = ["correspondence harness: address <-> id() bijection by traversal order", "predicate: deep snapshot (values + id()) of the original before/after"]
FID = {"x": 1, "y": 2, "z": 3, "p": 4, "q": 5}
CID = {"A": 10, "B": 20}
FIELDS = {"A": ["x", "y", "z"], "B": ["p", "q"]}


def kid(k):
    return 100 + int(k[1:])


# ----------------------------------------------------------------------------- generation
def gen_tree(rng, depth, want="any"):
    t = want if want != "any" else rng.choice(["leaf", "leaf", "list", "dict", "class", "class"])
    if depth <= 0:
        t = "leaf"
    if t == "leaf":
        return {"t": "leaf", "v": rng.randint(-50, 50)}
    if t == "list":
        return {"t": "list", "items": [gen_tree(rng, depth - 1) for _ in range(rng.randint(0, 3))]}
    if t == "dict":
        ks = sorted(rng.sample(range(6), rng.randint(0, 3)))   # jax's pytree copy sorts dict keys: keep them sorted
        return {"t": "dict", "entries": [[f"k{k}", gen_tree(rng, depth - 1)] for k in ks]}
    c = rng.choice(["A", "B"])
    return {"t": "class", "cls": c, "fields": [[f, gen_tree(rng, depth - 1)] for f in FIELDS[c]]}


def children(node):
    if node["t"] == "class":
        return [(("attr", k), v) for k, v in node["fields"]]
    if node["t"] == "list":
        n = len(node["items"])
        return [(("idx", i if rng_neg is None or not rng_neg() else i - n), v) for i, v in enumerate(node["items"])]
    if node["t"] == "dict":
        return [(("key", k), v) for k, v in node["entries"]]
    return []


rng_neg = None


def gen_path(rng, root):
    """returns (ops, create)"""
    global rng_neg
    rng_neg = lambda: rng.random() < 0.3
    ops, node = [], root
    L = rng.randint(1, 4)
    while len(ops) < L:
        ch = children(node)
        if not ch:
            break
        o, node = rng.choice(ch)
        ops.append(o)
    create = rng.random() < 0.25
    mode = rng.random()
    if not ops:
        ops = [("attr", "x")]
    if mode < 0.12 and node["t"] == "dict":       # new key at the end
        ops.append(("key", f"k{rng.randint(6, 9)}"))
        create = rng.random() < 0.7
    elif mode < 0.32:                               # malformed
        bad = rng.choice([("attr", "nope"), ("idx", 7), ("idx", -9), ("key", "k9"), ("attr", "x"), ("idx", 0), ("key", "k0")])
        pos = rng.randint(0, len(ops))
        ops = ops[:pos] + [bad] + (ops[pos + 1:] if rng.random() < 0.5 else [])
        if bad[0] == "attr":
            create = False                          # attribute creation is outside the model
    rng_neg = None
    return ops, create


def path_str(ops):
    parts = []
    for k, v in ops:
        parts.append(v if k == "attr" else f"[{v}]" if k == "idx" else f"['{v}']")
    return "->".join(parts)


def gen_cases(ctx):
    rng = ctx.rng
    cases = []
    for i in range(ctx.pick(240, 3000)):
        root = gen_tree(rng, 4, "class")
        ops, create = gen_path(rng, root)
        # never generate attribute creation on a class (outside the model)
        val = gen_tree(rng, 2) if rng.random() < 0.5 else {"t": "leaf", "v": rng.randint(100, 200)}
        cases.append({"root": root, "val": val, "ops": [list(o) for o in ops], "path": path_str(ops), "create": create})
    return cases


def run_cases(ctx, cases):
    return core.run_impl_sharded(IMPL, cases, shard=ctx.pick(2, 4))


# ----------------------------------------------------------------------------- pure reference (independent of the model)
def strip(s):
    if s["t"] == "class":
        return ("class", s["cls"], tuple((k, strip(v)) for k, v in s["fields"]))
    if s["t"] == "list":
        return ("list", tuple(strip(v) for v in s["items"]))
    if s["t"] == "dict":
        return ("dict", tuple(sorted((k, strip(v)) for k, v in s["entries"])))   # dict equality ignores order
    if s["t"] == "leaf":
        return ("leaf", s["v"])
    return ("other", s.get("repr"))


class Bad(Exception):
    pass


def ref_update(node, ops, val, create):
    """node, val: stripped values; returns the stripped expected result or raises Bad"""
    (k, a), rest = ops[0], ops[1:]
    if k == "attr":
        if node[0] != "class":
            raise Bad("attribute on non-class")
        fs = dict(node[2])
        if a not in fs:
            raise Bad("missing attribute (creation on classes not generated)")
        new = val if not rest else ref_update(fs[a], rest, val, create)
        return ("class", node[1], tuple((kk, new if kk == a else vv) for kk, vv in node[2]))
    if k == "idx":
        if node[0] != "list":
            raise Bad("index on non-list")
        n = len(node[1]); j = a + n if a < 0 else a
        if not 0 <= j < n:
            raise Bad("index out of range")
        new = val if not rest else ref_update(node[1][j], rest, val, create)
        return ("list", tuple(new if i == j else v for i, v in enumerate(node[1])))
    if node[0] != "dict":
        raise Bad("key on non-dict")
    es = dict(node[1])
    if a not in es:
        if rest or not create:
            raise Bad("missing key")
        return ("dict", tuple(sorted(node[1] + ((a, val),))))
    new = val if not rest else ref_update(es[a], rest, val, create)
    return ("dict", tuple((kk, new if kk == a else vv) for kk, vv in node[1]))


def predicate(case, out):
    key = "case-" + core.case_hash(case)[:10]
    if out["after"] != out["before"]:
        return (key, f"aset('{case['path']}') mutated the original object (deep snapshot incl. object identities differs)")
    if out["val_after"] != out["val"]:
        return (key, "aset mutated the value object")
    ops = [tuple(o) for o in case["ops"]]
    try:
        want = ref_update(strip(out["before"]), ops, strip(out["val"]), case["create"])
    except Bad as e:
        if "new" in out:
            return (key, f"aset('{case['path']}') succeeded on an invalid path ({e})")
        return None
    if "error" in out:
        return (key, f"aset('{case['path']}') failed on a valid path: {out['error']}")
    if not out["same_type"]:
        return (key, "result is not of the same type as self")
    if out["new_is_old"]:
        return (key, "aset returned self")
    if strip(out["new"]) != want:
        return (key, f"result differs from the original with only '{case['path']}' replaced")
    return None


# ----------------------------------------------------------------------------- correspondence
def build_store(snap_root, snap_val):
    """post-order allocation; returns (store terms, id->addr, root addr, val addr, orig etree text)"""
    store, idmap = [], {}

    def alloc(n):
        if n["t"] == "leaf":
            store.append(f"CLeaf {zlit(n['v'])}")
        elif n["t"] == "list":
            ch = [alloc(c) for c in n["items"]]
            store.append("CList " + lst([f"{a}%nat" for a in ch]))
        elif n["t"] == "dict":
            ch = [(kid(k), alloc(c)) for k, c in n["entries"]]
            store.append("CDict " + lst([f"({zlit(k)}, {a}%nat)" for k, a in ch]))
        else:
            ch = [(FID[k], alloc(c)) for k, c in n["fields"]]
            store.append(f"CClass {zlit(CID[n['cls']])} " + lst([f"({zlit(k)}, {a}%nat)" for k, a in ch]))
        a = len(store) - 1
        if "id" in n:
            idmap[n["id"]] = a
        return a

    r = alloc(snap_root)
    v = alloc(snap_val)
    return store, idmap, r, v


def xexp(n, idmap, tracked):
    if not tracked:
        return "XAny"
    return f"(XOld {idmap[n['id']]}%nat)" if n["id"] in idmap else "XFresh"


def etree(n, idmap, ops, tracked=True):
    """ops: remaining path below this node (None = off path)"""
    if n["t"] == "leaf":
        return f"(ELeaf {zlit(n['v'])})"
    if n["t"] == "other":
        return "(ELeaf 424242)"
    nxt = ops[0] if ops else None
    rest = ops[1:] if ops else None
    x = xexp(n, idmap, tracked)
    if n["t"] == "class":
        items = []
        for k, c in n["fields"]:
            on = nxt is not None and nxt[0] == "attr" and nxt[1] == k
            # siblings of an on-path attribute are re-created by pytreeclass' tree copy: identity not tracked
            items.append(f"({zlit(FID[k])}, {etree(c, idmap, rest if on else None, tracked and (on or nxt is None))})")
        return f"(EClass {x} {zlit(CID.get(n['cls'], 0))} {lst(items)})"
    if n["t"] == "list":
        m = len(n["items"])
        j = None
        if nxt is not None and nxt[0] == "idx":
            j = nxt[1] + m if nxt[1] < 0 else nxt[1]
        return f"(EList {x} {lst([etree(c, idmap, rest if i == j else None, tracked) for i, c in enumerate(n['items'])])})"
    items = []
    for k, c in n["entries"]:
        on = nxt is not None and nxt[0] == "key" and nxt[1] == k
        items.append(f"({zlit(kid(k))}, {etree(c, idmap, rest if on else None, tracked)})")
    return f"(EDict {x} {lst(items)})"


OPC = {"attr": lambda v: f"Attr {zlit(FID.get(v, 99))}", "idx": lambda v: f"Idx {zlit(v)}", "key": lambda v: f"Key {zlit(kid(v))}"}


def coq_expr(case, out):
    store, idmap, r, v = build_store(out["before"], out["val"])
    ops = [tuple(o) for o in case["ops"]]
    opl = lst([OPC[k](a) for k, a in ops])
    impl = f"(Some {etree(out['new'], idmap, ops)})" if "new" in out else "None"
    orig = etree(out["before"], idmap, None)
    return f"aset_agrees {lst(store)} {r}%nat {opl} {v}%nat {blit(case['create'])} {impl} {orig}"


def nontrivial(case, out):
    return "new" in out and len(case["ops"]) >= 2


def classify(case, out):
    return ("ok" if "new" in out else "error") + f"-len{len(case['ops'])}" + ("-create" if case["create"] else "")


LEVEL_TEXT = ("Theorems (all stores, roots, paths, values, create flag) on the store model of aset: every pre-existing object keeps its "
              "content (original unchanged); the result reaches the value at the path; for every path prefix the result's object is "
              "fresh, of the same kind/class, and all its other slots hold the identical child objects; result has the class of self. "
              "Correspondence: model's result graph (values + identity pattern fresh/shared) vs TreeClass.aset on random nested objects.")
LEVEL_NOTE = ("Trusted: Coq kernel; harness id<->address mapping; pytreeclass' internal tree copy is abstracted (identity of off-path "
              "children of on-path class nodes not tracked); attribute creation on classes not modelled.")
TECHNIQUE = "Coq proof (induction over the path, store-extension invariant) + differential execution incl. id()-sharing pattern"
