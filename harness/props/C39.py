"""C39 — material descriptions are normalised and classified consistently."""
import math
from fractions import Fraction

from lib import core
from lib.core import zlit, lst, qlit, frac

PID = "C39"
PROPS_FILE = "props/C39.v"
IMPL = "C39_impl.py"
COQ_HEADER = ("From Coq Require Import ZArith QArith Qcanon.\n"
              "From FV Require Import base.Scalar base.Util model.PaintMaterials.\nOpen Scope Z_scope.")
SHARD = 40
RULE = ("norm: groups of equivalent inputs (scalar / 3-tuple / 9-tuple / nested 3x3, floats and ints) and a malformed stream (int "
        "3-tuples, mixed tuples, wrong lengths, short rows) through Material(...); pred: materials with exact, nearly-equal (2^-40) and "
        "clearly different diagonal entries, tiny off-diagonals, near-identity permeabilities; order: dictionaries of 2..7 materials "
        "with ties on 1..4 key components in random insertion order; complex: from_complex_permittivity on all four forms with "
        "frequency / wavelength / WaveCharacter references, optional complex permeability, singular real parts; non-trivial = not "
        "the all-default material")
EXHAUSTIVE = {"quick": False, "thorough": False}
ASSUMPTIONS = ["math.isclose(rel_tol=1e-9) is modelled over exact rationals with the exact double 1e-9; generated values stay away from the tolerance boundary",
               "products omega*eps0*eps'' are compared with the exact rational product at relative tolerance 1e-12",
               "numpy.linalg.det in the singularity guard is modelled by the exact determinant; generated tensors are far from the threshold"]
TRUSTED = ["correspondence harness (exact rational conversion of floats)", "python predicate (independent restatement of the property)"]
REL = qlit(1e-9)
TOL12 = "(q 1 1000000000000)"
PROPN = ("permittivity", "permeability", "electric_conductivity", "magnetic_conductivity")
PREDS = ("is_isotropic_permittivity", "is_diagonally_anisotropic_permittivity", "is_isotropic_permeability",
         "is_diagonally_anisotropic_permeability", "is_isotropic_electric_conductivity",
         "is_diagonally_anisotropic_electric_conductivity", "is_isotropic_magnetic_conductivity",
         "is_diagonally_anisotropic_magnetic_conductivity", "is_magnetic", "is_electrically_conductive",
         "is_magnetically_conductive", "is_all_isotropic", "is_all_diagonally_anisotropic")


# ------------------------------------------------------------------------------------------ value encoding
def F(x):
    return {"f": float(x).hex()}


def I(n):
    return {"i": int(n)}


def T(*xs):
    return {"t": list(xs)}


def C(re, im):
    return {"c": [float(re).hex(), float(im).hex()]}


def rval(rng):
    return float(rng.choice([1, 2, 3, 4.5, 2.25, 11.7, 0.5, 1.0000001, 7.3e3, 1e-3, rng.uniform(0.1, 20)]))


# ------------------------------------------------------------------------------------------ generation
def gen_cases(ctx):
    rng = ctx.rng
    cases = []
    z = F(0.0)
    n_norm, n_pred, n_order, n_cplx = ctx.pick((16, 30, 16, 24), (120, 300, 150, 200))
    for i in range(n_norm):
        prop = PROPN[i % 4]
        k = i % 4
        if k == 0:
            x = F(rval(rng))
            forms = [x, T(x, x, x), T(x, z, z, z, x, z, z, z, x), T(T(x, z, z), T(z, x, z), T(z, z, x))]
        elif k == 1:
            a, b, c = F(rval(rng)), F(rval(rng)), F(rval(rng))
            forms = [T(a, b, c), T(a, z, z, z, b, z, z, z, c), T(T(a, z, z), T(z, b, z), T(z, z, c))]
        elif k == 2:
            v = [F(rval(rng)) if rng.random() < 0.8 else I(rng.randrange(1, 5)) for _ in range(9)]
            forms = [T(*v), T(T(*v[0:3]), T(*v[3:6]), T(*v[6:9]))]
        else:
            n = rng.randrange(1, 6)
            x = F(rval(rng))
            forms = [I(n), T(I(n), I(n), I(n)), T(x, I(n), x), T(x, x), T(x, x, x, x), T(), T(T(x, x), T(x, x, x), T(x, x, x)),
                     T(T(x, x, x), T(x, x, x), x), T(*([x] * 8)), T(*([I(n)] * 9)), T(T(I(n), x, x), T(x, I(n), x), T(x, x, I(n)))]
        cases.append({"kind": "norm", "prop": prop, "group": ["iso", "diag", "full", "malformed"][k], "forms": forms})
    for i in range(n_pred):
        def prop_val(base_one):
            k = rng.randrange(12)
            x = 1.0 if base_one and rng.random() < 0.5 else rval(rng)
            if not base_one and rng.random() < 0.35:
                x = 0.0
            if k == 0:
                return F(x)
            if k == 1:
                return T(F(x), F(x * (1 + 2.0 ** -40)), F(x))              # isclose, not equal
            if k == 2:
                return T(F(x), F(x * (1 + 1e-6)), F(x))                     # not isclose
            if k == 3:
                return T(F(x), F(rval(rng)), F(rval(rng)))
            if k == 4:
                return T(F(x), F(1e-30), z, z, F(x), z, z, z, F(x))        # tiny but non-zero off-diagonal
            if k == 5:
                return T(F(x), F(0.5), z, F(0.5), F(x + 1), z, z, z, F(x + 2))
            if k == 6:
                return T(F(x), z, z, z, F(x), z, z, z, F(x * (1 - 2.0 ** -41)))
            if k == 7:
                return T(F(x * (1 + 2.0 ** -40)), z, z, z, F(x), z, z, F(-0.0), F(x))
            if k == 8:
                return T(F(x), z, z, z, F(x), z, F(-1e-300), z, F(x))
            if k == 9:
                return T(F(x), F(x), F(x * 1.5 + 1))                       # xx = yy != zz
            if k == 10:
                return T(F(x * 2 + 1), F(x), F(x))                         # xx != yy = zz
            return T(F(x), z, z, z, F(x), z, z, z, F(x + 0.25))
        cases.append({"kind": "pred", "mat": {"permittivity": prop_val(False) if rng.random() < 0.9 else F(1.0), "permeability": prop_val(True),
                                              "electric_conductivity": prop_val(False), "magnetic_conductivity": prop_val(False)}})
        if cases[-1]["mat"]["permittivity"] == F(0.0):
            cases[-1]["mat"]["permittivity"] = F(2.0)
    for i in range(n_order):
        n = rng.randrange(2, 8)
        pool = [1.0, 2.0, 2.0, 3.5]
        mats = []
        names = rng.sample(["si", "air", "sio2", "au", "x", "m1", "m0", "Zn", "b", "a"], n)
        for nm in names:
            d = {"permittivity": F(rng.choice(pool))}
            if rng.random() < 0.6:
                d["permeability"] = F(rng.choice([1.0, 2.0]))
            if rng.random() < 0.5:
                d["electric_conductivity"] = F(rng.choice([0.0, 1.0, 2.0]))
            if rng.random() < 0.4:
                d["magnetic_conductivity"] = T(F(rng.choice([0.0, 1.0])), F(rval(rng)), F(rval(rng)))
            if rng.random() < 0.3:
                e = float.fromhex(d["permittivity"]["f"])
                d["permittivity"] = T(F(e), F(0.25), z, F(0.25), F(rval(rng) + 1), z, z, z, F(rval(rng) + 1))
            mats.append([nm, d])
        cases.append({"kind": "order", "mats": mats})
    for i in range(n_cplx):
        def cv():
            return C(rval(rng), rng.choice([0.0, 0.1, 0.5, -0.2, 3.0]))
        k = i % 5
        zc = C(0.0, 0.0)
        if k == 0:
            eps = cv()
        elif k == 1:
            eps = T(cv(), cv(), cv())
        elif k == 2:
            a, b, c = cv(), cv(), cv()
            eps = T(a, C(0.0, 0.3), zc, C(0.0, -0.3), b, zc, zc, zc, c)
        elif k == 3:
            a, b, c = cv(), cv(), cv()
            # nested 3x3, NOT symmetric (gyrotropic off-diagonal pair + unequal real off-diagonals): row-major order matters
            eps = T(T(a, C(0.0, 0.3), C(0.1, 0.0)), T(C(0.0, -0.3), b, zc), T(C(0.2, 0.0), zc, c))
        else:
            eps = rng.choice([C(0.0, 0.5), T(cv(), C(0.0, 1.0), cv()), T(C(1, 0), C(1, 0), zc, C(1, 0), C(1, 0), zc, zc, zc, C(2, 0.1))])   # singular real part
        ref = [["frequency", float(rng.uniform(1e14, 5e14)).hex()], ["wavelength", float(rng.uniform(4e-7, 2e-6)).hex()],
               ["reference", float(rng.uniform(4e-7, 2e-6)).hex(), "wavelength"], ["reference", float(rng.uniform(1e14, 5e14)).hex(), "frequency"]][i % 4]
        c = {"kind": "complex", "eps": eps, "ref": ref}
        if rng.random() < 0.4:
            c["mu"] = rng.choice([C(1.0, 0.2), T(C(1, 0.1), C(2, 0), C(1, 0.3)), C(2.0, 0.0),
                                  T(T(C(1, 0.1), C(0.0, 0.2), zc), T(C(0.0, -0.2), C(2, 0), C(0.05, 0.0)), T(zc, zc, C(1, 0.3)))])
        cases.append(c)
    return cases


def run_cases(ctx, cases):
    return core.run_impl_sharded(IMPL, cases, shard=ctx.pick(1, 3))


# ------------------------------------------------------------------------------------------ Coq text
def pv(v):
    if "f" in v:
        return f"(PF {qlit(float.fromhex(v['f']))})"
    if "i" in v:
        return f"(PI {zlit(v['i'])})"
    return f"(PT {lst(v['t'], pv)})"


def t9(v):
    return "(C9 " + " ".join(qlit(x) for x in v) + ")"


def matlit(m):
    return f"(CMAT {t9(m['permittivity'])} {t9(m['permeability'])} {t9(m['electric_conductivity'])} {t9(m['magnetic_conductivity'])})"


def mat_lists(m):
    return lst([lst(m[k], qlit) for k in PROPN])


def _flat_complex(v):
    """normalise a complex input the way the property describes (independent of the implementation): -> (re[9], im[9])"""
    def comp(x):
        if "c" in x:
            return Fraction(float.fromhex(x["c"][0])), Fraction(float.fromhex(x["c"][1]))
        return Fraction(float.fromhex(x["f"])), Fraction(0)
    if "t" not in v:
        r, i = comp(v)
        return [r, 0, 0, 0, r, 0, 0, 0, r], [i, 0, 0, 0, i, 0, 0, 0, i]
    t = v["t"]
    if len(t) == 3 and all("t" in x for x in t):
        t = [y for x in t for y in x["t"]]
    if len(t) == 3:
        c = [comp(x) for x in t]
        return [c[0][0], 0, 0, 0, c[1][0], 0, 0, 0, c[2][0]], [c[0][1], 0, 0, 0, c[1][1], 0, 0, 0, c[2][1]]
    c = [comp(x) for x in t]
    return [x[0] for x in c], [x[1] for x in c]


def coq_expr(case, out):
    if "crash" in out:
        return None
    k = case["kind"]
    if k == "norm":
        parts = []
        for v, r in zip(case["forms"], out["res"]):
            if "ok" in r:
                if any("other" in e or "t" in e for e in r["ok"]):
                    return None
                exp = "(Some " + lst(r["ok"], lambda e: f"(true, {qlit(float.fromhex(e['f']))})" if "f" in e else f"(false, {qlit(e['i'])})") + ")"
            else:
                exp = "None" if r["error"] == "ValueError" else "(Some [])"
            parts.append(f"norm_check (normalize QcOF {pv(v)}) {exp}")
        return "(" + " && ".join(parts) + ")%bool"
    if k == "pred":
        return f"blist_eqb (preds_of {REL} {matlit(out['mat'])}) {lst(['true' if out['preds'][p] else 'false' for p in PREDS])}"
    if k == "order":
        names = [n for n, _ in out["input"]]
        mats = lst([f"({i}%nat, {matlit(m)})" for i, (n, m) in enumerate(out["input"])])
        parts = [f"natlist_eqb (ordered_names QcOF {mats}) {lst([f'{names.index(n)}%nat' for n in out['names']])}",
                 f"list_all2 mat_eqb (ordered_materials QcOF {mats}) {lst(out['mats'], mat_lists)}"]
        sel = {"permittivity": "m_eps", "permeability": "m_mu", "electric_conductivity": "m_sige", "magnetic_conductivity": "m_sigm"}
        for key, val in out["allowed"].items():
            nm, fl = key.split("/")
            parts.append(f"qlist2_eqb (allowed QcOF ({sel[nm]} QcOF) {mats} {'true' if fl[0] == '1' else 'false'} {'true' if fl[1] == '1' else 'false'}) "
                         f"{lst(val, lambda t: lst(t, qlit))}")
        return "(" + " && ".join(parts) + ")%bool"
    # complex
    ere, eim = _flat_complex(case["eps"])
    mre, mim = _flat_complex(case["mu"]) if case.get("mu") is not None else ([1, 0, 0, 0, 1, 0, 0, 0, 1], [0] * 9)
    ref = case["ref"]
    refl = f"(RefFrequency QcOF {qlit(ref[1])})" if (ref[0] == "frequency" or (ref[0] == "reference" and ref[2] == "frequency")) else f"(RefWavelength QcOF {qlit(ref[1])})"
    consts = {"two_pi": float(2.0 * math.pi).hex(), "c0": None, "eps0": None, "mu0": None}
    if "error" in out:
        # constants are not reported on the error path: take them from the first successful output (cached by predicate pass)
        cst = _CONSTS.get("c")
        if cst is None:
            return None
        exp = "None"
    else:
        cst = {k2: out[k2] for k2 in ("two_pi", "c0", "eps0", "mu0")}
        _CONSTS["c"] = cst
        exp = f"(Some {mat_lists(out['mat'])})"
    t9f = lambda v: "(C9 " + " ".join(qlit(Fraction(x)) for x in v) + ")"
    return (f"complex_check {TOL12} (from_complex QcOF {qlit(1e-9)} {qlit(cst['two_pi'])} {qlit(cst['c0'])} {qlit(cst['eps0'])} {qlit(cst['mu0'])} "
            f"{refl} {t9f(ere)} {t9f(eim)} {t9f(mre)} {t9f(mim)}) {exp}")


_CONSTS = {}


# ------------------------------------------------------------------------------------------ predicate
def _close(a, b):
    return a == b or abs(a - b) <= 1e-9 * max(abs(a), abs(b))


def predicate(case, out):
    tag = f"{case['kind']}-" + core.case_hash(case)[:10]
    if "crash" in out:
        return (tag + "-crash", out["crash"])
    k = case["kind"]
    if k == "norm":
        res = out["res"]
        if case["group"] == "malformed":
            exp_ok = [True, False, False, False, False, False, False, False, False, True, True]
            for v, r, e in zip(case["forms"], res, exp_ok):
                if ("ok" in r) != e:
                    return (tag + "-malformed", f"input {v} {'accepted' if 'ok' in r else 'rejected with ' + r.get('error', '')}, expected {'a tensor' if e else 'ValueError'}")
                if "error" in r and r["error"] != "ValueError":
                    return (tag + "-errclass", f"input {v} raised {r['error']} instead of ValueError")
            n = case["forms"][0]
            if res[0]["ok"] != [n, F(0.0), F(0.0), F(0.0), n, F(0.0), F(0.0), F(0.0), n]:
                return (tag + "-intscalar", f"int scalar normalised to {res[0]['ok']}")
            return None
        if any("ok" not in r for r in res):
            return (tag + "-rejected", f"a valid form was rejected: {res}")
        first = res[0]["ok"]
        if any(r["ok"] != first for r in res):
            return (tag + "-forms-differ", f"equivalent forms normalise differently: {[r['ok'] for r in res]}")
        f0 = case["forms"][0]
        z = F(0.0)
        if case["group"] == "iso":
            exp = [f0, z, z, z, f0, z, z, z, f0]
        elif case["group"] == "diag":
            a, b, c = f0["t"]
            exp = [a, z, z, z, b, z, z, z, c]
        else:
            exp = f0["t"]
        if first != exp:
            return (tag + "-tensor", f"normalised tensor {first} != expected {exp}")
        return None
    if k == "pred":
        m = {p: [float.fromhex(x) for x in out["mat"][p]] for p in PROPN}
        exp = {}
        short = {"permittivity": "permittivity", "permeability": "permeability", "electric_conductivity": "electric_conductivity", "magnetic_conductivity": "magnetic_conductivity"}
        for p in PROPN:
            v = m[p]
            off0 = all(v[i] == 0.0 for i in (1, 2, 3, 5, 6, 7))
            exp[f"is_diagonally_anisotropic_{short[p]}"] = off0
            exp[f"is_isotropic_{short[p]}"] = off0 and _close(v[0], v[4]) and _close(v[4], v[8])
        mu = m["permeability"]
        exp["is_magnetic"] = not (all(mu[i] == 0.0 for i in (1, 2, 3, 5, 6, 7)) and all(_close(mu[i], 1.0) for i in (0, 4, 8)))
        exp["is_electrically_conductive"] = any(x != 0.0 for x in m["electric_conductivity"])
        exp["is_magnetically_conductive"] = any(x != 0.0 for x in m["magnetic_conductivity"])
        exp["is_all_isotropic"] = all(exp[f"is_isotropic_{p}"] for p in PROPN)
        exp["is_all_diagonally_anisotropic"] = all(exp[f"is_diagonally_anisotropic_{p}"] for p in PROPN)
        for p in PREDS:
            if out["preds"][p] != exp[p]:
                return (tag + "-" + p, f"{p} = {out['preds'][p]} but the normalised tensors {m} require {exp[p]}")
        return None
    if k == "order":
        inp = {n: m for n, m in out["input"]}
        names = out["names"]
        if sorted(names) != sorted(inp) or out["tuples"] != names:
            return (tag + "-names", f"ordered names {names} / tuples {out['tuples']} are not one permutation of {list(inp)}")
        key = lambda n: tuple(float.fromhex(inp[n][p][0]) for p in PROPN)
        pos = {n: i for i, n in enumerate(inp)}
        for a, b in zip(names, names[1:]):
            if key(a) > key(b) or (key(a) == key(b) and pos[a] > pos[b]):
                return (tag + "-sorted", f"{a} (key {key(a)}, position {pos[a]}) is listed before {b} (key {key(b)}, position {pos[b]})")
        if out["mats"] != [inp[n] for n in names]:
            return (tag + "-materials", "compute_ordered_materials does not follow compute_ordered_names")
        for kk, val in out["allowed"].items():
            nm, fl = kk.split("/")
            idx = [0] if fl[0] == "1" else [0, 4, 8] if fl[1] == "1" else list(range(9))
            if val != [[inp[n][nm][i] for i in idx] for n in names]:
                return (tag + "-allowed-" + kk, f"compute_allowed list for {kk} does not follow the common order {names}: {val}")
        return None
    # complex
    ere, eim = _flat_complex(case["eps"])
    sing = abs(_det(ere)) < 1e-9 * max(1.0, max(abs(float(x)) for x in ere)) ** 3
    if case.get("mu") is not None:
        mre, mim = _flat_complex(case["mu"])
        sing = sing or abs(_det(mre)) < 1e-9 * max(1.0, max(abs(float(x)) for x in mre)) ** 3
    else:
        mre, mim = [1, 0, 0, 0, 1, 0, 0, 0, 1], [0] * 9
    if "error" in out:
        return None if sing else (tag + "-rejected", f"valid complex permittivity rejected: {out.get('msg')}")
    if sing:
        return (tag + "-singular-accepted", "singular real part accepted")
    ref = case["ref"]
    c0 = float.fromhex(out["c0"])
    x = float.fromhex(ref[1])
    f = x if (ref[0] == "frequency" or (ref[0] == "reference" and ref[2] == "frequency")) else c0 / x
    w = 2 * math.pi * f
    for nm, snm, re, im, vac in (("permittivity", "electric_conductivity", ere, eim, float.fromhex(out["eps0"])),
                                 ("permeability", "magnetic_conductivity", mre, mim, float.fromhex(out["mu0"]))):
        got_re = [float.fromhex(v) for v in out["mat"][nm]]
        got_im = [float.fromhex(v) / (w * vac) for v in out["mat"][snm]]
        for i in range(9):
            if abs(got_re[i] - float(re[i])) > 1e-12 * max(1, abs(float(re[i]))) or abs(got_im[i] - float(im[i])) > 1e-12 * max(1, abs(float(im[i]))):
                return (tag + "-reproduce-" + nm, f"component {i}: material presents {got_re[i]}+{got_im[i]}j at the reference frequency, requested {float(re[i])}+{float(im[i])}j")
    return None


def _det(p):
    a, b, c, d, e, f, g, h, i = [float(x) for x in p]
    return a * (e * i - f * h) - b * (d * i - f * g) + c * (d * h - e * g)


def nontrivial(case, out):
    return "crash" not in out


def classify(case, out):
    k = case["kind"]
    if k == "norm":
        return "norm-" + case["group"]
    if k == "complex":
        return "complex-" + ("error" if "error" in out else "ok") + "-" + case["ref"][0]
    return k


LEVEL_TEXT = ("Theorems (any ordered field): the four input forms normalise to one 9-tuple (isotropic, diagonal, full) and int 3-tuples / "
              "other lengths are rejected; normal forms satisfy the isotropy/diagonality predicates, isotropic implies diagonal, "
              "is_isotropic(diag(a,b,c)) = isclose a b && isclose b c; ordered names, ordered materials and every compute_allowed_* "
              "list are maps over one sorted list, which is a stable permutation of the dictionary; from_complex_permittivity "
              "reproduces eps'+i eps'' (and mu) at the reference frequency (field identity). Tie: Material, compute_* and "
              "from_complex_permittivity on random inputs vs the model.")
LEVEL_NOTE = ("Not proved: that isclose(x, 0) holds only for x = 0 (checked by the predicate on the implementation), sortedness of the "
              "ordered list w.r.t. the lexicographic key (checked by the predicate); WaveCharacter(period=...) references are not modelled.")
TECHNIQUE = "Coq proof (computation on the value tree, stable insertion sort lemmas, field identity) + differential runs of fdtdx.Material"
