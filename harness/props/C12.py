"""C12 — absorbing layers absorb."""
import math
from fractions import Fraction
from lib import core
from lib.core import qlit, lst, frac

PID = "C12"
PROPS_FILE = "props/C12.v"
IMPL = "C12_impl.py"
COQ_HEADER = "From Coq Require Import List QArith Qcanon Bool. Import ListNotations.\nFrom FV Require Import base.Scalar base.Util model.Pml model.PmlExec."
SHARD = 4
RULE = ("(a) CPML coefficient arrays a_E, b_E, a_H, b_H of placed layers (thickness 2-20, both sides of every axis, default and custom grading "
        "parameters) vs the Coq model with power/exp oracle tables keyed by the exact rational arguments; (b) measured absorption: 8-12 cell layers "
        "on every face, zero-DC pulsed electric/magnetic dipoles of every polarisation: residual energy / peak after the pulse left (< 1e-6) and "
        "relative energy difference of the recorded field to a much larger reference domain over the same window (< 1e-4)")
ASSUMPTIONS = ["power and exp are oracle tables computed with Python's math on the model's own exact arguments",
               "clause (b) is a measurement (labelled test): the 1e-6 / 1e-4 bounds are not proved"]
TRUSTED = ["correspondence harness (1e-9 relative on coefficient arrays)"]
LEVEL_TEXT = ("PARTIAL. Theorems for every thickness, side and parameter set: a = 0 on the interface row under default grading, 0 <= b <= 1, a <= 0, "
              "profiles non-decreasing in depth; the coefficient formulas are tied to the placed layers by correspondence. The absorption bounds of the "
              "property statement are measured on generated scenes (test), never claimed as proved; a measured failure is reported as a violation.")
LEVEL_NOTE = "Quantitative reflection bounds of a 3-D CPML are outside what can be proved here (DESIGN.md §5)."
TECHNIQUE = "Coq proof (ordered-field inequalities on the coefficient formulas) + oracle-table correspondence + measured absorption"


def gen_cases(ctx):
    cases = []
    for th in ctx.pick([2, 5, 9], [1, 2, 3, 6, 8, 12, 20]):
        bt = {f: "pml" for f in ("min_x", "max_x", "min_y", "max_y", "min_z", "max_z")}
        if th % 2:
            bt["min_x"] = "pec"; bt["max_y"] = "pmc"
        cases.append({"kind": "coef", "spec": {"shape": [2 * th + 3] * 3, "spacing": ctx.rng.choice([5e-8, 2e-8]), "steps": 2, "bt": bt, "thickness": th}})
    pol_src = [(0, "electric"), (2, "magnetic")] if ctx.quick else [(p, s) for p in range(3) for s in ("electric", "magnetic")]
    for pol, src in pol_src:
        th = ctx.rng.choice([8, 9]) if ctx.quick else ctx.rng.choice([8, 10, 12, 16, 20])
        cases.append({"kind": "absorb", "th": th, "N": 2 * th + 12, "pol": pol, "src": src, "nsteps": 1500, "off": ctx.rng.randint(-1, 2),
                      # the comparison window must contain the pulse (its peak is near step 216) and end before the reference domain's own
                      # boundary can answer (4 * margin steps at Courant 1/2)
                      "window": 300 if ctx.quick else 320, "margin": 75 if ctx.quick else 80})
    return cases


def run_cases(ctx, cases):
    return core.run_impl_sharded(IMPL, cases, shard=min(len(cases), 6), timeout=3000)


def tables(layer, dte):
    """mirror the model's exact arithmetic to obtain the oracle keys"""
    P = {k: frac(v) for k, v in layer["params"].items()}
    L, minus = layer["L"], layer["minus"]
    pw, pw2, pw3, ex = {}, {}, {}, {}
    def powf(x, order, tbl):
        if x not in tbl:
            tbl[x] = frac(float(x) ** float(order))
        return tbl[x]
    def depth(kind, i):
        if kind == "E":
            return Fraction(L - 1 - i) if minus else (Fraction(0) if i == 0 else Fraction(i - 1) + Fraction(1, 2))
        return (Fraction(L - 1 - i) - Fraction(1, 2) if i + 1 < L else Fraction(0)) if minus else Fraction(i)
    for kind in "EH":
        for i in range(L):
            x = depth(kind, i) / L
            s = P["sigma_start"] + (P["sigma_end"] - P["sigma_start"]) * powf(x, P["sigma_order"], pw)
            k = P["kappa_start"] + (P["kappa_end"] - P["kappa_start"]) * powf(x, P["kappa_order"], pw2)
            al = P["alpha_start"] + (P["alpha_end"] - P["alpha_start"]) * powf(x, P["alpha_order"], pw3)
            arg = -(dte * (s / k + al))
            if arg not in ex:
                ex[arg] = frac(math.expm1(float(arg)) + 1)
    return pw, pw2, pw3, ex


def tbl_lit(t):
    return lst([f"({qlit(k)}, {qlit(v)})" for k, v in t.items()])


def coq_expr(case, out):
    if case["kind"] != "coef":
        return None
    if "error" in out:
        return "false"
    dte = frac(out["dt_eps0"])
    parts = []
    for ly in out["layers"]:
        pw, pw2, pw3, ex = tables(ly, dte)
        P = ly["params"]
        par = f"(mk_params {qlit(P['sigma_start'])} {qlit(P['sigma_end'])} {qlit(P['kappa_start'])} {qlit(P['kappa_end'])} {qlit(P['alpha_start'])} {qlit(P['alpha_end'])} {qlit(dte)})"
        exp = lst([lst(ly[k], qlit) for k in ("aE", "bE", "aH", "bH")])
        parts.append(f"(list_eqb (qlist_close {qlit(1e-9)}) (layer_arrays {tbl_lit(pw)} {tbl_lit(pw2)} {tbl_lit(pw3)} {tbl_lit(ex)} {par} {'true' if ly['minus'] else 'false'} {ly['L']}) {exp})")
    return "(" + " && ".join(parts) + ")%bool"


def predicate(case, out):
    if "error" in out:
        return ("driver-error", out["error"] + out.get("trace", "")[-300:])
    if case["kind"] == "coef":
        for ly in out["layers"]:
            k = -1 if ly["minus"] else 0
            aE, aH = [float.fromhex(v) for v in ly["aE"]], [float.fromhex(v) for v in ly["aH"]]
            bE = [float.fromhex(v) for v in ly["bE"]]
            if aE[k] != 0.0 or aH[k] != 0.0:
                return (f"a-nonzero-at-interface:L={ly['L']};minus={ly['minus']}", f"a_E={aE[k]}, a_H={aH[k]} on the interface row")
            if any(a > 0 for a in aE + aH) or any(not (0 < b <= 1) for b in bE):
                return (f"coefficient-sign:L={ly['L']}", "a > 0 or b outside (0,1]")
            # default sigma_end: theoretical normal-incidence reflection 1e-6
            P = {k_: float.fromhex(v) for k_, v in ly["params"].items()}
            R = math.exp(-2 * float.fromhex(ly["eta0"]) * P["sigma_end"] * float.fromhex(ly["thickness_m"]) / (P["sigma_order"] + 1))
            if abs(R / 1e-6 - 1) > 1e-6:
                return ("sigma-end-default", f"theoretical reflection of the default grading is {R:.3e}, not 1e-6")
        return None
    key = f"th={case['th']};pol={case['pol']};src={case['src']}"
    if out["end"] > 1e-6 * out["peak"]:
        return ("residual-energy:" + key, f"energy left after the pulse: {out['end'] / out['peak']:.3e} of the peak")
    if out["ref_rel_energy"] > 1e-4:
        return ("reference-domain:" + key, f"relative energy difference to the large reference domain: {out['ref_rel_energy']:.3e}")
    return None


def nontrivial(case, out):
    return "error" not in out and (case["kind"] == "coef" or out["peak"] > 0)


def classify(case, out):
    return case["kind"] + (f"|th={case['spec']['thickness']}" if case["kind"] == "coef" else f"|{case['src']}|pol={case['pol']}")


def extra_evidence(ctx):
    return {"measured_clauses": "residual energy < 1e-6 of peak; reference-domain relative energy < 1e-4 — measured (test), not proved"}
