"""C22 — Gaussian smoothing preserves constants and stays within the input range."""
import json
import numpy as np
from lib import core
from lib.core import lst, lst2, lst3, qlit

PID = "C22"
PROPS_FILE = "props/C22.v"
IMPL = "C22_impl.py"
COQ_HEADER = ("From Coq Require Import ZArith QArith Qcanon Bool.\n"
              "From FV Require Import base.Scalar base.Util base.DesignTransformsBase model.DesignTransforms_Sym model.DesignTransforms_Gauss.")
SHARD = 4
TOL = 1e-9
RULE = ("case = (std in 1..3, shape with the singleton axis at every position / two singleton axes, 4 optional padding arrays in all "
        "None/given patterns) x 5 runs: design x, second design x2, mix lam*x+(1-lam)*x2 (paddings mixed alike), x mirrored along squeezed "
        "axis 0 and along axis 1 with mirrored paddings; kinds random floats in [0,1], constant (+ matching paddings), dyadic, wide range; "
        "model (exact Qc, kernel weights = oracle table returned by _create_gaussian_kernel, re-normalised by its exact sum) vs implementation "
        "within 1e-9; oracle table checked positive and symmetric under both reflections (hypotheses of the theorems); malformed: no "
        "singleton axis, padding of wrong length, std=0 -> model None <-> implementation raises / returns NaN; non-trivial = defined, non-constant")
EXHAUSTIVE = {"quick": False, "thorough": False}
ASSUMPTIONS = ["kernel weights are an oracle: the float table computed by _create_gaussian_kernel (exp is not modelled); the theorems need only "
               "weights >= 0 with non-zero sum (range, constants) and reflection symmetry of the table (mirror), all checked on the table at run time",
               "float64 convolution agrees with the exact rational model within 1e-9 * max(1,|value|)"]
TRUSTED = ["correspondence harness (Qc_close 1e-9)", "oracle kernel table from the implementation", "numpy flip in the predicate"]


def hx(a):
    a = np.asarray(a, dtype=np.float64)
    return [hx(v) for v in a] if a.ndim > 1 else [float(v).hex() for v in a]


def _un(h):
    return [_un(v) for v in h] if isinstance(h, list) else float.fromhex(h)


def sq_axes(shape):
    va = list(shape).index(1)
    return [a for a in (0, 1, 2) if a != va]


def in_domain(c):
    s = c["shape"]
    if c["std"] < 1 or 1 not in s:
        return False
    a, b = sq_axes(s)
    for r in c["runs"]:
        for p, n in zip(r["pads"], (s[b], s[b], s[a], s[a])):
            if p is not None and len(p) != n:
                return False
    return True


def rnd(rng, kind, n, c0):
    if kind == "const":
        return np.full(n, c0)
    if kind == "dyadic":
        return np.asarray([rng.randint(0, 16) / 16 for _ in range(n)])
    if kind == "wide":
        return np.asarray([rng.uniform(-50, 50) for _ in range(n)])
    return np.asarray([rng.random() for _ in range(n)])


def mk(rng, std, shape, flags, kind):
    a, b = sq_axes(shape)
    nx, ny = shape[a], shape[b]
    c0 = rng.choice([0.0, 1.0, 0.3, -2.5, 0.7])
    lam = rng.choice([0.25, 0.5, -0.5, 1.5, rng.random()])
    size = shape[0] * shape[1] * shape[2]

    def design():
        x = rnd(rng, kind, size, c0).reshape(shape)
        pads = [rnd(rng, kind, n, c0) if f else None for f, n in zip(flags, (ny, ny, nx, nx))]
        return x, pads
    x, p = design()
    x2, p2 = design()
    rev = lambda v: None if v is None else v[::-1]
    runs = [(x, p), (x2, p2),
            (lam * x + (1 - lam) * x2, [None if u is None else lam * u + (1 - lam) * v for u, v in zip(p, p2)]),
            (np.flip(x, a), [p[1], p[0], rev(p[2]), rev(p[3])]),
            (np.flip(x, b), [rev(p[0]), rev(p[1]), p[3], p[2]])]
    return {"std": std, "shape": shape, "kind": kind, "lam": lam, "flags": [bool(f) for f in flags],
            "runs": [{"x": hx(xx), "pads": [None if v is None else hx(v) for v in pp]} for xx, pp in runs]}


def malformed(rng):
    cs = []
    c = mk(rng, 1, [1, 3, 4], [0, 0, 0, 0], "random"); c["shape"] = [2, 3, 2]; c["runs"] = c["runs"][:1]
    c["runs"][0]["x"] = hx(np.asarray(_un(c["runs"][0]["x"])).reshape(2, 3, 2)); c["kind"] = "malformed"; cs.append(c)    # no singleton axis
    for which, ln in ((0, 3), (1, 5), (2, 4), (3, 2)):
        c = mk(rng, 1, [3, 1, 4], [0, 0, 0, 0], "random"); c["runs"] = c["runs"][:1]; c["kind"] = "malformed"
        c["runs"][0]["pads"][which] = hx(np.asarray([0.5] * ln)); cs.append(c)                                                # wrong length
    c = mk(rng, 1, [3, 1, 4], [1, 0, 0, 1], "random"); c["std"] = 0; c["runs"] = c["runs"][:1]; c["kind"] = "malformed"; cs.append(c)  # 0/0 kernel
    return cs


def load_corpus():
    f = core.VERIF / "harness" / "corpus" / "C22.json"
    return json.loads(f.read_text()) if f.exists() else []


SHAPES = [[1, 4, 5], [4, 1, 3], [5, 3, 1], [1, 1, 4], [3, 1, 1], [1, 2, 1], [2, 1, 7], [6, 5, 1]]


def gen_cases(ctx, n_extra=None):
    rng = ctx.rng
    cases = load_corpus()
    pats = [[0, 0, 0, 0], [1, 1, 1, 1], [1, 0, 0, 0], [0, 1, 0, 0], [0, 0, 1, 0], [0, 0, 0, 1], [1, 0, 0, 1], [0, 1, 1, 0]]
    kinds = ["random", "const", "dyadic", "wide"]
    n = 0
    for si, shape in enumerate(SHAPES[:ctx.pick(6, 8)]):
        for flags in (pats if not ctx.quick else [pats[0], pats[1], pats[2 + si % 6]]):
            cases.append(mk(rng, 1, shape, flags, kinds[n % 4])); n += 1
    for k in range(n_extra if n_extra is not None else ctx.pick(3, 16)):
        std = 2 if k % 3 else 3
        shape = SHAPES[k % len(SHAPES)] if not ctx.quick else [[3, 1, 4], [1, 2, 3], [4, 3, 1]][k % 3]
        cases.append(mk(rng, std, shape, [rng.random() < 0.5 for _ in range(4)], kinds[k % 4]))
    return cases + malformed(rng)


# ---------------------------------------------------------------- correspondence
def qh(v):
    return qlit(float.fromhex(v))


def popt(p):
    return "None" if p is None else "(Some " + lst(p, qh) + ")"


def run_undefined(r):
    return "error" in r


def model_call(c, r):
    s = c["shape"]
    return (f"gauss_exec QcF gl {int(c['std'])} {' '.join(popt(p) for p in r['pads'])} ({s[0]}, {s[1]}, {s[2]})%nat {lst3(r['x'], qh)}")


def which_runs(c):
    return range(len(c["runs"])) if c["std"] == 1 else [i for i in (0, 3) if i < len(c["runs"])]


def coq_expr(c, out):
    gl = lst2(out["kern"], qh) if out.get("kern") else "[[q 1 1]]"
    parts = []
    if in_domain(c):
        parts.append("forallb (forallb (fun v => negb (Qcleb v 0%Qc))) gl")                       # weights > 0
        parts.append(f"negb (Qc_eqb (gsum QcF (get2 0%Qc gl) (3 * {int(c['std'])})) 0%Qc)")        # sum <> 0
        parts.append("qlist2_eqb gl (rev gl)")                                                      # g (2P-a) b = g a b
        parts.append("qlist2_eqb gl (map (@rev Qc) gl)")                                            # g a (2P-b) = g a b
    for i in which_runs(c):
        r, o = c["runs"][i], out["ys"][i]
        m = model_call(c, r)
        if run_undefined(o):
            parts.append(f"match {m} with None => true | Some _ => false end")
        else:
            parts.append(f"match {m} with Some y => qlist3_close (q 1 1000000000) y {lst3(o['y'], qh)} | None => false end")
    return f"(let gl := {gl} in " + " && ".join(parts) + ")%bool"


def show_model(c, out):
    gl = lst2(out["kern"], qh) if out.get("kern") else "[[q 1 1]]"
    return core.coq_eval_text(PID, COQ_HEADER, f"let gl := {gl} in {model_call(c, c['runs'][0])}")[-1500:]


# ---------------------------------------------------------------- the property on the implementation output
def key_of(c, what):
    return f"{what}-std{c['std']}-{'x'.join(map(str, c['shape']))}-pads{''.join('1' if f else '0' for f in c['flags'])}-{c['kind']}"


def predicate(c, out):
    if not in_domain(c):
        return None
    ys = []
    for r, o in zip(c["runs"], out["ys"]):
        if run_undefined(o):
            return (key_of(c, "undefined"), f"in-domain call failed: {o}")
        ys.append(np.asarray(_un(o["y"])).reshape(c["shape"]))
    a, b = sq_axes(c["shape"])
    for i, (r, y) in enumerate(zip(c["runs"], ys)):
        vals = np.concatenate([np.asarray(_un(r["x"])).ravel()] + [np.asarray(_un(p)) for p in r["pads"] if p is not None])
        lo, hi = vals.min(), vals.max()
        tol = TOL * max(1.0, abs(lo), abs(hi))
        if y.min() < lo - tol or y.max() > hi + tol:
            return (key_of(c, "range"), f"run {i}: output range [{y.min()!r},{y.max()!r}] leaves input/padding range [{lo!r},{hi!r}]")
        if lo == hi and np.abs(y - lo).max() > tol:
            return (key_of(c, "constant"), f"run {i}: constant {lo!r} not preserved (max deviation {np.abs(y - lo).max()!r})")
    if len(ys) == 5:
        lam = c["lam"]
        sc = max(1.0, np.abs(ys[0]).max(), np.abs(ys[1]).max()) * max(1.0, abs(lam) + abs(1 - lam))
        if np.abs(ys[2] - (lam * ys[0] + (1 - lam) * ys[1])).max() > TOL * sc:
            return (key_of(c, "affine"), "T(lam x + (1-lam) x2) differs from lam T(x) + (1-lam) T(x2)")
        if np.abs(ys[3] - np.flip(ys[0], a)).max() > TOL * sc:
            return (key_of(c, "mirror0"), "smoothing does not commute with mirroring along squeezed axis 0 (paddings mirrored)")
        if np.abs(ys[4] - np.flip(ys[0], b)).max() > TOL * sc:
            return (key_of(c, "mirror1"), "smoothing does not commute with mirroring along squeezed axis 1 (paddings mirrored)")
    return None


def nontrivial(c, out):
    return in_domain(c) and c["kind"] != "const" and all("y" in o for o in out["ys"])


def classify(c, out):
    return f"std{c['std']}/{c['kind']}/pads{''.join('1' if f else '0' for f in c.get('flags', []))}"


def search(ctx, broken):
    cases = [c for c in gen_cases(ctx, n_extra=12) if c["kind"] != "malformed"]
    outs = core.run_impl_sharded(IMPL, cases)
    found = []
    for c, o in zip(cases, outs):
        r = predicate(c, o)
        if r:
            found.append((c, o, r[0], r[1]))
    return found[:5], len(cases)


LEVEL_TEXT = ("Theorems (any field / ordered field, all sizes, std, padding patterns, singleton-axis positions) about the executed model "
              "gauss_exec = tabulate(smooth): entry-wise smooth = sum_{a,b} (g[a,b]/sum g) * padded[i+2P-a, j+2P-b] with the two-stage padding "
              "modelled index by index; linear in (design, paddings), affine in the design, constants fixed, every output within [min,max] of "
              "design and used padding values (weights >= 0, sum <> 0), commutes with mirroring along either axis with mirrored paddings "
              "(reflection-symmetric kernel table). Tie: exact-rational evaluation vs the real __call__ within 1e-9 with the kernel table taken "
              "from _create_gaussian_kernel.")
LEVEL_NOTE = ("Oracle: kernel weights (exp not modelled; hypotheses on the table are checked at run time). Affine/mirror theorems are stated on the "
              "functional view `smooth`, tied to the executed list function by C22_exec_is_smooth; constants and range are stated on the executed "
              "function. Float rounding is outside the theorems (tolerance 1e-9).")
TECHNIQUE = "Coq proof (generic field/ordered field, sums by induction, lia index reasoning) + tolerant differential correspondence at Qc"
