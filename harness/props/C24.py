"""C24 — median filter and pillar discretization match their definitions
(BinaryMedianFilterModule; PillarDiscretization: compute_allowed_indices, nearest_index)."""
import itertools
import json

import numpy as np

from lib import core
from lib.core import blit, lst, lst3, natlit, qlit, zlit

PID = "C24"
PROPS_FILE = "props/C24.v"
IMPL = "C24_impl.py"
COQ_HEADER = ("From Coq Require Import ZArith QArith Qcanon.\nFrom FV Require Import base.Scalar base.PyNum base.Util base.MorphBase model.MorphFilter.\n"
              "Open Scope Z_scope.")
SHARD = 10
RULE = ("median: random 0/1 volumes (extents 1..6), odd kernel sizes 1/3/5 per axis, per-face padding widths 0..3, modes constant/edge, "
        "values 0/1, padded extent >= kernel; model array == module output (exact) and numpy majority-of-box oracle; "
        "pillar: 2..4 materials, axis 0..2, single/multi polymer columns, both metrics, heights 1..4; allowed-column set == model set == "
        "oracle set, chosen column allowed and within 1e-9 of the minimal distance (model in Qc and float oracle); "
        "non-trivial = median volume not constant / pillar with >= 3 allowed columns")
EXHAUSTIVE = {"quick": False, "thorough": False}
ASSUMPTIONS = ["float32 sums of <= 125 zeros/ones and the division by the odd box size are far from the .5 rounding boundary (>= 1/(2K))",
               "padding values and volumes are 0/1; modes 'constant' and 'edge' only; padded extent >= kernel size (otherwise jax convolve swaps operands or raises)",
               "euclidean metric is compared through squared distances (same argmin); float argmin ties within 1e-9 are accepted"]
TRUSTED = ["correspondence harness", "numpy.pad / brute-force majority oracle and brute-force column oracle in harness/props/C24.py"]
TOL = 1e-9


# ----------------------------------------------------------------------------- generators
def median_case(rng, big=False):
    shape = [rng.randint(1, 6 if big else 5) for _ in range(3)]
    widths = [rng.choice([0, 1, 2, 3]) for _ in range(6)]
    kernel = []
    for ax in range(3):
        ok = [k for k in (1, 3, 5) if k <= shape[ax] + widths[2 * ax] + widths[2 * ax + 1]]
        kernel.append(rng.choice(ok))
    modes = [rng.choice(["constant", "edge"]) for _ in range(6)]
    values = [rng.randint(0, 1) for _ in range(6)]
    p = rng.uniform(0.2, 0.8)
    m = [[[int(rng.random() < p) for _ in range(shape[2])] for _ in range(shape[1])] for _ in range(shape[0])]
    return {"kind": "median", "shape": shape, "m": m, "kernel": kernel, "widths": widths, "modes": modes, "values": values}


def pillar_case(rng, with_x=True):
    nm = rng.randint(2, 4)
    perms = sorted(rng.sample([1.0, 2.0, 2.25, 3.0, 4.0, 6.25, 9.0], nm))
    axis = rng.randint(0, 2)
    shape = [rng.randint(1, 3) for _ in range(3)]
    shape[axis] = rng.randint(1, 4 if nm < 4 else 3)
    c = {"kind": "pillar" if with_x else "allowed", "perms": perms, "axis": axis, "single": bool(rng.randint(0, 1)),
         "metric": rng.choice(["euclidean", "permittivity_differences_plus_average_permittivity"]), "shape": shape}
    order = list(range(nm))
    if rng.random() < 0.6:      # materials dict not in ascending-permittivity insertion order (e.g. {"Silicon": ..., "Air": ...})
        rng.shuffle(order)
        c["dict_order"] = order
    if with_x:
        lo, hi = 1 / perms[-1] - 0.05, 1 / perms[0] + 0.05
        # multiples of 1/1024: exact in float and short rationals
        c["x"] = [[[round(rng.uniform(lo, hi) * 1024) / 1024 for _ in range(shape[2])] for _ in range(shape[1])] for _ in range(shape[0])]
    return c


def gen_cases(ctx):
    rng = ctx.rng
    cases = []
    corpus = core.VERIF / "harness" / "corpus" / "C24.json"
    if corpus.exists():
        cases += json.loads(corpus.read_text())
    # the two padding configs shipped in discrete.py (BOTTOM_Z_PADDING_CONFIG*), widths scaled down
    for modes, values in ((["edge"] * 4 + ["constant", "edge"], [1] * 6), (["constant"] * 6, [1, 0, 1, 1, 1, 0])):
        c = median_case(rng)
        c.update(modes=modes, values=values, widths=[2] * 6, kernel=[3, 3, 3])
        cases.append(c)
    cases += [median_case(rng, big=not ctx.quick) for _ in range(ctx.pick(70, 300))]
    cases += [pillar_case(rng) for _ in range(ctx.pick(36, 150))]
    cases += [pillar_case(rng, with_x=False) for _ in range(ctx.pick(6, 30))]
    return cases


# ----------------------------------------------------------------------------- Coq side
def edge(w, mode, v):
    return "{| pe_width := %d; pe_const := %s |}" % (w, f"Some {blit(v)}" if mode == "constant" else "None")


def axis_cfg(c, ax):
    return "(" + edge(c["widths"][2 * ax], c["modes"][2 * ax], c["values"][2 * ax]) + ", " + edge(c["widths"][2 * ax + 1], c["modes"][2 * ax + 1], c["values"][2 * ax + 1]) + ")"


def nlist(col):
    return lst(col, lambda v: f"{int(v)}%nat")


def columns(arr, axis):
    a = np.moveaxis(np.asarray(arr), axis, -1)
    return [(idx, a[idx].tolist()) for idx in np.ndindex(*a.shape[:-1])]


def bg_index(case):
    return 0  # materials are ordered by permittivity, background = lowest


def coq_expr(case, out):
    if "error" in out:
        return "false"
    if case["kind"] == "median":
        s = " ".join(zlit(v) for v in case["shape"])
        k = " ".join(zlit(v) for v in case["kernel"])
        return (f"arr3_eqb (median_filter {s} {axis_cfg(case, 0)} {axis_cfg(case, 1)} {axis_cfg(case, 2)} {k} {lst3(case['m'], blit)}) "
                f"{lst3(out['out'], blit)}")
    L, nm = case["shape"][case["axis"]], len(case["perms"])
    allowed = f"(allowed_columns {natlit(L)} {natlit(nm)} {natlit(bg_index(case))} {blit(case['single'])})"
    e = f"colset_eqb {allowed} {lst(out['allowed'], nlist)}"
    if case["kind"] == "pillar":
        euclid = case["metric"] == "euclidean" or L == 1
        inv = lst([1.0 / p for p in case["perms"]], qlit)
        parts = [e]
        xs = dict(columns(case["x"], case["axis"]))
        for idx, col in columns(out["out"], case["axis"]):
            parts.append(f"pillar_agrees {blit(euclid)} {qlit(TOL)} {inv} {allowed} {lst(xs[idx], qlit)} {nlist(col)}")
        e = "(" + " && ".join(parts) + ")%bool"
    return e


# ----------------------------------------------------------------------------- independent oracles
def median_oracle(case):
    a = np.asarray(case["m"], dtype=np.int64).reshape(case["shape"])
    for e in range(6):
        ax, end = e // 2, e % 2
        pw = [(0, 0)] * 3
        pw[ax] = (0, case["widths"][e]) if end else (case["widths"][e], 0)
        kw = {"constant_values": case["values"][e]} if case["modes"][e] == "constant" else {}
        a = np.pad(a, pw, mode=case["modes"][e], **kw)
    off = [case["widths"][0], case["widths"][2], case["widths"][4]]
    h = [k // 2 for k in case["kernel"]]
    big = np.pad(a, [(x, x) for x in h])  # zero fill of the 'same' convolution
    K = case["kernel"][0] * case["kernel"][1] * case["kernel"][2]
    out = np.zeros(case["shape"], dtype=int)
    for i, j, k in np.ndindex(*case["shape"]):
        I, J, Kk = i + off[0] + h[0], j + off[1] + h[1], k + off[2] + h[2]
        s = big[I - h[0]:I + h[0] + 1, J - h[1]:J + h[1] + 1, Kk - h[2]:Kk + h[2] + 1].sum()
        out[i, j, k] = 1 if 2 * s > K else 0
    return out


def allowed_oracle(L, nm, bg, single):
    cols = set()
    for col in itertools.product(range(nm), repeat=L):
        k = L
        while k > 0 and col[k - 1] == bg:
            k -= 1
        if any(c == bg for c in col[:k]):
            continue
        if single and len(set(col[:k])) > 1:
            continue
        cols.add(col)
    return cols


def dist(metric, L, v, a):
    v, a = np.asarray(v, dtype=float), np.asarray(a, dtype=float)
    if metric == "euclidean" or L == 1:
        return float(np.linalg.norm(v - a))
    return float(np.mean(np.abs(np.diff(v) - np.diff(a))) + abs(v.mean() - a.mean()))


def predicate(case, out):
    if "error" in out:
        return (case["kind"] + "-error", f"{case['kind']} case fails: {out['error']}")
    if case["kind"] == "median":
        exp = median_oracle(case)
        got = np.asarray(out["out"])
        if not (got == exp).all():
            idx = tuple(int(v) for v in np.argwhere(got != exp)[0])
            return ("median-not-majority", f"voxel {idx} is {got[idx]} but the majority of its {case['kernel']} box under padding "
                                           f"{list(zip(case['modes'], case['widths'], case['values']))} is {exp[idx]}")
        return None
    L, nm, bg = case["shape"][case["axis"]], len(case["perms"]), bg_index(case)
    cols = allowed_oracle(L, nm, bg, case["single"])
    got = set(map(tuple, out["allowed"]))
    if got != cols:
        return ("allowed-columns-differ", f"allowed columns for L={L}, {nm} materials, single={case['single']}: "
                                          f"missing {sorted(cols - got)[:3]}, extra {sorted(got - cols)[:3]}")
    if case["kind"] == "pillar":
        if not out["exact_int"]:
            return ("pillar-not-indices", "output is not an integer index array of the input shape")
        inv = [1.0 / p for p in case["perms"]]
        xs = dict(columns(case["x"], case["axis"]))
        for idx, col in columns(out["out"], case["axis"]):
            col = tuple(int(c) for c in col)
            if col not in cols:
                return ("pillar-column-not-allowed", f"column {idx} along axis {case['axis']} = {col} is not an allowed column")
            d = dist(case["metric"], L, xs[idx], [inv[c] for c in col])
            dmin = min(dist(case["metric"], L, xs[idx], [inv[c] for c in cc]) for cc in cols)
            if d > dmin + TOL:
                return ("pillar-not-argmin", f"column {idx} along axis {case['axis']} = {col} has {case['metric']} distance {d} > minimum {dmin}")
    return None


def nontrivial(case, out):
    if case["kind"] == "median":
        tot = sum(v for p in case["m"] for r in p for v in r)
        return 0 < tot < case["shape"][0] * case["shape"][1] * case["shape"][2]
    return len(out.get("allowed", [])) >= 3


def classify(case, out):
    if case["kind"] == "median":
        return "median/k=" + "x".join(map(str, case["kernel"]))
    return f"{case['kind']}/axis{case['axis']}/{'single' if case['single'] else 'multi'}/{case['metric'][:4]}"


def search(ctx, broken):
    cases = [median_case(ctx.rng, big=True) for _ in range(120)] + [pillar_case(ctx.rng) for _ in range(60)]
    outs = core.run_impl_sharded(IMPL, cases)
    found = []
    for c, o in zip(cases, outs):
        r = predicate(c, o)
        if r:
            found.append((c, o, r[0], r[1]))
    return found, len(cases)


LEVEL_TEXT = ("Theorems (all extents, paddings, odd kernels, designs): the separable box filter + round-half-even of binary_median_filter equals the "
              "strict majority of the box neighbourhood in the padded design (zero beyond the padding); allowed pillar columns are exactly the "
              "columns with background as a top suffix (and one non-background material if requested); argmin over them minimises the configured "
              "distance (any ordered field). Correspondence: whole arrays / column sets exact, chosen columns within 1e-9 of the Qc minimum.")
LEVEL_NOTE = ("Trusted: Coq kernel; float32 box sums exact and far from .5 for odd boxes; padding modes other than constant/edge, even kernels "
              "(ties -> round-half-even, window not centred) and num_repeats > 1 are modelled (py_round_div, window) resp. not covered by the majority theorem; "
              "fully anisotropic materials not covered; transposition of the pillar axis is checked by the correspondence and the oracle, not by a theorem.")
TECHNIQUE = "Coq proof (lia/nia, list induction) + differential correspondence + brute-force oracles"
