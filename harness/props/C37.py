"""C37 — grid geometry helpers are exact (RectilinearGrid snapping, interval choice, extents/areas/volumes, CFL,
uniform detection, symmetric reduction)."""
import math
from fractions import Fraction as Fr

from lib import core
from lib.core import zlit, lst, lst2, lst3, blit

PID = "C37"
PROPS_FILE = "props/C37.v"
IMPL = "C37_impl.py"
COQ_HEADER = ("From Coq Require Import ZArith Bool QArith Qcanon.\n"
              "From FV Require Import base.Scalar base.GridBase base.Util model.Grid model.GridCheck.")
SHARD = 12
RULE = ("grid cases: (a) dyadic grids (integer edges x 2^-27 m, coordinates on quarter cells incl. exact ties, float arithmetic exact) "
        "(b) random float grids at 1e-7 m scale (c) near-uniform grids with controlled relative width deviation around the 1e-4 "
        "tolerance (d) uniform constructor / unresolved policies; each grid carries ~25 operations (snap x3, centre, anchor, extent, "
        "area, volume, cfl, uniform, reduce) incl. malformed sizes; every operation is compared with the Coq model and checked by "
        "the predicate; non-trivial = grid with >= 2 cells on some axis and >= 10 operations")
EXHAUSTIVE = {"quick": False, "thorough": False}
ASSUMPTIONS = ["np.searchsorted on a strictly increasing array is modelled by its prefix-count specification",
               "float sqrt values (sqrt 3, sqrt inv_metric) are oracles: checked s*s = x to 1e-12 on every case",
               "np.round(x,14) is modelled as round-half-even of the exact x*10^14 (float result compared to 1e-12 relative)",
               "non-dyadic streams: float rounding could flip an argmin only for distances equal to ~1e-16 relative (none in the seeded cases)"]
TRUSTED = ["correspondence harness (exact index comparison, 1e-12 relative on products/time steps)",
           "predicate recomputes every clause from the edges with exact Fractions"]
TOL = "tol12"
U = 2.0 ** -27
POS = [-1.0, 0.0, 1.0, 0.5, -0.5, 0.25]


def H(x):
    return float(x).hex()


def F(s):
    return float.fromhex(s) if isinstance(s, str) else float(s)


def qh(s):
    return core.qlit(F(s))


# ----------------------------------------------------------------------------- generation
def rand_ops(rng, E, dyadic, cfs):
    """E: three lists of floats."""
    ops = []
    n = [len(e) - 1 for e in E]
    for _ in range(5):
        a = rng.randrange(3)
        e = E[a]
        if dyadic:
            k = rng.choice([rng.randrange(int(round(e[0] / U)) * 4 - 12, int(round(e[-1] / U)) * 4 + 13) for _ in range(2)]
                           + [int(round(v / U)) * 4 for v in e] + [int(round((x + y) / U)) * 2 for x, y in zip(e, e[1:])])
            c = k * U / 4
        else:
            c = rng.choice([rng.uniform(e[0] - 2e-7, e[-1] + 2e-7), rng.choice(e), 0.5 * (e[0] + e[-1])])
        for s in ("nearest", "lower", "upper"):
            ops.append({"op": "index", "axis": a, "coord": H(c), "snap": s})
        size = rng.choice([rng.randint(1, n[a]), rng.randint(1, n[a]), n[a], 1, n[a] + 1, 0, -2])
        ops.append({"op": "center", "axis": a, "center": H(c), "size": size})
        ops.append({"op": "anchor", "axis": a, "size": size, "anchor": H(c), "pos": H(rng.choice(POS) if dyadic else rng.choice(POS + [0.3, -0.7]))})
    for _ in range(2):
        sl = []
        for a in range(3):
            lo = rng.randrange(0, n[a]); hi = rng.randint(lo + 1, n[a])
            sl.append([lo, hi])
        ops.append({"op": "extent", "sl": sl})
        ops.append({"op": "area", "axis": rng.randrange(3), "sl": sl})
        ops.append({"op": "volume", "sl": sl})
        a = rng.randrange(3)
        ops.append({"op": "anchor_coord", "axis": a, "bounds": sl[a], "pos": H(rng.choice(POS))})
    ops.append({"op": "centers", "axis": rng.randrange(3)})
    for cf in cfs:
        ops.append({"op": "cfl", "cf": H(cf)})
    ops.append({"op": "uniform"})
    syms = [[rng.choice([0, 1, -1]) for _ in range(3)] for _ in range(2)] + [[0, 0, 0], [1, 1, 1]]
    for s in syms:
        ops.append({"op": "reduce", "sym": s})
    return ops


def dyadic_axis(rng):
    n = rng.randint(1, 7)
    if rng.random() < 0.45:  # mirror-symmetric widths (even or odd count)
        half = [rng.randint(1, 6) for _ in range(max(1, n // 2))]
        w = half + (half[::-1] if rng.random() < 0.7 else [rng.randint(1, 6)] + half[::-1])
    else:
        w = [rng.randint(1, 6) for _ in range(n)]
    x = rng.randint(-20, 20)
    e = [x]
    for v in w:
        e.append(e[-1] + v)
    return [v * U for v in e]


def float_axis(rng):
    n = rng.randint(2, 8)
    x = rng.uniform(-5e-7, 5e-7)
    e = [x]
    for _ in range(n):
        e.append(e[-1] + rng.uniform(0.3, 2.0) * 1e-7)
    return e


def near_uniform(rng, dev, sp=None, where=None):
    """three axes of nominal spacing sp; one cell (where) wider/narrower by relative dev"""
    sp = sp or rng.choice([1.0e-7, 2.5e-8, 7.77777777777777e-9, 1e-3])
    E = []
    for a in range(3):
        n = rng.randint(2, 6)
        w = [sp] * n
        E.append(w)
    a, i, sgn = where or (rng.randrange(3), None, rng.choice([1, -1]))
    i = rng.randrange(len(E[a])) if i is None else i
    E[a][i] = sp * (1 + sgn * dev)
    out = []
    for w in E:
        x = -sum(w) / 2
        e = [x]
        for v in w:
            e.append(e[-1] + v)
        out.append(e)
    return out


def grid_case(rng, E, tag, dyadic=False, dtype="f64", cfs=(0.99,)):
    return {"kind": "grid", "tag": tag, "dtype": dtype, "dyadic": dyadic, "edges": [[H(v) for v in e] for e in E],
            "ops": rand_ops(rng, E, dyadic, cfs)}


def gen_cases(ctx):
    rng = ctx.rng
    cases = []
    # corpus: documented witnesses first
    cases.append(grid_case(rng, [[i * 7.77777777777777e-9 for i in range(5)]] * 3, "witness-rounding", cfs=(0.99, 1.0)))
    cases.append(grid_case(rng, [[0.0, 1.00005e-7, 2.00005e-7, 3.00005e-7]] * 3, "witness-near-uniform", cfs=(0.99, 1.0)))
    cases.append(grid_case(rng, [[0.0, U, 3 * U, 4 * U, 6 * U], [0.0, U / 2, U], [0.0, U / 2, U]], "coq-example", dyadic=True, cfs=(0.5,)))
    for i in range(ctx.pick(15, 150)):
        cases.append(grid_case(rng, [dyadic_axis(rng) for _ in range(3)], "dyadic", dyadic=True,
                               dtype="f32" if i % 5 == 4 else "f64", cfs=(rng.choice([0.99, 0.5, 1.0, 0.75]),)))
    for i in range(ctx.pick(9, 100)):
        cases.append(grid_case(rng, [float_axis(rng) for _ in range(3)], "float", cfs=(rng.uniform(0.3, 1.0),)))
    for dev in ctx.pick([0.0, 3e-5, 0.9e-4, 1.1e-4, 5e-4, 2e-2], [0.0, 1e-6, 3e-5, 0.9e-4, 0.97e-4, 1.03e-4, 1.1e-4, 5e-4, 2e-2] * 4):
        cases.append(grid_case(rng, near_uniform(rng, dev), f"near-uniform-{dev:g}", cfs=(0.99,)))
    for i in range(ctx.pick(4, 40)):
        sp = rng.choice([5e-8, 1e-7, 2.5e-8, 7.77777777777777e-9, 1.2345678901234e-8, 3.3333333333333e-10, 2.0 ** -24, 1e-3])
        shape = [rng.randint(1, 8) for _ in range(3)]
        c = {"kind": "ctor", "tag": "ctor", "spacing": H(sp), "shape": shape, "cf": H(rng.choice([0.99, 0.5, 1.0]))}
        if i % 2:
            c["origin"] = [H(rng.uniform(-1e-6, 1e-6)) for _ in range(3)]
        else:
            c["center"] = [H(rng.choice([0.0, rng.uniform(-1e-6, 1e-6)])) for _ in range(3)]
        cases.append(c)
    for i in range(ctx.pick(3, 30)):
        d = [rng.choice([1e-8, 2e-8, 5e-8, rng.uniform(1e-8, 1e-7)]) for _ in range(3)]
        if i == 0:
            d = [2e-8] * 3
        cases.append({"kind": "quasi", "tag": "quasi", "d": [H(v) for v in d], "cf": H(rng.choice([0.99, 0.6])),
                      "shape": [2 * rng.randint(1, 4) for _ in range(3)] if i % 3 else [3, 2, 2]})
    return cases


def run_cases(ctx, cases):
    return core.run_impl_sharded(IMPL, cases, shard=ctx.pick(3, 6))


# ----------------------------------------------------------------------------- correspondence
SNAP = {"nearest": "Nearest", "lower": "Lower", "upper": "Upper"}


def bres(o):
    if isinstance(o, dict):
        return {"size": "BErrSize", "fit": "BErrFit"}.get(o["error"], "BErrSize (* unexpected: %s *)" % o["error"][:20])
    return f"(BOk {zlit(o[0])} {zlit(o[1])})"


def nat(n):
    return f"{int(n)}%nat"


def cfl_expr(o, eps8, cf, extra=()):
    us = "None" if o["us"] is None else f"(Some {qh(o['us'])})"
    parts = [f"Qc_rel {TOL} (g_cfl {qh(o['s3'])} {qh(o['sm'])} {qh(o['c'])} {eps8} ex ey ez {cf}) {qh(o['dt'])}",
             f"Qc_rel {TOL} ({qh(o['s3'])} * {qh(o['s3'])})%Qc (q 3 1)",
             f"Qc_rel {TOL} ({qh(o['sm'])} * {qh(o['sm'])})%Qc (g_inv_metric ex ey ez)",
             f"Bool.eqb (g_is_uniform {eps8} ex ey ez) {blit(o['is_uniform'])}",
             f"optq_rel {TOL} (g_uniform_spacing {eps8} ex ey ez) {us}"]
    return parts + list(extra)


def with_edges(E, parts):
    return (f"(let ex := {lst(E[0], qh)} in let ey := {lst(E[1], qh)} in let ez := {lst(E[2], qh)} in\n  "
            + "\n  && ".join(f"({p})" for p in parts) + ")%bool")


def coq_expr(case, out):
    if case["kind"] == "grid":
        if "error" in out:
            return with_edges(case["edges"], ["negb (valid_edges QcOF ex && valid_edges QcOF ey && valid_edges QcOF ez)"])
        eps8 = "q_eps8_f32" if out["dtype"] == "float32" else "q_eps8"
        parts = ["valid_edges QcOF ex && valid_edges QcOF ey && valid_edges QcOF ez"]
        ename = ["ex", "ey", "ez"]
        dy = case["dyadic"]
        sc = core.qlit(max(abs(F(v)) for e in case["edges"] for v in e))
        for op, o in zip(case["ops"], out["ops"]):
            k = op["op"]
            if k == "index" and op["snap"] == "nearest" and not dy:
                parts.append(f"g_nearest_ok {TOL} {sc} {ename[op['axis']]} {qh(op['coord'])} {zlit(o)}")
            elif k == "center" and not dy:
                parts.append(f"g_center_ok {TOL} {sc} {ename[op['axis']]} {qh(op['center'])} {zlit(op['size'])} {bres(o)}")
            elif k == "anchor" and not dy:
                parts.append(f"g_anchor_ok {TOL} {sc} {ename[op['axis']]} {zlit(op['size'])} {qh(op['anchor'])} {qh(op['pos'])} {bres(o)}")
            elif k == "index":
                parts.append(f"Z.eqb (g_index {ename[op['axis']]} {qh(op['coord'])} {SNAP[op['snap']]}) {zlit(o)}")
            elif k == "center":
                parts.append(f"bres_eqb (g_center {ename[op['axis']]} {qh(op['center'])} {zlit(op['size'])}) {bres(o)}")
            elif k == "anchor":
                parts.append(f"bres_eqb (g_anchor {ename[op['axis']]} {zlit(op['size'])} {qh(op['anchor'])} {qh(op['pos'])}) {bres(o)}")
            elif k == "anchor_coord":
                parts.append(f"Qc_close_abs {TOL} {core.qlit(max(abs(F(v)) for e in case['edges'] for v in e))} "
                             f"(g_anchor_coordinate {ename[op['axis']]} {nat(op['bounds'][0])} {nat(op['bounds'][1])} {qh(op['pos'])}) {qh(o)}")
            elif k == "extent":
                m = lst([f"g_extent {ename[a]} {nat(op['sl'][a][0])} {nat(op['sl'][a][1])}" for a in range(3)])
                parts.append(f"qlist_rel {TOL} {m} {lst(o, qh)}")
            elif k == "area":
                tr = [a for a in range(3) if a != op["axis"]]
                sl = op["sl"]
                parts.append(f"qlist2_rel {TOL} (g_area {ename[tr[0]]} {ename[tr[1]]} {nat(sl[tr[0]][0])} {nat(sl[tr[0]][1])} "
                             f"{nat(sl[tr[1]][0])} {nat(sl[tr[1]][1])}) {lst2(o['val'], qh)}")
            elif k == "volume":
                sl = op["sl"]
                parts.append("qlist3_rel %s (g_volume ex ey ez %s) %s" % (TOL, " ".join(nat(v) for p in sl for v in p), lst3(o["val"], qh)))
            elif k == "centers":
                parts.append(f"qlist_close_abs {TOL} {core.qlit(max(abs(F(v)) for e in case['edges'] for v in e))} "
                             f"(g_centers {ename[op['axis']]}) {lst(o, qh)}")
            elif k == "cfl":
                parts += cfl_expr(o, eps8, qh(op["cf"]), [f"Qc_eqb {qh(o['config_dt'])} {qh(o['dt'])}"])
            elif k == "uniform":
                us = "None" if o["us"] is None else f"(Some {qh(o['us'])})"
                parts.append(f"Bool.eqb (g_is_uniform {eps8} ex ey ez) {blit(o['is_uniform'])}")
                parts.append(f"optq_rel {TOL} (g_uniform_spacing {eps8} ex ey ez) {us}")
                parts.append(f"qlist_rel {TOL} [g_min ex; g_min ey; g_min ez] {lst(o['mins'], qh)}")
            elif k == "reduce":
                s = op["sym"]
                if "error" in o:
                    exp = {"odd": "RErrOdd", "asym": "RErrAsym"}.get(o["error"], "RErrOdd 99 (*") + f" {nat(max(o['axis'], 0))}"
                    exp = f"({exp})"
                else:
                    exp = f"(ROk ({lst(o['edges'][0], qh)}, {lst(o['edges'][1], qh)}, {lst(o['edges'][2], qh)}))"
                parts.append(f"rres_eqb (g_reduce {zlit(s[0])} {zlit(s[1])} {zlit(s[2])} ex ey ez) {exp}")
        return with_edges(case["edges"], parts)
    if case["kind"] == "ctor":
        E = out["edges"]
        sp = F(case["spacing"])
        if case.get("origin") is not None:
            lower = [Fr(F(v)) for v in case["origin"]]
        else:
            lower = [Fr(F(c)) - Fr(n) * Fr(sp) / 2 for c, n in zip(case["center"], case["shape"])]
        scale = core.qlit(max(abs(F(v)) for e in E for v in e) + sp)
        parts = []
        for a in range(3):
            parts.append(f"qlist_close_abs {TOL} {scale} (g_uniform_edges {core.qlit(lower[a])} {core.qlit(sp)} {nat(case['shape'][a])}) {lst(E[a], qh)}")
            parts.append(f"qlist_eqb {lst(E[a], qh)} {lst(out['resolved_edges'][a], qh)}" if case.get("origin") is None else "true")
        parts += cfl_expr(out, "q_eps8", qh(case["cf"]),
                          [f"Qc_rel {TOL} (g_dt_unresolved {qh(out['s3m'])} {qh(out['c'])} {qh(case['cf'])} {core.qlit(sp)}) {qh(out['policy_dt'])}",
                           f"Qc_rel {TOL} ({qh(out['s3m'])} * {qh(out['s3m'])})%Qc (q 3 1)"])
        return with_edges(E, parts)
    if case["kind"] == "quasi":
        d = [F(v) for v in case["d"]]
        parts = [f"Qc_rel {TOL} (g_dt_unresolved {qh(out['s3m'])} {qh(out['c'])} {qh(case['cf'])} {core.qlit(min(d))}) {qh(out['policy_dt'])}",
                 f"Qc_eqb {core.qlit(min(d))} {qh(out['min'])}"]
        if "resolved" in out:
            parts += cfl_expr(out["resolved"], "q_eps8", qh(case["cf"]))
            return with_edges(out["edges"], parts)
        return "(" + " && ".join(f"({p})" for p in parts) + ")%bool"
    return None


# ----------------------------------------------------------------------------- predicate (independent of the model)
RT = Fr(1, 10**12)


def close(a, b, scale=None):
    a, b = Fr(a), Fr(b)
    return abs(a - b) <= RT * (abs(b) if scale is None else Fr(scale))


def cfl_check(E, o, cf, tag):
    """dt must satisfy (c dt)^2 * sum 1/dmin^2 <= cf^2 (1e-12 relative slack).  E: exact Fractions."""
    W = [[y - x for x, y in zip(e, e[1:])] for e in E]
    dmin = [min(w) for w in W]
    lim2 = 1 / sum(1 / (d * d) for d in dmin)          # (c * dt_CFL)^2
    cdt = Fr(F(o["dt"])) * Fr(F(o["c"]))
    ratio2 = cdt * cdt / (Fr(cf) ** 2 * lim2)           # (dt / (cf*limit))^2
    if ratio2 <= (1 + RT) ** 2:
        if not o["is_uniform"] and ratio2 < (1 - RT) ** 2:
            return (f"cfl-not-tight-{tag}", f"non-uniform grid: dt is {float(ratio2) ** 0.5:.15g} of courant_factor*CFL limit (documented as equal)")
        return None
    excess = math.sqrt(float(ratio2)) - 1
    wall = [w for ws in W for w in ws]
    spread = float((max(wall) - min(wall)) / min(wall))
    if o["is_uniform"]:
        if spread <= 1e-9 and excess <= 5.01e-15 / float(min(wall)) + 1e-9:
            return ("cfl-uniform-spacing-rounded-14-decimals",
                    f"uniform grid (min width {float(min(wall)):.17g}, stored spacing {F(o['us']):.17g}): dt exceeds courant_factor*CFL limit by {excess:.3e} relative")
        if spread > 1e-9 and excess <= spread + 5.01e-15 / float(min(wall)) + 1e-9 and spread <= 2.5e-4:
            return ("cfl-near-uniform-uses-first-width",
                    f"grid within the 1e-4 uniformity tolerance (width spread {spread:.3e}) uses the first x width {F(o['us']):.17g}: "
                    f"dt exceeds courant_factor*CFL limit by {excess:.3e} relative")
    return (f"cfl-exceeded-{tag}", f"dt = {F(o['dt']):.17g} exceeds courant_factor*CFL limit by {excess:.3e} relative (is_uniform={o['is_uniform']})")


def predicate(case, out):
    tag = core.case_hash(case)[:8]
    if case["kind"] == "grid":
        E = [[Fr(F(v)) for v in e] for e in case["edges"]]
        valid = all(len(e) >= 2 and all(x < y for x, y in zip(e, e[1:])) for e in E)
        if "error" in out:
            return None if not valid else (f"ctor-rejects-{tag}", f"valid edges rejected: {out['error']}")
        if not valid:
            return (f"ctor-accepts-{tag}", "invalid edges accepted")
        W = [[y - x for x, y in zip(e, e[1:])] for e in E]
        n = [len(w) for w in W]
        scale = max(abs(v) for e in E for v in e)
        for j, (op, o) in enumerate(zip(case["ops"], out["ops"])):
            k = op["op"]
            key = f"{k}-{tag}-{j}"
            if k == "index":
                e = E[op["axis"]]; c = Fr(F(op["coord"])); s = op["snap"]
                if s == "nearest":
                    if not (0 <= o < len(e)) or abs(e[o] - c) > min(abs(v - c) for v in e) + (0 if case["dyadic"] else RT * scale):
                        return (key, f"nearest: edge {o} is not a closest edge to {float(c)!r}")
                elif s == "lower":
                    exp = max([i for i, v in enumerate(e) if v <= c], default=-1)
                    if o != exp:
                        return (key, f"lower: got {o}, last edge <= coord is {exp}")
                else:
                    exp = min([i for i, v in enumerate(e) if v >= c], default=len(e))
                    if o != exp:
                        return (key, f"upper: got {o}, first edge >= coord is {exp}")
            elif k in ("center", "anchor"):
                a = op["axis"]; e = E[a]; size = op["size"]
                if size <= 0 or size > n[a]:
                    want = "size" if size <= 0 else "fit"
                    if not (isinstance(o, dict) and o["error"] == want):
                        return (key, f"{k}: size {size} on {n[a]} cells should raise '{want}', got {o}")
                    continue
                if isinstance(o, dict):
                    return (key, f"{k}: unexpected error {o}")
                lo, hi = o
                if k == "center":
                    t = Fr(F(op["center"])); f = lambda l: (e[l] + e[l + size]) / 2
                else:
                    t = Fr(F(op["anchor"])); p = Fr(F(op["pos"])); f = lambda l: e[l] + (p + 1) / 2 * (e[l + size] - e[l])
                if hi - lo != size or lo < 0 or hi > n[a]:
                    return (key, f"{k}: interval {o} does not preserve size {size} inside [0,{n[a]}]")
                best = min(abs(f(l) - t) for l in range(n[a] - size + 1))
                if abs(f(lo) - t) > best + (0 if case["dyadic"] else RT * scale):
                    return (key, f"{k}: interval {o} is at distance {float(abs(f(lo) - t))!r}, minimum is {float(best)!r}")
            elif k == "anchor_coord":
                a = op["axis"]; l, u = op["bounds"]; p = Fr(F(op["pos"]))
                if not close(F(o), E[a][l] + (p + 1) / 2 * (E[a][u] - E[a][l]), scale):
                    return (key, "anchor_coordinate differs from lower + (pos+1)/2 * extent")
            elif k == "extent":
                for a in range(3):
                    l, u = op["sl"][a]
                    if not close(F(o[a]), E[a][u] - E[a][l]):
                        return (key, f"extent axis {a}: {F(o[a])!r} != {float(E[a][u] - E[a][l])!r}")
            elif k == "area":
                tr = [a for a in range(3) if a != op["axis"]]
                w0 = W[tr[0]][op["sl"][tr[0]][0]:op["sl"][tr[0]][1]]; w1 = W[tr[1]][op["sl"][tr[1]][0]:op["sl"][tr[1]][1]]
                shp = [1, 1, 1]; shp[tr[0]] = len(w0); shp[tr[1]] = len(w1)
                if o["shape"] != shp or any(not close(F(o["val"][i][jj]), w0[i] * w1[jj]) for i in range(len(w0)) for jj in range(len(w1))):
                    return (key, "face_area is not the outer product of the transverse cell widths")
                if not close(sum(Fr(F(v)) for r in o["val"] for v in r), (E[tr[0]][op["sl"][tr[0]][1]] - E[tr[0]][op["sl"][tr[0]][0]]) * (E[tr[1]][op["sl"][tr[1]][1]] - E[tr[1]][op["sl"][tr[1]][0]])):
                    return (key, "face areas do not add up to the product of the extents")
            elif k == "volume":
                ws = [W[a][op["sl"][a][0]:op["sl"][a][1]] for a in range(3)]
                if o["shape"] != [len(w) for w in ws] or any(not close(F(o["val"][i][jj][kk]), ws[0][i] * ws[1][jj] * ws[2][kk])
                                                               for i in range(len(ws[0])) for jj in range(len(ws[1])) for kk in range(len(ws[2]))):
                    return (key, "cell_volume is not the product of the three cell widths")
            elif k == "centers":
                e = E[op["axis"]]
                if len(o) != len(e) - 1 or any(not close(F(v), (x + y) / 2, scale) for v, x, y in zip(o, e, e[1:])):
                    return (key, "centers are not the edge midpoints")
            elif k == "cfl":
                if o["config_dt"] != o["dt"]:
                    return (key, "SimulationConfig.time_step_duration differs from grid.cfl_time_step")
                r = cfl_check(E, o, F(op["cf"]), f"{tag}-{j}")
                if r:
                    return r
            elif k == "uniform":
                w0 = W[0][0]
                eps = 2.0 ** -23 if out["dtype"] == "float32" else 2.0 ** -52
                dev = max(max(abs(w - w0) for w in ws) / w0 - Fr(8 * eps) * max(abs(v) for v in e) / w0 for ws, e in zip(W, E))
                if dev <= Fr(95, 10**6) and not o["is_uniform"]:
                    return (key, f"widths within {float(dev):.3e} of the first width but grid not detected uniform")
                if dev >= Fr(105, 10**6) and o["is_uniform"]:
                    return (key, f"widths deviate {float(dev):.3e} (> 1e-4) from the first width but grid detected uniform")
                if o["is_uniform"] != (o["us"] is not None) or o["prop"] != o["us"]:
                    return (key, "uniform_spacing inconsistent with is_uniform")
                if o["is_uniform"] and abs(Fr(F(o["us"])) - w0) > Fr(51, 10**16):
                    return (key, f"uniform_spacing {F(o['us'])!r} is not the first width {float(w0)!r} rounded to 14 decimals")
                if o["shape"] != n or any(not close(F(m), min(ws)) for m, ws in zip(o["mins"], W)) or F(o["min"]) != min(F(m) for m in o["mins"]):
                    return (key, "shape / min_spacings inconsistent with the edges")
            elif k == "reduce":
                s = op["sym"]
                exp_err = None; skip = False
                for a in range(3):
                    if s[a] == 0:
                        continue
                    if n[a] < 2 or n[a] % 2:
                        exp_err = ("odd", a); break
                    devm = max(abs(x - y) / y for x, y in zip(W[a], W[a][::-1]))
                    if devm > Fr(11, 10**5):
                        exp_err = ("asym", a); break
                    if devm > Fr(9, 10**5):
                        skip = True; break
                if skip:
                    continue
                if exp_err:
                    if not (isinstance(o, dict) and o.get("error") == exp_err[0] and o.get("axis") == exp_err[1]):
                        return (key, f"reduce_symmetric{tuple(s)} should raise {exp_err}, got {core.trunc(o, 200)}")
                    continue
                if "error" in o:
                    return (key, f"reduce_symmetric{tuple(s)} raised unexpectedly: {o}")
                if o["orig"] != case["edges"]:
                    return (key, "reduce_symmetric changed the original grid")
                for a in range(3):
                    want = case["edges"][a] if s[a] == 0 else case["edges"][a][n[a] // 2:]
                    if [F(v) for v in o["edges"][a]] != [F(v) for v in want]:
                        return (key, f"reduce_symmetric axis {a}: edges are not {'unchanged' if s[a] == 0 else 'the upper half edges[n//2:]'}")
        return None
    if case["kind"] == "ctor":
        E = [[Fr(F(v)) for v in e] for e in out["edges"]]
        sp = Fr(F(case["spacing"]))
        scale = max(abs(v) for e in E for v in e) + sp
        for a in range(3):
            lower = Fr(F(case["origin"][a])) if case.get("origin") is not None else Fr(F(case["center"][a])) - case["shape"][a] * sp / 2
            if len(E[a]) != case["shape"][a] + 1 or any(not close(v, lower + i * sp, scale) for i, v in enumerate(E[a])):
                return (f"ctor-edges-{tag}", f"uniform(): axis {a} edges are not lower + i*spacing")
        if not out["is_uniform"]:
            return (f"ctor-not-uniform-{tag}", "RectilinearGrid.uniform(...) is not detected as uniform")
        exp_dt = Fr(F(case["cf"])) * sp / Fr(F(out["c"]))
        if not close(Fr(F(out["policy_dt"])) ** 2 * 3, exp_dt ** 2):
            return (f"policy-dt-{tag}", "UniformGrid time step is not courant_factor/sqrt(3)*spacing/c")
        return cfl_check(E, out, F(case["cf"]), tag)
    if case["kind"] == "quasi":
        d = [Fr(F(v)) for v in case["d"]]
        exp_dt = Fr(F(case["cf"])) * min(d) / Fr(F(out["c"]))
        if not close(Fr(F(out["policy_dt"])) ** 2 * 3, exp_dt ** 2):
            return (f"quasi-dt-{tag}", "QuasiUniformGrid time step is not courant_factor/sqrt(3)*min spacing/c")
        lim2 = 1 / sum(1 / (x * x) for x in d)
        if (Fr(F(out["policy_dt"])) * Fr(F(out["c"]))) ** 2 > Fr(F(case["cf"])) ** 2 * lim2 * (1 + RT) ** 2:
            return (f"quasi-cfl-{tag}", "QuasiUniformGrid time step exceeds courant_factor*CFL limit")
        if "resolved" in out:
            if any(s % 2 for s in case["shape"]):
                return (f"quasi-odd-{tag}", "odd cell count accepted by QuasiUniformGrid.resolve")
            return cfl_check([[Fr(F(v)) for v in e] for e in out["edges"]], out["resolved"], F(case["cf"]), tag)
        elif not any(s % 2 for s in case["shape"]):
            return (f"quasi-resolve-{tag}", f"resolve failed: {out.get('resolve_error')}")
    return None


def nontrivial(case, out):
    if case["kind"] != "grid":
        return True
    return "ops" in out and len(out["ops"]) >= 10 and max(len(e) for e in case["edges"]) >= 3


def classify(case, out):
    return case["tag"].split("-")[0] if case["kind"] == "grid" else case["kind"]


def show_model(case, out):
    if case["kind"] != "grid" or "ops" not in out:
        return None
    ename = ["ex", "ey", "ez"]
    items = []
    for op in case["ops"]:
        if op["op"] == "index":
            items.append(f"BOk (g_index {ename[op['axis']]} {qh(op['coord'])} {SNAP[op['snap']]}) 0")
        elif op["op"] == "center":
            items.append(f"g_center {ename[op['axis']]} {qh(op['center'])} {zlit(op['size'])}")
        elif op["op"] == "anchor":
            items.append(f"g_anchor {ename[op['axis']]} {zlit(op['size'])} {qh(op['anchor'])} {qh(op['pos'])}")
    E = case["edges"]
    expr = f"let ex := {lst(E[0], qh)} in let ey := {lst(E[1], qh)} in let ez := {lst(E[2], qh)} in {lst(items)}"
    return "index/center/anchor ops in order (index as BOk i 0): " + core.coq_eval_text(PID, COQ_HEADER, expr)[-1500:]


LEVEL_TEXT = ("Theorems over an arbitrary ordered field, all strictly increasing edge lists, coordinates, sizes, positions: nearest = first "
              "edge of minimal distance; lower/upper = last edge <= / first edge >= the coordinate; bounds_for_center/anchor = in-range, "
              "size-preserving interval of minimal centre/anchor distance (first minimum), errors exactly for size<=0 / not fitting; "
              "extent = sum of widths, face areas / cell volumes = products of widths and add up to products of extents; "
              "non-uniform CFL: (c dt)^2 * sum 1/dmin^2 = courant_factor^2; uniform detection sound w.r.t. the documented tolerance and "
              "complete for exactly uniform grids; reduce_symmetric keeps the upper half, preserves validity, errors characterised. "
              "The CFL clause for grids classified uniform is only proved under the hypothesis stored spacing <= every cell width and "
              "is REFUTED without it (two witnesses) — see KNOWN_FINDINGS keys cfl-uniform-spacing-rounded-14-decimals, "
              "cfl-near-uniform-uses-first-width.")
LEVEL_NOTE = ("Trusted: Coq kernel; correspondence harness; sqrt and np.round as oracles checked per case; searchsorted modelled by its "
              "specification on sorted arrays. Model executed at Qc on the exact rational values of the float inputs.")
TECHNIQUE = "Coq proof (ordered-field lemmas, induction over edge lists, ring/field) + differential execution of the model vs RectilinearGrid"
