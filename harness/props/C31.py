"""C31 — setups survive a JSON round trip (partial: object-graph level; text layer and constructors trusted)."""
from fractions import Fraction

from lib import core
from lib.core import zlit, lst

PID = "C31"
PROPS_FILE = "props/C31.v"
IMPL = "C31_impl.py"
COQ_HEADER = ("From Coq Require Import String ZArith QArith Qcanon Bool.\n"
              "From FV Require Import base.Scalar base.Util model.Json model.JsonCases.\nLocal Open Scope string_scope.")
SHARD = 4
RULE = ("scene cases: random scenes from the kinds JsonSetup.validate accepts (volume, PML boundaries, uniform material objects incl. "
        "anisotropic / conductive, plane and gaussian sources with switches and profiles, field / energy / poynting / phasor detectors, "
        "position / size / size-extension / grid-coordinate constraints): object graph obtained by reflection -> model export == "
        "json.loads(dumps()), model import == reflection of the re-imported setup, placement of both setups compared; malformed scenes "
        "(sphere, dipole, PEC boundary, RealCoordinateConstraint, dangling constraint, duplicate names) must be rejected by loads(); "
        "graph cases: random nested values (None/bool/int/float/str/np and jax arrays incl. 0-d/dtypes/list/tuple/dict/tree classes/"
        "dataclasses) and a malformed stream (NULL, set, nested class, complex, int keys, reserved keys). "
        "Non-trivial = a scene with >= 3 objects besides the boundaries, or a graph of depth >= 2.")
EXHAUSTIVE = {"quick": False, "thorough": False}
ASSUMPTIONS = ["json.dumps(sort_keys=True) / json.loads round-trip finite maps, ints, finite floats (repr) and strings exactly; objects are compared as maps",
               "the constructors run by cls(**kwargs) on import store their keyword arguments unchanged or normalise idempotently "
               "(observed: reflection of the re-imported objects is compared with the model's import and with the original graph)",
               "numpy.array(nested list).tolist() returns the nested list (array dtype is not modelled: jax arrays and float32 arrays come back as float64 numpy arrays)",
               "finite floats only (NaN / Infinity are outside the well-formed graphs)"]
TRUSTED = ["reflection of Python objects into the model's pyv (harness/impl/C31_impl.py: reflect, independent of json.py: pytreeclass.fields / __dict__)",
           "correspondence harness (exact comparison, floats as rationals)"]


# ------------------------------------------------------------------------------------------- literals
def cstr(s):
    return '"' + str(s).replace('"', '""') + '"'


def qf(hexs):
    f = Fraction(*float.fromhex(hexs).as_integer_ratio())
    return f"(q ({f.numerator}) ({f.denominator}))"


def jlit(e):
    t = e[0]
    if t == "n":
        return "JNull"
    if t == "b":
        return f"(JBool {'true' if e[1] else 'false'})"
    if t == "i":
        return f"(JInt {zlit(e[1])})"
    if t == "f":
        return f"(JFloat {qf(e[1])})"
    if t == "s":
        return f"(JStr {cstr(e[1])})"
    if t == "l":
        return "(JList " + lst(e[1], jlit) + ")"
    if t == "o":
        return "(JObj " + lst(e[1], lambda kv: f"({cstr(kv[0])}, {jlit(kv[1])})") + ")"
    raise ValueError(t)


def plit(g):
    t = g[0]
    fl_ = lambda fs: lst(fs, lambda kv: f"({cstr(kv[0])}, {plit(kv[1])})")
    if t == "none":
        return "PNone"
    if t == "b":
        return f"(PBool {'true' if g[1] else 'false'})"
    if t == "i":
        return f"(PInt {zlit(g[1])})"
    if t == "f":
        return f"(PFloat {qf(g[1])})"
    if t == "s":
        return f"(PStr {cstr(g[1])})"
    if t == "arr":
        return f"(PArr {jlit(g[1])})"
    if t == "dtype":
        return f"(PDtype {cstr(g[1])})"
    if t == "data":
        return f"(PData {cstr(g[1])} {cstr(g[2])} {fl_(g[3])})"
    if t == "tree":
        return f"(PTree {cstr(g[1])} {cstr(g[2])} {fl_(g[3])})"
    if t == "dict":
        return f"(PDict {fl_(g[1])})"
    if t == "seq":
        return f"(PSeq {cstr(g[1])} {cstr(g[2])} {lst(g[3], plit)})"
    if t == "null":
        return "PNull"
    return "POpaque"


def finite(g):
    """no nan/inf anywhere in a reflected graph / encoded json"""
    if isinstance(g, list):
        if len(g) == 2 and g[0] == "f":
            return g[1] not in ("nan", "inf", "-inf")
        return all(finite(x) for x in g)
    return True


# ------------------------------------------------------------------------------------------- graph equality (python side)
def canon(g):
    t = g[0]
    if t in ("data", "tree"):
        fs = [(k, canon(v)) for k, v in g[3] if not (t == "data" and k.startswith("_"))]
        return (t, g[1], g[2], tuple(sorted(fs, key=lambda kv: kv[0])))
    if t == "dict":
        return (t, tuple(sorted(((k, canon(v)) for k, v in g[1]), key=lambda kv: kv[0])))
    if t == "seq":
        return (t, g[1], g[2], tuple(canon(v) for v in g[3]))
    if t == "arr":
        return (t, repr(g[1]))
    return tuple(g)


def first_diff(a, b, path="$"):
    if a[0] != b[0]:
        return f"{path}: {a[0]} vs {b[0]}"
    t = a[0]
    if t in ("data", "tree"):
        if a[1:3] != b[1:3]:
            return f"{path}: class {a[1]}.{a[2]} vs {b[1]}.{b[2]}"
        da = {k: v for k, v in a[3] if not (t == "data" and k.startswith("_"))}
        db = {k: v for k, v in b[3] if not (t == "data" and k.startswith("_"))}
        if set(da) != set(db):
            return f"{path}: fields {sorted(set(da) ^ set(db))}"
        for k in da:
            r = first_diff(da[k], db[k], path + "." + k)
            if r:
                return r
        return None
    if t == "dict":
        da, db = dict(a[1]), dict(b[1])
        if set(da) != set(db):
            return f"{path}: keys {sorted(set(da) ^ set(db))}"
        for k in da:
            r = first_diff(da[k], db[k], path + "[" + k + "]")
            if r:
                return r
        return None
    if t == "seq":
        if a[1:3] != b[1:3] or len(a[3]) != len(b[3]):
            return f"{path}: sequence {a[1]}.{a[2]}({len(a[3])}) vs {b[1]}.{b[2]}({len(b[3])})"
        for i, (x, y) in enumerate(zip(a[3], b[3])):
            r = first_diff(x, y, f"{path}[{i}]")
            if r:
                return r
        return None
    return None if canon(a) == canon(b) else f"{path}: {str(a)[:80]} vs {str(b)[:80]}"


# ------------------------------------------------------------------------------------------- generators
def rfloat(rng):
    return rng.choice([0.5, 1.0, 2.25, 1e-7, 3.3e-15, 0.1, 1.0 / 3.0, 2.0 ** -30, 12345.678, rng.uniform(-5, 5), float(rng.randint(-3, 3))])


def scene_spec(rng, i):
    n = [rng.randint(8, 12) for _ in range(3)]
    th = 2
    inner = lambda a: (th, n[a] - th)

    def box(minsize=1):
        b = []
        for a in range(3):
            lo, hi = inner(a)
            s = rng.randint(minsize, max(minsize, hi - lo - 1))
            l0 = rng.randint(lo, hi - s)
            b.append([l0, l0 + s])
        return b
    ax = rng.randrange(3)
    src_pos = rng.randint(th + 1, n[ax] - th - 2)
    blocks = []
    for k in range(rng.randint(1, 3)):
        eps = rng.choice([2.0, 2.25, [2.0, 2.5, 3.0], 4.0])
        b = {"box": box(2), "eps": eps, "name": f"blk{i}_{k}", "order": rng.randint(1, 5),
             **({"sigma_e": rng.choice([0.5, 5.0])} if rng.random() < 0.4 else {}),
             **({"mu": rng.choice([1.5, [1.0, 2.0, 1.5]])} if rng.random() < 0.3 else {})}
        if (isinstance(b["eps"], list) or isinstance(b.get("mu"), list)) and b["box"][ax][0] <= src_pos < b["box"][ax][1]:
            # plane sources inside anisotropic material are not supported by the library: keep the block off the source plane
            lo, hi = (src_pos + 1, n[ax] - th) if n[ax] - th - (src_pos + 1) >= 2 else (th, src_pos)
            if hi - lo >= 1:
                b["box"][ax] = [lo, min(hi, lo + 2)]
            else:
                b["eps"] = 2.0
                b.pop("mu", None)
        blocks.append(b)
    sources = []
    sw = rng.choice([None, {"start_time": 1, "end_time": 5}, {"interval": 2, "start_time": 1}, {"fixed": [0, 2, 3]}])
    sources.append({"kind": rng.choice(["plane", "gauss"]), "axis": ax, "pos": src_pos,
                    "dir": rng.choice("+-"), "pol": [(1.0, 0.5, 0.0), (0.0, 1.0, 0.0), (0.0, 0.0, 1.0)][(ax + 1) % 3] if ax != 0 else [0.0, 1.0, 0.5],
                    "name": f"src{i}", "switch": sw, "amp": rng.choice([1.0, 0.5, 2.0]),
                    "profile": rng.choice([None, {"kind": "cw"}, {"kind": "pulse"}])})
    if sources[0]["kind"] == "gauss":
        sources[0]["radius"] = 2e-7
    # polarisation must be transverse to the axis
    pol = [1.0, 0.5, 0.25]
    pol[ax] = 0.0
    sources[0]["pol"] = pol
    dets = []
    kinds = ["field", "energy", "poynting", "phasor"]
    rng.shuffle(kinds)
    for k, kind in enumerate(kinds[:rng.randint(2, 4)]):
        b = box(1)
        opts = {}
        if kind == "poynting":
            a = rng.randrange(3)
            b[a] = [b[a][0], b[a][0] + 1]
            opts = {"direction": rng.choice("+-"), "reduce_volume": rng.random() < 0.5}
        if kind == "energy":
            opts = {"as_slices": rng.random() < 0.5}
        if kind == "field":
            opts = {"components": rng.choice([["Ex", "Hz"], ["Ex", "Ey", "Ez", "Hx", "Hy", "Hz"], ["Ey"]]), "reduce_volume": rng.random() < 0.3}
        if kind == "phasor":
            opts = {"wavelengths": [6e-7, 8e-7][:rng.randint(1, 2)]}
        dets.append({"kind": kind, "box": b, "name": f"det{i}_{k}", "opts": opts, "switch": rng.choice([None, {"interval": 3}])})
    extra = [{"kind": "slab", "name": f"slab{i}", "nz": 2, "z": th + 1, "eps": 3.0, "order": 2}]
    if rng.random() < 0.7:
        extra.append({"kind": "pillar", "name": f"pil{i}", "n": 2, "on": f"slab{i}", "to": None, "eps": 5.0})
    if rng.random() < 0.6:
        extra.append({"kind": "rel", "name": f"rel{i}", "real_shape": [2e-7, 2e-7, 1e-7], "pos": [rng.choice([-0.5, 0, 0.5]), 0, 0.25], "eps": 1.5})
    if rng.random() < 0.5:
        extra.append({"kind": "sized", "name": f"sz{i}", "like": f"slab{i}", "prop": [0.5, 0.5, 1.0], "eps": 2.5})
    return {"shape": n, "spacing": rng.choice([1e-7, 5e-8]), "steps": rng.randint(3, 6), "thickness": th, "courant": rng.choice([None, 0.9, "exact_half"]),
            "blocks": blocks, "sources": sources, "detectors": dets, "extra": extra,
            "meta": rng.choice([None, {"author": "x", "run": 3, "tags": ["a", "b"]}])}


def bad_scene(rng, i, why):
    s = scene_spec(rng, 100 + i)
    s["sources"], s["detectors"] = s["sources"][:1], s["detectors"][:1]
    if why == "sphere":
        s["extra"].append({"kind": "sphere", "name": "ball"})
    elif why == "dipole":
        s["sources"].append({"kind": "dipole", "cell": [4, 4, 4], "pol": 1, "name": "dip"})
    elif why == "pec":
        s["bt"] = {"min_x": "pec"}
    elif why == "realcoord":
        s["extra"].append({"kind": "realcoord", "name": "rc", "eps": 2.0})
    elif why == "dupname":
        s["blocks"].append(dict(s["blocks"][0]))
    return s


def rand_recipe(rng, depth):
    leaf = depth <= 0 or rng.random() < 0.3
    if leaf:
        k = rng.choice(["none", "b", "i", "f", "s", "nparr", "jarr", "dtype", "wave", "poscons"])
    else:
        k = rng.choice(["list", "tuple", "dict", "material", "switch", "list", "dict"])
    if k == "none":
        return ["none"]
    if k == "b":
        return ["b", rng.random() < 0.5]
    if k == "i":
        return ["i", rng.choice([0, 1, -7, 2 ** 40, rng.randint(-100, 100)])]
    if k == "f":
        return ["f", float(rfloat(rng)).hex()]
    if k == "s":
        return ["s", rng.choice(["", "abc", "x.y", "with \"quote\"", "__name", "a b", "dict"])]
    if k in ("nparr", "jarr"):
        dt = rng.choice(["float64", "float32", "int32", "int64", "bool_"] if k == "nparr" else ["float64", "float32", "int32"])
        shape = rng.choice([(), (3,), (2, 2), (0,), (1, 2, 2)])

        def fill(sh):
            if not sh:
                v = rng.randint(-4, 4)
                return bool(v % 2) if dt == "bool_" else (v if dt.startswith("int") else v / 4.0 + (0.1 if dt == "float64" and rng.random() < 0.3 else 0.0))
            return [fill(sh[1:]) for _ in range(sh[0])]
        return [k, dt, fill(list(shape))]
    if k == "dtype":
        return ["dtype", rng.choice(["float32", "float64", "complex64", "complex128", "bfloat16", "int8", "float8_e4m3fn"])]
    if k == "wave":
        return ["wave", float(rng.choice([6e-7, 1.55e-6, 8e-7])).hex()]
    if k == "poscons":
        return ["poscons", rng.choice(["a", "obj1"]), rng.choice(["vol", "b"])]
    if k in ("list", "tuple"):
        return [k, [rand_recipe(rng, depth - 1) for _ in range(rng.randint(0, 3))]]
    if k == "dict":
        keys = rng.sample(["a", "b", "value", "_private", "__schema__", "name", "k.1", "__Value__"], rng.randint(0, 3))
        return ["dict", [[kk, rand_recipe(rng, depth - 1)] for kk in keys]]
    if k == "material":
        return ["material", rng.choice([["f", (2.5).hex()], ["tuple", [["f", (2.0).hex()], ["f", (3.0).hex()], ["f", (4.0).hex()]]]]), float(rng.choice([0.0, 1.5])).hex()]
    if k == "switch":
        return ["switch", float(rng.choice([0.0, 1e-15])).hex(), rng.randint(1, 4), rng.choice([None, [0, 2, 5]])]
    raise ValueError(k)


MALFORMED_GRAPHS = [
    (["list", [["null"]]], "error"),
    (["dict", [["a", ["set"]]]], "error"),
    (["tuple", [["nested"]]], "error"),
    (["list", [["complex"]]], "error"),
    (["list", [["intkeydict"]]], "error"),
    (["dict", [["__module__", ["i", 1]]]], "error"),
    (["dict", [["x", ["dict", [["__name__", ["s", "q"]]]]]]], "error"),
    (["list", [["poscons_private", "a", "vol"]]], "private"),
    (["dict", [["__value__", ["list", []]]]], "reserved"),
    (["dict", [["__dtype__", ["s", "jax.numpy.float32"]]]], "reserved"),
]


# fixed corpus: every leaf / container kind at least once in every run
CORPUS_GRAPHS = [
    ["list", [["nparr", "int32", [1, -2, 3]], ["nparr", "int64", [[2 ** 40, 0], [1, -1]]], ["nparr", "bool_", [True, False]],
              ["nparr", "float32", [0.25, 1.5]], ["nparr", "float64", [[0.1, 2.0]]], ["nparr", "int32", 7], ["nparr", "float64", 0.5],
              ["nparr", "float64", []], ["jarr", "int32", [4, 5]], ["jarr", "float32", [[0.75]]], ["jarr", "float64", 2.5]]],
    ["tuple", [["dtype", d] for d in ("float32", "float64", "complex64", "complex128", "float16", "bfloat16", "int8", "int32", "float8_e4m3fn")]],
    ["dict", [["t", ["tuple", [["i", 1], ["tuple", [["none"], ["b", True], ["b", False]]], ["list", []], ["tuple", []]]]],
              ["f", ["list", [["f", (0.1).hex()], ["f", (-0.0).hex()], ["f", (1e300).hex()], ["f", (5e-324).hex()], ["i", 0], ["i", -(2 ** 70)]]]],
              ["s", ["list", [["s", ""], ["s", "dict"], ["s", "__value__"], ["s", "a\"b"], ["s", "jax.numpy.float32"]]]],
              ["_p", ["i", 1]], ["value", ["dict", []]], ["d", ["dict", [["x", ["dict", [["y", ["none"]]]]]]]]]],
    ["list", [["wave", (6e-7).hex()], ["material", ["f", (2.5).hex()], (0.0).hex()],
              ["material", ["tuple", [["f", (2.0).hex()], ["f", (3.0).hex()], ["f", (4.0).hex()]]], (1.5).hex()],
              ["switch", (1e-15).hex(), 2, [0, 2, 5]], ["switch", (0.0).hex(), 1, None], ["poscons", "a", "vol"]]],
]


def gen_cases(ctx):
    rng = ctx.rng
    cases = [{"kind": "graph", "recipe": r} for r in CORPUS_GRAPHS]
    for i in range(ctx.pick(3, 14)):
        cases.append({"kind": "scene", "spec": scene_spec(rng, i), "place": True})
    for i, why in enumerate(["sphere", "dipole", "pec", "realcoord", "dupname"][:ctx.pick(5, 5)]):
        cases.append({"kind": "scene", "spec": bad_scene(rng, i, why), "place": False, "malformed": why})
    # configurations carrying an explicit RectilinearGrid (mildly graded at the nanometre scale, coarse graded, uniform widths): the edge
    # arrays are part of the setup and must come back exactly (graph comparison; not placed: the scenes use grid-coordinate constraints)
    for i, lohi in enumerate([(16e-9, 24e-9), (80e-9, 120e-9), (20e-9, 20e-9)]):
        sp = scene_spec(rng, 60 + i)
        sp["rect_widths"] = [[lohi[0] + (lohi[1] - lohi[0]) * rng.random() for _ in range(nn)] for nn in sp["shape"]] if lohi[0] != lohi[1] else [[lohi[0]] * nn for nn in sp["shape"]]
        cases.append({"kind": "scene", "spec": sp, "place": False})
    dang = scene_spec(rng, 50)
    cases.append({"kind": "scene", "spec": dict(dang, dangling=True), "place": False, "malformed": "dangling"})
    for i in range(ctx.pick(40, 400)):
        top = rng.choice(["list", "tuple", "dict"])
        r = rand_recipe(rng, 3)
        if r[0] not in ("list", "tuple", "dict", "material", "switch", "wave", "poscons"):
            r = [top, [r]] if top != "dict" else ["dict", [["k", r]]]
        cases.append({"kind": "graph", "recipe": r})
    for r, why in MALFORMED_GRAPHS:
        cases.append({"kind": "graph", "recipe": r, "malformed": why})
    return cases


def run_cases(ctx, cases):
    sc = [c for c in cases if c["kind"] == "scene"]
    gr = [c for c in cases if c["kind"] == "graph"]
    from concurrent.futures import ThreadPoolExecutor
    with ThreadPoolExecutor(2) as ex:
        f1 = ex.submit(lambda: core.run_impl_sharded(IMPL, sc, shard=min(len(sc), ctx.pick(3, 6))))
        f2 = ex.submit(lambda: core.run_impl_sharded(IMPL, gr, shard=1))
        o1, o2 = f1.result(), f2.result()
    i1, i2 = iter(o1), iter(o2)
    return [next(i1) if c["kind"] == "scene" else next(i2) for c in cases]


# ------------------------------------------------------------------------------------------- Coq side
def coq_expr(case, out):
    if case["kind"] == "scene":
        if "json" not in out:
            return None
        ps = []
        for k in ("config", "object_list", "constraints"):
            g, j = out["graph"][k], out["json"][k]
            if not (finite(g) and finite(j)):
                continue
            ps.append(f"opt_json_eqb (export Qc {plit(g)}) (Some {jlit(j)})")
            if "graph_back" in out:
                ps.append(f"wfb Qc {plit(g)}")
                ps.append(f"opt_pyv_eqb (import Qc {jlit(j)}) (Some {plit(out['graph_back'][k])})")
        return "(" + " && ".join(ps or ["true"]) + ")%bool"
    g = out.get("graph")
    if g is None or not finite(g):
        return None
    if "export_error" in out:
        return f"match export Qc {plit(g)} with None => true | Some _ => false end"
    ps = [f"opt_json_eqb (export_top Qc {plit(g)}) (Some {jlit(out['json'])})"]
    if case.get("malformed") == "reserved":
        ps.append(f"negb (wfb Qc {plit(g)})")
    elif case.get("malformed") == "private" and "graph_back" in out:
        # the private key is dropped by the export: the graph is not well-formed, the model still predicts both directions
        ps.append(f"negb (wfb Qc {plit(g)})")
        ps.append(f"opt_pyv_eqb (import Qc {jlit(out['json'])}) (Some {plit(out['graph_back'])})")
    elif "graph_back" in out:
        ps.append(f"wfb Qc {plit(g)}")
        ps.append(f"opt_pyv_eqb (import Qc {jlit(out['json'])}) (Some {plit(out['graph_back'])})")
    return "(" + " && ".join(ps) + ")%bool"


# ------------------------------------------------------------------------------------------- the property on the implementation
def key_of(case):
    return core.case_hash(case)[:10]


def predicate(case, out):
    if case["kind"] == "scene":
        bad = case.get("malformed")
        if bad:
            if "dump_error" in out:
                return None
            if "load_error" in out and out["load_error"].startswith("ValueError"):
                return None
            return ("accepted-" + bad, f"a setup with an unsupported {bad} was accepted by JsonSetup.loads ({out.get('load_error')})")
        for k in ("dump_error", "load_error"):
            if k in out:
                return ("scene-" + k + "-" + key_of(case), out[k])
        if "__schema__" not in out["top_keys"] or "__fdtdx_version__" not in out["top_keys"]:
            return ("schema-" + key_of(case), f"top-level keys {out['top_keys']}")
        if (case["spec"].get("meta") is not None) != ("meta" in out["top_keys"]):
            return ("meta-" + key_of(case), "meta entry lost or invented")
        for k in ("config", "object_list", "constraints"):
            d = first_diff(out["graph"][k], out["graph_back"][k], k)
            if d:
                return ("graph-" + key_of(case), "re-imported setup differs from the original: " + d)
        if not out["text_fixpoint"]:
            return ("text-" + key_of(case), "dumps(loads(dumps(x))) != dumps(x)")
        p = out.get("place")
        if p is not None and "place_error_orig" not in p:
            if "place_error" in p:
                return ("place-error-" + key_of(case), p["place_error"])
            if p["slices"] != p["slices_back"]:
                diff = {n: (p["slices"][n], p["slices_back"].get(n)) for n in p["slices"] if p["slices"][n] != p["slices_back"].get(n)}
                return ("slices-" + key_of(case), f"grid slices differ after the round trip: {diff}")
            badarr = [n for n, ok in p["arrays"].items() if not ok]
            if badarr or p["steps"][0] != p["steps"][1]:
                return ("arrays-" + key_of(case), f"arrays differ after the round trip: {badarr}, steps {p['steps']}")
        return None
    bad = case.get("malformed")
    if bad == "error":
        return None if "export_error" in out else ("graph-accepted-" + key_of(case), f"malformed graph exported: {case['recipe']}")
    if bad == "reserved":
        return None        # documented limitation (C31_reserved_key_refuted): exported, not round-tripped
    if bad == "private":
        bad = None         # must round-trip up to the dropped private attribute (first_diff ignores "_" keys of dataclasses)
    for k in ("build_error", "export_error", "import_error"):
        if k in out:
            return ("graph-" + k + "-" + key_of(case), f"{out[k]} on {case['recipe']}")
    d = first_diff(out["graph"], out["graph_back"])
    if d:
        return ("graph-roundtrip-" + key_of(case), "import(export(x)) differs from x: " + d)
    if not out["text_fixpoint"]:
        return ("graph-text-" + key_of(case), "export(import(export(x))) != export(x)")
    return None


def depth(g):
    if isinstance(g, list):
        return 1 + max([depth(x) for x in g] + [0])
    return 0


def nontrivial(case, out):
    if case.get("malformed"):
        return False
    if case["kind"] == "scene":
        s = case["spec"]
        return len(s["blocks"]) + len(s["sources"]) + len(s["detectors"]) + len(s["extra"]) >= 3 and (out.get("place") or {}).get("nonvac", 0) > 0
    return depth(case["recipe"]) >= 4


def classify(case, out):
    return case["kind"] + ("-malformed-" + str(case["malformed"]) if case.get("malformed") else "")


LEVEL_TEXT = ("PARTIAL. Theorem (any float carrier, all object graphs): a well-formed graph (no NULL / unsupported node, no reserved or "
              "underscore keys, finite floats, plain array payloads) is exported without error and import(export v) = v, at the level of the "
              "value passed to json.dumps; the reserved-key hypothesis is shown necessary by a proved counterexample. Tie: reflection of the "
              "real objects -> model export equals json.loads(dumps()) and model import equals the reflection of the re-imported setup, on "
              "random scenes of the kinds JsonSetup.validate accepts; the property statement itself (same grid slices, material / field / "
              "detector arrays, step count after place_objects) is evaluated on the implementation for every scene; unsupported kinds must "
              "be rejected by loads().")
LEVEL_NOTE = ("Not covered by the theorem: json text layer (dumps/loads), Python constructors executed on import (cls(**kwargs)), array dtypes, "
              "placement itself. These are observed by the correspondence / predicate only.")
TECHNIQUE = "Coq proof (nested structural induction over the object graph) + reflection-based exact differential check + placement comparison"
