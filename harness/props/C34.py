"""C34 — symmetric placement keeps the upper half and clips objects consistently."""
from lib import core
from lib.core import zlit, lst

PID = "C34"
PROPS_FILE = "props/C34.v"
IMPL = "C34_impl.py"
COQ_HEADER = "From Coq Require Import ZArith Bool.\nFrom FV Require Import model.PlaceSym.\nOpen Scope Z_scope."
SHARD = 100
RULE = ("direct cases: reduce_resolved_slices on random volumes (lower bound not always 0, odd/even/too-small counts), all 27 symmetry "
        "tuples, 0..6 boxes in all relations to the plane (below, touching, straddling symmetric/asymmetric, above, sticking out); "
        "place cases: place_objects(volume + 6 PEC boundaries + boxes) with config.symmetry: reduced shape, array shape, clipped and "
        "unreduced slices, dropped objects, symmetry walls, surviving boundaries.  non-trivial = some symmetric axis")
EXHAUSTIVE = {"quick": False, "thorough": False}
ASSUMPTIONS = ["uniform grid (RectilinearGrid.reduce_symmetric's width-mirror check is not modelled)",
               "mode-source symmetry forwarding (apply_mode_symmetry) and log warnings are not part of the property"]
TRUSTED = ["correspondence harness (exact integer comparison)"]

SYMS = [(a, b, c) for a in (-1, 0, 1) for b in (-1, 0, 1) for c in (-1, 0, 1)]


def rbox(rng, vol, inside):
    b = []
    for lo, hi in vol:
        if inside:
            s0 = rng.randint(lo, hi - 1)
            s1 = rng.randint(s0 + 1, hi)
        else:
            s0 = rng.randint(lo - 2, hi)
            s1 = rng.randint(s0 + 1, hi + 3)
        m = (lo + hi) // 2
        r = rng.random()
        if r < 0.15 and hi - m >= 1:      # touching the plane from above / below
            s0, s1 = (m, rng.randint(m + 1, hi)) if rng.random() < 0.5 else (rng.randint(lo, max(lo, m - 1)), m)
            if s1 <= s0:
                s0, s1 = lo, hi
        elif r < 0.3 and m - lo >= 1:     # symmetric straddle
            k = rng.randint(1, m - lo)
            s0, s1 = m - k, m + k
        b.append([s0, s1])
    return b


def gen_cases(ctx):
    rng = ctx.rng
    cases = [{"kind": "direct", "sym": [-1, 0, 1], "vol": [[0, 8], [0, 6], [0, 10]], "boxes": [[[2, 7], [1, 3], [5, 9]], [[0, 3], [0, 6], [0, 10]]]},
             {"kind": "direct", "sym": [0, 1, 0], "vol": [[0, 8], [0, 7], [0, 10]], "boxes": []},
             {"kind": "place", "sym": [-1, 1, 0], "shape": [8, 6, 10], "boxes": [[[1, 7], [0, 3], [2, 5]], [[0, 4], [3, 6], [0, 10]]]}]
    for i in range(ctx.pick(200, 4000)):
        sym = list(SYMS[i % 27]) if i % 5 else [rng.choice([-1, 0, 1]) for _ in range(3)]
        vol = []
        for a in range(3):
            lo = 0 if rng.random() < 0.7 else rng.randint(-3, 5)
            n = rng.choice([2, 4, 6, 8, 10, 12]) if rng.random() < 0.85 else rng.choice([1, 3, 5, 7, 0])
            vol.append([lo, lo + n])
        nb = rng.randint(0, 6)
        boxes = [rbox(rng, vol, rng.random() < 0.8) for _ in range(nb)] if all(h > l for l, h in vol) else []
        cases.append({"kind": "direct", "sym": sym, "vol": vol, "boxes": boxes, "vol_pos": rng.randint(0, nb)})
    for i in range(ctx.pick(8, 120)):
        sym = list(SYMS[(7 * i + 3) % 27])
        shape = [rng.choice([4, 6, 8, 10]) if rng.random() < 0.9 else rng.choice([5, 7]) for _ in range(3)]
        vol = [[0, s] for s in shape]
        boxes = [rbox(rng, vol, True) for _ in range(rng.randint(1, 5))]
        cases.append({"kind": "place", "sym": sym, "shape": shape, "boxes": boxes, "bt": rng.choice(["pec", "pml", "pmc"])})
    return cases


def run_cases(ctx, cases):
    d = [c for c in cases if c["kind"] == "direct"]
    p = [c for c in cases if c["kind"] == "place"]
    from concurrent.futures import ThreadPoolExecutor
    with ThreadPoolExecutor(2) as ex:
        fd = ex.submit(core.run_impl_sharded, IMPL, d, 3, 2000)
        fp = ex.submit(core.run_impl_sharded, IMPL, p, ctx.pick(5, 6), 3000) if p else None
        od, op = fd.result(), (fp.result() if fp else [])
    it_d, it_p = iter(od), iter(op)
    return [next(it_d) if c["kind"] == "direct" else next(it_p) for c in cases]


def iv(p):
    return f"({zlit(p[0])}, {zlit(p[1])})"


def ivs(l):
    return lst(l, iv)


def objlit(o):
    return "None" if o is None else f"(Some ({ivs(o[0])}, {ivs(o[1])}))"


def coq_expr(case, out):
    if "crash" in out:
        return "false"
    sym = lst(case["sym"], zlit)
    vol = ivs(case["vol"] if case["kind"] == "direct" else [[0, s] for s in case["shape"]])
    boxes = lst(case["boxes"], ivs)
    red = f"(reduce_slices {sym} {vol} {boxes})"
    if "error" in out:
        return f"(is_none {red})"
    e = f"reduced_eqb {red} {ivs(out['vol'])} {ivs(out['volu'])} {lst(out['shape'], zlit)} {lst(out['objs'], objlit)}"
    if case["kind"] == "place":
        w = lst(out["walls"], lambda x: f"({int(x[0])}%nat, {ivs(x[1])})")
        e += f" && walls_eqb (walls {sym} {lst(out['shape'], zlit)}) {w}"
    return f"({e})%bool"


def predicate(case, out):
    """The statement itself, on the implementation output."""
    key = f"{case['kind']}-{core.case_hash(case)[:8]}"
    if "crash" in out:
        return (key, "crash: " + out["crash"])
    sym = case["sym"]
    vol = case["vol"] if case["kind"] == "direct" else [[0, s] for s in case["shape"]]
    n = [h - l for l, h in vol]
    must_fail = any(sym[a] != 0 and (n[a] < 2 or n[a] % 2) for a in range(3))
    if "error" in out:
        if not must_fail:
            return (key, f"unexpected error for counts {n}, symmetry {sym}: {out['error']}")
        return None
    if must_fail:
        return (key, f"symmetric axis with cell count {n} accepted (symmetry {sym})")
    mid = [vol[a][0] + n[a] // 2 if sym[a] else vol[a][0] for a in range(3)]
    red = [vol[a][1] - mid[a] if sym[a] else n[a] for a in range(3)]
    if out["shape"] != red:
        return (key, f"reduced shape {out['shape']} != upper half {red}")
    if case["kind"] == "place" and out["array_shape"] != red:
        return (key, f"field arrays {out['array_shape']} != reduced shape {red}")
    for i, (b, o) in enumerate(zip(case["boxes"], out["objs"])):
        cl = [[max(b[a][0], mid[a]) - mid[a], min(b[a][1], vol[a][1]) - mid[a]] if sym[a] else list(b[a]) for a in range(3)]
        un = [[b[a][0] - mid[a], b[a][1] - mid[a]] if sym[a] else list(b[a]) for a in range(3)]
        dropped = any(c[1] <= c[0] for c in cl)
        if dropped != (o is None):
            return (key, f"box {i} {b}: dropped={o is None}, expected {dropped}")
        if o is not None and (o[0] != cl or o[1] != un):
            return (key, f"box {i} {b}: placed {o[0]} / unreduced {o[1]}, expected {cl} / {un}")
    if case["kind"] == "place":
        if sorted(w[0] for w in out["walls"]) != [a for a in range(3) if sym[a] == -1]:
            return (key, f"symmetry walls on axes {[w[0] for w in out['walls']]} for symmetry {sym}")
        for ax, sl, cls, d in out["walls"]:
            exp = [[0, red[b]] for b in range(3)]
            exp[ax] = [0, 1]
            if sl != exp or cls != "PerfectElectricConductor" or d != "-":
                return (key, f"wall on axis {ax}: {cls} {d} at {sl}, expected PEC '-' at {exp}")
        for ax, d, sl in out["boundaries"]:
            if sym[ax] != 0 and d == "-":
                return (key, f"min-side boundary on symmetric axis {ax} survived")
    else:
        if not out["consistent"]:
            return (key, "dropped / new_slices / unreduced_slices key sets inconsistent")
    return None


def nontrivial(case, out):
    return any(s != 0 for s in case["sym"]) and "error" not in out


def classify(case, out):
    return case["kind"] + (":error" if "error" in out else ":ok")


LEVEL_TEXT = ("Theorems (all integers): a symmetric axis is accepted iff its cell count is even and >= 2, the plane is the middle and the "
              "reduced volume is the upper half renumbered from the plane; an object's reduced cells are exactly its cells in the kept "
              "half (cell-wise iff), its unreduced extent is the original interval minus the plane index, clipped = unreduced ∩ [0, n/2), "
              "it is dropped iff it has no cell in the kept half (and the three position cases); non-symmetric axes untouched; PEC wall "
              "iff axis is electric (-1), one cell at the reduced min edge.  Tie: model == reduce_resolved_slices / place_objects.")
LEVEL_NOTE = "Trusted: Coq kernel, correspondence harness.  Width-mirror validation of explicit non-uniform grids is outside the model."
TECHNIQUE = "Coq proof (lia interval arithmetic) + differential runs through reduce_resolved_slices and place_objects"
