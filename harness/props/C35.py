"""C35 — dispersion coefficients encode the declared pole model."""
import cmath
import math

from lib import core
from lib.core import lst, blit

PID = "C35"
PROPS_FILE = "props/C35.v"
IMPL = "C35_impl.py"
COQ_HEADER = ("From Coq Require Import ZArith Bool QArith Qcanon.\n"
              "From FV Require Import base.Scalar base.GridBase base.Util model.Dispersion model.DispersionCheck.")
SHARD = 3
RULE = ("random pole sets (Lorentz / Drude / CCPR / critical-point; scalar, per-axis incl. inactive axes, oriented Lorentz/Drude), "
        "omega_0*dt in (0.01, 1.9) mostly and >= 2 in ~12% (rejection), gamma = 0 or up to omega_0, 3 frequencies per case incl. "
        "omega*dt in {0.02, 0.01}; per case: coefficients vs model coeffs, chi from coefficients vs model chi_total, declared "
        "model vs chi_model_total, tensor entries, zero padding through materials; non-trivial = accepted case with >= 1 active pole")
EXHAUSTIVE = {"quick": False, "thorough": False}
ASSUMPTIONS = ["float round-off: coefficients compared to 1e-12 relative, susceptibilities to 1e-8 of |chi| (cancellation in 2 - c1*D)",
               "CCPR |q| is computed by abs() then squared in the code; the model takes omega_0 as reported and squares it exactly",
               "the O((omega dt)^2) convergence clause is tested, not proved: predicate checks the recurrence's frequency response "
               "against the bound 1.5*(omega dt)^2*(omega^2/12 + gamma*omega/6)/|denominator| for Lorentz/Drude poles",
               "roots: proved on the model from the Jury conditions; predicate also computes the roots of the implementation's c1, c2"]
TRUSTED = ["correspondence harness", "predicate: independent complex arithmetic in Python on the implementation's outputs"]


def H(x):
    return float(x).hex()


def F(s):
    return float.fromhex(s) if isinstance(s, str) else float(s)


def qh(s):
    return core.qlit(F(s))


def gen_pole(rng, w0max, force=None):
    kind = force or rng.choice(["lorentz", "lorentz", "drude", "ccpr", "cp"])
    w0 = rng.uniform(0.05, 1.0) * w0max
    g = rng.choice([0.0, rng.uniform(1e-3, 1.0) * w0])
    if kind == "lorentz":
        if rng.random() < 0.35:   # per-axis, possibly an inactive axis
            return {"kind": kind, "w0": [H(rng.uniform(0.05, 1.0) * w0max) for _ in range(3)], "g": [H(rng.choice([0.0, rng.uniform(1e-3, 1) * w0])) for _ in range(3)],
                    "de": [H(rng.choice([0.0, rng.uniform(0.1, 5.0)])) for _ in range(3)]}
        return {"kind": kind, "w0": H(w0), "g": H(g), "de": H(rng.uniform(0.1, 5.0))}
    if kind == "drude":
        if rng.random() < 0.3:
            return {"kind": kind, "wp": [H(rng.choice([0.0, rng.uniform(0.1, 2) * w0max])) for _ in range(3)], "g": [H(rng.uniform(0, 1) * w0) for _ in range(3)]}
        return {"kind": kind, "wp": H(rng.uniform(0.1, 2.0) * w0max), "g": H(g)}
    if kind == "ccpr":
        if rng.random() < 0.4:    # per-axis (q, r) sets with different damping per axis
            ws = [rng.uniform(0.05, 1.0) * w0max for _ in range(3)]
            return {"kind": kind, "q": [[H(-rng.uniform(1e-3, 0.5) * w_), H(-w_)] for w_ in ws],
                    "r": [[H(rng.uniform(-1, 1) * w_), H(rng.uniform(-2, 2) * w_)] for w_ in ws]}
        return {"kind": kind, "q": [H(-rng.uniform(1e-3, 0.5) * w0), H(-w0)], "r": [H(rng.uniform(-1, 1) * w0), H(rng.uniform(-2, 2) * w0)]}
    return {"kind": "cp", "amp": H(rng.uniform(0.2, 3)), "phase": H(rng.uniform(-1.5, 1.5)), "om": H(w0), "gm": H(rng.uniform(1e-3, 0.5) * w0)}


def gen_cases(ctx):
    rng = ctx.rng
    cases = []
    for i in range(ctx.pick(24, 400)):
        w0max = rng.uniform(1e14, 5e15)
        mode = i % 8
        # mode 6: omega_0*dt just above 2 on a forced pole (must be rejected); mode 7: just below 2 (must be accepted)
        # mode 5: slow resonances relative to the time step (far-IR / THz phonons: omega_0*dt of order 1e-4 .. 1e-3)
        x = rng.uniform(2.0, 2.45) if mode == 6 else rng.uniform(1.9, 1.999) if mode == 7 else rng.uniform(2e-4, 9e-4) if mode == 5 else rng.uniform(0.01, 1.9)
        dt = x / w0max
        oriented = i % 4 == 3
        n = rng.randint(1, 3)
        poles = []
        for _ in range(n):
            if oriented and rng.random() < 0.7:
                p = gen_pole(rng, w0max, rng.choice(["lorentz", "drude"]))
                for k in ("w0", "g", "de", "wp"):
                    if isinstance(p.get(k), list):
                        p[k] = p[k][0] if F(p[k][0]) != 0 else H(0.3 * w0max)
                p["orientation"] = [H(rng.uniform(-1, 1)) for _ in range(3)] if rng.random() < 0.8 else [H(0.0), H(1.0), H(0.0)]
                poles.append(p)
            else:
                poles.append(gen_pole(rng, w0max))
        if mode in (6, 7):   # one scalar pole resonating exactly at w0max
            poles[0] = rng.choice([{"kind": "lorentz", "w0": H(w0max), "g": H(rng.choice([0.0, 0.1 * w0max])), "de": H(rng.uniform(0.1, 5.0))},
                                   {"kind": "cp", "amp": H(1.5), "phase": H(0.3), "om": H(w0max * 0.999), "gm": H(0.04 * w0max)}])
        omegas = [H(0.02 / dt), H(0.01 / dt), H(rng.uniform(0.05, 1.5) * w0max)] if mode != 5 else [H(0.2 * w0max), H(0.7 * w0max), H(rng.uniform(0.05, 1.5) * w0max)]
        cases.append({"poles": poles, "dt": H(dt), "omegas": omegas, "extra_pad": rng.randint(0, 2), "x": x})
    return cases


def run_cases(ctx, cases):
    return core.run_impl_sharded(IMPL, cases, shard=ctx.pick(3, 6))


# ----------------------------------------------------------------------------- correspondence
def cpx(o, idx=None):
    re, im = o["re"], o["im"]
    if idx is not None:
        re, im = re[idx], im[idx]
    return complex(F(re), F(im))


def cq(z):
    return f"({core.qlit(z.real)}, {core.qlit(z.imag)})"


def tup(c, p, i, j=None):
    """coefficient tuple of pole p, recurrence axis i, coupling entry j (defaults to i)"""
    j = i if j is None else j
    return f"({qh(c[0][p][i])}, {qh(c[1][p][i])}, {qh(c[2][p][j])}, {qh(c[3][p][j])})"


def mkp(pr, ax):
    return f"(mkp {qh(pr['w0'][ax])} {qh(pr['g'][ax])} {qh(pr['a'][ax])} {qh(pr['b'][ax])})"


def coq_expr(case, out):
    if "ctor_error" in out:
        return None
    dt = qh(case["dt"])
    P = out["params"]
    n = len(P)
    parts = []
    # the implementation reconstructs chi from its coefficients in double precision; the denominator z - c1 - c2/z is O(h^2) formed from O(1)
    # numbers, so that evaluation carries a relative round-off of order eps / h^2 (h = the smallest omega*dt / omega_0*dt in play)
    hmin = min([abs(F(w)) * F(case["dt"]) for w in case["omegas"]] + [abs(float(case.get("x", 1.0)))])
    tolchi = core.qlit(1e-8 + 512 * 2.3e-16 / max(hmin * hmin, 1e-300))
    if "axis" in out:
        c = out["axis"]["c"]
        for p in range(n):
            for ax in range(3):
                parts.append(f"c4_close tol12 (d_coeffs {mkp(P[p], ax)} {dt}) {tup(c, p, ax)}")
        for wi, w in enumerate(case["omegas"]):
            for ax in (range(3) if wi == 2 else [wi] if wi == 0 else []):
                zi = cpx(out["axis"]["chi"][wi], ax); zm = cpx(out["axis"]["model"][wi], ax)
                sc = core.qlit(max(abs(zi), abs(zm), 1e-300))
                parts.append(f"cclose {tolchi} {sc} (d_chi {lst([tup(c, p, ax) for p in range(n)])} {qh(w)} {dt}) {cq(zi)}")
                parts.append(f"cclose tol8 {sc} (d_model {lst([mkp(P[p], ax) for p in range(n)])} {qh(w)}) {cq(zm)}")
    elif out.get("axis_error") and not out["axis_error"].startswith("oriented") and "is oriented" not in out["axis_error"]:
        parts.append("existsb is_none " + lst([f"d_coeffs {mkp(P[p], ax)} {dt}" for p in range(n) for ax in range(3)]))
    if "tensor" in out:
        c = out["tensor"]["c"]
        for p in range(n):
            u = P[p]["u"]
            for (i, j) in [(0, 0), (0, 1), (1, 2), (2, 2)]:
                if u is not None:
                    parts.append(f"c4_close tol12 (d_coeffs_or {mkp(P[p], i)} {dt} {qh(u[i])} {qh(u[j])}) {tup(c, p, i, 3 * i + j)}")
                elif i == j:
                    parts.append(f"c4_close tol12 (d_coeffs {mkp(P[p], i)} {dt}) {tup(c, p, i, 4 * i)}")
        w = case["omegas"][2]
        for (i, j) in [(0, 0), (0, 1), (1, 2), (2, 2)]:
            zi = cpx(out["tensor"]["chi"][2], 3 * i + j)
            sc = core.qlit(max(abs(cpx(out["tensor"]["chi"][2], k)) for k in range(9)) + 1e-300)
            parts.append(f"cclose {tolchi} {sc} (d_chi {lst([tup(c, p, i, 3 * i + j) for p in range(n)])} {qh(w)} {dt}) {cq(zi)}")
    elif "tensor_error" in out:
        parts.append("existsb is_none " + lst([f"d_coeffs {mkp(P[p], ax)} {dt}" for p in range(n) for ax in range(3)])
                     if "negative coupling" not in out["tensor_error"] else "true")
    if not parts:
        return None
    return "(" + "\n && ".join(f"({p})" for p in parts) + ")%bool"


# ----------------------------------------------------------------------------- predicate
def chi_decl(pr, ax, w):
    w0, g, a, b = (F(pr[k][ax]) for k in ("w0", "g", "a", "b"))
    return (a - 1j * w * b) / (w0 * w0 - w * w - 1j * g * w)


def predicate(case, out):
    key = "case-" + core.case_hash(case)[:10]
    if "ctor_error" in out:
        return (key, "pole construction failed: " + out["ctor_error"])
    dt = F(case["dt"]); P = out["params"]; n = len(P)
    active = [[F(P[p]["a"][ax]) != 0.0 or F(P[p]["b"][ax]) != 0.0 for ax in range(3)] for p in range(n)]
    unstable = any(active[p][ax] and F(P[p]["w0"][ax]) * dt >= 2.0 for p in range(n) for ax in range(3))
    oriented = any(pr["u"] is not None for pr in P)
    if unstable:
        if "tensor" in out or "axis" in out:
            return (key, "a pole with omega_0*dt >= 2 on an active axis was accepted")
        return None
    if "tensor" not in out or ("axis" not in out and not oriented):
        return (key, f"stable poles rejected: {out.get('axis_error')} / {out.get('tensor_error')}")
    for wi, ws in enumerate(case["omegas"]):
        w = F(ws)
        # declared model from the pole parameters (independent of DispersionModel and of the Coq model)
        T = [[0j] * 3 for _ in range(3)]
        for pr in P:
            if pr["u"] is not None:
                u = [F(v) for v in pr["u"]]
                z = chi_decl(pr, 0, w)
                for i in range(3):
                    for j in range(3):
                        T[i][j] += z * u[i] * u[j]
            else:
                for ax in range(3):
                    T[ax][ax] += chi_decl(pr, ax, w)
        scale = max(abs(T[i][j]) for i in range(3) for j in range(3)) + 1e-300
        for i in range(3):
            for j in range(3):
                z = cpx(out["tensor"]["chi"][wi], 3 * i + j)
                if abs(z - T[i][j]) > 1e-7 * scale:
                    return (key, f"chi[{i}][{j}] reconstructed from the tensor coefficients = {z} differs from the declared model {T[i][j]} at omega={w:.4g}")
                if abs(cpx(out["tensor"]["model"][wi], 3 * i + j) - T[i][j]) > 1e-9 * scale:
                    return (key, "DispersionModel.susceptibility_tensor differs from the declared pole formula")
        if "axis" in out:
            for ax in range(3):
                if abs(cpx(out["axis"]["chi"][wi], ax) - T[ax][ax]) > 1e-7 * scale:
                    return (key, f"chi_{'xyz'[ax]} reconstructed from the per-axis coefficients differs from the declared model at omega={w:.4g}")
    # roots and convergence per pole/axis from the implementation's coefficients
    c = out["tensor"]["c"]
    for p in range(n):
        for ax in range(3):
            c1, c2 = F(c[0][p][ax]), F(c[1][p][ax])
            if not active[p][ax] and F(P[p]["w0"][ax]) * dt >= 2.0:
                continue
            disc = cmath.sqrt(c1 * c1 + 4 * c2)
            for z in ((c1 + disc) / 2, (c1 - disc) / 2):
                if abs(z) > 1 + 1e-9:
                    return (key, f"recurrence root {z} of pole {p} axis {ax} lies outside the unit circle (c1={c1}, c2={c2})")
            if P[p]["u"] is None and active[p][ax] and F(P[p]["b"][ax]) == 0.0:
                c3 = F(c[2][p][4 * ax])
                for ws in case["omegas"][:2]:
                    w = F(ws); h = w * dt
                    z = cmath.exp(-1j * h)
                    rec = c3 / (z - c1 - c2 / z)
                    ref = chi_decl(P[p], ax, w)
                    w0, g = F(P[p]["w0"][ax]), F(P[p]["g"][ax])
                    # + round-off of this double-precision evaluation: the denominator z - c1 - c2/z is O(h^2), formed from O(1) stored coefficients
                    bound = 1.5 * h * h * (w * w / 12 + g * w / 6) / abs(w0 * w0 - w * w - 1j * g * w) + 1e-9 + 64 * 2.3e-16 / (h * h)
                    if abs(rec - ref) > bound * abs(ref):
                        return (key, f"recurrence response of pole {p} axis {ax} at omega*dt={h:.3g} deviates {abs(rec - ref) / abs(ref):.3e} from the model (bound {bound:.3e})")
    # zero padding
    if "pad" in out:
        full = out["pad"]["full"]
        for name, pd in out["pad"].items():
            npoles = {"full": n, "part": 1, "air": 0}[name]
            for k in range(4):
                for row in pd["c"][k][npoles:]:
                    if any(F(v) != 0.0 for v in row):
                        return (key, f"padded pole slot of material '{name}' is not zero")
            for wi in [2]:
                for e in range(9):
                    z = cpx(pd["chi"][0], e)
                    if name == "air" and z != 0:
                        return (key, "non-dispersive material has non-zero susceptibility")
                    if name == "full" and abs(z - cpx(out["tensor"]["chi"][wi], e)) > 1e-12 * (abs(z) + 1e-300):
                        return (key, "zero-padded slots change the susceptibility")
    if "axis" in out and out["axis"].get("scalar_same") is False:
        return (key, "compute_pole_coefficients differs from the first column of the per-axis coefficients")
    return None


def nontrivial(case, out):
    return "tensor" in out


def classify(case, out):
    kinds = "+".join(sorted({p["kind"] + ("-or" if p.get("orientation") else "") for p in case["poles"]}))
    return ("ok:" if "tensor" in out else "rejected:") + kinds


LEVEL_TEXT = ("Theorems over an arbitrary ordered field: chi reconstructed from the coefficients of any pole (Lorentz, Drude, CCPR / "
              "critical point as instances of the unified parameters) equals the declared model at every frequency with non-zero "
              "denominator, also summed over poles and for oriented tensor entries (chi_p u_i u_j); zero-padded slots contribute 0; "
              "Jury conditions follow from gamma dt >= 0, (omega_0 dt)^2 <= 4, and under them no root of z^2 - c1 z - c2 lies outside "
              "the unit circle. PARTIAL: the O((omega dt)^2) convergence of the recurrence's own frequency response is tested only.")
LEVEL_NOTE = ("Trusted: Coq kernel; correspondence harness with float tolerances (1e-12 coefficients, 1e-8 susceptibilities); "
              "cos/sin/abs of the CCPR constructors are taken from the implementation's reported unified parameters.")
TECHNIQUE = "Coq proof (field identities with atomised denominators, ordered-field case analysis for the roots) + differential execution"
