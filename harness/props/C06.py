"""C06 — simulation state depends only on the steps executed, not on how the run is split; reset."""
from lib import core
from lib.core import zlit

PID = "C06"
PROPS_FILE = "props/C06.v"
IMPL = "C06_impl.py"
COQ_HEADER = "From Coq Require Import ZArith List. Import ListNotations.\nFrom FV Require Import base.Util model.Loop model.Stop."
RULE = ("placed scenes (PML/PEC/periodic, plane + dipole sources with switches, field/phasor/energy detectors with arbitrary switches): "
        "one run_fdtd vs chains of custom_fdtd_forward over random split points (incl. empty and single-step segments; Python-int bounds, concrete jax-array bounds and a jitted runner with traced bounds), re-run from the returned "
        "arrays (plain, and under reversible(0 / 2 checkpoints) and checkpointed gradient strategies: fresh run and a second run from the returned container), reset(); model: step counters of every segment; predicate: fields, psi and detector states equal to 1e-12 relative")
ASSUMPTIONS = ["field values are compared between implementation runs (predicate); the per-step update itself is modelled in C01/C02",
               "the recording-state retention of reset() is not exercised"]
TRUSTED = ["correspondence on step counters (exact Z)"]
LEVEL_TEXT = ("Theorems (any state type and step function): consecutive partial runs [0,a),[a,b) bounded by the total give exactly the state of one "
              "run of b steps; reset keeps materials, zeroes the time-dependent part, is idempotent; re-running from the result of a previous run "
              "equals the first run. Tie: segment step counters vs the model loop, and equality of fields/detector states across split / re-run on the implementation.")
LEVEL_NOTE = "The theorem is about the loop structure (model/Loop.v run_between) and an abstract (materials, dynamic) split of the container; field equality is measured on the implementation."
TECHNIQUE = "Coq proof (induction over bounded while loops) + differential runs of the implementation"


def scene(rng, T):
    bts = [{"min_x": "pec", "max_x": "pmc", "min_y": "periodic", "max_y": "periodic", "min_z": "pml", "max_z": "pml"},
           {"min_x": "periodic", "max_x": "periodic", "min_y": "pec", "max_y": "pec", "min_z": "pmc", "max_z": "pml"}]
    def sw():
        # every schedule has at least one on-step (a phasor detector that is never on is rejected at placement, by design)
        while True:
            r = rng.random()
            if r < 0.3:
                return None
            if r < 0.6:
                return {"fixed": sorted(rng.sample(range(T), rng.randint(1, T)))}
            s_, e_, iv = rng.randint(0, T // 2), rng.randint(T // 2, T), rng.choice([1, 2])
            if any(s_ <= t <= e_ and t % iv == 0 for t in range(T)):
                return {"start_time": s_, "end_time": e_, "interval": iv}
    # half of the scenes contain a dispersive (Lorentz) block: its polarisation buffers are time-dependent state that reset() must zero
    blocks = [{"box": [[1, 5], [1, 5], [4, 6]], "eps": 2.25, "lorentz": {"w0": 4.0e15, "g": 1.0e14, "de": 1.5}, "name": "lor"}] if rng.random() < 0.5 else []
    return {"shape": [6, 6, 9], "spacing": 5e-8, "steps": T, "bt": rng.choice(bts), "thickness": 2, "blocks": blocks,
            "sources": [{"kind": "plane", "axis": 2, "pos": 4, "dir": "+", "pol": [1.0, 0.5, 0.0], "switch": sw()},
                        {"kind": "dipole", "cell": [3, 3, 5], "pol": 2, "switch": sw()}],
            "detectors": [{"kind": "field", "box": [[2, 4], [2, 4], [3, 6]], "name": "fd", "switch": sw()},
                          {"kind": "phasor", "box": [[2, 4], [2, 4], [4, 6]], "name": "ph", "switch": sw()},
                          {"kind": "energy", "box": [[2, 5], [2, 5], [3, 6]], "name": "en", "opts": {"as_slices": False}, "switch": sw()}]}


def gen_cases(ctx):
    cases = []
    for T in ctx.pick([7], [1, 2, 5, 9, 14]):
        for _ in range(ctx.pick(2, 3)):
            splits = [[T]]
            for _ in range(ctx.pick(3, 6)):
                k = ctx.rng.randint(1, min(4, T))
                pts = sorted(ctx.rng.choice(range(0, T + 1)) for _ in range(k)) + [T]
                splits.append(pts)
            splits.append(list(range(1, T + 1)))
            grads = [{"method": "reversible", "n": 0}, {"method": "reversible", "n": max(0, min(2, T - 1))}, {"method": "checkpointed", "n": max(1, T // 2)}]
            cases.append({"T": T, "spec": scene(ctx.rng, T), "splits": splits, "grads": grads})
    return cases


def run_cases(ctx, cases):
    return core.run_impl_sharded(IMPL, cases, shard=min(len(cases), 6))


def coq_expr(case, out):
    if "error" in out:
        return "false"
    T = out["T"]
    parts = []
    for sp in out["splits"] + out.get("array_splits", []):
        # model: fold run_between over the end points on the counter state
        ends = core.lst(sp["pts"], zlit)
        exp = core.lst(sp["ts"], zlit)
        parts.append(f"zlist_eqb (snd (fold_left (fun acc e => let s := run_between Z Z.succ (fun s => s) {zlit(T)} e (fst acc) in (s, snd acc ++ [s])) {ends} (0%Z, []))) {exp}")
    parts.append(f"Z.eqb (plain_run Z Z.succ (fun s => s) {zlit(T)} 0%Z) {zlit(out['t_plain'])}")
    parts.append(f"Z.eqb (plain_run Z Z.succ (fun s => s) {zlit(T)} 0%Z) {zlit(out['rerun']['t'])}")
    return "(" + " && ".join(parts) + ")%bool"


def predicate(case, out):
    if "error" in out:
        return ("driver-error", out["error"])
    for sp in out["splits"] + out.get("array_splits", []) + [dict(out["rerun"], pts="rerun")]:
        tol = 1e-12 if sp.get("mode") != "traced" else 1e-9      # a jitted runner fuses differently: round-off only
        bad = sp["E"] > tol * out["scale"] or sp["H"] > tol * out["scale"] or sp["psi"] > tol * out["scale"] or sp["det"] > tol * out["dscale"]
        if bad or (sp.get("ts") and sp["ts"][-1] != out["T"]):
            return (f"split-differs:T={out['T']};pts={sp['pts']};mode={sp.get('mode', 'int')}", f"state after split/re-run {sp} differs from the single run (scale {out['scale']:.3e}, det {out['dscale']:.3e})")
    for gr in out.get("grad_reruns", []):
        tag = f"{gr['g']['method']}-{gr['g'].get('n')};T={out['T']}"
        if "error" in gr:
            return ("grad-rerun-error:" + tag, gr["error"])
        for which in ("first", "second"):
            d = gr[which]
            if (gr["t1"], gr["t2"]) != (out["T"], out["T"]) or d["E"] > 1e-9 * out["scale"] or d["H"] > 1e-9 * out["scale"] or d["psi"] > 1e-9 * out["scale"] or d["det"] > 1e-9 * out["dscale"]:
                return (f"grad-rerun-differs:{which};" + tag, f"{which} run under {gr['g']} ({'fresh arrays' if which == 'first' else 'arrays returned by the first run'}) differs from the plain run: {d} (scale {out['scale']:.3e}, det {out['dscale']:.3e})")
    if out["reset"]["dynamic_maxabs"] != 0.0 or out["reset"]["materials_diff"] != 0.0:
        return ("reset-wrong", f"reset left {out['reset']}")
    return None


def nontrivial(case, out):
    return "error" not in out and out["scale"] > 0 and out["T"] >= 2


def classify(case, out):
    return f"T={case['T']}"
