"""C36 — dispersive cells follow their recurrence and accepted passive media stay bounded."""
from lib import core, yee_coq as Y
from lib.core import qlit, lst

PID = "C36"
PROPS_FILE = "props/C36.v"
IMPL = "C36_impl.py"
COQ_HEADER = Y.HEADER + "From FV Require Import model.YeeDisp.\n"
SHARD = 1
RULE = ("(a) closed boxes (periodic / PEC / PMC) with a block of Lorentz + Drude poles inside a non-dispersive background, random fields: every "
        "forward() step (E, H, P_curr, P_prev) vs the Coq model of the ADE block; cells outside the block have all-zero coefficients; "
        "(b) measured boundedness: 4^3 closed boxes filled with random passive Lorentz / Drude media (strength, damping, resonance relative to dt, "
        "Courant factor), random initial fields, 10^4 steps: energy must stay within a factor 10 of its initial value unless placement rejected or warned")
ASSUMPTIONS = ["clause (b) is a measurement (test); it is false on the unchanged tree for strongly coupled poles at high Courant factor (known finding)"]
TRUSTED = ["correspondence harness (1e-9 relative)"]
LEVEL_TEXT = ("PARTIAL. Theorems (any scene, pole list, state): the stored polarisation follows P' = c1 P + c2 P_prev + c3 E pole by pole; a cell with all-zero "
              "pole coefficients and zero stored polarisation is updated exactly like the non-dispersive cell and stays so. The ADE block is tied to forward() by "
              "per-step correspondence. The 10^4-step boundedness clause is measured, not proved.")
LEVEL_NOTE = "Boundedness of the coupled field-polarisation system is outside the proof (DESIGN.md §5); CCPR (c4) poles and oriented (9-component) poles are not modelled."
TECHNIQUE = "Coq proof (list induction over poles, per-cell identities) + vm_compute correspondence of the ADE block + measured stability"
FACES = ("min_x", "max_x", "min_y", "max_y", "min_z", "max_z")


def gen_cases(ctx):
    cases = []
    for i in range(ctx.pick(3, 10)):
        kinds = [ctx.rng.choice(["periodic", "pec", "pmc"]) for _ in range(3)]
        bt = {f"{s}_{ax}": k for ax, k in zip("xyz", kinds) for s in ("min", "max")}
        shape = [ctx.rng.randint(3, 4), ctx.rng.randint(2, 3), ctx.rng.randint(3, 4)]
        box = []
        for n in shape:
            lo = ctx.rng.randint(0, n - 1)
            box.append([lo, ctx.rng.randint(lo + 1, n)])
        poles = [{"kind": "lorentz", "w": ctx.rng.choice([0.1, 0.3, 0.6]), "g": ctx.rng.choice([0.0, 0.02]), "deps": ctx.rng.choice([0.5, 1.5])}]
        if i % 2:
            poles.append({"kind": "drude", "w": ctx.rng.choice([0.1, 0.2]), "g": 0.01})
        cases.append({"kind": "step", "shape": shape, "bt": bt, "box": box, "seed": ctx.rng.randint(0, 10**6), "steps": 2, "poles": poles, "eps": ctx.rng.choice([1.0, 2.25]),
                      # every other block is also conductive: the loss divide must apply to the polarisation feedback as well
                      "sigma": [None, 2.0e4, 2.0e5][i % 3]})
    # stability: fixed corpus (incl. the known finding inputs) + random passive media
    stab = [{"poles": [{"kind": "lorentz", "w": 0.5, "g": 0.0, "deps": 3.0}], "cf": 0.99}, {"poles": [{"kind": "drude", "w": 0.8, "g": 0.01}], "cf": 0.99},
            {"poles": [{"kind": "lorentz", "w": 0.5, "g": 0.0, "deps": 3.0}], "cf": 0.5}, {"poles": [{"kind": "lorentz", "w": 0.1, "g": 0.01, "deps": 1.0}], "cf": 0.99},
            # resonance at / above the recurrence bound omega_0 dt >= 2 (must be rejected, or stay bounded), lightly and heavily damped
            {"poles": [{"kind": "lorentz", "w": 2.3, "g": 3.0, "deps": 1.0}], "cf": 0.5}, {"poles": [{"kind": "lorentz", "w": 2.05, "g": 1.2, "deps": 0.5}], "cf": 0.5},
            {"poles": [{"kind": "lorentz", "w": 2.1, "g": 0.05, "deps": 1.0}], "cf": 0.5},
            # conductive AND dispersive (metal-like conductivity with a Drude / Lorentz pole): passive, must stay bounded
            {"poles": [{"kind": "drude", "w": 0.5, "g": 0.05}], "cf": 0.5, "sigma": 3.7e6}, {"poles": [{"kind": "lorentz", "w": 0.3, "g": 0.02, "deps": 1.0}], "cf": 0.5, "sigma": 6.0e5}]
    # layered scenes: a Drude / Lorentz sphere (multi-material object) with a plain block placed after it through its middle
    stab += [{"poles": [{"kind": "drude", "w": 1.0, "g": 0.02}], "cf": 0.99, "eps": 4.0, "layered": 9},
             {"poles": [{"kind": "lorentz", "w": 0.6, "g": 0.01, "deps": 2.0}], "cf": 0.9, "eps": 4.0, "layered": 8, "wall": "pec"}][:ctx.pick(1, 2)]
    for _ in range(ctx.pick(2, 12)):
        k = ctx.rng.choice(["lorentz", "drude"])
        p = {"kind": k, "w": round(ctx.rng.uniform(0.02, 0.35), 3), "g": round(ctx.rng.choice([0.0, 0.01, 0.1]), 3)}
        if k == "lorentz":
            p["deps"] = round(ctx.rng.uniform(0.1, 1.0), 2)
        stab.append({"poles": [p], "cf": ctx.rng.choice([0.5, 0.7, 0.9]), "eps": ctx.rng.choice([1.0, 2.0, 4.0]), "wall": ctx.rng.choice(["periodic", "pec"])})
    for s in stab:
        cases.append(dict(s, kind="stab", nsteps=10000, seed=ctx.rng.randint(0, 10**6)))
    return cases


def run_cases(ctx, cases):
    return core.run_impl_sharded(IMPL, cases, shard=min(len(cases), 8), timeout=3000)


def coq_expr(case, out):
    if case["kind"] != "step":
        return None
    if "error" in out:
        return "false"
    shape = case["shape"]
    nx, ny, nz = shape
    sc = Y.scene_term({"shape": shape, "bt": case["bt"]}, out)
    npol = len(case["poles"])
    poles = lst([f"(mkPole {Y.M3_of(shape, out['c1'][p])} {Y.M3_of(shape, out['c2'][p])} {Y.M3_of(shape, out['c3'][p])})" for p in range(npol)])
    scale = max(Y.maxabs(out), 1.0)
    cmp_ = f"fields_close {qlit(1e-9)} {qlit(scale)}"
    parts = []
    st = out["states"]
    for a, b in zip(st, st[1:]):
        dst = lst([f"({Y.V3_of(shape, a['Pc'][p])}, {Y.V3_of(shape, a['Pp'][p])})" for p in range(npol)])
        expP = lst([lst([Y.fields_lit(b["Pc"][p]), Y.fields_lit(b["Pp"][p])]) for p in range(npol)])
        parts.append(f"(let r := update_E_disp K sc poles {dst} {a['t']} {Y.V3_of(shape, a['E'])} {Y.V3_of(shape, a['H'])} in "
                     f"let E1 := freezeV K {nx} {ny} {nz} (fst r) in "
                     f"let s2 := update_H K sc true (mkSt (K:=K) {a['t']} E1 {Y.V3_of(shape, a['H'])} [] []) in "
                     f"({cmp_} (V3_tab K {nx} {ny} {nz} E1) {Y.fields_lit(b['E'])}) && ({cmp_} (V3_tab K {nx} {ny} {nz} (fH s2)) {Y.fields_lit(b['H'])}) && "
                     f"(list_eqb (list_eqb ({cmp_})) (map (fun ps => [V3_tab K {nx} {ny} {nz} (fst ps); V3_tab K {nx} {ny} {nz} (snd ps)]) (snd r)) {expP}))")
    return f"(let sc := {sc} in let poles := {poles} in (" + " && ".join(parts) + ")%bool)"


def stab_key(case):
    p = case["poles"][0]
    if case.get("layered"):      # sphere at eps_inf = 4 under a plain block: bounded on the unchanged tree, not the recorded strong-pole finding
        return f"unbounded-layered:{p};cf={case['cf']};eps={case.get('eps')}"
    strong = (p["kind"] == "lorentz" and p["w"] >= 0.4 and p.get("deps", 0) >= 2.0) or (p["kind"] == "drude" and p["w"] >= 0.6)
    if strong and case["cf"] >= 0.9:
        return "unbounded-strong-pole-at-courant-factor-ge-0.9"
    return f"unbounded:{p};cf={case['cf']}"


def predicate(case, out):
    if "error" in out:
        return ("driver-error", out["error"] + out.get("trace", "")[-300:])
    if case["kind"] == "step":
        if out.get("has_c4"):
            return ("unexpected-c4", "Lorentz/Drude poles produced a c4 array")
        return None
    if "rejected" in out or out["warnings"]:
        return None
    if not (out["e1"] <= 10 * out["e0"]):
        return (stab_key(case), f"accepted passive medium {case['poles']} at courant factor {case['cf']}: energy {out['e0']:.3g} -> {out['e1']:.3g} after {case['nsteps']} steps, no warning")
    return None


def nontrivial(case, out):
    return "error" not in out and (case["kind"] == "stab" or Y.maxabs(out) > 0)


def classify(case, out):
    return case["kind"] + "|" + "+".join(p["kind"] for p in case["poles"])
