"""C01 — discrete electromagnetic energy is conserved; lossy media only dissipate."""
import numpy as np
from lib import core, yee_coq as Y

PID = "C01"
PROPS_FILE = "props/C01.v"
IMPL = "yee_impl.py"
COQ_HEADER = Y.HEADER
SHARD = 1
RULE = ("hand-built containers run through fdtdx.fdtd.forward.forward: every per-axis boundary pairing of "
        "{zero halo, PEC, PMC, periodic, Bloch}, uniform / random non-uniform edges, isotropic / diagonal materials, "
        "with / without sigma_E; each forward step of the implementation is compared with the Coq model step applied to the "
        "implementation's previous state (bit-exact in the dyadic regime, 1e-9 otherwise); non-trivial = non-zero fields and >= 8 cells")
ASSUMPTIONS = ["exact-arithmetic semantics: IEEE rounding is outside the model (exact comparison only where double arithmetic is exact)",
               "Bloch phase exp(ikL) is an oracle value taken from the implementation (checked |phase| = 1 to 1e-12)"]
TRUSTED = ["correspondence harness: float -> exact rational via float.as_integer_ratio; per-step comparison"]
LEVEL_TEXT = ("Theorems for every grid size, boundary combination (ghost factors lo = conj hi), 0/1 wall masks, positive width lists and "
              "iso/diagonal materials: weighted curl adjointness, exact conservation of the Yee energy for any number of steps, and "
              "energy(n+1) = energy(n) - loss with loss >= 0 for sigma_E >= 0 (ordered field). Tie: per-step differential "
              "correspondence of model/Yee.v against forward() on hand-built containers, plus the energy predicate on the implementation.")
LEVEL_NOTE = ("Proof is about the exact-arithmetic model (round-off excluded, as the property says 'up to round-off'); 9-component tensors and "
              "magnetic conductivity are outside C01; the model-code tie is differential testing on bounded grids (<= 6^3).")
TECHNIQUE = "Coq proof (summation by parts over a generic field, ring/field) + vm_compute correspondence over Qc"

TYPES = ["none", "pec", "pmc", "periodic", "bloch"]


def rand_case(rng, quick, i):
    shape = [rng.choice([1, 2, 3, 4]), rng.choice([1, 2, 3, 4]), rng.randint(2, 5 if not quick else 4)]      # incl. one-cell (collapsed) axes
    bt, kvec = {}, [0.0, 0.0, 0.0]
    for a, ax in enumerate("xyz"):
        kind = rng.choice(["pair", "pair", "periodic", "bloch", "mix"])
        if kind == "mix":       # a wrapping face opposite a wall / open face on the same axis (the axis then wraps, the wall masks)
            faces = [rng.choice(["periodic"]), rng.choice(["none", "pec", "pmc"])]
            rng.shuffle(faces)
            bt[f"min_{ax}"], bt[f"max_{ax}"] = faces
        elif kind == "pair":
            bt[f"min_{ax}"] = rng.choice(["none", "pec", "pmc"])
            bt[f"max_{ax}"] = rng.choice(["none", "pec", "pmc"])
        else:
            bt[f"min_{ax}"] = bt[f"max_{ax}"] = kind
            if kind == "bloch":
                kvec[a] = rng.choice([-2.5e6, 1.0e6, 3.0e6])
    c = {"shape": shape, "bt": bt, "ncomp": rng.choice([1, 3]), "seed": rng.randint(0, 10**6), "steps": 3, "back": 0}
    if any(kvec):
        c["kvec"] = kvec
    flavour = i % 4
    if flavour == 1:      # non-uniform grid (dyadic-friendly edges, generic otherwise)
        c["edges"] = [list(np.concatenate([[0.0], np.cumsum([rng.choice([0.75, 1.0, 1.5, 2.0]) for _ in range(n)])]) * 2.0 ** -23) for n in shape]
        c["steps"] = 2
    if flavour == 2:
        c["sigma"] = "E"
        c["steps"] = 2
        c["sigma_scale"] = [1.0, 64.0, 2048.0][(i // 4) % 3]      # weak loss, f of order 1, strongly conducting cells (f >> 1)
    if flavour == 3 and not quick:
        c["pow2"] = False
        c["steps"] = 2
    return c


def gen_cases(ctx):
    n = ctx.pick(16, 96)
    cases = []
    # corpus: each boundary kind on both sides of one axis at least once
    for i, t in enumerate(["none", "pec", "pmc", "periodic"]):
        cases.append({"shape": [3, 2, 4], "bt": {"min_x": t, "max_x": t, "min_y": "periodic", "max_y": "periodic", "min_z": "pec", "max_z": "pmc"},
                      "ncomp": 1 + 2 * (i % 2), "seed": i, "steps": 3, "back": 0})
    # corpus: a periodic face opposite a wall, both orders and both wall kinds (seeded regression C01_1)
    for i, (a_, b_) in enumerate([("periodic", "pec"), ("pmc", "periodic"), ("pec", "periodic"), ("periodic", "pmc")]):
        cases.append({"shape": [3, 3, 3], "bt": {"min_x": a_, "max_x": b_, "min_y": b_, "max_y": a_, "min_z": "pmc", "max_z": "pec"},
                      "ncomp": 3, "seed": 10 + i, "steps": 3, "back": 0, "sigma": "E" if i % 2 else None})
    # known finding: a Bloch face (k != 0) opposite a wall on the same axis
    cases.append({"shape": [3, 3, 4], "bt": {"min_x": "periodic", "max_x": "periodic", "min_y": "pec", "max_y": "pec", "min_z": "bloch", "max_z": "pec"},
                  "ncomp": 3, "seed": 5, "steps": 3, "back": 0, "kvec": [0.0, 0.0, 2.5e6]})
    for i in range(n - 9):
        cases.append(rand_case(ctx.rng, ctx.quick, i))
    return cases


def run_cases(ctx, cases):
    return core.run_impl_sharded(IMPL, cases, jobs=8)


def coq_expr(case, out):
    if "error" in out:
        return "false"
    sc = Y.scene_term(case, out)
    ex = Y.exact_ok(case)
    scale = max(Y.maxabs(out), 1.0)
    st = out["states"]
    return Y.steps_expr(case["shape"], sc, [("forwardX", a, b) for a, b in zip(st, st[1:])], ex, scale=scale)


def weights(out, shape):
    w = [np.array([float.fromhex(v) for v in out["widths"][a]]) for a in range(3)]
    d = [0.5 * (x + np.concatenate([x[:1], x[:-1]])) for x in w]
    def W(kinds):
        a = [(w if k == "c" else d)[ax] for ax, k in enumerate(kinds)]
        return a[0][:, None, None] * a[1][None, :, None] * a[2][None, None, :]
    return [W("cee"), W("ece"), W("eec")], [W("ecc"), W("cec"), W("cce")]


def energies(case, out):
    WE, WH = weights(out, case["shape"])
    ie = Y.np_fields(out["ieps"]).real
    im = Y.np_fields(out["imu"]).real
    st = [(Y.np_fields(s["E"]), Y.np_fields(s["H"])) for s in out["states"]]
    en = []
    for t in range(1, len(st)):
        E, H, Hp = st[t][0], st[t][1], st[t - 1][1]
        en.append(sum(float((WE[c] / ie[c] * np.abs(E[c]) ** 2).sum() + (WH[c] / im[c] * np.real(H[c] * np.conj(Hp[c]))).sum()) for c in range(3)))
    return en


def predicate(case, out):
    if "error" in out:
        return ("driver-error", out["error"])
    en = energies(case, out)
    ref = max(abs(en[0]), 1e-300)
    key = "bt=" + ",".join(f"{k}:{v}" for k, v in sorted(case["bt"].items())) + f";sig={case.get('sigma')};nu={bool(case.get('edges'))};nc={case['ncomp']}"
    one_sided = any((case["bt"][f"min_{ax}"] == "bloch") != (case["bt"][f"max_{ax}"] == "bloch") and (case.get("kvec") or [0, 0, 0])[a] for a, ax in enumerate("xyz"))
    if case.get("sigma"):
        for a, b in zip(en, en[1:]):
            if b > a + 1e-11 * ref:
                return ("energy-grows:" + key, f"energy increased with sigma_E >= 0: {en}")
    else:
        dev = max(abs(e - en[0]) for e in en) / ref
        if dev > 1e-11:
            return ("one-sided-bloch-face" if one_sided else "energy-drift:" + key, f"Yee energy not conserved: {en} (rel dev {dev:.3e})")
    for name, ph in (out.get("phases") or {}).items():
        z = complex(float.fromhex(ph[0]), float.fromhex(ph[1]))
        if abs(abs(z) - 1) > 1e-12:
            return ("bloch-phase-modulus", f"|phase| = {abs(z)}")
    return None


def search(ctx, broken):
    """directed search when a proof obligation / the correspondence broke: strongly and weakly conducting single cells in small lossless boxes,
    more steps; wall / periodic / Bloch mixes without loss"""
    cases = []
    for i in range(24):
        c = rand_case(ctx.rng, True, 0)
        c.pop("edges", None)
        if i % 4 != 3:
            c.update(sigma="E", sigma_single=True, sigma_scale=[64.0, 2048.0, 16384.0][i % 3], steps=40)
        else:
            c.update(steps=6)
        cases.append(c)
    outs = run_cases(ctx, cases)
    found = []
    for c, o in zip(cases, outs):
        r = predicate(c, o)
        if r and r[0] != "one-sided-bloch-face":
            found.append((c, o, r[0], r[1]))
    return found[:3], len(cases)


def nontrivial(case, out):
    return "error" not in out and Y.maxabs(out) > 0 and np.prod(case["shape"]) >= 8


def classify(case, out):
    kinds = sorted(set(case["bt"].values()))
    return "+".join(kinds) + ("|nonuniform" if case.get("edges") else "") + ("|sigmaE" if case.get("sigma") else "") + f"|nc{case['ncomp']}"
