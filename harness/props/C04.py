"""C04 — time-reversal gradients equal exact autodiff gradients."""
import ast
from lib import core
from lib import translate as T

PID = "C04"
PROPS_FILE = "props/C04.v"
IMPL = "C04_impl.py"
COQ_HEADER = "From Coq Require Import ZArith.\nFrom FV Require Import model.Grad."
RULE = ("placed scenes (periodic transverse, PML or periodic/PEC/PMC along z; dipole/plane sources; field/phasor/energy detectors; random "
        "inverse-permittivity arrays; random cotangent = random linear functional of all detector outputs): jax.grad of run_fdtd under the "
        "reversible method with 0..k reversible checkpoints vs checkpointed autodiff, compared on every cell outside the absorbing layers; "
        "lossy scenes use a checkpoint at every step. Non-trivial = max|grad| > 0 and >= 8 interior cells")
ASSUMPTIONS = ["jax.vjp of one forward step is an oracle (abstract function in the theorem)",
               "the backward step reconstructs the trajectory: theorem C02 (exact, PML-free) / C03 (outside layers; correspondence)",
               "comparison tolerance 1e-9 * max|grad| (float64)"]
TRUSTED = ["ast tie: fdtd.py reversible_fdtd.cond_fun's return expression is regenerated and proved equal to model cond_src by reflexivity"]
LEVEL_TEXT = ("PARTIAL. Theorem (all T, all checkpoint sets, any state type): the fdtd_bwd reverse loop, with the loop test the source has, ends at "
              "step 0 with exactly the reverse-mode product of per-step pullbacks along the forward trajectory, given that backward reconstructs the "
              "trajectory up to an equivalence the pullback cannot see. The loop test is tied to fdtd.py by regenerating it from the source. The equality "
              "of actual gradients is measured on the implementation (reversible vs checkpointed).")
LEVEL_NOTE = ("jax.vjp, the 'pullback sees the state only up to eqv' hypothesis and the numerical gradient equality are outside the proof; "
              "the snapshot's off-by-one loop test is kept as C04_src_old_refuted.")
TECHNIQUE = "Coq proof (induction over the reverse loop) + ast-regenerated loop test + differential gradients on the implementation"


def translate(ctx):
    src = core.REPO / "src/fdtdx/fdtd/fdtd.py"
    fn = T.find_function(src, "reversible_fdtd.cond_fun")
    args = [a.arg for a in fn.args.args]
    body = [ast.unparse(s) for s in fn.body]
    if args != ["sr_tuple", "start_time_step"] or body[:3] != ["s_k, r_k = sr_tuple", "del r_k", "time_step = s_k[0]"] or len(body) != 4 \
            or not isinstance(fn.body[3], ast.Return):
        raise T.Unsupported(f"cond_fun changed shape: {args} {body}")
    expr = T.Tr().expr(fn.body[3].value)
    g = core.gen_path("Gen_C04")
    g.parent.mkdir(exist_ok=True)
    g.write_text("From Coq Require Import ZArith Bool.\nFrom FV Require Import model.Grad.\nOpen Scope Z_scope.\n"
                 f"Definition gen_cond (time_step start_time_step : Z) : bool := {expr}.\n"
                 "Lemma gen_eq_model : forall t s, gen_cond t s = cond_src t s.\nProof. reflexivity. Qed.\n")
    ok, out, err = core.coqc(g)
    return [("fdtd.py:reversible_fdtd.cond_fun", ok, err or "gen = model (reflexivity)")]


PER = {"min_x": "periodic", "max_x": "periodic", "min_y": "periodic", "max_y": "periodic"}


def gen_case(rng, quick, i):
    T_ = rng.choice([8, 12]) if quick else rng.choice([6, 10, 14])
    zk = [("pml", "pml"), ("pml", "pec"), ("periodic", "periodic"), ("pmc", "pml")][i % 4]
    shape = [rng.randint(4, 6), rng.randint(4, 6), 14 if "pml" in zk else 8]
    lossy = (i % 5 == 4)
    spec = {"shape": shape, "spacing": 5e-8, "steps": T_, "thickness": 3, "wavelength": 1e-6, "bt": dict(PER, min_z=zk[0], max_z=zk[1]),
            "sources": [{"kind": "dipole", "cell": [2, 3, 5], "pol": rng.randint(0, 2), "profile": {"kind": "pulse", "width_wl": 3e-7}}],
            "detectors": [{"kind": "field", "box": [[1, 3], [2, 4], [6, 8] if "pml" in zk else [3, 5]], "name": "det", "opts": {"exact_interpolation": bool(i % 2)}},
                          {"kind": "phasor", "box": [[2, 4], [1, 3], [5, 7] if "pml" in zk else [2, 4]], "name": "ph", "switch": {"start_time": 1}}],
            "mats": {"seed": rng.randint(0, 10**6), "ncomp": rng.choice([1, 3]), "pow2": False, "mu": False, "sigma_e": 1e-3 if lossy else 0}}
    if i % 2 == 1:      # complex fields: Bloch boundaries with a non-zero wave vector on x / y (checkpoints must keep the imaginary parts)
        spec["bt"].update({"min_x": "bloch", "max_x": "bloch", "min_y": "bloch", "max_y": "bloch"})
        spec["kvec"] = [3.0e6, -2.0e6, 0.0]
    if i % 3 == 1 and zk[0] != "periodic":
        spec["sources"].append({"kind": "plane", "axis": 2, "pos": 5, "dir": "+", "pol": [1.0, 0.0, 0.0], "switch": {"start_time": 1, "end_time": T_ - 2}})
    ck = [T_ - 1] if lossy else sorted({0, rng.randint(1, T_ - 1)})
    return {"spec": spec, "wseed": rng.randint(0, 10**6), "rev_ckpts": ck, "lossy": lossy}


def gen_cases(ctx):
    return [gen_case(ctx.rng, ctx.quick, i) for i in range(ctx.pick(2, 12))]


def run_cases(ctx, cases):
    return core.run_impl_sharded(IMPL, cases, shard=min(len(cases), 6), timeout=3000)


def coq_expr(case, out):
    # structural correspondence: the model loop on a step counter ends at 0 after exactly T pullbacks
    T_ = case["spec"]["steps"]
    ck = case["rev_ckpts"][-1]
    return (f"(match rev_loop Z Z (fun _ x => (x - 1)%Z) (fun _ _ c => (c + 1)%Z) (fun _ => None) cond_src {T_ + 2} {core.zlit(T_)} {core.zlit(T_)} 0%Z "
            f"with Some (t, _, c) => Z.eqb t 0 && Z.eqb c {core.zlit(T_)} | None => false end)%bool")


def predicate(case, out):
    if "error" in out:
        return ("driver-error", out["error"] + out.get("trace", "")[-400:])
    bt = case["spec"]["bt"]
    for r in out["runs"]:
        if r["maxdiff"] > 1e-9 * max(out["gmax"], 1e-300) or r["dloss"] > 1e-9 * max(abs(out["loss"]), 1e-300):
            key = f"grad-mismatch:z={bt['min_z']}/{bt['max_z']};lossy={case['lossy']};ckpt={r['n']}"
            return (key, f"reversible gradient differs from checkpointed autodiff outside the layers: {r} (max|grad| {out['gmax']:.3e})")
    return None


def nontrivial(case, out):
    return "error" not in out and out["gmax"] > 0 and out["interior"] >= 8


def classify(case, out):
    bt = case["spec"]["bt"]
    return f"z={bt['min_z']}/{bt['max_z']}|lossy={case['lossy']}|nsrc={len(case['spec']['sources'])}"
